#!/bin/bash
# apply_fix.sh <patch-file> <commit subject (without "fix: ")> [body]
# Applies one repair to /repo, rebuilds the WHOLE suite, runs it, commits as "fix: ..." only if everything passes.
set -u
P="$1"; SUBJ="$2"; BODY="${3:-}"
cd /repo || exit 2
if ! git diff --quiet; then echo "repo dirty"; exit 2; fi
if ! (git apply "$P" 2>/dev/null || patch -p1 --no-backup-if-mismatch -s < "$P"); then echo "PATCH-DOES-NOT-APPLY $P"; git checkout -- .; exit 3; fi
if ! cmake --build _build -j 12 > /tmp/apply_fix_build.log 2>&1; then echo "BUILD-FAILS $P"; grep -E "error|FAILED" /tmp/apply_fix_build.log | head -8; git checkout -- .; exit 4; fi
if ! ctest --test-dir _build -j 12 --timeout 900 > /tmp/apply_fix_test.log 2>&1; then echo "TESTS-FAIL $P"; tail -15 /tmp/apply_fix_test.log; git checkout -- .; exit 5; fi
git commit -qam "fix: $SUBJ" ${BODY:+-m "$BODY"}
echo "OK $(git log --oneline | head -1)"
