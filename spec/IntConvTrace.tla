--------------------------- MODULE IntConvTrace ---------------------------
(* Trace validation for the integer <-> text conversions: every event recorded from the real         *)
(* functions (harness/intconv_driver.cpp) is judged by the operators of IntConvOps.                   *)
(*   to_chars      [t, v, base, guard, runs: [len, ec, ptr, buf]*, rt?: from_chars record]            *)
(*   from_integer  [t, v, base, term, guard, runs]                  (etl only)                        *)
(*   to_string     [t, v, text]                                                                       *)
(*   from_chars    [t, base, text, v0, val, ec, ptr]                                                  *)
(*   strto*        [t, ut, base, text, val, vn, end]                                                  *)
(*   sto*          [t, ut, base, text, val, vn, pos, ec]   ec = -1: the API has no error channel      *)
(*   ato*          [t, ut, text, val]                                                                 *)
(*   to_integer    [t, ws, chk, base, text, val, err, end]          (etl only)                        *)
(* The verdict names the clause that is broken; for the C parsers it also names the part of the C     *)
(* grammar the input exercises (StrTo.feat), so that known findings can be matched narrowly.          *)
EXTENDS IntConvOps, Json, IOUtils, TLC

Tr == ndJsonDeserialize(IOEnv.TRACE)

VARIABLES l, nbad

JudgeFromChars(r) ==
    IF r.base \notin 2..36 \/ r.t \notin AllT THEN "harness-pre"
    ELSE LET f == FromChars(r.t, r.text, r.base) IN
         IF r.ec # f.ec THEN (IF f.ec = 2 THEN "fc-ec-range" ELSE "fc-ec")
         ELSE IF r.ptr # f.ptr THEN (IF f.ec = 2 THEN "fc-ptr-range" ELSE "fc-ptr")
         ELSE IF f.ec = 0 /\ r.val # f.val THEN "fc-val"
         ELSE IF f.ec # 0 /\ r.val # r.v0 THEN "fc-val-modified"
         ELSE "ok"

JudgeToChars(ev) ==
    IF ev.base \notin 2..36 \/ ~InRange(ev.t, ev.v) THEN "harness-pre"
    ELSE LET text == ToText(ev.v, ev.base)
             v1 == FirstBad([i \in 1..Len(ev.runs) |-> ToCharsRun(text, ev.runs[i], ev.guard)])
         IN IF v1 # "ok" THEN "tc-" \o v1
            ELSE IF "rt" \in DOMAIN ev
            THEN (IF ev.rt.text # text THEN "harness-rt"
                  ELSE LET j == JudgeFromChars(ev.rt) IN
                       IF j # "ok" THEN "rt-" \o j
                       ELSE IF ev.rt.val # ev.v \/ ev.rt.ptr # Len(text) THEN "rt-roundtrip" ELSE "ok")
            ELSE "ok"

JudgeFromInteger(ev) ==
    IF ev.base \notin 2..36 \/ ~InRange(ev.t, ev.v) THEN "harness-pre"
    ELSE LET text == ToText(ev.v, ev.base)
             v1 == FirstBad([i \in 1..Len(ev.runs) |-> FromIntegerRun(text, ev.term, ev.runs[i], ev.guard)])
         IN IF v1 # "ok" THEN "fi-" \o v1 ELSE "ok"

JudgeStrTo(ev) ==
    IF ev.base \notin ({0} \cup (2..36)) THEN "harness-pre"
    ELSE LET s == StrTo(ev.ut, ev.text, ev.base) IN
         IF ev.val = s.val /\ ev.end = s.end /\ ev.vn = s.val THEN "ok" ELSE "strto/" \o s.feat

JudgeSto(ev) ==
    IF ev.base \notin ({0} \cup (2..36)) THEN "harness-pre"
    ELSE LET s == StrTo(ev.ut, ev.text, ev.base)
             ec == StoEc(ev.ut, ev.t, ev.text, ev.base)
         IN IF ec = 0
            THEN (IF ev.ec \in {0, -1} /\ ev.val = s.val /\ ev.pos = s.end /\ ev.vn = s.val THEN "ok" ELSE "sto/" \o s.feat)
            ELSE (IF ev.ec \in {ec, -1} THEN "ok" ELSE "sto-ec/" \o s.feat)

\* 7.22.1.2: atoi(s) = (int)strtol(s, NULL, 10) except for the behaviour on error (undefined when out of range)
JudgeAto(ev) ==
    LET s == StrTo(ev.ut, ev.text, 10) IN
    IF ~s.conv THEN (IF ev.val = Zero THEN "ok" ELSE "ato/noconv")
    ELSE IF s.range \/ ~InRange(ev.t, s.val) THEN "ok"
    ELSE IF ev.val = s.val THEN "ok" ELSE "ato/" \o s.feat

\* etl's strings::to_integer = from_chars after an optional run of whitespace; `end` is only specified on success
JudgeToInteger(ev) ==
    IF ev.base \notin 2..36 THEN "harness-pre"
    ELSE LET i == IF ev.ws THEN SpaceRun(ev.text) ELSE 0
             f == FromChars(ev.t, SubSeq(ev.text, i + 1, Len(ev.text)), ev.base)
         IN IF f.ec = 1 THEN (IF ev.err = 1 THEN "ok" ELSE "ti-err")
            ELSE IF f.ec = 2 THEN (IF ~ev.chk \/ ev.err = 2 THEN "ok" ELSE "ti-err-range")
            ELSE IF ev.err # 0 THEN "ti-err"
            ELSE IF ev.val # f.val THEN "ti-val"
            ELSE IF ev.end # i + f.ptr THEN "ti-end"
            ELSE "ok"

\* "crash": the call did not return (signal); always a deviation
Judge(ev) ==
    CASE "crash" \in DOMAIN ev -> "crash"
      [] ev.op = "to_chars" -> JudgeToChars(ev)
      [] ev.op = "from_integer" -> JudgeFromInteger(ev)
      [] ev.op = "to_string" -> IF ~InRange(ev.t, ev.v) THEN "harness-pre"
                                ELSE IF ev.text = ToText(ev.v, 10) THEN "ok" ELSE "to_string"
      [] ev.op = "from_chars" -> JudgeFromChars(ev)
      [] ev.op \in StrToOps -> JudgeStrTo(ev)
      [] ev.op \in StoOps -> JudgeSto(ev)
      [] ev.op \in AtoOps -> JudgeAto(ev)
      [] ev.op = "to_integer" -> JudgeToInteger(ev)
      [] OTHER -> "harness-op"

Expected(ev) ==
    CASE "crash" \in DOMAIN ev -> "-"
      [] ev.op \in {"to_chars", "from_integer", "to_string"} ->
           IF ev.base \in 2..36 THEN ToJson([text |-> ToText(ev.v, IF ev.op = "to_string" THEN 10 ELSE ev.base)]) ELSE "-"
      [] ev.op = "from_chars" -> IF ev.base \in 2..36 THEN ToJson(FromChars(ev.t, ev.text, ev.base)) ELSE "-"
      [] ev.op \in StrToOps \cup StoOps \cup AtoOps -> ToJson(StrTo(ev.ut, ev.text, ev.base))
      [] ev.op = "to_integer" ->
           IF ev.base \in 2..36
           THEN LET i == IF ev.ws THEN SpaceRun(ev.text) ELSE 0 IN
                ToJson([skipped |-> i, rest |-> FromChars(ev.t, SubSeq(ev.text, i + 1, Len(ev.text)), ev.base)])
           ELSE "-"
      [] OTHER -> "-"

Init == l = 1 /\ nbad = 0

Next ==
    /\ l <= Len(Tr)
    /\ l' = l + 1
    /\ LET v == Judge(Tr[l]) IN
       IF v = "ok" THEN nbad' = nbad
       ELSE /\ nbad' = nbad + 1
            /\ PrintT(<<"DEV", l, v, Expected(Tr[l])>>)

Spec == Init /\ [][Next]_<<l, nbad>>
Consumed == TLCGet("stats").diameter - 1 = Len(Tr)
===========================================================================
