SPECIFICATION SpecIpf
VIEW View
ACTION_CONSTRAINT EmitIpf
INVARIANTS TypeOK
PROPERTIES CallLaws OnlyCallCalls CopyEquivalent SwapExchanges Independence SmallCopyEquivalent
CHECK_DEADLOCK FALSE
