// Compile probe: does the implementation provide VH_PROBE_EXPR ?  (g++ -fsyntax-only; see tools/pipes/float.py)
#include <etl/cmath.hpp>
#include <etl/complex.hpp>
#include <etl/numeric.hpp>
float pf   = 1.5F;
double pd  = 1.5;
auto probe_value_f = VH_PROBE_F;
auto probe_value_d = VH_PROBE_D;
