// Conformance driver for the FreeRTOS wrappers (extension X14):
// etl::experimental::freertos::queue<T, Size> and etl::experimental::freertos::stream_buffer.
//   rtos_driver replay <queue|stream> <scripts.ndjson>   replays the transitions exported by spec/Rtos.tla
//   rtos_driver sweep  <queue|stream> [rounds=2]         seeded random sessions: capacities 7 and 16, 400 calls each
// Builds:
//   (default)      the etl wrappers over the harness' executable kernel double (rtos_fake_kernel.hpp)     inst "etl"
//   -DVH_STD       the same calls through a reference wrapper written here directly on the kernel double:
//                  calibration (spec and kernel double agree => every deviation of "etl" is a wrapper fault)  inst "ref"
//   -DRTOS_STUBS   the etl wrappers over the repository's own no-op stubs (TETL_FREERTOS_USE_STUBS)     inst "etl-stub"
// One ndjson event per call:
//   {op, kind, mode, cap, isz, trig, x, ticks, n, prio, data, pre:{n,sp}, post:{n,sp}, ret, out, kcalls, live, inst, plan?}
//   pre / post : what the wrapper itself shows (messages_waiting() | bytes_available(), space_available(); -1 = no object)
//   plan       : the state the MODEL is in before the call (script replay only; the kernel double's content is never dumped)
//   kcalls     : the kernel call log of THIS wrapper call [{f, h, a, r}], live : kernel handles alive after it
// No oracle, no comparison: spec/RtosTrace.tla judges.
#include "common.hpp"

#include <cstdint>
#include <memory>

#if defined(RTOS_STUBS)
    #define TETL_FREERTOS_USE_STUBS
    #include <etl/experimental/freertos/queue.hpp>
    #include <etl/experimental/freertos/stream_buffer.hpp>
// no kernel double in this build: the stub kernel keeps no log
namespace rtos_fake {
struct KCall {
    char const* f;
    long h;
    std::vector<long> a;
    long r;
};
inline void begin_session() { }
inline void clear_log() { }
inline std::vector<KCall> const& log()
{
    static std::vector<KCall> const none;
    return none;
}
inline void fail_next_create(bool) { }
inline void set_io_bound(std::size_t) { }
inline void set_user_base(void const*) { }
inline void set_prio_expect(void const*) { }
inline long live_handles() { return 0; }
template <class H> long id_of(H h) { return h == nullptr ? 0 : -1; }
} // namespace rtos_fake
namespace rtos = etl::experimental::freertos;
namespace net  = etl::experimental::net;
static char const* const INST = "etl-stub";
static char const* const MODE = "stub";
#elif defined(VH_STD)
    #include "rtos_fake_kernel.hpp"
// ---- reference wrappers: the contract of the etl wrappers' doc comments, written straight on the kernel API ----
namespace net {
struct const_buffer {
    void const* p;
    std::size_t n;
    void const* data() const { return p; }
    std::size_t size() const { return n; }
};
struct mutable_buffer {
    void* p;
    std::size_t n;
    void* data() const { return p; }
    std::size_t size() const { return n; }
};
inline const_buffer make_buffer(void const* p, std::size_t n) { return {p, n}; }
inline mutable_buffer make_buffer(void* p, std::size_t n) { return {p, n}; }
} // namespace net
namespace rtos {
template <class T, std::uint32_t Size> struct queue {
    queue() : h_ {xQueueCreate(Size, sizeof(T))} { }
    ~queue() { if (h_ != nullptr) { vQueueDelete(h_); } }
    queue(queue const&)            = delete;
    queue& operator=(queue const&) = delete;
    std::uint32_t capacity() const { return Size; }
    bool send(T const& d, TickType_t t = 0) const { return xQueueSend(h_, &d, t) == pdTRUE; }
    bool receive(T& d, TickType_t t = 0) const { return xQueueReceive(h_, &d, t) == pdTRUE; }
    std::pair<bool, T> receive(TickType_t t = 0) const
    {
        T v {};
        bool const ok = xQueueReceive(h_, &v, t) == pdTRUE;
        return {ok, v};
    }
    bool reset() const { return xQueueReset(h_) == pdPASS; }
    std::uint32_t messages_waiting() const { return (std::uint32_t)uxQueueMessagesWaiting(h_); }
    QueueHandle_t h_;
};
struct stream_buffer {
    stream_buffer(std::size_t size, std::size_t trig) : h_ {xStreamBufferCreate(size, trig)} { }
    ~stream_buffer() { if (h_ != nullptr) { vStreamBufferDelete(h_); } }
    stream_buffer(stream_buffer const&)            = delete;
    stream_buffer& operator=(stream_buffer const&) = delete;
    std::size_t write(net::const_buffer d, TickType_t t) { return xStreamBufferSend(h_, d.data(), d.size(), t); }
    std::size_t write_from_isr(net::const_buffer d, BaseType_t* p) { return xStreamBufferSendFromISR(h_, d.data(), d.size(), p); }
    std::size_t read(net::mutable_buffer d, TickType_t t) { return xStreamBufferReceive(h_, d.data(), d.size(), t); }
    std::size_t read_from_isr(net::mutable_buffer d, BaseType_t* p) { return xStreamBufferReceiveFromISR(h_, d.data(), d.size(), p); }
    bool empty() const { return xStreamBufferIsEmpty(h_) != pdFALSE; }
    bool full() const { return xStreamBufferIsFull(h_) != pdFALSE; }
    std::size_t bytes_available() const { return xStreamBufferBytesAvailable(h_); }
    std::size_t space_available() const { return xStreamBufferSpacesAvailable(h_); }
    void reset() { (void)xStreamBufferReset(h_); }
    void trigger_level(std::size_t n) { (void)xStreamBufferSetTriggerLevel(h_, n); }
    StreamBufferHandle_t native_handle() const { return h_; }
    StreamBufferHandle_t h_;
};
} // namespace rtos
static char const* const INST = "ref";
static char const* const MODE = "fake";
#else
    #include "rtos_fake_kernel.hpp"
    // the kernel double must come first: without TETL_FREERTOS_USE_STUBS the wrappers use whatever FreeRTOS API is visible
    #include <etl/experimental/freertos/queue.hpp>
    #include <etl/experimental/freertos/stream_buffer.hpp>
namespace rtos = etl::experimental::freertos;
namespace net  = etl::experimental::net;
static char const* const INST = "etl";
static char const* const MODE = "fake";
#endif

namespace {
using vh::json;
constexpr long WILD = 1000000;
long cl(unsigned long long v) { return v > (unsigned long long)WILD ? WILD : (long)v; }

json kcalls_json()
{
    json a = json::array();
    for (auto const& c : rtos_fake::log()) {
        json j;
        j["f"] = c.f;
        j["h"] = c.h;
        j["a"] = json(c.a);
        j["r"] = c.r;
        a.push_back(std::move(j));
    }
    return a;
}

// ---- element types: a 1-byte and a 12-byte object (sizeof(T) must reach the kernel) ------------------------------
struct Small {
    unsigned char v;
};
struct Wide {
    std::uint32_t a, b, c;
};
static_assert(sizeof(Small) == 1 && sizeof(Wide) == 12);
template <class T> T encode(long v)
{
    if constexpr (std::is_same_v<T, Small>) { return Small {(unsigned char)v}; }
    else { return Wide {(std::uint32_t)v, (std::uint32_t)(v + 100), (std::uint32_t)(v + 200)}; }
}
json fields(Small const& s) { return json::array({(long)s.v}); }
json fields(Wide const& w) { return json::array({cl(w.a), cl(w.b), cl(w.c)}); }

// ---- queue<T, Size> behind one interface ---------------------------------------------------------------------
struct IQueue {
    virtual ~IQueue()                                       = default;
    virtual long capacity()                                 = 0;
    virtual long send(long x, unsigned long ticks)          = 0;
    virtual long receive_ref(unsigned long ticks, json& o)  = 0;
    virtual long receive(unsigned long ticks, json& o)      = 0;
    virtual long reset()                                    = 0;
    virtual long messages_waiting()                         = 0;
};
template <class T, std::uint32_t N> struct QImpl final : IQueue {
    rtos::queue<T, N> q {};
    long capacity() override { return cl(q.capacity()); }
    long send(long x, unsigned long ticks) override
    {
        T const item = encode<T>(x);
        rtos_fake::set_io_bound(sizeof(T));
        return q.send(item, (TickType_t)ticks) ? 1 : 0;
    }
    long receive_ref(unsigned long ticks, json& o) override
    {
        T item = encode<T>(7); // the caller's object before the call
        rtos_fake::set_io_bound(sizeof(T));
        bool const r = q.receive(item, (TickType_t)ticks);
        o            = fields(item);
        return r ? 1 : 0;
    }
    long receive(unsigned long ticks, json& o) override
    {
        rtos_fake::set_io_bound(sizeof(T));
        auto const r = q.receive((TickType_t)ticks);
        o            = fields(r.second);
        return r.first ? 1 : 0;
    }
    long reset() override { return q.reset() ? 1 : 0; }
    long messages_waiting() override { return cl(q.messages_waiting()); }
};
std::unique_ptr<IQueue> make_queue(long cap, long isz)
{
    auto pick = [&]<class T>(T) -> std::unique_ptr<IQueue> {
        switch (cap) {
        case 1: return std::make_unique<QImpl<T, 1>>();
        case 2: return std::make_unique<QImpl<T, 2>>();
        case 3: return std::make_unique<QImpl<T, 3>>();
        case 4: return std::make_unique<QImpl<T, 4>>();
        case 7: return std::make_unique<QImpl<T, 7>>();
        case 16: return std::make_unique<QImpl<T, 16>>();
        default: return nullptr;
        }
    };
    std::unique_ptr<IQueue> p;
    if (isz == 1) { p = pick(Small {}); }
    else if (isz == 12) { p = pick(Wide {}); }
    if (!p) {
        std::fprintf(stderr, "rtos_driver: queue<%ld bytes, %ld> not instantiated\n", isz, cap);
        std::exit(2);
    }
    return p;
}

// ---- the caller's memory for stream reads / writes ------------------------------------------------------------
constexpr int UBUF = 96;
unsigned char g_ubuf[UBUF];
constexpr long SLACK = 2;
constexpr long MAXIO = 64;

struct Session {
    std::string kind;
    std::unique_ptr<IQueue> q;
    std::unique_ptr<rtos::stream_buffer> sb;
    bool observable = false; // an object exists and its creation was not made to fail

    void begin()
    {
        q.reset();
        sb.reset();
        observable = false;
        rtos_fake::begin_session();
    }

    // what the wrapper itself shows of the current state (never the kernel double's content)
    json observe()
    {
        json o;
        o["n"]  = -1;
        o["sp"] = -1;
        if (!observable) { return o; }
        if (kind == "queue" && q) { o["n"] = q->messages_waiting(); }
        if (kind == "stream" && sb) {
            o["n"]  = cl(sb->bytes_available());
            o["sp"] = cl(sb->space_available());
        }
        return o;
    }

    // returns false for a call this build cannot make
    bool call(json const& c, bool quiet)
    {
        std::string const op      = c["op"];
        long const cap            = c.value("cap", 0L);
        long const isz            = c.value("isz", 0L);
        long const trig           = c.value("trig", 0L);
        long const x              = c.value("x", 0L);
        unsigned long const ticks = (unsigned long)c.value("ticks", 0L);
        long const n              = c.value("n", 0L);
        long const prio           = c.value("prio", 0L);
        json const data           = c.contains("data") ? c["data"] : json::array();
        bool const isctor         = op == "ctor" || op == "ctor_fail";
        if (!isctor && ((kind == "queue" && !q) || (kind == "stream" && !sb))) {
            std::fprintf(stderr, "rtos_driver: %s without an object\n", op.c_str());
            std::exit(2);
        }
        if (n < 0 || n > MAXIO || data.size() > (std::size_t)MAXIO) {
            std::fprintf(stderr, "rtos_driver: transfer size outside the harness' buffer\n");
            std::exit(2);
        }
        json e;
        if (!quiet) {
            e["op"]    = op;
            e["kind"]  = kind;
            e["mode"]  = MODE;
            e["cap"]   = cap;
            e["isz"]   = isz;
            e["trig"]  = trig;
            e["x"]     = x;
            e["ticks"] = (long)ticks;
            e["n"]     = n;
            e["prio"]  = prio;
            e["data"]  = data;
            e["pre"]   = observe();
        }
        long ret = 0;
        json out = json::array();
        BaseType_t woken = 0;
        BaseType_t* const pp = prio ? &woken : nullptr;
        rtos_fake::set_prio_expect(&woken);
        rtos_fake::set_user_base(g_ubuf);
        rtos_fake::set_io_bound(0);
        rtos_fake::clear_log();
        // ---------------------------------------------------------------- the one call under observation
        if (isctor) {
            rtos_fake::fail_next_create(op == "ctor_fail");
            if (kind == "queue") { q = make_queue(cap, isz); }
            else { sb = std::make_unique<rtos::stream_buffer>((std::size_t)cap, (std::size_t)trig); }
            observable = op == "ctor";
        } else if (op == "dtor") {
            q.reset();
            sb.reset();
            observable = false;
        } else if (kind == "queue") {
            if (op == "capacity") { ret = q->capacity(); }
            else if (op == "send") { ret = q->send(x, ticks); }
            else if (op == "receive_ref") { ret = q->receive_ref(ticks, out); }
            else if (op == "receive") { ret = q->receive(ticks, out); }
            else if (op == "reset") { ret = q->reset(); }
            else if (op == "messages_waiting") { ret = q->messages_waiting(); }
            else {
                std::fprintf(stderr, "rtos_driver: unknown queue op %s\n", op.c_str());
                std::exit(2);
            }
        } else {
            if (op == "write" || op == "write_from_isr") {
                std::size_t const len = data.size();
                for (std::size_t i = 0; i < len; ++i) { g_ubuf[i] = (unsigned char)data[i].get<long>(); }
                rtos_fake::set_io_bound((std::size_t)MAXIO + SLACK);
                auto const buf = net::make_buffer(static_cast<void const*>(g_ubuf), len);
                ret = cl(op == "write" ? sb->write(buf, (TickType_t)ticks) : sb->write_from_isr(buf, pp));
            } else if (op == "read" || op == "read_from_isr") {
                std::memset(g_ubuf, 9, sizeof(g_ubuf));
                rtos_fake::set_io_bound((std::size_t)MAXIO + SLACK);
                auto const buf = net::make_buffer(static_cast<void*>(g_ubuf), (std::size_t)n);
                ret = cl(op == "read" ? sb->read(buf, (TickType_t)ticks) : sb->read_from_isr(buf, pp));
                for (long i = 0; i < n + SLACK; ++i) { out.push_back((long)g_ubuf[i]); }
            } else if (op == "empty") { ret = sb->empty() ? 1 : 0; }
            else if (op == "full") { ret = sb->full() ? 1 : 0; }
            else if (op == "bytes_available") { ret = cl(sb->bytes_available()); }
            else if (op == "space_available") { ret = cl(sb->space_available()); }
            else if (op == "reset") { sb->reset(); }
            else if (op == "trigger_level") { sb->trigger_level((std::size_t)n); }
            else if (op == "native_handle") { ret = rtos_fake::id_of(sb->native_handle()); }
            else {
                std::fprintf(stderr, "rtos_driver: unknown stream op %s\n", op.c_str());
                std::exit(2);
            }
        }
        // ----------------------------------------------------------------
        if (quiet) { return true; }
        e["kcalls"] = kcalls_json();
        e["ret"]    = ret;
        e["out"]    = out;
        e["live"]   = rtos_fake::live_handles();
        e["post"]   = observe();
        e["inst"]   = INST;
        if (c.contains("plan")) { e["plan"] = c["plan"]; }
        vh::emit(e);
        return true;
    }
};

int replay(std::string const& kind, std::string const& path)
{
    auto lines = vh::read_ndjson(path);
    Session s;
    s.kind       = kind;
    long scripts = 0;
    for (auto const& c : lines) {
        if (c.contains("reset")) {
            s.begin();
            ++scripts;
            continue;
        }
        s.call(c, c.contains("quiet"));
    }
    s.begin();
    std::fprintf(stderr, "SUMMARY kind=%s scripts=%ld dropped=0\n", kind.c_str(), scripts);
    return 0;
}

// seeded random sessions on capacities the model checker does not enumerate; the trace spec follows the model
// state from the construction on (events carry no plan), a {"op":"session"} event opens every session
void sweep(std::string const& kind, int rounds)
{
    vh::Rng rng(vh::env_seed() * 2 + (kind == "queue" ? 0 : 1));
    Session s;
    s.kind                  = kind;
    long const ticksOf[]    = {0, 5, 1000};
    for (long cap : {7L, 16L}) {
        for (int round = 0; round < rounds; ++round) {
            s.begin();
            json mark;
            mark["op"]   = "session";
            mark["kind"] = kind;
            vh::emit(mark);
            json c;
            c["op"]   = "ctor";
            c["cap"]  = cap;
            c["isz"]  = (cap == 7) == (round % 2 == 0) ? 1 : 12;
            c["trig"] = round % 2 == 0 ? 1 : cap;
            if (kind == "stream") { c["isz"] = 0; }
            s.call(c, false);
            for (int step = 0; step < 400; ++step) {
                json d;
                long const pick = rng.range(0, 99);
                d["ticks"]      = ticksOf[rng.range(0, 2)];
                d["prio"]       = rng.range(0, 1);
                // phases of mostly-filling and mostly-draining so that both "full" and "empty" are met often
                bool const fill = (step / 40) % 2 == 0;
                if (kind == "queue") {
                    long const pw = fill ? 55 : 25;
                    if (pick < pw) { d["op"] = "send", d["x"] = rng.range(0, 50); }
                    else if (pick < pw + 15) { d["op"] = "receive"; }
                    else if (pick < 85) { d["op"] = "receive_ref"; }
                    else if (pick < 91) { d["op"] = "messages_waiting"; }
                    else if (pick < 96) { d["op"] = "capacity"; }
                    else { d["op"] = "reset"; }
                } else {
                    long const pw = fill ? 50 : 22;
                    if (pick < pw) {
                        d["op"]      = rng.coin(50) ? "write" : "write_from_isr";
                        long const m = rng.range(0, 10);
                        json bytes   = json::array();
                        for (long i = 0; i < m; ++i) { bytes.push_back(rng.range(0, 255)); }
                        d["data"] = bytes;
                        d["n"]    = m;
                    } else if (pick < 78) {
                        d["op"] = rng.coin(50) ? "read" : "read_from_isr";
                        d["n"]  = rng.range(0, 12);
                    } else if (pick < 82) { d["op"] = "empty"; }
                    else if (pick < 86) { d["op"] = "full"; }
                    else if (pick < 90) { d["op"] = "bytes_available"; }
                    else if (pick < 94) { d["op"] = "space_available"; }
                    else if (pick < 96) { d["op"] = "native_handle"; }
                    else if (pick < 98) { d["op"] = "trigger_level", d["n"] = rng.range(0, cap + 2); }
                    else { d["op"] = "reset"; }
                }
                s.call(d, false);
            }
            json e;
            e["op"] = "dtor";
            s.call(e, false);
        }
    }
    s.begin();
}
} // namespace

int main(int argc, char** argv)
{
    std::string const mode = argc > 1 ? argv[1] : "";
    std::string const kind = argc > 2 ? argv[2] : "";
    if (kind == "queue" || kind == "stream") {
        if (mode == "replay" && argc == 4) { return replay(kind, argv[3]); }
        if (mode == "sweep" && (argc == 3 || argc == 4)) {
            sweep(kind, argc == 4 ? std::atoi(argv[3]) : 2);
            return 0;
        }
    }
    std::fprintf(stderr, "usage: rtos_driver replay <queue|stream> <scripts> | sweep <queue|stream> [rounds]\n");
    return 2;
}
