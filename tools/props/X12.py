"""X12 (extension) - etl::format_to / format_to_n on the subset the headers implement ("{}", "{{", "}}")."""
from pipes import fmt


def run(tier, rep):
    fmt.pipeline(tier, rep)
    rep.assumptions += [
        "subset: literal text, '{{', '}}', '{}' with automatic indexing and default formatting of char, C strings, char "
        "arrays, string_view, inplace_string and the integer types; replacement fields with an arg-id or a format-spec "
        "are class 'nc' (not covered) and never judged",
        "format strings: every string of at most 5 (thorough: 6) characters over { '{', '}', 'a', '0', ':' }; 20 fixed "
        "argument lists of at most 3 arguments; sink capacities 1, 3, 32",
        "ill-formed strings: output not judged; only 'no death by signal' and 'format_to_n never writes behind n'",
        "the fmt_buffer entry point is reached through etl::detail (format_context accepts no other output iterator)",
        "no std::format in libstdc++ 12: calibrated against an independent reference formatter in the driver, i.e. "
        "against a second reading of [format.string.general] / {fmt} semantics, not against an implementation of std::format",
    ]
