-------------------------- MODULE DurationTrace --------------------------
(* Trace validation for duration / time_point arithmetic (C12): every event recorded by               *)
(* harness/duration_driver from etl::chrono (or std::chrono in the calibration build) is judged by the *)
(* operators of DurationOps (exact rational arithmetic over wide integers).  `on` = "dur" | "tp" names  *)
(* whether the call was made on durations or on time_points of those durations: the expected counts    *)
(* are the same ([time.point.nonmember], [time.point.cast]).  Deviations are collected, never fatal.   *)
EXTENDS DurationOps, Json, IOUtils, TLC

Tr == ndJsonDeserialize(IOEnv.TRACE)

VARIABLES l, nbad

UOpsT == {"cast", "floor", "ceil", "round", "conv"}

UVal(op, i, j, rt, c, ce) ==
    CASE op \in {"cast", "conv"} -> CastVal(i, j, rt, c, ce)
      [] op = "floor" -> FloorVal(i, j, rt, c, ce)
      [] op = "ceil" -> CeilVal(i, j, rt, c, ce)
      [] op = "round" -> RoundVal(i, j, rt, c, ce)

BaseSpelling(s) == IF s = "rplus" THEN "plus" ELSE IF s = "diff" THEN "minus" ELSE s

BinOK(ev) ==
    LET s  == BaseSpelling(ev.s)
        x  == CvX(ev.i, ev.j, ev.c)
        y  == CvY(ev.i, ev.j, ev.c2)
        ct == CommonRep(ev.r1, ev.r2)
    IN CASE s = "plus" -> ev.ret = V(WAdd(x, y))
         [] s = "minus" -> ev.ret = V(WSub(x, y))
         [] s = "mod" -> /\ ev.q.e = 0 /\ WellFormed(ev.q.w) /\ IsQuotOf(ev.q.w, x, y)
                         /\ ev.ret = V(WSub(x, WMul(ev.q.w, y)))
         [] s = "div" -> IF IsInt(ct) THEN ev.ret.e = 0 /\ WellFormed(ev.ret.w) /\ IsQuotOf(ev.ret.w, x, y)
                         ELSE ev.ret = V(W(y.s * (WToInt(x) \div WToInt(WAbs(y)))))
         [] s = "cmp" -> ev.ret = CmpVec(x, y)
         [] s = "common" -> /\ ev.ret = <<V(x), V(y)>>
                            /\ <<ev.pn, ev.pd>> = CommonPeriod(ev.i, ev.j)
                            /\ ev.cr = ct

BinExpected(ev) ==
    LET s == BaseSpelling(ev.s) x == CvX(ev.i, ev.j, ev.c) y == CvY(ev.i, ev.j, ev.c2) IN
    CASE s = "plus" -> ToJson(V(WAdd(x, y)))
      [] s = "minus" -> ToJson(V(WSub(x, y)))
      [] s = "cmp" -> ToJson(CmpVec(x, y))
      [] s = "common" -> ToJson([ret |-> <<V(x), V(y)>>, period |-> CommonPeriod(ev.i, ev.j)])
      [] OTHER -> ToJson([x |-> x, y |-> y])

MemberOK(ev) ==
    /\ ev.ret = V(MemberRet(ev.s, ev.c, ev.k))
    /\ (ev.s \in Mutating) = ("obj" \in DOMAIN ev)
    /\ ("obj" \in DOMAIN ev => ev.obj = V(MemberNew(ev.s, ev.c, ev.k)))

TypedefOK(ev) ==
    LET t == Typedefs[ev.name] IN
    /\ ev.num = W(t[1]) /\ ev.den = W(t[2]) /\ ev.bits >= t[3] /\ ev.sint = TRUE

Judge(ev) ==
    CASE ev.op \in UOpsT ->
            IF ~UPre(ev.op, ev.i, ev.j, ev.rf, ev.rt, ev.c, ev.ce) THEN "harness-pre"
            ELSE IF ev.ret = UVal(ev.op, ev.i, ev.j, ev.rt, ev.c, ev.ce) THEN "ok"
            \* conv: the implicit conversion [time.duration.cons] = duration_cast where it participates; every judged
            \* case has an exactly representable result (UPre), so a wrong value is a deviation of C12
            ELSE ev.op
      [] ev.op = "conv_ok" -> IF ev.ret = ConvAllowed(ev.i, ev.j, ev.rf, ev.rt) THEN "ok" ELSE "conv-constraint"
      [] ev.op = "conv_missing" -> "conv-constraint"
      [] ev.op = "bin" ->
            IF ~BinPre(BaseSpelling(ev.s), ev.i, ev.j, ev.r1, ev.r2, ev.c, ev.c2) THEN "harness-pre"
            ELSE IF BinOK(ev) THEN "ok" ELSE "bin-" \o ev.s
      [] ev.op = "member" ->
            IF ~(ev.s \in MemberOps /\ MemberPre(ev.s, ev.r, ev.c, ev.k)) THEN "harness-pre"
            ELSE IF MemberOK(ev) THEN "ok" ELSE "member-" \o ev.s
      [] ev.op = "limits" -> IF ev.r \in Reps /\ LimitsOK(ev) THEN "ok" ELSE "limits"
      [] ev.op = "typedef" -> IF ev.name \in DOMAIN Typedefs /\ TypedefOK(ev) THEN "ok" ELSE "typedef-period"
      [] ev.op = "period" -> IF ev.num = W(Periods[ev.i][1]) /\ ev.den = W(Periods[ev.i][2]) THEN "ok" ELSE "harness-period-table"
      \* a sanitizer / hardware trap inside a call that TLC selected as in-domain (recorded by tools/pipes/duration.py)
      [] ev.op = "trap" -> "trap"
      [] OTHER -> "harness-unknown-op"

Expected(ev) ==
    CASE ev.op \in UOpsT -> IF UPre(ev.op, ev.i, ev.j, ev.rf, ev.rt, ev.c, ev.ce) THEN ToJson(UVal(ev.op, ev.i, ev.j, ev.rt, ev.c, ev.ce)) ELSE "-"
      [] ev.op = "bin" -> BinExpected(ev)
      [] ev.op = "member" -> IF ev.s \in MemberOps /\ MemberPre(ev.s, ev.r, ev.c, ev.k)
                             THEN ToJson([ret |-> V(MemberRet(ev.s, ev.c, ev.k)), obj |-> V(MemberNew(ev.s, ev.c, ev.k))]) ELSE "-"
      [] ev.op = "typedef" -> IF ev.name \in DOMAIN Typedefs THEN ToJson(Typedefs[ev.name]) ELSE "-"
      [] ev.op = "limits" -> IF ev.r \in Reps THEN ToJson([zero |-> LimVal(ev.r, "zero"), min |-> LimVal(ev.r, "min"), max |-> LimVal(ev.r, "max")]) ELSE "-"
      [] ev.op = "conv_ok" -> ToJson(ConvAllowed(ev.i, ev.j, ev.rf, ev.rt))
      [] OTHER -> "-"

Init == l = 1 /\ nbad = 0

Next ==
    /\ l <= Len(Tr)
    /\ l' = l + 1
    /\ LET v == Judge(Tr[l]) IN
       IF v = "ok" THEN nbad' = nbad
       ELSE /\ nbad' = nbad + 1
            /\ PrintT(<<"DEV", l, v, Expected(Tr[l])>>)

Spec == Init /\ [][Next]_<<l, nbad>>
Consumed == TLCGet("stats").diameter - 1 = Len(Tr)
==========================================================================
