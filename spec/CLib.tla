------------------------------- MODULE CLib -------------------------------
(* Input-domain enumerator + model theorems for the C-library module (property C18).                 *)
(* TLC (a) enumerates every test vector inside the constants: all pairs of strings up to MaxLen      *)
(* over a 3-letter alphabet containing a code >= 0x80, with all counts 0..len+2; all byte blocks     *)
(* with embedded zeros up to MaxBytes; all (source, destination, count) placements inside one        *)
(* block for memmove; the whole argument range of <cctype>/<cwctype>; a grid for div/labs;           *)
(* (b) checks on every vector the laws that tie the operators of CLibOps to each other (MC role:     *)
(* independent second formulations), and (c) exports every vector as a GEN line that the driver      *)
(* replays on the real functions.                                                                     *)
(* Two-level choice (first string, then second string) so that several TLC workers share the work.   *)
EXTENDS CLibOps, TLC, Json

CONSTANTS MaxLen, MaxLenB, MaxLenW, MaxBytes, MaxMove, WideHi, LawLen

VARIABLES ph, vec
vars == <<ph, vec>>

Alpha0(w) == IF w = 0 THEN {97, 98, 200} ELSE {97, 98, 8364}
\* characters searched for / stored: members, a non-member, the terminator, and for the byte family
\* int arguments that only equal a member after conversion to (unsigned) char
Cs(w) == IF w = 0 THEN <<0, 97, 98, 200, 99, -56, 353>> ELSE <<0, 97, 98, 8364, 99>>
Strs(w, n) == UNION {[1..k -> Alpha0(w)] : k \in 0..n}
Blocks(w, n) == UNION {[1..k -> Alpha0(w) \cup {0}] : k \in 0..n}
\* byte family: first string up to MaxLen, second up to MaxLenB; wide family: both up to MaxLenW
ML(w) == IF w = 0 THEN MaxLen ELSE MaxLenW
MLB(w) == IF w = 0 THEN MaxLenB ELSE MaxLenW
UpTo(n) == [i \in 1..(n + 1) |-> i - 1]

Guard == <<161, 162, 163, 164>>
FILL == 238
Lay(A, B) == Guard \o A \o Guard \o B \o Guard
P0 == 4
Q0(A) == 8 + Len(A)

DivVals == {0, 1, -1, 2, -2, 3, -3, 7, -7, 10, -10, 255, -256, 32767, -32768, 65536, -65537,
            46341, 2147483647, -2147483647}

\* first level: heads (one per first string / block / block length / family / numerator)
Heads ==
    UNION {{[k |-> "first", w |-> w, a |-> a] : a \in Strs(w, ML(w))} : w \in {0, 1}}
    \cup UNION {{[k |-> "hb", w |-> w, a |-> a] : a \in Blocks(w, MaxBytes)} : w \in {0, 1}}
    \cup {[k |-> "hm", w |-> w, L |-> L] : w \in {0, 1}, L \in 1..MaxMove}
    \cup {[k |-> "ho", w |-> w] : w \in {0, 1}}
    \cup {[k |-> "hc", w |-> w] : w \in {0, 1}}
    \cup {[k |-> "hd", x |-> x] : x \in DivVals}

\* second level: the vectors
Leaves(h) ==
    CASE h.k = "first" ->
           {[k |-> "pair", w |-> h.w, a |-> h.a, b |-> b, ns |-> UpTo(Max2(Len(h.a), Len(b)) + 2)] :
               b \in Strs(h.w, MLB(h.w))}
      [] h.k = "hb" ->
           \* the single-block calls (memchr, memset: characters cs) ride on the vector with b = a only
           {[k |-> "bytes", w |-> h.w, a |-> h.a, b |-> b, cs |-> IF b = h.a THEN Cs(h.w) ELSE <<>>,
             ns |-> UpTo(Len(h.a))] :
               b \in [1..Len(h.a) -> Alpha0(h.w) \cup {0}]}
      [] h.k = "hm" ->
           {[k |-> "move", w |-> h.w, buf |-> [i \in 1..h.L |-> 10 + i], s |-> x[1], d |-> x[2], n |-> x[3],
             cpy |-> Disjoint(x[2], x[3], x[1], x[3])] :
               x \in {y \in (0..h.L) \X (0..h.L) \X (0..h.L) : y[1] + y[3] <= h.L /\ y[2] + y[3] <= h.L}}
      [] h.k = "ho" ->
           {[k |-> "one", w |-> h.w, a |-> a, cs |-> Cs(h.w), ns |-> UpTo(Len(a) + 1)] : a \in Strs(h.w, ML(h.w))}
      [] h.k = "hc" ->
           {[k |-> "cc", w |-> h.w, c |-> c] : c \in CTypeDomain(h.w, WideHi)}
      [] h.k = "hd" ->
           {[k |-> "dv", x |-> h.x, y |-> y] : y \in DivVals \ {0}}

Init == ph = 0 /\ vec = [k |-> "init"]

Next ==
    \/ ph = 0 /\ ph' = 1 /\ vec' \in Heads
    \/ ph = 1 /\ ph' = 2 /\ vec' \in Leaves(vec)

Spec == Init /\ [][Next]_vars

\* GEN: one line per vector
Emit == (ph' = 2) => PrintT(<<"GEN", ToJson(vec')>>)

\* ---------------------------------------------------------------------------------------------
\* Model theorems
\* ---------------------------------------------------------------------------------------------
Ret(op, w, m, p, q, n, c) == Eff(op, w, m, p, q, n, c).ret
Post(op, w, m, p, q, n, c) == Eff(op, w, m, p, q, n, c).post

\* only the destination extent changes; the memory keeps its size
Footprint(op, w, m, p, q, n, c) ==
    LET post == Post(op, w, m, p, q, n, c) IN
    /\ Len(post) = Len(m)
    /\ \A i \in 0..(Len(m) - 1) : i \notin Extent(op, m, p, q, n) => Cell(post, i) = Cell(m, i)

IsInfix(b, a) == \E i \in 0..Len(a) : \E j \in i..Len(a) : SubSeq(a, i + 1, j) = b

PairLaws(w, a, b, ns) ==
    LET az == a \o <<0>>
        bz == b \o <<0>>
        m == Lay(az, bz)
        p == P0
        q == Q0(az)
        la == Len(a)
        lb == Len(b)
        cmp == Ret("strcmp", w, m, p, q, 0, 0)
        spn == Ret("strspn", w, m, p, q, 0, 0)
        cspn == Ret("strcspn", w, m, p, q, 0, 0)
        sstr == Ret("strstr", w, m, p, q, 0, 0)
        mcpy == Lay(Fill(lb + 1, FILL), bz)
        qc == Q0(Fill(lb + 1, FILL))
        mcat == Lay(az \o Fill(lb, FILL), bz)
        qcat == Q0(az \o Fill(lb, FILL))
    IN
    /\ Pre("strcmp", w, m, p, q, 0, 0)
    \* three-way comparison: antisymmetric, zero exactly for equal strings, consistent with "is a prefix"
    /\ cmp = -Ret("strcmp", w, m, q, p, 0, 0)
    /\ (cmp = 0) <=> (a = b)
    /\ (la < lb /\ SubSeq(b, 1, la) = a) => cmp = -1
    /\ Ret("strcmp", w, m, p, p, 0, 0) = 0
    /\ Ret("strncmp", w, m, p, q, 0, 0) = 0
    /\ \A i \in 1..Len(ns) :
          LET n == ns[i] IN
          /\ n > Max2(la, lb) => Ret("strncmp", w, m, p, q, n, 0) = cmp
          /\ Ret("strncmp", w, m, p, q, n, 0) = CmpSeqs(Take(a, n) \o <<0>>, Take(b, n) \o <<0>>)
          /\ n <= Min2(la, lb) + 1 => Ret("memcmp", w, m, p, q, n, 0) = Ret("strncmp", w, m, p, q, n, 0)
    \* searching
    /\ (sstr # -1) <=> IsInfix(b, a)
    /\ sstr # -1 => /\ SubSeq(a, sstr - p + 1, sstr - p + lb) = b
                    /\ \A i \in 0..(sstr - p - 1) : SubSeq(a, i + 1, i + lb) # b
    /\ b = <<>> => sstr = p
    /\ spn <= la /\ cspn <= la
    /\ \A i \in 1..spn : a[i] \in Range(b)
    /\ spn < la => a[spn + 1] \notin Range(b)
    /\ \A i \in 1..cspn : a[i] \notin Range(b)
    /\ Ret("strpbrk", w, m, p, q, 0, 0) = (IF cspn = la THEN -1 ELSE p + cspn)
    \* copying: the destination holds the source string; strncpy with n = len + 1 is strcpy
    /\ Pre("strcpy", w, mcpy, p, qc, 0, 0)
    /\ Str(Post("strcpy", w, mcpy, p, qc, 0, 0), p) = b
    /\ Footprint("strcpy", w, mcpy, p, qc, 0, 0)
    /\ Post("strncpy", w, mcpy, p, qc, lb + 1, 0) = Post("strcpy", w, mcpy, p, qc, 0, 0)
    /\ Post("memcpy", w, mcpy, p, qc, lb + 1, 0) = Post("strcpy", w, mcpy, p, qc, 0, 0)
    /\ \A i \in 1..Len(ns) :
          LET n == ns[i]
              mn == Lay(Fill(n, FILL), bz)
              qn == Q0(Fill(n, FILL))
              post == Post("strncpy", w, mn, p, qn, n, 0)
              k == Min2(n, lb)
              mc == Lay(az \o Fill(k, FILL), bz)
              qk == Q0(az \o Fill(k, FILL))
          IN
          /\ Pre("strncpy", w, mn, p, qn, n, 0)
          /\ Footprint("strncpy", w, mn, p, qn, n, 0)
          /\ Chars(post, p, k) = Take(b, n)
          /\ \A j \in k..(n - 1) : Cell(post, p + j) = 0
          /\ n > lb => Str(post, p) = b
          /\ Pre("strncat", w, mc, p, qk, n, 0)
          /\ Footprint("strncat", w, mc, p, qk, n, 0)
          /\ Str(Post("strncat", w, mc, p, qk, n, 0), p) = a \o Take(b, n)
    /\ Pre("strcat", w, mcat, p, qcat, 0, 0)
    /\ Footprint("strcat", w, mcat, p, qcat, 0, 0)
    /\ Str(Post("strcat", w, mcat, p, qcat, 0, 0), p) = a \o b
    /\ Post("strncat", w, mcat, p, qcat, lb, 0) = Post("strcat", w, mcat, p, qcat, 0, 0)
    /\ Post("strncat", w, mcat, p, qcat, lb + 2, 0) = Post("strcat", w, mcat, p, qcat, 0, 0)

OneLaws(w, a, cs) ==
    LET az == a \o <<0>>
        m == Lay(az, <<>>)
        p == P0
    IN
    /\ Ret("strlen", w, m, p, 0, 0, 0) = Len(a)
    /\ Ret("strchr", w, m, p, 0, 0, 0) = p + Len(a)
    /\ Ret("strrchr", w, m, p, 0, 0, 0) = p + Len(a)
    /\ \A i \in 1..Len(cs) :
          LET c == cs[i]
              f == Ret("strchr", w, m, p, 0, 0, c)
              r == Ret("strrchr", w, m, p, 0, 0, c)
          IN /\ (f = -1) <=> (r = -1)
             /\ (f = -1) <=> (Conv(w, c) \notin Range(az))
             /\ f <= r
             /\ f # -1 => Cell(m, f) = Conv(w, c) /\ Cell(m, r) = Conv(w, c)
             /\ Ret("memchr", w, m, p, 0, Len(az), c) = f
             /\ Ret("memchr", w, m, p, 0, 0, c) = -1

MoveLaws(v) ==
    LET m == Lay(v.buf, <<>>)
        p == P0 + v.d
        q == P0 + v.s
    IN
    /\ Pre("memmove", v.w, m, p, q, v.n, 0)
    /\ Footprint("memmove", v.w, m, p, q, v.n, 0)
    \* the destination receives the ORIGINAL source cells, whatever the overlap
    /\ Chars(Post("memmove", v.w, m, p, q, v.n, 0), p, v.n) = SubSeq(v.buf, v.s + 1, v.s + v.n)
    /\ v.cpy = Pre("memcpy", v.w, m, p, q, v.n, 0)
    /\ v.cpy => Post("memcpy", v.w, m, p, q, v.n, 0) = Post("memmove", v.w, m, p, q, v.n, 0)

BytesLaws(v) ==
    LET m == Lay(v.a, v.b)
        p == P0
        q == Q0(v.a)
        L == Len(v.a)
    IN
    /\ \A n \in 0..L :
          /\ Ret("memcmp", v.w, m, p, q, n, 0) = -Ret("memcmp", v.w, m, q, p, n, 0)
          /\ (Ret("memcmp", v.w, m, p, q, n, 0) = 0) <=> (SubSeq(v.a, 1, n) = SubSeq(v.b, 1, n))
          /\ Footprint("memcpy", v.w, m, p, q, n, 0)
          /\ Ret("memcmp", v.w, Post("memcpy", v.w, m, p, q, n, 0), p, q, n, 0) = 0
          /\ Footprint("memset", v.w, m, p, 0, n, 353)
          /\ \A j \in 0..(n - 1) : Cell(Post("memset", v.w, m, p, 0, n, 353), p + j) = (IF v.w = 0 THEN 97 ELSE 353)

CTypeLaws(c) ==
    LET is(f) == CType(f, c) = 1 IN
    /\ is("isalnum") <=> (is("isalpha") \/ is("isdigit"))
    /\ is("isalpha") <=> (is("isupper") \/ is("islower"))
    /\ ~(is("isupper") /\ is("islower"))
    /\ is("isgraph") <=> (is("isalnum") \/ is("ispunct"))
    /\ ~(is("isalnum") /\ is("ispunct"))
    /\ is("isprint") <=> (is("isgraph") \/ c = 32)
    /\ (c \in 0..127) <=> (is("isprint") \/ is("iscntrl"))
    /\ ~(is("isprint") /\ is("iscntrl"))
    /\ is("isblank") => is("isspace")
    /\ is("isdigit") => is("isxdigit")
    /\ is("isxdigit") => is("isalnum")
    /\ is("isspace") => (is("iscntrl") \/ c = 32)
    /\ CType("toupper", CType("tolower", c)) = CType("toupper", c)
    /\ CType("tolower", CType("toupper", c)) = CType("tolower", c)
    /\ is("isupper") <=> (CType("tolower", c) # c)
    /\ is("islower") <=> (CType("toupper", c) # c)
    /\ is("isupper") => CType("islower", CType("tolower", c)) = 1

DivLaws(x, y) ==
    LET q == TruncDiv(x, y)
        r == TruncRem(x, y)
    IN /\ q * y + r = x
       /\ AbsI(r) < AbsI(y)
       /\ (r = 0 \/ (r < 0) = (x < 0))
       /\ AbsI(q) = AbsI(x) \div AbsI(y)

Laws ==
    ph = 2 =>
       \* the laws are theorems about the operators: they are evaluated on the pairs up to LawLen; longer
       \* pairs are enumerated for the binding (export) only
       CASE vec.k = "pair" -> (Len(vec.a) <= LawLen /\ Len(vec.b) <= LawLen) => PairLaws(vec.w, vec.a, vec.b, vec.ns)
         [] vec.k = "one" -> OneLaws(vec.w, vec.a, vec.cs)
         [] vec.k = "move" -> MoveLaws(vec)
         [] vec.k = "bytes" -> BytesLaws(vec)
         [] vec.k = "cc" -> CTypeLaws(vec.c)
         [] vec.k = "dv" -> DivLaws(vec.x, vec.y)
         [] OTHER -> FALSE
===========================================================================
