----------------------------- MODULE Bitset -----------------------------
(* State machine of two bit sets a, b of one width n.  TLC                                             *)
(*   - checks the laws below on every reachable pair of values (MC role), and                          *)
(*   - exports every transition (GEN role) for replay on etl::bitset<n> / etl::basic_bitset<n, Word>.   *)
(* Kind selects the API surface: "bitset" (etl::bitset) or "basic" (etl::basic_bitset: no string        *)
(* constructors, no operator~, no conversions).                                                          *)
(*                                                                                                       *)
(* Every pair of values is reached (by construction from unsigned long long).  Operations that involve   *)
(* both objects are offered in every pair state; operations on one object alone are offered while the    *)
(* other object is zero; the constructor family is offered from the initial state.                        *)
EXTENDS BitsetOps, TLC, Json

CONSTANTS Ns, Kind

VARIABLES n, obj, last
vars == <<n, obj, last>>
View == <<n, obj>>

Objs == {"a", "b"}
Other(o) == IF o = "a" THEN "b" ELSE "a"
Bits == {0, 1}

X0 == [p |-> 0, q |-> 0, v |-> 0, src |-> "a", src2 |-> "a", val |-> <<0, 0, 0, 0>>, str |-> <<>>, pos |-> 0,
       cnt |-> -1, zero |-> 48, one |-> 49]
C(op, x) == [op |-> op, x |-> x]

IsZero(e) == e = Zero(n)
Values == [1..n -> Bits]
LimbsOf(e) == ToLimbs(e)
Pow(k) == 2 ^ k
\* unsigned long long values beyond the width: all ones, bit 63, the bit just above the width (with and without bit 0)
BigVals ==
    {<<65535, 65535, 65535, 65535>>, <<0, 0, 0, 32768>>, <<Pow(n), 0, 0, 0>>, <<Pow(n) + 1, 0, 0, 0>>, <<Pow(n) - 1, 1, 0, 0>>}

StrsOver(A, k) == UNION {[1..j -> A] : j \in 0..k}
\* strings over the two digit characters z, o; some framed by a character that is neither (legal outside the
\* substring [pos, pos + rlen) only)
Strs(z, o, k) == StrsOver({z, o}, k) \cup {<<120>> \o s \o <<120>> : s \in StrsOver({z, o}, k - 1)}
PosCnt == (0..(n + 1)) \X ((-1)..(n + 1))

\* the constructor family does not depend on the previous value: offered on object a from the initial state
Ctors(o) ==
    IF o # "a" THEN {}
    ELSE
    {C("ctor_default", X0)}
    \cup {C("ctor_ull", [X0 EXCEPT !.val = v]) : v \in BigVals}
    \cup (IF Kind # "bitset" THEN {}
          ELSE {C(op, [X0 EXCEPT !.str = s]) : op \in {"ctor_sv1", "ctor_cstr1"}, s \in StrsOver({48, 49}, n)}
               \cup {C("ctor_sv2", [X0 EXCEPT !.str = s, !.pos = p]) : s \in Strs(48, 49, n + 1), p \in 0..(n + 1)}
               \cup {C("ctor_sv3", [X0 EXCEPT !.str = s, !.pos = pc[1], !.cnt = pc[2]]) : s \in Strs(48, 49, n + 1), pc \in PosCnt}
               \cup {C("ctor_sv5", [X0 EXCEPT !.str = s, !.pos = pc[1], !.cnt = pc[2], !.zero = 97, !.one = 98]) :
                        s \in Strs(97, 98, n + 1), pc \in PosCnt}
               \cup {C("ctor_cstr2", [X0 EXCEPT !.str = s, !.cnt = c]) : s \in Strs(48, 49, n + 1), c \in (-1)..(n + 1)}
               \cup {C("ctor_cstr4", [X0 EXCEPT !.str = s, !.cnt = c, !.zero = 98, !.one = 97]) :
                        s \in Strs(98, 97, n + 1), c \in (-1)..(n + 1)})

Single(o) ==
    {C(op, X0) : op \in WholeOps}
    \cup {C(op, [X0 EXCEPT !.p = p, !.v = v]) : op \in {"set_one", "ref_assign"}, p \in 0..(n - 1), v \in Bits}
    \cup {C(op, [X0 EXCEPT !.p = p]) : op \in {"set_one1", "reset_one", "flip_one", "ref_flip"}, p \in 0..(n - 1)}
    \cup {C("ref_copy", [X0 EXCEPT !.p = p, !.q = q, !.src = o]) : p \in 0..(n - 1), q \in 0..(n - 1)}
    \cup {C(op, [X0 EXCEPT !.src = o]) : op \in AssignOps \ (IF Kind = "bitset" THEN {} ELSE {"assign_not"})}
    \cup {C(op, [X0 EXCEPT !.src = o, !.src2 = o]) : op \in BinOps}

Pairwise(o) ==
    {C(op, [X0 EXCEPT !.src = Other(o)]) : op \in AssignOps \ (IF Kind = "bitset" THEN {} ELSE {"assign_not"})}
    \cup (IF o = "a" THEN {C(op, [X0 EXCEPT !.src = s1, !.src2 = s2]) : op \in BinOps, s1 \in Objs, s2 \in Objs} ELSE {})
    \cup (IF obj[o] \in {Zero(n), Ones(n)}
          THEN {C("ref_copy", [X0 EXCEPT !.p = p, !.q = q, !.src = Other(o)]) : p \in 0..(n - 1), q \in 0..(n - 1)}
          ELSE {})

Calls(o) ==
    (IF IsZero(obj[o]) THEN {C("ctor_ull", [X0 EXCEPT !.val = LimbsOf(e)]) : e \in Values} ELSE {})
    \cup (IF IsZero(obj.a) /\ IsZero(obj.b) THEN Ctors(o) ELSE {})
    \cup (IF IsZero(obj[Other(o)]) THEN Single(o) ELSE {})
    \cup Pairwise(o)

Init ==
    /\ n \in Ns
    /\ obj = [a |-> Zero(n), b |-> Zero(n)]
    /\ last = [op |-> "init", o |-> "a", x |-> X0, pre |-> obj, post |-> obj, n |-> n, kind |-> Kind]

Step(o, c) ==
    /\ Pre(c.op, o, c.x, obj, n)
    /\ obj' = Eff(c.op, o, c.x, obj, n)
    /\ last' = [op |-> c.op, o |-> o, x |-> c.x, pre |-> obj, post |-> obj', n |-> n, kind |-> Kind]
    /\ n' = n

Next == \E o \in Objs : \E c \in Calls(o) : Step(o, c)
Spec == Init /\ [][Next]_vars

Emit == PrintT(<<"GEN", ToJson(last')>>)

\* ---- what TLC proves about the model (MC role) ----------------------------------------------------
TypeOK == n \in Ns /\ obj.a \in Values /\ obj.b \in Values

\* algebra of the value space: involution, De Morgan, xor, counting; conversions round-trip
Laws ==
    LET a == obj.a b == obj.b IN
    /\ Flip(Flip(a)) = a
    /\ Flip(And(a, b)) = Or(Flip(a), Flip(b))
    /\ Flip(Or(a, b)) = And(Flip(a), Flip(b))
    /\ Xor(a, b) = And(Or(a, b), Flip(And(a, b)))
    /\ Xor(a, a) = Zero(n) /\ And(a, a) = a /\ Or(a, a) = a
    /\ Count(a) + Count(Flip(a)) = n
    /\ Count(And(a, b)) + Count(Or(a, b)) = Count(a) + Count(b)
    /\ FromLimbs(n, ToLimbs(a)) = a                                   \* to_ullong / constructor round trip
    /\ FromStr(n, ToStr(a, 48, 49), 0, -1, 48, 49) = a                \* to_string / constructor round trip
    /\ FromStr(n, ToStr(a, 79, 88), 0, n, 79, 88) = a
    /\ (a = b) <=> (ToLimbs(a) = ToLimbs(b))                          \* for n <= 64 the value is the bits

\* an operation on one object never changes the other
Independence == [][\A o \in Objs : last'.o # o => obj'[o] = obj[o]]_vars
WidthConst == [][n' = n]_vars
=========================================================================
