"""Float module pipeline (spec/FloatOps.tla, Float.tla, FloatTrace.tla, harness/float_driver.cpp, float_ct.hpp).
Serves C16 (cmath: exact functions bit-equal libm, approximating functions within tolerance).

  probes     one compile probe per function name: what etl does not provide is reported as not drivable
  MC         Float.tla on two exhaustively enumerated 9-bit minifloat formats (declarative = operational for every
             exact operator), on an 11-bit format with the three-limb fraction used for x87 long double, and on binary32 (laws on the boundary domain); the binary32 run EXPORTS the boundary
             table that the driver replays
  record     float_driver groups (run time, laundered inputs) + float_ct groups (forced constant evaluation)
  TV         FloatTrace.tla judges every event; the same traces recorded from libm/libstdc++ (-DVH_STD) must give
             zero deviations (calibration), otherwise ModelFailure
"""
import json
import os
import subprocess
from concurrent.futures import ThreadPoolExecutor

import vlib

NAMES = ("floor ceil trunc round rint nearbyint fabs abs lrint llrint lround llround signbit isnan isinf isfinite isnormal "
         "fpclassify copysign fmin fmax fdim nextafter fmod remainder pow atan2 hypot midpoint lerp sqrt cbrt exp exp2 "
         "expm1 log log2 log10 log1p sin cos tan asin acos atan sinh cosh tanh asinh acosh atanh erf tgamma lgamma").split()
ARITY = {n: 2 for n in "copysign fmin fmax fdim nextafter fmod remainder pow atan2 hypot midpoint".split()}
ARITY["lerp"] = 3
CT_GROUPS = 6
JENV = {"JAVA_TOOL_OPTIONS": "-Xss64m"}   # FMod/Remainder recurse once per quotient bit


def probe():
    """-> (flags, absent): -DVH_HAVE_<n>=0 for every function etl does not declare."""
    inc = os.path.join(vlib.REPO, "include")
    src = os.path.join(vlib.HARNESS, "float_probe.cpp")

    def one(n):
        a = ARITY.get(n, 1)
        args = ", ".join(["p%s"] * a)
        cmd = ["g++", "-std=c++20", "-fsyntax-only", "-w", "-I" + inc,
               "-DVH_PROBE_F=etl::%s(%s)" % (n, args % (("f",) * a)), "-DVH_PROBE_D=etl::%s(%s)" % (n, args % (("d",) * a)), src]
        try:
            return n, subprocess.run(cmd, capture_output=True, timeout=300).returncode == 0
        except subprocess.TimeoutExpired:
            raise vlib.ModelFailure("probe timeout " + n)
    jobs = list(NAMES) + ["hypot3", "complex", "nextafter_l"]

    def run1(n):
        if n == "hypot3":
            cmd = ["g++", "-std=c++20", "-fsyntax-only", "-w", "-I" + inc, "-DVH_PROBE_F=etl::hypot(pf, pf, pf)",
                   "-DVH_PROBE_D=etl::hypot(pd, pd, pd)", src]
            return n, subprocess.run(cmd, capture_output=True, timeout=300).returncode == 0
        if n == "nextafter_l":
            cmd = ["g++", "-std=c++20", "-fsyntax-only", "-w", "-I" + inc, "-DVH_PROBE_F=etl::nextafter(1.0L, 2.0L)",
                   "-DVH_PROBE_D=etl::floor(1.5L)", src]
            return n, subprocess.run(cmd, capture_output=True, timeout=300).returncode == 0
        if n == "complex":
            cmd = ["g++", "-std=c++20", "-fsyntax-only", "-w", "-I" + inc, "-DVH_PROBE_F=etl::abs(etl::complex<float>{pf, pf})",
                   "-DVH_PROBE_D=etl::tanh(etl::complex<double>{pd, pd})", src]
            return n, subprocess.run(cmd, capture_output=True, timeout=300).returncode == 0
        return one(n)
    with ThreadPoolExecutor(max_workers=8) as ex:
        res = dict(ex.map(run1, jobs))
    if not res.get("floor"):
        raise vlib.ModelFailure("compile probe for etl::floor failed: include path %s unusable" % inc)
    absent = sorted(n for n, ok in res.items() if not ok)
    return ["-DVH_HAVE_%s=0" % n for n in absent], absent


def model(tier, rep):
    """MC of the oracle (three formats in parallel) + export of the binary32 boundary table."""
    def one(mode):
        return mode, vlib.tlc_mc("Float.tla", "Float.cfg", "float_mc_%s_%s" % (mode, tier), workers=8 if mode == "f32" else 4, heap="3g",
                                 constants={"Mode": '"%s"' % mode, "Tier": '"%s"' % tier}, env=JENV)
    with ThreadPoolExecutor(max_workers=4) as ex:
        res = dict(ex.map(one, ("toy1", "toy2", "toy3", "f32")))
    for mode, r in res.items():
        rep.add_mc("Float[%s]" % mode, r)
    gen = res["f32"]["gen"]
    if len(gen) < 20000:
        raise vlib.ModelFailure("Float.tla exported only %d boundary values" % len(gen))
    path = os.path.join(vlib.workdir("scripts"), "float_table_%s.txt" % tier)
    with open(path, "w") as f:
        for g in sorted(gen, key=lambda g: (g["s"], g["e"], g["m"])):
            f.write("%d %d %d\n" % (g["s"], g["e"], g["m"]))
    rep.cov["exhaustive"] = False
    rep.cov["explanation"] = ("the two 9-bit minifloat formats are enumerated completely (every value, every pair) by TLC; binary32/64 "
                              "are covered by the exported boundary table, boundary grids and seeded random values, not exhaustively")
    rep.sample({"module": "Float[f32]", "exported_input": gen[len(gen) // 2]})
    return path, len(gen)


def build_drivers(flags, ct=True, std=True, tag="", std_ct=False):
    jobs = [dict(src="float_driver.cpp", out="float_etl" + tag, flags=list(flags))]
    if std:
        jobs.append(dict(src="float_driver.cpp", out="float_std" + tag, flags=["-DVH_STD"], include_repo=False))
    if ct:
        for g in range(CT_GROUPS):
            jobs.append(dict(src="float_driver.cpp", out="float_ct_etl%s_%d" % (tag, g), flags=list(flags) + ["-DVH_CT=%d" % g,
                             "-fconstexpr-ops-limit=200000000", "-fconstexpr-loop-limit=2000000", "-fconstexpr-depth=2048"], opt="-O0"))
            if std and std_ct:
                jobs.append(dict(src="float_driver.cpp", out="float_ct_std%s_%d" % (tag, g), flags=["-DVH_STD", "-DVH_CT=%d" % g],
                                 opt="-O0", include_repo=False))
    paths = vlib.build_many(jobs, par=8)
    return dict(zip([j["out"] for j in jobs], paths))


def execute(tier, bins, impl, table, ct=True, tag=""):
    d = vlib.workdir("traces")
    nr = {"quick": (3000, 2000, 1200, 1500, 300), "thorough": (60000, 40000, 4000, 6000, 3000)}[tier]
    seed = str(vlib.seed())
    b = bins["float_%s%s" % (impl, tag)]
    tasks = []
    outs = []

    def add(name, cmd):
        tp = os.path.join(d, "float_%s_%s%s.ndjson" % (impl, name, tag))
        tasks.append((cmd, tp))
        outs.append(tp)
    add("table", [b, "table", table, str(nr[0]), seed])
    add("dtable", [b, "dtable", tier, str(nr[1]), seed])
    add("ltable", [b, "ltable", tier, str(nr[1] // 10), seed])
    add("binary", [b, "binary", tier, str(nr[2]), seed])
    add("approx", [b, "approx", tier, str(nr[3]), seed])
    add("complex", [b, "complex", tier, str(nr[4]), seed])
    if ct:
        for g in range(CT_GROUPS):
            add("ct%d" % g, [bins["float_ct_%s%s_%d" % (impl, tag, g)], "ct"])
    res = vlib.run_parallel(tasks, par=8)
    n_inputs = 0
    for _, err in res:
        for line in err.splitlines():
            if line.startswith("INPUTS"):
                n_inputs += sum(int(x.split("=")[1]) for x in line.split()[1:])
    return outs, n_inputs


def split_traces(paths, out, groups):
    """Round-robin the events of all trace files into `groups` files (balanced cost per TLC)."""
    outs = ["%s_%d.ndjson" % (out, i) for i in range(groups)]
    fs = [open(p, "wb") for p in outs]
    i = 0
    for p in paths:
        with open(p, "rb") as g:
            for line in g:
                fs[i % groups].write(line)
                i += 1
    for f in fs:
        f.close()
    return [p for p in outs if os.path.getsize(p) > 0]


def tv(paths, tag, par=6):
    with ThreadPoolExecutor(max_workers=par) as ex:
        futs = [ex.submit(vlib.tlc_tv, "FloatTrace.tla", "FloatTrace.cfg", tp, "%s_%d" % (tag, i), "2g", 3600, JENV)
                for i, tp in enumerate(paths)]
        res = [f.result() for f in futs]
    for tp, r in zip(paths, res):
        for d in r["deviations"]:
            d["trace"] = tp
    return {"events": sum(r["events"] for r in res), "deviations": [d for r in res for d in r["deviations"]],
            "wall": max(r["wall"] for r in res)}


def _key(v):
    """measurement only (evidence notes): monotone integer key of a recorded value; None for NaN"""
    if len(v) == 3:
        s, e, m = v
        if e == 255 and m:
            return None
        mag = (e << 23) | m
    else:
        s, e, h, lo = v[:4]
        if e == 2047 and (h or lo):
            return None
        mag = (e << 52) | (h << 26) | lo
    return -mag if s else mag


def measure(paths, devlines):
    """Largest observed ulp distance per approximating function among the events the trace spec ACCEPTED
    (evidence note; the verdicts themselves come from TLC)."""
    mx = {}
    cnt = {}
    for p in paths:
        bad = devlines.get(p, set())
        with open(p) as f:
            for i, line in enumerate(f, 1):
                if i in bad:
                    continue
                j = line.find('"md":"')
                kk = "%s/%s" % (line[7:line.index('"', 7)], line[j + 6:j + 8])
                cnt[kk] = cnt.get(kk, 0) + 1
                if '"r":[' not in line or '"nc"' in line or '"crash"' in line:
                    continue
                ev = json.loads(line)
                if not isinstance(ev.get("c"), list) or len(ev["c"]) > 4:
                    continue
                for rk, ck in (("r", "c"), ("r2", "c2")):
                    if rk in ev:
                        a, b = _key(ev[rk]), _key(ev[ck])
                        if a is not None and b is not None and a != b:
                            k = "%s/%s/%s" % (ev["op"], ev["p"], ev["md"])
                            mx[k] = max(mx.get(k, 0), abs(a - b))
    return mx, cnt


def pipeline(tier, rep, calibrate=True):
    flags, absent = probe()
    std_ct = calibrate and tier == "thorough"      # the constant-evaluation harness itself is calibrated in the thorough tier
    with ThreadPoolExecutor(max_workers=2) as ex:   # model checking and compilation do not depend on each other
        f_model = ex.submit(model, tier, rep)
        f_build = ex.submit(build_drivers, flags, True, calibrate, "", std_ct)
        table, ntab = f_model.result()
        bins = f_build.result()
    traces, n_inputs = execute(tier, bins, "etl", table)
    groups = 6
    merged = split_traces(traces, os.path.join(vlib.workdir("traces"), "float_etl_merged"), groups)

    def calibration():
        ctr, _ = execute(tier, bins, "std", table, ct=std_ct)
        cm = split_traces(ctr, os.path.join(vlib.workdir("traces"), "float_std_merged"), groups)
        return tv(cm, "float_tv_std", par=groups)
    with ThreadPoolExecutor(max_workers=2) as ex:
        f_etl = ex.submit(tv, merged, "float_tv_etl", groups)
        f_std = ex.submit(calibration) if calibrate else None
        r = f_etl.result()
        c = f_std.result() if f_std else None
    if c is not None and c["deviations"]:
        d = c["deviations"][0]
        raise vlib.ModelFailure("calibration: glibc/libstdc++ deviates from FloatOps (spec/projection error): %s %s expected %s"
                                % (d["kind"], json.dumps(d.get("ev"))[:400], d.get("expected")))
    rep.add_tv("Float", r, len(traces), "float")
    m = rep.cov["modules"]["Float"]
    with open(merged[0]) as f:
        lines = f.readlines()
        for i in (len(lines) // 7, len(lines) // 2, len(lines) - 5):
            rep.sample({"module": "Float", "event": json.loads(lines[i])})
    m["not_drivable"] = ["etl::%s is not declared" % n if n != "nextafter_l" else "etl::nextafter has no long double overload"
                         for n in absent]
    m["boundary_table_values"] = ntab
    m["inputs_executed"] = n_inputs
    if c is not None:
        m["calibration_events_std"] = c["events"]
    # measured maxima among the events the trace spec accepted (a note in the evidence, never a verdict)
    devlines = {}
    byfn = {}
    for d in r["deviations"]:
        devlines.setdefault(d["trace"], set()).add(d["line"])
        ev = d.get("ev", {})
        k = "%s/%s/%s/%s" % (ev.get("op"), ev.get("p"), ev.get("md"), d["kind"])
        byfn[k] = byfn.get(k, 0) + 1
    mx, cnt = measure(merged, devlines)
    m["max_ulp_distance_accepted"] = dict(sorted(mx.items()))
    m["accepted_events_by_function"] = dict(sorted(cnt.items()))
    m["deviations_by_function"] = dict(sorted(byfn.items()))
    return r


def replay(rec):
    """check.py --replay: re-execute the input of a recorded deviation on the current tree and judge the event again.
    Returns the deviations that are still reported."""
    ev = rec["event"]
    flags, _ = probe()
    isf = ev["p"] == "f"

    def bits(v):
        if isf:
            return "%x" % ((v[0] << 31) | (v[1] << 23) | v[2])
        return "%x" % ((v[0] << 63) | (v[1] << 52) | (v[2] << 26) | v[3])
    args = [bits(ev[k]) for k in ("x", "y", "z", "w") if k in ev]
    d = vlib.workdir("traces")
    tp = os.path.join(d, "float_replay_all.ndjson")
    if ev["md"] == "ct":
        bins = build_drivers(flags, ct=True, std=False, tag="_rp")
        outs = []
        for g in range(CT_GROUPS):
            op = os.path.join(d, "float_replay_ct%d.ndjson" % g)
            vlib.run([bins["float_ct_etl_rp_%d" % g], "ct"], op)
            outs.append(op)
        lines = [l for p in outs for l in open(p)]
    else:
        bins = build_drivers(flags, ct=False, std=False, tag="_rp")
        vlib.run([bins["float_etl_rp"], "args", ev["p"], str(len(args))] + args, tp)
        lines = list(open(tp))
    sel = []
    for l in lines:
        e = json.loads(l)
        if e["op"] == ev["op"] and e["p"] == ev["p"] and all(e.get(k) == ev.get(k) for k in ("x", "y", "z", "w")):
            sel.append(l)
    if not sel:
        raise vlib.ModelFailure("replay: the call %s is no longer executable" % ev["op"])
    one = os.path.join(d, "float_replay_one.ndjson")
    open(one, "w").writelines(sel[:1])
    r = vlib.tlc_tv("FloatTrace.tla", "FloatTrace.cfg", one, "float_tv_replay", extra_env=JENV)
    return r["deviations"]
