----------------------------- MODULE ModesTrace -----------------------------
(* Trace validation for C13.  One event per call:                                                            *)
(*   [fam, fn, (w | ty | p), a, obs: <<[m, r], ...>>, (nc)]                                                   *)
(* with the observations of the call in the modes "ct" (constant evaluation), "rt0" (run time, -O0), "rt2"    *)
(* (run time, -O2); "nc": the compiler rejected the call as a constant expression.  Judged with ModesOps:      *)
(*   disagree      the monitor saw two different results for the call (Observe failed)                        *)
(*   not-constant  constant evaluation was rejected inside the domain where it has to succeed                 *)
(*   wrong         the modes agree, but on a value that differs from the exact definition                      *)
(* Floating-point results are compared as values: any NaN equals any NaN; calls whose result the standard      *)
(* leaves unspecified (lrint family out of range) are not judged.  Deviations are collected, not fatal.        *)
EXTENDS ModesOps, Json, IOUtils, TLC

Tr == ndJsonDeserialize(IOEnv.TRACE)

VARIABLES l, nbad

IsFlt(ev) == ev.fam \in {"flt", "flt3"}
FmtOfEv(ev) == IF ev.p = "f" THEN F32 ELSE F64
\* canonical form of a result for the comparison across modes
Canon(ev, r) ==
    IF IsFlt(ev) /\ ev.fn \notin ExactUnaryInt /\ ev.fn \notin ExactUnaryLong
    THEN LET f == FmtOfEv(ev) IN IF IsNaN(f, FV(f, r)) THEN FSeq(f, QNaN(f)) ELSE r
    ELSE r
\* is the result of this call specified at all?
Specified(ev) ==
    IF ev.fam = "flt" /\ ev.fn \in ExactUnaryLong
    THEN LET f == FmtOfEv(ev) IN LongInRange(f, LongRounded(f, ev.fn, FV(f, ev.a[1])))
    ELSE IF ev.fam = "flt" /\ ev.fn \in {"fmin", "fmax"}          \* the sign of fmin/fmax(+-0, -+0) is not specified
    THEN LET f == FmtOfEv(ev) IN ~(IsZero(FV(f, ev.a[1])) /\ IsZero(FV(f, ev.a[2])))
    ELSE TRUE

Call(ev) == <<ev.fam, ev.fn, ev.a>>
RECURSIVE Fold(_, _, _, _)
\* feed the observations to the monitor; returns the number of failed observations
Fold(ev, obs, i, st) ==
    IF i > Len(obs) THEN st
    ELSE LET res == Observe(st.memo, Call(ev), Canon(ev, obs[i].r)) IN
         Fold(ev, obs, i + 1, [memo |-> res.memo, bad |-> IF res.ok THEN st.bad ELSE st.bad + 1])

ModesOK(ev) == \A i \in 1..Len(ev.obs) : ev.obs[i].m \in ModeNames
Judge(ev) ==
    IF ~ModesOK(ev) THEN "harness-mode"
    ELSE IF ~Specified(ev) THEN "ok"
    ELSE IF Fold(ev, ev.obs, 1, [memo |-> EmptyMemo, bad |-> 0]).bad # 0 THEN "disagree"
    ELSE IF "nc" \in DOMAIN ev /\ CtRequired(ev) THEN "not-constant"
    ELSE IF HasDef(ev) /\ \E i \in 1..Len(ev.obs) : ~DefOK(ev, ev.obs[i].r) THEN "wrong"
    ELSE "ok"

Init == l = 1 /\ nbad = 0
Next ==
    /\ l <= Len(Tr)
    /\ l' = l + 1
    /\ LET v == Judge(Tr[l]) IN
       IF v = "ok" THEN nbad' = nbad
       ELSE /\ nbad' = nbad + 1
            /\ PrintT(<<"DEV", l, v, "-">>)

Spec == Init /\ [][Next]_<<l, nbad>>
Consumed == TLCGet("stats").diameter - 1 = Len(Tr)
=============================================================================
