// Conformance driver for the random number engines and distributions (extension X11):
// etl::xorshift16/32/64, etl::xoshiro128plus / plusplus / starstar, etl::uniform_int_distribution,
// etl::bernoulli_distribution, etl::uniform_real_distribution, etl::generate_canonical.
//   rng_driver orbit   <gen.ndjson>            every state of the 16-bit xorshift orbit exported by spec/Rng.tla
//   rng_driver engines <gen.ndjson> <steps>    per exported seed (+ seeded random seeds): construction, <steps> calls of
//                                              operator(), discard, seed, operator==, min/max
//   rng_driver dists   <gen.ndjson>            distributions over engines positioned at the exported seeds
// One ndjson event per call (or small group of calls).  Words travel as little-endian arrays of 16-bit limbs; an engine
// state is the object representation of the engine (the engines are trivially copyable objects consisting of exactly
// their state words: static_assert below); floating-point values travel as the limbs of an order-preserving 64-bit key.
// No oracle, no comparison: spec/RngTrace.tla judges.  Calls run in a forked child (harness/contain.hpp): a call that
// ends in a signal (division by zero in a distribution ...) becomes a `crash` event and the run resumes with the next task.
// -DVH_STD: reference engines transcribed from the published C code of Marsaglia / Blackman-Vigna with the interface
// [rand.req.eng] asks for, and libstdc++'s <random> distributions over them: the calibration build.
#include "contain.hpp"

#include <cstring>
#include <functional>
#include <limits>
#include <random>
#include <type_traits>

#ifndef VH_STD
    #include <etl/random.hpp>
#endif

namespace {
using vh::json;

#ifdef VH_STD
static char const* const INST = "std";
namespace ref {
template <class U, unsigned A, unsigned B, unsigned C> struct xorshift {
    using result_type = U;
    static constexpr result_type default_seed = 5489U;
    constexpr xorshift() = default;
    explicit constexpr xorshift(result_type s) : x {s} { }
    static constexpr result_type min() { return 0; }
    static constexpr result_type max() { return std::numeric_limits<U>::max(); }
    constexpr void seed(result_type s = default_seed) { x = s; }
    constexpr void discard(unsigned long long z)
    {
        while (z-- != 0) { (void)(*this)(); }
    }
    constexpr result_type operator()()
    {
        x ^= U(x << A);
        x ^= U(x >> B);
        x ^= U(x << C);
        return x;
    }
    friend constexpr bool operator==(xorshift const& l, xorshift const& r) { return l.x == r.x; }
    U x {default_seed};
};
inline constexpr uint32_t rotl(uint32_t x, int k) { return (x << k) | (x >> (32 - k)); }
// xoshiro128+ / ++ / ** 1.0 (public domain, prng.di.unimi.it); Scr selects the output scrambler
template <int Scr> struct xoshiro128 {
    using result_type = uint32_t;
    static constexpr result_type default_seed = 5489U;
    constexpr xoshiro128() = default;
    explicit constexpr xoshiro128(result_type sd) : s {sd, 0, 0, 0} { }
    static constexpr result_type min() { return 0; }
    static constexpr result_type max() { return 0xFFFFFFFFu; }
    constexpr void seed(result_type sd = default_seed) { s[0] = sd, s[1] = 0, s[2] = 0, s[3] = 0; }
    constexpr void discard(unsigned long long z)
    {
        while (z-- != 0) { (void)(*this)(); }
    }
    constexpr result_type operator()()
    {
        uint32_t const result = Scr == 0 ? s[0] + s[3] : (Scr == 1 ? rotl(s[0] + s[3], 7) + s[0] : rotl(s[1] * 5, 7) * 9);
        uint32_t const t      = s[1] << 9;
        s[2] ^= s[0];
        s[3] ^= s[1];
        s[1] ^= s[2];
        s[0] ^= s[3];
        s[2] ^= t;
        s[3] = rotl(s[3], 11);
        return result;
    }
    friend constexpr bool operator==(xoshiro128 const& l, xoshiro128 const& r)
    {
        return l.s[0] == r.s[0] && l.s[1] == r.s[1] && l.s[2] == r.s[2] && l.s[3] == r.s[3];
    }
    uint32_t s[4] {default_seed, 0, 0, 0};
};
} // namespace ref
using xs16_t = ref::xorshift<uint16_t, 7, 9, 8>;
using xs32_t = ref::xorshift<uint32_t, 13, 17, 5>;
using xs64_t = ref::xorshift<uint64_t, 13, 7, 17>;
using xop_t  = ref::xoshiro128<0>;
using xopp_t = ref::xoshiro128<1>;
using xoss_t = ref::xoshiro128<2>;
template <class T> using uid_t = std::uniform_int_distribution<T>;
template <class T> using urd_t = std::uniform_real_distribution<T>;
using bern_t                  = std::bernoulli_distribution;
template <class R, std::size_t B, class G> R canonical(G& g) { return std::generate_canonical<R, B>(g); }
#else
static char const* const INST = "etl";
using xs16_t = etl::xorshift16;
using xs32_t = etl::xorshift32;
using xs64_t = etl::xorshift64;
using xop_t  = etl::xoshiro128plus;
using xopp_t = etl::xoshiro128plusplus;
using xoss_t = etl::xoshiro128starstar;
template <class T> using uid_t = etl::uniform_int_distribution<T>;
template <class T> using urd_t = etl::uniform_real_distribution<T>;
using bern_t                  = etl::bernoulli_distribution;
template <class R, std::size_t B, class G> R canonical(G& g) { return etl::generate_canonical<R, B>(g); }
#endif

template <class E> struct EngInfo;
template <> struct EngInfo<xs16_t> { static constexpr char const* name = "xs16"; static constexpr int words = 1; using word = uint16_t; };
template <> struct EngInfo<xs32_t> { static constexpr char const* name = "xs32"; static constexpr int words = 1; using word = uint32_t; };
template <> struct EngInfo<xs64_t> { static constexpr char const* name = "xs64"; static constexpr int words = 1; using word = uint64_t; };
template <> struct EngInfo<xop_t> { static constexpr char const* name = "xop"; static constexpr int words = 4; using word = uint32_t; };
template <> struct EngInfo<xopp_t> { static constexpr char const* name = "xopp"; static constexpr int words = 4; using word = uint32_t; };
template <> struct EngInfo<xoss_t> { static constexpr char const* name = "xoss"; static constexpr int words = 4; using word = uint32_t; };

template <class U> json limbs(U v)
{
    json a = json::array();
    for (unsigned i = 0; i < sizeof(U) / 2; ++i) { a.push_back((int)((v >> (16 * i)) & 0xFFFFu)); }
    return a;
}
template <class U> U from_limbs(json const& a)
{
    unsigned long long v = 0;
    for (unsigned i = 0; i < a.size() && i < sizeof(U) / 2; ++i) { v |= (unsigned long long)a[i].get<int>() << (16 * i); }
    return (U)v;
}

// the engine's state words, read from its object representation
template <class E> json state_of(E const& e)
{
    using I = EngInfo<E>;
    using W = typename I::word;
    static_assert(std::is_trivially_copyable_v<E> && sizeof(E) == sizeof(W) * I::words, "engine = its state words");
    W w[I::words];
    std::memcpy(w, &e, sizeof(E));
    json a = json::array();
    for (int k = 0; k < I::words; ++k) {
        for (auto const& l : limbs<W>(w[k])) { a.push_back(l); }
    }
    return a;
}

// the inverse: an engine whose state words are the given limbs (the constructors only reach {seed, 0, 0, 0})
template <class E> E forge(json const& flat)
{
    using I = EngInfo<E>;
    using W = typename I::word;
    W w[I::words];
    constexpr unsigned per = sizeof(W) / 2;
    for (int k = 0; k < I::words; ++k) {
        unsigned long long v = 0;
        for (unsigned i = 0; i < per; ++i) { v |= (unsigned long long)flat[(size_t)k * per + i].get<int>() << (16 * i); }
        w[k] = (W)v;
    }
    E e {};
    std::memcpy(&e, w, sizeof(E));
    return e;
}

// order-preserving key of a floating-point value (through double: float -> double is exact)
json fkey(double d)
{
    uint64_t b;
    std::memcpy(&b, &d, 8);
    b = (b >> 63) != 0 ? ~b : (b | (1ull << 63));
    return limbs<uint64_t>(b);
}

template <class E> json ev_base(char const* op)
{
    json e;
    e["op"]   = op;
    e["eng"]  = EngInfo<E>::name;
    e["inst"] = INST;
    return e;
}

template <class E> void emit_step(E& e)
{
    json ev   = ev_base<E>("step");
    ev["pre"] = state_of(e);
    vhc::set_pending(ev);
    auto const out = e();
    ev["out"]  = limbs<typename E::result_type>(out);
    ev["post"] = state_of(e);
    ev["gmin"] = limbs<typename E::result_type>(E::min());
    ev["gmax"] = limbs<typename E::result_type>(E::max());
    vh::emit(ev);
}

// ---- orbit: one step from every exported 16-bit state ----------------------------------------------------------------
int run_orbit(std::vector<json> const& gen, long start)
{
    for (long i = start; i < (long)gen.size(); ++i) {
        if (gen[i]["m"] != "xs16") { continue; }
        vhc::begin_script(i);
        xs16_t e {from_limbs<uint16_t>(gen[i]["seed"])};
        emit_step(e);
    }
    return 0;
}

// ---- engines: a long history per seed ----------------------------------------------------------------------------------
template <class E> void eq_event(E const& a, E const& b)
{
    json ev   = ev_base<E>("eq");
    ev["a"]   = state_of(a);
    ev["b"]   = state_of(b);
    vhc::set_pending(ev);
    ev["ret"] = (a == b);
    ev["ne"]  = (a != b);
    ev["sym"] = (b == a);
    vh::emit(ev);
}

template <class E> void history(json const& seedl, long steps)
{
    using R = typename E::result_type;
    R const sd = from_limbs<R>(seedl);
    {
        json ev    = ev_base<E>("ctor_seed");
        ev["seed"] = limbs<R>(sd);
        vhc::set_pending(ev);
        E e {sd};
        ev["post"] = state_of(e);
        vh::emit(ev);
    }
    E e {sd};
    E twin {sd};
    eq_event(e, twin);
    long const first = steps * 3 / 10;
    for (long i = 0; i < first; ++i) { emit_step(e); }
    eq_event(e, twin);                      // e has moved on, twin has not
    twin.discard((unsigned long long)first);
    eq_event(e, twin);                      // both after the same number of calls
    for (unsigned long long z : {0ull, 1ull, 2ull, 3ull, 17ull, 100ull}) {
        json ev   = ev_base<E>("discard");
        ev["pre"] = state_of(e);
        ev["z"]   = (long)z;
        vhc::set_pending(ev);
        e.discard(z);
        ev["post"] = state_of(e);
        vh::emit(ev);
    }
    {
        E copy = e;
        eq_event(e, copy);
        (void)copy();
        eq_event(e, copy);
    }
    for (long i = 0; i < steps / 10; ++i) { emit_step(e); }
    {
        // [rand.req.eng] e.seed(s): "post: e == E(s)" - on an engine that has been running
        json ev    = ev_base<E>("seed");
        ev["pre"]  = state_of(e);
        ev["seed"] = limbs<R>(sd);
        vhc::set_pending(ev);
        e.seed(sd);
        ev["post"] = state_of(e);
        vh::emit(ev);
        E fresh {sd};
        eq_event(e, fresh);
    }
    for (long i = 0; i < steps / 10; ++i) { emit_step(e); }
    {
        json ev   = ev_base<E>("seed_default");           // e.seed(): "post: e == E()"
        ev["pre"] = state_of(e);
        vhc::set_pending(ev);
        e.seed();
        ev["post"] = state_of(e);
        vh::emit(ev);
        E fresh {};
        eq_event(e, fresh);
    }
    for (long i = 0; i < steps - first - 2 * (steps / 10); ++i) { emit_step(e); }
}

template <class E> void statics()
{
    using R = typename E::result_type;
    {
        json ev = ev_base<E>("ctor_default");
        vhc::set_pending(ev);
        E e {};
        ev["post"] = state_of(e);
        ev["dseed"] = limbs<R>(E::default_seed);
        vh::emit(ev);
    }
    {
        json ev   = ev_base<E>("minmax");
        ev["min"] = limbs<R>(E::min());
        ev["max"] = limbs<R>(E::max());
        vh::emit(ev);
    }
}

struct Task {
    std::string eng;
    json seed;
    int what; // 0 = history, 1 = statics, 2 = forged state
};

// a forged state: a few calls, and operator== against copies that differ in exactly one state word
template <class E> void forged(json const& flat)
{
    using I = EngInfo<E>;
    E e = forge<E>(flat);
    {
        E same = forge<E>(flat);
        eq_event(e, same);
        constexpr unsigned per = sizeof(typename I::word) / 2;
        for (int k = 0; k < I::words; ++k) {
            for (unsigned bit : {0u, 15u}) {
                json other = flat;
                // lowest bit of the word's first limb / highest bit of its last limb
                size_t const idx = (size_t)k * per + (bit == 0u ? 0 : per - 1);
                other[idx]       = other[idx].get<int>() ^ (bit == 0u ? 1 : 0x8000);
                eq_event(e, forge<E>(other));
            }
        }
    }
    for (int i = 0; i < 6; ++i) { emit_step(e); }
}

template <class F> void with_engine(std::string const& n, F f)
{
    if (n == "xs16") { f(xs16_t {}); }
    else if (n == "xs32") { f(xs32_t {}); }
    else if (n == "xs64") { f(xs64_t {}); }
    else if (n == "xop") { f(xop_t {}); }
    else if (n == "xopp") { f(xopp_t {}); }
    else if (n == "xoss") { f(xoss_t {}); }
    else {
        std::fprintf(stderr, "rng_driver: unknown engine %s\n", n.c_str());
        std::exit(2);
    }
}

std::vector<Task> engine_tasks(std::vector<json> const& gen)
{
    std::vector<Task> ts;
    for (char const* n : {"xs16", "xs32", "xs64", "xop", "xopp", "xoss"}) { ts.push_back({n, json::array(), 1}); }
    for (auto const& g : gen) {
        if (g["m"] == "xs16" || g["m"] == "uid") { continue; }
        if (g["m"] == "state") {
            for (char const* n : {"xop", "xopp", "xoss"}) { ts.push_back({n, g["seed"], 2}); }
            continue;
        }
        ts.push_back({g["m"], g["seed"], 0});
    }
    // a few 16-bit histories (the orbit mode covers every single step) and seeded random seeds for every engine
    vh::Rng rng(vh::env_seed());
    for (int v : {1, 5489, 65535, 0}) { ts.push_back({"xs16", limbs<uint16_t>((uint16_t)v), 0}); }
    for (char const* n : {"xs16", "xs32", "xs64", "xop", "xopp", "xoss"}) {
        for (int k = 0; k < 3; ++k) {
            uint64_t const r = rng.next();
            json s           = std::string(n) == "xs64" ? limbs<uint64_t>(r) : (std::string(n) == "xs16" ? limbs<uint16_t>((uint16_t)r) : limbs<uint32_t>((uint32_t)r));
            ts.push_back({n, s, 0});
        }
    }
    return ts;
}

int run_engines(std::vector<Task> const& ts, long steps, long start)
{
    for (long i = start; i < (long)ts.size(); ++i) {
        vhc::begin_script(i, 60);
        Task const& t = ts[(size_t)i];
        with_engine(t.eng, [&](auto proto) {
            using E = decltype(proto);
            if (t.what == 1) { statics<E>(); }
            else if (t.what == 2) {
                if constexpr (EngInfo<E>::words == 4) { forged<E>(t.seed); }
            } else { history<E>(t.seed, steps); }
        });
    }
    return 0;
}

// ---- distributions ---------------------------------------------------------------------------------------------------------
template <class T> char const* tname()
{
    if (std::is_same_v<T, short>) { return "i16"; }
    if (std::is_same_v<T, int>) { return "i32"; }
    if (std::is_same_v<T, unsigned short>) { return "u16"; }
    if (std::is_same_v<T, float>) { return "f32"; }
    if (std::is_same_v<T, double>) { return "f64"; }
    return "?";
}

template <class T> long lim(T v) { return (long)v; }

// uniform_int_distribution<T>: parameters and observers
template <class T> void uid_params(long a, long b)
{
    {
        json ev   = {{"op", "uid_param"}, {"T", tname<T>()}, {"inst", INST}, {"a", a}, {"b", b}};
        vhc::set_pending(ev);
        uid_t<T> d {(T)a, (T)b};
        ev["obs"] = json::array({lim(d.a()), lim(d.b()), lim(d.min()), lim(d.max()), lim(d.param().a()), lim(d.param().b())});
        typename uid_t<T>::param_type p {(T)a, (T)b};
        uid_t<T> d2 {p};
        uid_t<T> d3;
        d3.param(p);
        ev["obs2"] = json::array({lim(d2.a()), lim(d2.b()), lim(d3.a()), lim(d3.b())});
        ev["eq"]   = json::array({d == d2, d2 == d3, p == d.param(), d == uid_t<T> {(T)a, (T)(b == a ? b + 1 : a)}});
        vh::emit(ev);
    }
}
template <class T> void uid_defaults(long a)
{
    json ev = {{"op", "uid_default"}, {"T", tname<T>()}, {"inst", INST}, {"a", a}};
    vhc::set_pending(ev);
    uid_t<T> d0;                                  // uniform_int_distribution() : a = 0, b = numeric_limits<T>::max()
    uid_t<T> d1 {(T)a};                           // uniform_int_distribution(a)  : b = numeric_limits<T>::max()
    typename uid_t<T>::param_type p0;             // param_type()   : likewise
    typename uid_t<T>::param_type p1 {(T)a};      // param_type(a)  : likewise
    ev["obs"]  = json::array({lim(d0.a()), lim(d0.b()), lim(d1.a()), lim(d1.b()), lim(p0.a()), lim(p0.b()), lim(p1.a()), lim(p1.b())});
    ev["tmax"] = lim(std::numeric_limits<T>::max());
    vh::emit(ev);
}

// draws: n results from one engine; `det` repeats them on a copy of engine and distribution
template <class T, class E> void uid_draw(E e, long a, long b, int n, bool cover)
{
    json ev = {{"op", cover ? "uid_cover" : "uid_draw"}, {"T", tname<T>()}, {"eng", EngInfo<E>::name}, {"inst", INST},
               {"a", a}, {"b", b}, {"n", n}, {"pre", state_of(e)}};
    vhc::set_pending(ev);
    uid_t<T> d {(T)a, (T)b};
    E e2 = e;
    uid_t<T> dd = d;
    json rs     = json::array();
    bool same   = true;
    std::vector<bool> seen_small(64, false);
    long lo = 0, hi = 0, outside = 0;
    for (int i = 0; i < n; ++i) {
        T const r  = d(e);
        T const r2 = dd(e2);
        same       = same && (r == r2);
        if (!cover) { rs.push_back(lim(r)); }
        else {
            // facts about the sample, not a verdict: which values of a..a+63 occurred, extreme values
            long const k = (long)r - a;
            if (k >= 0 && k < 64) { seen_small[(size_t)k] = true; }
            else { ++outside; }
            if (i == 0 || (long)r < lo) { lo = (long)r; }
            if (i == 0 || (long)r > hi) { hi = (long)r; }
        }
    }
    if (cover) {
        json seen = json::array();
        for (int k = 0; k < 64; ++k) {
            if (seen_small[(size_t)k]) { seen.push_back(a + k); }
        }
        ev["seen"]    = seen;
        ev["lo"]      = lo;
        ev["hi"]      = hi;
        ev["outside"] = outside;          // results outside a..a+63
    } else {
        ev["rs"] = rs;
    }
    ev["det"]  = same;                    // same engine state + same parameters => same results ...
    ev["post"] = state_of(e);
    ev["post2"] = state_of(e2);           // ... and the same engine state afterwards
    vh::emit(ev);
}

template <class E> void bern(E e, double p, int pc, int n)
{
    json ev = {{"op", "bern"}, {"eng", EngInfo<E>::name}, {"inst", INST}, {"p", fkey(p)}, {"pc", pc}, {"n", n}, {"pre", state_of(e)}};
    vhc::set_pending(ev);
    bern_t d {p};
    bern_t d0;
    typename bern_t::param_type pp {p};
    bern_t d2 {pp};
    bern_t d3;
    d3.param(pp);
    ev["obs"] = json::array({fkey(d.p()), fkey(d.param().p()), fkey(d2.p()), fkey(d3.p()), fkey(d0.p())});
    ev["mm"]  = json::array({d.min(), d.max()});
    ev["eq"]  = json::array({d == d2, d2 == d3});
    E e2 = e;
    bern_t dd = d;
    long trues = 0;
    bool same  = true;
    for (int i = 0; i < n; ++i) {
        bool const r = d(e);
        same         = same && (r == dd(e2));
        trues += r ? 1 : 0;
    }
    ev["trues"] = trues;
    ev["det"]   = same;
    ev["post"]  = state_of(e);
    ev["post2"] = state_of(e2);
    vh::emit(ev);
}

template <class T, class E> void urd(E e, double a, double b, int n)
{
    json ev = {{"op", "urd"}, {"T", tname<T>()}, {"eng", EngInfo<E>::name}, {"inst", INST}, {"a", fkey(a)}, {"b", fkey(b)}, {"n", n},
               {"pre", state_of(e)}};
    vhc::set_pending(ev);
    urd_t<T> d {(T)a, (T)b};
    typename urd_t<T>::param_type pp {(T)a, (T)b};
    urd_t<T> d2 {pp};
    urd_t<T> d3;
    urd_t<T> d0;
    d3.param(pp);
    urd_t<T> d1 {(T)a};                                                     // b defaults to 1.0
    typename urd_t<T>::param_type p1 {(T)a};
    ev["obs"]  = json::array({fkey(d.a()), fkey(d.b()), fkey(d.min()), fkey(d.max()), fkey(d.param().a()), fkey(d.param().b()),
                              fkey(d2.a()), fkey(d2.b()), fkey(d3.a()), fkey(d3.b())});
    ev["dflt"] = json::array({fkey(d0.a()), fkey(d0.b()), fkey(d1.a()), fkey(d1.b()), fkey(p1.a()), fkey(p1.b())});
    ev["eq"]   = json::array({d == d2, d2 == d3});
    E e2       = e;
    urd_t<T> dd = d;
    json rs    = json::array();
    bool same  = true;
    for (int i = 0; i < n; ++i) {
        T const r = d(e);
        same      = same && (r == dd(e2));
        rs.push_back(fkey((double)r));
    }
    ev["rs"]    = rs;
    ev["det"]   = same;
    ev["post"]  = state_of(e);
    ev["post2"] = state_of(e2);
    vh::emit(ev);
}

template <class T, std::size_t Bits, class E> void canon(E e, int n)
{
    json ev = {{"op", "canon"}, {"T", tname<T>()}, {"bits", (long)Bits}, {"eng", EngInfo<E>::name}, {"inst", INST}, {"n", n},
               {"pre", state_of(e)}};
    vhc::set_pending(ev);
    E e2      = e;
    json rs   = json::array();
    bool same = true;
    for (int i = 0; i < n; ++i) {
        T const r = canonical<T, Bits>(e);
        same      = same && (r == canonical<T, Bits>(e2));
        rs.push_back(fkey((double)r));
    }
    ev["rs"]    = rs;
    ev["det"]   = same;
    ev["post"]  = state_of(e);
    ev["post2"] = state_of(e2);
    vh::emit(ev);
}

using Fn = std::function<void()>;

template <class E> E engine_from(json const& seedl) { return E {from_limbs<typename E::result_type>(seedl)}; }

// the engine right after construction: its next outputs are the extreme values the seeds were chosen for
template <class E> void dist_engine_tasks(std::vector<Fn>& ts, json const& seedl)
{
    E const e = engine_from<E>(seedl);
    ts.push_back([=] { canon<float, 24>(e, 8); });
    ts.push_back([=] { canon<double, 53>(e, 8); });
    ts.push_back([=] { canon<float, 10>(e, 8); });
    ts.push_back([=] { canon<double, 64>(e, 8); });
    ts.push_back([=] { canon<float, 64>(e, 8); });
    ts.push_back([=] { urd<float>(e, 0.0, 1.0, 8); });
    ts.push_back([=] { urd<double>(e, 0.0, 1.0, 8); });
    ts.push_back([=] { urd<float>(e, -1.0, 1.0, 8); });
    ts.push_back([=] { urd<double>(e, 0.0, 100.0, 8); });
    ts.push_back([=] { urd<float>(e, 5.0, 6.0, 8); });
    ts.push_back([=] { urd<double>(e, -3.5, -1.25, 8); });
    ts.push_back([=] { bern(e, 0.0, 0, 64); });
    ts.push_back([=] { bern(e, 1.0, 2, 64); });
    ts.push_back([=] { bern(e, 0.5, 1, 64); });
    ts.push_back([=] { uid_draw<int>(e, 0, 9, 8, false); });
    ts.push_back([=] { uid_draw<short>(e, -3, 3, 8, false); });
    ts.push_back([=] { uid_draw<unsigned short>(e, 0, 65535, 8, false); });
}

// distributions over an engine in a forged state (e.g. the next outputs are exactly 0: canonical value 0.0)
template <class E> void forged_dist_tasks(std::vector<Fn>& ts, json const& flat)
{
    E const e = forge<E>(flat);
    ts.push_back([=] { canon<float, 24>(e, 4); });
    ts.push_back([=] { canon<double, 53>(e, 4); });
    ts.push_back([=] { urd<double>(e, 0.0, 1.0, 4); });
    ts.push_back([=] { urd<float>(e, -1.0, 1.0, 4); });
    ts.push_back([=] { bern(e, 0.0, 0, 4); });
    ts.push_back([=] { bern(e, 1.0, 2, 4); });
    ts.push_back([=] { uid_draw<int>(e, 0, 9, 4, false); });
    ts.push_back([=] { uid_draw<short>(e, -2, 5, 4, false); });
}

bool all_zero(json const& seedl)
{
    for (auto const& l : seedl) {
        if (l.get<int>() != 0) { return false; }
    }
    return true;
}

// every call is its own task: a call that dies takes nothing else with it
std::vector<Fn> dist_tasks(std::vector<json> const& gen)
{
    std::vector<Fn> ts;
    for (auto const& g : gen) {
        if (g["m"] != "uid") { continue; }
        long const a = g["a"], b = g["b"];
        ts.push_back([=] { uid_params<int>(a, b); });
        ts.push_back([=] { uid_params<short>(a, b); });
        if (a >= 0) { ts.push_back([=] { uid_params<unsigned short>(a, b); }); }
        // every engine draws from the small range; two of them also do the long coverage run
        xs32_t e1 {(uint32_t)(1000003u * (unsigned)(a + 7) + (unsigned)b)};
        xs64_t e2 {(uint64_t)(0x9E3779B97F4A7C15ull * (unsigned)(b + 3) + (unsigned)(a + 5))};
        xop_t e3 {(uint32_t)(77u + (unsigned)(a + 2) * 131u + (unsigned)b)};
        xopp_t e4 {(uint32_t)(12345u + (unsigned)(a + 2) * 17u + (unsigned)b * 3u)};
        xoss_t e5 {(uint32_t)(999u + (unsigned)(a + 2) * 5u + (unsigned)b * 7u)};
        e3.discard(8), e4.discard(8), e5.discard(8);      // let the xoshiro state fill up
        ts.push_back([=] { uid_draw<int>(e1, a, b, 24, false); });
        ts.push_back([=] { uid_draw<short>(e2, a, b, 24, false); });
        ts.push_back([=] { uid_draw<int>(e3, a, b, 24, false); });
        ts.push_back([=] { uid_draw<short>(e4, a, b, 24, false); });
        ts.push_back([=] { uid_draw<int>(e5, a, b, 24, false); });
        if (a >= 0) { ts.push_back([=] { uid_draw<unsigned short>(e1, a, b, 24, false); }); }
        ts.push_back([=] { uid_draw<int>(e4, a, b, 4000, true); });
        ts.push_back([=] { uid_draw<short>(e1, a, b, 4000, true); });
    }
    for (long a : {0L, 5L, -7L}) {
        ts.push_back([=] { uid_defaults<int>(a); });
        ts.push_back([=] { uid_defaults<short>(a); });
        if (a >= 0) { ts.push_back([=] { uid_defaults<unsigned short>(a); }); }
    }
    xs64_t e {vh::env_seed() * 2654435761ull + 1};
    xopp_t e4 {(uint32_t)(vh::env_seed() + 42)};
    e4.discard(16);
    xs16_t small {(uint16_t)(vh::env_seed() + 99)};
    // wide ranges: the whole type, half open ends, ranges wider than the engine's (16-bit engine)
    long const imin = std::numeric_limits<int>::min(), imax = std::numeric_limits<int>::max();
    ts.push_back([=] { uid_draw<int>(e, 0, imax, 200, false); });
    ts.push_back([=] { uid_draw<int>(e4, imin, imax, 200, false); });
    ts.push_back([=] { uid_draw<int>(e4, imin, -1, 200, false); });
    ts.push_back([=] { uid_draw<int>(e, -1000000000, 1000000000, 200, false); });
    ts.push_back([=] { uid_draw<int>(e4, 5, 100, 200, false); });
    ts.push_back([=] { uid_draw<short>(e, -32768, 32767, 200, false); });
    ts.push_back([=] { uid_draw<short>(e4, 5, 100, 200, false); });
    ts.push_back([=] { uid_draw<unsigned short>(e, 0, 65535, 200, false); });
    ts.push_back([=] { uid_draw<unsigned short>(e4, 65535, 65535, 50, false); });
    ts.push_back([=] { uid_draw<int>(small, 0, 1000000, 200, false); });
    ts.push_back([=] { uid_draw<int>(small, 0, 9, 200, false); });
    ts.push_back([=] { uid_draw<int>(small, 0, 9, 4000, true); });
    ts.push_back([=] { uid_draw<int>(e4, 0, 63, 20000, true); });
    ts.push_back([=] { bern(e, 0.25, 1, 4000); });
    ts.push_back([=] { bern(e4, 0.5, 1, 4000); });
    ts.push_back([=] { bern(e4, 0.0, 0, 4000); });
    ts.push_back([=] { bern(e, 1.0, 2, 4000); });
    ts.push_back([=] { bern(small, 1.0, 2, 4000); });
    ts.push_back([=] { urd<float>(e, 0.0, 1.0, 300); });
    ts.push_back([=] { urd<double>(e4, 0.0, 1.0, 300); });
    ts.push_back([=] { urd<float>(e4, 0.0, 100.0, 300); });
    ts.push_back([=] { urd<double>(e, -8.0, 8.0, 300); });
    ts.push_back([=] { urd<float>(small, 0.0, 1.0, 300); });
    ts.push_back([=] { canon<float, 24>(e, 300); });
    ts.push_back([=] { canon<double, 53>(e4, 300); });
    ts.push_back([=] { canon<double, 53>(small, 300); });
    ts.push_back([=] { canon<float, 24>(small, 300); });
    // engines positioned at the exported seeds.  The all-zero state is outside the domain of both generator families
    // ("the state must not be everywhere zero"): such an engine returns 0 forever and is not a uniform bit source.
    for (auto const& g : gen) {
        if (g["m"] == "xs16" || g["m"] == "uid" || all_zero(g["seed"])) { continue; }
        if (g["m"] == "state") {
            forged_dist_tasks<xop_t>(ts, g["seed"]);
            forged_dist_tasks<xopp_t>(ts, g["seed"]);
            forged_dist_tasks<xoss_t>(ts, g["seed"]);
            continue;
        }
        with_engine(g["m"], [&](auto proto) { dist_engine_tasks<decltype(proto)>(ts, g["seed"]); });
    }
    return ts;
}

int run_dists(std::vector<Fn> const& ts, long start)
{
    for (long i = start; i < (long)ts.size(); ++i) {
        vhc::begin_script(i, 20);
        ts[(size_t)i]();
    }
    return 0;
}

} // namespace

int main(int argc, char** argv)
{
    std::string const mode = argc > 1 ? argv[1] : "";
    if (argc < 3) {
        std::fprintf(stderr, "usage: rng_driver orbit|engines|dists <gen.ndjson> [steps]\n");
        return 2;
    }
    auto const gen = vh::read_ndjson(argv[2]);
    if (mode == "orbit") {
        return vhc::run_contained(true, [&](long start) { return run_orbit(gen, start); });
    }
    if (mode == "engines") {
        long const steps = argc > 3 ? std::atol(argv[3]) : 1000;
        auto const ts    = engine_tasks(gen);
        // optional slice "k/n" of the task list (parallel runs)
        long k = 0, n = 1;
        if (argc > 4) { std::sscanf(argv[4], "%ld/%ld", &k, &n); }
        std::vector<Task> mine;
        for (size_t i = 0; i < ts.size(); ++i) {
            if ((long)(i % (size_t)n) == k) { mine.push_back(ts[i]); }
        }
        return vhc::run_contained(true, [&](long start) { return run_engines(mine, steps, start); });
    }
    if (mode == "dists") {
        auto const ts = dist_tasks(gen);
        return vhc::run_contained(true, [&](long start) { return run_dists(ts, start); });
    }
    return 2;
}
