SPECIFICATION Spec
CONSTANTS
  MaxLen = 5
  MaxLen2 = 3
  MaxPair = 4
  MaxA2 = 4
INVARIANT Inv
CHECK_DEADLOCK FALSE
