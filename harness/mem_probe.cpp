// Compile probes for the memory-helper module (X04): members / instantiations that may fail to compile.
#include <etl/iterator.hpp>
#include <etl/memory.hpp>

#include "iter_wrappers.hpp"

#if PROBE == 1
// small_ptr<T>::operator-> for a non-const T
struct S {
    int m;
};
int probe()
{
    S s{3};
    etl::small_ptr<S, 0, etl::uintptr_t> sp(&s);
    return sp->m - 3;
}
#elif PROBE == 2
// [uninitialized.fill]: template<class NoThrowForwardIterator, class T> void uninitialized_fill(first, last, x)
int probe()
{
    alignas(int) unsigned char raw[2 * sizeof(int)];
    int* d = reinterpret_cast<int*>(raw);
    etl::uninitialized_fill(vw::fwd_it<int>(d), vw::fwd_it<int>(d + 2), 7);
    return d[1] - 7;
}
#elif PROBE == 3
// [pointer.conversion]: to_address(p) for a fancy pointer without pointer_traits<Ptr>::to_address
// returns to_address(p.operator->())
struct Fancy {
    using element_type    = unsigned char;
    using difference_type = etl::ptrdiff_t;
    unsigned char* p;
    unsigned char* operator->() const { return p; }
};
int probe()
{
    unsigned char c = 0;
    return etl::to_address(Fancy{&c}) == &c ? 0 : 1;
}
#endif
int main() { return probe(); }
