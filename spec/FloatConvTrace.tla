------------------------- MODULE FloatConvTrace -------------------------
EXTENDS FloatConvOps, Json, IOUtils, TLC
Tr == ndJsonDeserialize(IOEnv.TRACE)
VARIABLES l, nbad
Init == l = 1 /\ nbad = 0
Next ==
    /\ l <= Len(Tr)
    /\ l' = l + 1
    /\ LET v == FcJudge(Tr[l]) IN
       IF v = "ok" THEN nbad' = nbad
       ELSE /\ nbad' = nbad + 1
            /\ PrintT(<<"DEV", l, v, "-">>)
Spec == Init /\ [][Next]_<<l, nbad>>
Consumed == TLCGet("stats").diameter - 1 = Len(Tr)
=========================================================================
