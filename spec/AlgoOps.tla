---------------------------- MODULE AlgoOps ----------------------------
(* Constant-free meaning of every function of <algorithm> / <numeric> that tetl provides, written   *)
(* from the Returns:/Effects:/Remarks: paragraphs of the C++ standard ([alg.*], [numeric.ops]),    *)
(* NOT from the tetl sources.                                                                       *)
(*                                                                                                  *)
(* Elements are identities: code = key*16 + tag.  Comparators / predicates only look at the key,   *)
(* the tag makes stability and "which of several equal elements" observable.                        *)
(*   first range  a : tags 1..6        second range b : tags 9..13                                  *)
(*   value argument  : tag 7           blank (untouched destination) : 6*16+14 = 110                *)
(*   canary (outside every range) : 7*16+15 = 127      value-initialised element : 0               *)
(*   moved-from element : key 9, tag kept                                                          *)
(* An input is x = [a, b, m, v, c] (two ranges, an integer (middle / count / shift / new key),     *)
(* a value key, a predicate / comparator code).  An outcome is o = [oa, ob, od, oc, r]: both ranges *)
(* after the call, the destination buffer(s) (length Len(a)+Len(b)+2, blank-filled before the      *)
(* call, <<>> if the algorithm has none) and the returned value(s) as a tuple of integers          *)
(* (iterators are 0-based offsets from the start of their range, bool is 0/1).                      *)
(*                                                                                                  *)
(*   Post(op, x, o)  the standard's postcondition - a *relation* where the standard leaves things  *)
(*                   open (remove, unique, shift_*, partition, sort, partial_sort, nth_element,    *)
(*                   move), an equation otherwise; written declaratively ("the first iterator i    *)
(*                   such that ...", "sorted permutation with equivalent elements in their          *)
(*                   original order").                                                              *)
(*   Ref(op, x)      an operational reference (loops written as recursion / folds) - Algo.tla      *)
(*                   proves Post(op, x, Ref(op, x)) on the whole bounded domain.                    *)
EXTENDS Integers, Sequences, FiniteSets

Key(e) == e \div 16
Tag(e) == e % 16
Blank == 110
Canary == 127
Min2(p, q) == IF p < q THEN p ELSE q
Max2(p, q) == IF p < q THEN q ELSE p
MinS(S) == CHOOSE z \in S : \A y \in S : z <= y
MaxS(S) == CHOOSE z \in S : \A y \in S : z >= y
Rng(s) == {s[i] : i \in 1..Len(s)}
Rev(s) == [i \in 1..Len(s) |-> s[Len(s) + 1 - i]]
Blanks(k) == [i \in 1..k |-> Blank]
B2I(p) == IF p THEN 1 ELSE 0
Take(s, k) == SubSeq(s, 1, k)
Drop(s, k) == SubSeq(s, k + 1, Len(s))

\* ---- predicates and comparators (code c) -----------------------------------------------------
\* binary relations: 1 less, 2 greater, 3 "less modulo 2" (strict weak orders);
\*                   4 equal, 5 "equal modulo 2" (equivalences).  0 = the overload without a
\*                   predicate parameter (operator< resp. operator==).
R(c, p, q) ==
    CASE c = 1 -> Key(p) < Key(q)
      [] c = 2 -> Key(p) > Key(q)
      [] c = 3 -> (Key(p) % 2) < (Key(q) % 2)
      [] c = 4 -> Key(p) = Key(q)
      [] c = 5 -> (Key(p) % 2) = (Key(q) % 2)
Lt(c, p, q) == R(IF c = 0 THEN 1 ELSE c, p, q)      \* comp(p, q)
Eq(c, p, q) == R(IF c = 0 THEN 4 ELSE c, p, q)      \* pred(p, q)
Equiv(c, p, q) == ~Lt(c, p, q) /\ ~Lt(c, q, p)
\* unary predicates: 0..2 "key = c", 3 "key is odd"
U(c, p) == IF c <= 2 THEN Key(p) = c ELSE Key(p) % 2 = 1
VC(x) == x.v * 16 + 7                                \* the value argument as an element

\* user functions handed to generate / transform / for_each and to the numeric algorithms
G(i) == (i % 3) * 16 + i                             \* i-th call of the generator
T1(e) == ((Key(e) + 1) % 3) * 16 + Tag(e)
T2(p, q) == ((Key(p) + 2 * Key(q)) % 3) * 16 + Tag(p)
OpA(p, q) == (p * 3 + q) % 7                         \* not commutative, not associative
OpB(p, q) == (p * 5 + q) % 11
OpS(p, q) == (p + q) % 7                             \* commutative and associative (reduce)
TU(p) == (p * 3 + 1) % 5

\* ---- vocabulary of the standard ------------------------------------------------------------
\* [alg.sorting]/5: sorted w.r.t. comp: for every i and n >= 0, comp(*(i + n), *i) == false
SortedD(s, c) == \A i \in 1..Len(s) : \A j \in i..Len(s) : ~Lt(c, s[j], s[i])
Perm(o, s) == Len(o) = Len(s) /\ Rng(o) = Rng(s)     \* identities are pairwise distinct
PosIn(s, e) == CHOOSE i \in 1..Len(s) : s[i] = e
\* sorted permutation in which equivalent elements keep their original relative order
StableSorted(o, s, c) ==
    /\ Perm(o, s)
    /\ SortedD(o, c)
    /\ \A i \in 1..Len(o) : \A j \in (i + 1)..Len(o) :
          Equiv(c, o[i], o[j]) => PosIn(s, o[i]) < PosIn(s, o[j])
CntEq(s, c, e) == Cardinality({i \in 1..Len(s) : Equiv(c, s[i], e)})
RankIn(s, c, i) == Cardinality({j \in 1..i : Equiv(c, s[j], s[i])})
Filter(s, P(_)) == SelectSeq(s, P)
FirstD(n, P(_)) == MinS({i \in 0..(n - 1) : P(i)} \cup {n})     \* first 0-based index, n if none
SumTo(n, F(_)) == LET f[i \in 0..n] == IF i = 0 THEN 0 ELSE f[i - 1] + F(i) IN f[n]
PartitionedD(s, c) == \E k \in 0..Len(s) : (\A i \in 1..k : U(c, s[i])) /\ (\A i \in (k + 1)..Len(s) : ~U(c, s[i]))

\* occurrences of the pattern b in a (0-based start offsets)
Occ(a, b, c) == {i \in 0..(Len(a) - Len(b)) : \A j \in 1..Len(b) : Eq(c, a[i + j], b[j])}
Runs(a, cnt, c, e) == {i \in 0..(Len(a) - cnt) : \A j \in 1..cnt : Eq(c, a[i + j], e)}

LexD(a, b, c) ==
    \E k \in 0..Min2(Len(a), Len(b)) :
        /\ \A i \in 1..k : Equiv(c, a[i], b[i])
        /\ \/ k = Len(a) /\ k < Len(b)
           \/ k < Len(a) /\ k < Len(b) /\ Lt(c, a[k + 1], b[k + 1])

\* [set.union] etc.: multiset semantics per equivalence class, which copies are taken is fixed
KeepA(op, a, b, c, i) ==
    LET mn == Min2(CntEq(a, c, a[i]), CntEq(b, c, a[i])) rk == RankIn(a, c, i) IN
    CASE op \in {"set_union", "merge"} -> TRUE
      [] op = "set_intersection" -> rk <= mn
      [] op \in {"set_difference", "set_symmetric_difference"} -> rk > mn
KeepB(op, a, b, c, j) ==
    LET mn == Min2(CntEq(a, c, b[j]), CntEq(b, c, b[j])) rk == RankIn(b, c, j) IN
    CASE op = "merge" -> TRUE
      [] op \in {"set_union", "set_symmetric_difference"} -> rk > mn
      [] op \in {"set_intersection", "set_difference"} -> FALSE
SetSrc(op, a, b, c) ==
    LET ia == SelectSeq([i \in 1..Len(a) |-> i], LAMBDA i : KeepA(op, a, b, c, i))
        ib == SelectSeq([j \in 1..Len(b) |-> j], LAMBDA j : KeepB(op, a, b, c, j))
    IN [i \in 1..Len(ia) |-> a[ia[i]]] \o [j \in 1..Len(ib) |-> b[ib[j]]]

\* elements that unique / unique_copy keep: the first of every group of consecutive equivalent ones
UniqKept(a, c) ==
    LET ix == SelectSeq([i \in 1..Len(a) |-> i], LAMBDA i : i = 1 \/ ~Eq(c, a[i - 1], a[i]))
    IN [i \in 1..Len(ix) |-> a[ix[i]]]

\* ---- outcome helpers -------------------------------------------------------------------------
DLen(x) == Len(x.a) + Len(x.b) + 2
Dst(x, s) == s \o Blanks(DLen(x) - Len(s))
O(oa, ob, od, oc, r) == [oa |-> oa, ob |-> ob, od |-> od, oc |-> oc, r |-> r]
RO(x, r) == O(x.a, x.b, <<>>, <<>>, r)               \* non-modifying algorithm returning r
InPl(x, oa, r) == O(oa, x.b, <<>>, <<>>, r)          \* modifies the first range only
ToD(x, s, r) == O(x.a, x.b, Dst(x, s), <<>>, r)      \* writes s to the destination
Frame(x, o) == o.oa = x.a /\ o.ob = x.b /\ o.od = <<>> /\ o.oc = <<>>
FrameD(x, o) == o.oa = x.a /\ o.ob = x.b /\ o.oc = <<>> /\ Len(o.od) = DLen(x)
FrameA(x, o) == o.ob = x.b /\ o.od = <<>> /\ o.oc = <<>> /\ Len(o.oa) = Len(x.a)
\* destination holds exactly e then blanks, returned iterator is one past the last element written
DstIs(x, o, e) == FrameD(x, o) /\ o.od = Dst(x, e) /\ o.r = <<Len(e)>>
\* destination holds r elements satisfying Q then blanks
DstSat(x, o, Q(_)) ==
    /\ FrameD(x, o) /\ Len(o.r) = 1 /\ o.r[1] \in 0..DLen(x)
    /\ Q(Take(o.od, o.r[1])) /\ Drop(o.od, o.r[1]) = Blanks(DLen(x) - o.r[1])

\* ---- operation classes ---------------------------------------------------------------------
FindOps == {"find", "find_if", "find_if_not"}
QuantOps == {"all_of", "any_of", "none_of"}
SortOps == {"sort", "bubble_sort", "exchange_sort", "gnome_sort"}
StableSortOps == {"stable_sort", "insertion_sort", "merge_sort"}
SetOps == {"merge", "set_union", "set_intersection", "set_difference", "set_symmetric_difference"}
NumericOps == {"iota", "accumulate", "reduce", "inner_product", "transform_reduce1", "transform_reduce2",
               "partial_sum", "adjacent_difference"}
AdaptorOps == {"rit_cmp", "rit_nav", "iter_nav", "iter_nav_ra", "iter_nav_fwd"}
AllOps == FindOps \cup QuantOps \cup SortOps \cup StableSortOps \cup SetOps \cup NumericOps \cup
    {"count", "count_if", "for_each", "for_each_n", "adjacent_find", "mismatch3", "mismatch4", "equal3", "equal4",
     "search", "search_n", "find_end", "find_first_of", "is_permutation3", "is_permutation4",
     "lexicographical_compare", "lower_bound", "upper_bound", "equal_range", "binary_search", "includes",
     "min_element", "max_element", "minmax_element", "min", "max", "minmax", "clamp",
     "is_sorted", "is_sorted_until", "is_partitioned", "partition_point",
     "copy", "copy_if", "copy_n", "copy_backward", "move", "move_backward", "fill", "fill_n", "generate",
     "generate_n", "transform1", "transform2", "replace", "replace_if", "reverse", "reverse_copy", "rotate",
     "rotate_copy", "swap_ranges", "iter_swap", "inplace_merge", "unique", "unique_copy", "remove", "remove_if",
     "remove_copy", "remove_copy_if", "partition", "stable_partition", "partition_copy", "shift_left",
     "shift_right", "partial_sort", "nth_element",
     \* the same algorithms through the library's iterator adaptors / searcher
     "search_s", "copy_back", "copy_rev"} \cup AdaptorOps

\* [reverse.iterators] and [iterator.operations] themselves: a = one sequence per length, m encodes
\* two positions (i * 8 + j) resp. a position and an offset (i * 16 + k + 8); results that would leave
\* [first, last] are not executed and recorded as NA
NA == -99
InR(p, n) == IF p \in 0..n THEN p ELSE NA
NavI(x) == x.m \div 16
NavK(x) == (x.m % 16) - 8

\* the predicate an operation applies to single elements of a
Sat(op, x, e) ==
    CASE op \in {"find", "count", "remove", "remove_copy", "replace"} -> Key(e) = x.v
      [] op = "find_if_not" -> ~U(x.c, e)
      [] OTHER -> U(x.c, e)

\* =============================================================================================
\* Post: the standard's postcondition
\* =============================================================================================
Post(op, x, o) ==
    LET a == x.a b == x.b c == x.c m == x.m n == Len(x.a) nb == Len(x.b) r == o.r IN
    CASE op \in FindOps ->
            \* [alg.find] Returns: the first iterator i in [first,last) for which E holds, last otherwise
            Frame(x, o) /\ r = <<FirstD(n, LAMBDA i : Sat(op, x, a[i + 1]))>>
      [] op = "all_of" -> Frame(x, o) /\ r = <<B2I(\A i \in 1..n : U(c, a[i]))>>
      [] op = "any_of" -> Frame(x, o) /\ r = <<B2I(\E i \in 1..n : U(c, a[i]))>>
      [] op = "none_of" -> Frame(x, o) /\ r = <<B2I(\A i \in 1..n : ~U(c, a[i]))>>
      [] op \in {"count", "count_if"} ->
            Frame(x, o) /\ r = <<Cardinality({i \in 1..n : Sat(op, x, a[i])})>>
      [] op = "for_each" ->
            \* applies f to every element in order, starting from first; returns f
            FrameA(x, o) /\ o.oa = [i \in 1..n |-> T1(a[i])] /\ r = <<n>> \o a
      [] op = "for_each_n" ->
            FrameA(x, o) /\ o.oa = [i \in 1..n |-> IF i <= m THEN T1(a[i]) ELSE a[i]] /\ r = <<m>> \o Take(a, m)
      [] op = "adjacent_find" ->
            Frame(x, o) /\ r = <<IF n = 0 THEN 0 ELSE
                                   LET S == {i \in 0..(n - 2) : Eq(c, a[i + 1], a[i + 2])} IN IF S = {} THEN n ELSE MinS(S)>>
      [] op \in {"mismatch3", "mismatch4"} ->
            \* first i with !pred(*i, *(first2 + (i - first1))), at most min(last1-first1, last2-first2)
            LET k == IF op = "mismatch3" THEN n ELSE Min2(n, nb)
                j == FirstD(k, LAMBDA i : ~Eq(c, a[i + 1], b[i + 1])) IN
            Frame(x, o) /\ r = <<j, j>>
      [] op = "equal3" -> Frame(x, o) /\ r = <<B2I(\A i \in 1..n : Eq(c, a[i], b[i]))>>
      [] op = "equal4" ->
            \* [alg.equal] if last1 - first1 != last2 - first2 return false
            Frame(x, o) /\ r = <<B2I(n = nb /\ \A i \in 1..n : Eq(c, a[i], b[i]))>>
      [] op \in {"search", "search_s"} ->
            \* first i such that for every n < s_last - s_first: pred(*(i + n), *(s_first + n));
            \* first if the pattern is empty, last if no such iterator
            Frame(x, o) /\ r = <<IF Occ(a, b, c) = {} THEN n ELSE MinS(Occ(a, b, c))>>
      [] op = "find_end" ->
            \* last such i; last if the pattern is empty or not found
            Frame(x, o) /\ r = <<IF nb = 0 \/ Occ(a, b, c) = {} THEN n ELSE MaxS(Occ(a, b, c))>>
      [] op = "search_n" ->
            \* first i such that for every n < count: pred(*(i + n), value); first if count <= 0
            Frame(x, o) /\ r = <<IF m <= 0 THEN 0
                                 ELSE IF Runs(a, m, c, VC(x)) = {} THEN n ELSE MinS(Runs(a, m, c, VC(x)))>>
      [] op = "find_first_of" ->
            Frame(x, o) /\ r = <<FirstD(n, LAMBDA i : \E j \in 1..nb : Eq(c, a[i + 1], b[j]))>>
      [] op \in {"is_permutation3", "is_permutation4"} ->
            \* there is a permutation of the second range equal to the first (operator==)
            Frame(x, o) /\ r = <<B2I(n = nb /\ \A k \in 0..2 :
                                        Cardinality({i \in 1..n : Key(a[i]) = k}) = Cardinality({i \in 1..nb : Key(b[i]) = k}))>>
      [] op = "lexicographical_compare" -> Frame(x, o) /\ r = <<B2I(LexD(a, b, c))>>
      [] op = "lower_bound" ->
            \* furthermost i in [first,last] such that for every j in [first,i): comp(*j, value)
            Frame(x, o) /\ r = <<MaxS({i \in 0..n : \A j \in 1..i : Lt(c, a[j], VC(x))})>>
      [] op = "upper_bound" ->
            Frame(x, o) /\ r = <<MaxS({i \in 0..n : \A j \in 1..i : ~Lt(c, VC(x), a[j])})>>
      [] op = "equal_range" ->
            Frame(x, o) /\ r = <<MaxS({i \in 0..n : \A j \in 1..i : Lt(c, a[j], VC(x))}),
                                 MaxS({i \in 0..n : \A j \in 1..i : ~Lt(c, VC(x), a[j])})>>
      [] op = "binary_search" -> Frame(x, o) /\ r = <<B2I(\E i \in 1..n : Equiv(c, a[i], VC(x)))>>
      [] op = "includes" ->
            \* [includes] true iff [first2,last2) is a subsequence of [first1,last1) (both sorted)
            Frame(x, o) /\ r = <<B2I(\A j \in 1..nb : CntEq(b, c, b[j]) <= CntEq(a, c, b[j]))>>
      [] op = "min_element" ->
            \* first i such that for every j: !(comp(*j, *i)); last if empty
            Frame(x, o) /\ r = <<IF n = 0 THEN 0 ELSE MinS({i \in 0..(n - 1) : \A j \in 1..n : ~Lt(c, a[j], a[i + 1])})>>
      [] op = "max_element" ->
            Frame(x, o) /\ r = <<IF n = 0 THEN 0 ELSE MinS({i \in 0..(n - 1) : \A j \in 1..n : ~Lt(c, a[i + 1], a[j])})>>
      [] op = "minmax_element" ->
            \* {first, first} if empty, else {first smallest, LAST largest}
            Frame(x, o) /\ r = IF n = 0 THEN <<0, 0>>
                               ELSE <<MinS({i \in 0..(n - 1) : \A j \in 1..n : ~Lt(c, a[j], a[i + 1])}),
                                      MaxS({i \in 0..(n - 1) : \A j \in 1..n : ~Lt(c, a[i + 1], a[j])})>>
      [] op = "min" -> Frame(x, o) /\ r = <<IF Lt(c, a[2], a[1]) THEN a[2] ELSE a[1]>>   \* first argument on ties
      [] op = "max" -> Frame(x, o) /\ r = <<IF Lt(c, a[1], a[2]) THEN a[2] ELSE a[1]>>   \* first argument on ties
      [] op = "minmax" -> Frame(x, o) /\ r = IF Lt(c, a[2], a[1]) THEN <<a[2], a[1]>> ELSE <<a[1], a[2]>>
      [] op = "clamp" ->  \* a = <<v, lo, hi>>: lo if v < lo, hi if hi < v, otherwise v
            Frame(x, o) /\ r = <<IF Lt(c, a[1], a[2]) THEN a[2] ELSE IF Lt(c, a[3], a[1]) THEN a[3] ELSE a[1]>>
      [] op = "is_sorted" -> Frame(x, o) /\ r = <<B2I(SortedD(a, c))>>
      [] op = "is_sorted_until" ->
            \* the last iterator i in [first,last] for which [first,i) is sorted
            Frame(x, o) /\ r = <<MaxS({i \in 0..n : SortedD(Take(a, i), c)})>>
      [] op = "is_partitioned" -> Frame(x, o) /\ r = <<B2I(PartitionedD(a, c))>>
      [] op = "partition_point" ->
            \* mid such that all_of(first, mid, pred) and none_of(mid, last, pred)
            /\ Frame(x, o) /\ Len(r) = 1 /\ r[1] \in 0..n
            /\ (\A i \in 1..r[1] : U(c, a[i])) /\ (\A i \in (r[1] + 1)..n : ~U(c, a[i]))
      [] op \in {"copy", "copy_back"} -> DstIs(x, o, a)
      [] op = "copy_if" -> DstIs(x, o, Filter(a, LAMBDA e : U(c, e)))
      [] op = "copy_n" -> DstIs(x, o, Take(a, Max2(m, 0)))
      [] op = "copy_backward" ->
            \* d_last = destination + n + 1; returns result - (last - first)
            FrameD(x, o) /\ o.od = Dst(x, <<Blank>> \o a) /\ r = <<1>>
      [] op = "move" ->
            \* source elements are left valid but unspecified
            /\ o.ob = b /\ o.oc = <<>> /\ Len(o.oa) = n /\ o.od = Dst(x, a) /\ r = <<n>>
      [] op = "move_backward" ->
            /\ o.ob = b /\ o.oc = <<>> /\ Len(o.oa) = n /\ o.od = Dst(x, <<Blank>> \o a) /\ r = <<1>>
      [] op = "fill" -> FrameA(x, o) /\ o.oa = [i \in 1..n |-> VC(x)] /\ r = <<>>
      [] op = "fill_n" ->
            FrameA(x, o) /\ o.oa = [i \in 1..n |-> IF i <= m THEN VC(x) ELSE a[i]] /\ r = <<Max2(m, 0)>>
      [] op = "generate" -> FrameA(x, o) /\ o.oa = [i \in 1..n |-> G(i)] /\ r = <<n>>
      [] op = "generate_n" ->
            FrameA(x, o) /\ o.oa = [i \in 1..n |-> IF i <= m THEN G(i) ELSE a[i]] /\ r = <<Max2(m, 0), Max2(m, 0)>>
      [] op = "transform1" -> DstIs(x, o, [i \in 1..n |-> T1(a[i])])
      [] op = "transform2" -> DstIs(x, o, [i \in 1..n |-> T2(a[i], b[i])])
      [] op \in {"replace", "replace_if"} ->
            FrameA(x, o) /\ o.oa = [i \in 1..n |-> IF Sat(op, x, a[i]) THEN m * 16 + 7 ELSE a[i]] /\ r = <<>>
      [] op = "reverse" -> FrameA(x, o) /\ (\A i \in 1..n : o.oa[i] = a[n + 1 - i]) /\ r = <<>>
      [] op \in {"reverse_copy", "copy_rev"} -> DstIs(x, o, [i \in 1..n |-> a[n + 1 - i]])
      [] op = "rotate" ->
            \* places the element from position first + (i + (middle - first)) % (last - first) into
            \* position first + i; returns first + (last - middle)
            FrameA(x, o) /\ (\A i \in 0..(n - 1) : o.oa[i + 1] = a[((i + m) % n) + 1]) /\ r = <<n - m>>
      [] op = "rotate_copy" -> DstIs(x, o, [i \in 1..n |-> a[((i - 1 + m) % n) + 1]])
      [] op = "swap_ranges" -> o.oa = b /\ o.ob = a /\ o.od = <<>> /\ o.oc = <<>> /\ r = <<n>>
      [] op = "iter_swap" -> FrameA(x, o) /\ o.oa = <<a[2], a[1]>> /\ r = <<>>
      [] op \in SetOps ->
            \* sorted, stable (first range before second among equivalents), copies taken as [set.*] says
            DstSat(x, o, LAMBDA e : StableSorted(e, SetSrc(op, a, b, c), c))
      [] op = "inplace_merge" -> FrameA(x, o) /\ StableSorted(o.oa, a, c) /\ r = <<>>
      [] op = "unique" ->
            \* returns the end of the resulting range; the tail is valid but unspecified
            LET k == UniqKept(a, c) IN FrameA(x, o) /\ r = <<Len(k)>> /\ Take(o.oa, Len(k)) = k
      [] op = "unique_copy" -> DstIs(x, o, UniqKept(a, c))
      [] op \in {"remove", "remove_if"} ->
            LET k == Filter(a, LAMBDA e : ~Sat(op, x, e)) IN FrameA(x, o) /\ r = <<Len(k)>> /\ Take(o.oa, Len(k)) = k
      [] op \in {"remove_copy", "remove_copy_if"} -> DstIs(x, o, Filter(a, LAMBDA e : ~Sat(op, x, e)))
      [] op = "partition" ->
            /\ FrameA(x, o) /\ Perm(o.oa, a) /\ Len(r) = 1 /\ r[1] \in 0..n
            /\ (\A i \in 1..r[1] : U(c, o.oa[i])) /\ (\A i \in (r[1] + 1)..n : ~U(c, o.oa[i]))
      [] op = "stable_partition" ->
            LET t == Filter(a, LAMBDA e : U(c, e)) IN
            FrameA(x, o) /\ o.oa = t \o Filter(a, LAMBDA e : ~U(c, e)) /\ r = <<Len(t)>>
      [] op = "partition_copy" ->
            LET t == Filter(a, LAMBDA e : U(c, e)) f == Filter(a, LAMBDA e : ~U(c, e)) IN
            o.oa = a /\ o.ob = b /\ o.od = Dst(x, t) /\ o.oc = Dst(x, f) /\ r = <<Len(t), Len(f)>>
      [] op = "shift_left" ->
            \* [alg.shift] n == 0 or n >= last - first: does nothing
            IF m = 0 \/ m >= n THEN FrameA(x, o) /\ o.oa = a /\ r = <<IF m < n THEN n - m ELSE 0>>
            ELSE FrameA(x, o) /\ Take(o.oa, n - m) = Drop(a, m) /\ r = <<n - m>>
      [] op = "shift_right" ->
            IF m = 0 \/ m >= n THEN FrameA(x, o) /\ o.oa = a /\ r = <<IF m < n THEN m ELSE n>>
            ELSE FrameA(x, o) /\ Drop(o.oa, m) = Take(a, n - m) /\ r = <<m>>
      [] op \in SortOps -> FrameA(x, o) /\ Perm(o.oa, a) /\ SortedD(o.oa, c) /\ r = <<>>
      [] op \in StableSortOps -> FrameA(x, o) /\ StableSorted(o.oa, a, c) /\ r = <<>>
      [] op = "partial_sort" ->
            /\ FrameA(x, o) /\ Perm(o.oa, a) /\ SortedD(Take(o.oa, m), c) /\ r = <<>>
            /\ \A i \in 1..m : \A j \in (m + 1)..n : ~Lt(c, o.oa[j], o.oa[i])
      [] op = "nth_element" ->
            /\ FrameA(x, o) /\ Perm(o.oa, a) /\ r = <<>>
            /\ \A i \in 1..m : \A j \in (m + 1)..n : ~Lt(c, o.oa[j], o.oa[i])
            /\ \A j \in (m + 2)..n : ~Lt(c, o.oa[j], o.oa[m + 1])
      \* ---- iterator adaptors -----------------------------------------------------------------
      [] op = "rit_cmp" ->
            \* [reverse.iter.cmp] x == y iff x.current == y.current, x < y iff x.current > y.current, ...
            \* [reverse.iter.nonmember] x - y = y.current - x.current; base() returns current
            LET i == m \div 8 j == m % 8 IN
            Frame(x, o) /\ r = <<B2I(i = j), B2I(i # j), B2I(i > j), B2I(i >= j), B2I(i < j), B2I(i <= j), j - i, i, j>>
      [] op = "rit_nav" ->
            \* [reverse.iter.nav] it + n = reverse_iterator(current - n), it - n = (current + n), ++ decrements
            \* current; [reverse.iter.elem] *it = *prev(current), it[n] = current[-n - 1]
            \* r = <<it + k, k + it, it += k, it - k, it -= k, it[k], *it, it->, ++it, it++ (result, it), --it, it-- (result, it)>>
            LET i == NavI(x) k == NavK(x) IN
            Frame(x, o) /\ r = <<InR(i - k, n), InR(i - k, n), InR(i - k, n), InR(i + k, n), InR(i + k, n),
                                  IF i - k \in 1..n THEN a[i - k] ELSE NA,
                                  IF i \in 1..n THEN a[i] ELSE NA, IF i \in 1..n THEN a[i] ELSE NA,
                                  IF i >= 1 THEN i - 1 ELSE NA, IF i >= 1 THEN i ELSE NA, IF i >= 1 THEN i - 1 ELSE NA,
                                  IF i < n THEN i + 1 ELSE NA, IF i < n THEN i ELSE NA, IF i < n THEN i + 1 ELSE NA>>
      [] op \in {"iter_nav", "iter_nav_ra", "iter_nav_fwd"} ->
            \* [iterator.operations] advance(i, n) increments (or decrements for negative n) i by n;
            \* next(x, n = 1): advance(x, n); prev(x, n = 1): advance(x, -n); distance: number of increments
            \* needed to get from first to last (negative only for random access iterators)
            \* r = <<next(it, k), advance(it, k), prev(it, k), distance(it, it + k), next(it), prev(it)>>
            LET i == NavI(x) k == NavK(x) back == op # "iter_nav_fwd" neg == op = "iter_nav_ra" IN
            Frame(x, o) /\ r = <<InR(i + k, n), InR(i + k, n), IF back THEN InR(i - k, n) ELSE NA,
                                  IF i + k \in 0..n /\ (k >= 0 \/ neg) THEN k ELSE NA,
                                  IF i < n THEN i + 1 ELSE NA, IF back /\ i > 0 THEN i - 1 ELSE NA>>
      \* ---- <numeric>: elements are plain integers ------------------------------------------
      [] op = "iota" -> FrameA(x, o) /\ o.oa = [i \in 1..n |-> x.v + i - 1] /\ r = <<>>
      [] op = "accumulate" ->
            Frame(x, o) /\ r = <<IF c = 0 THEN x.v + SumTo(n, LAMBDA i : a[i])
                                 ELSE LET f[i \in 0..n] == IF i = 0 THEN x.v ELSE OpA(f[i - 1], a[i]) IN f[n]>>
      [] op = "reduce" ->   \* GENERALIZED_SUM: only commutative + associative operations are used
            Frame(x, o) /\ r = <<IF c = 2 THEN (x.v + SumTo(n, LAMBDA i : a[i])) % 7 ELSE x.v + SumTo(n, LAMBDA i : a[i])>>
      [] op = "inner_product" ->
            Frame(x, o) /\ r = <<IF c = 0 THEN x.v + SumTo(n, LAMBDA i : a[i] * b[i])
                                 ELSE LET f[i \in 0..n] == IF i = 0 THEN x.v ELSE OpA(f[i - 1], OpB(a[i], b[i])) IN f[n]>>
      [] op = "transform_reduce2" ->
            Frame(x, o) /\ r = <<IF c = 0 THEN x.v + SumTo(n, LAMBDA i : a[i] * b[i])
                                 ELSE (x.v + SumTo(n, LAMBDA i : OpB(a[i], b[i]))) % 7>>
      [] op = "transform_reduce1" -> Frame(x, o) /\ r = <<(x.v + SumTo(n, LAMBDA i : TU(a[i]))) % 7>>
      [] op = "partial_sum" ->
            LET f[i \in 1..n] == IF i = 1 THEN a[1] ELSE IF c = 0 THEN f[i - 1] + a[i] ELSE OpA(f[i - 1], a[i]) IN
            DstIs(x, o, [i \in 1..n |-> f[i]])
      [] op = "adjacent_difference" ->
            DstIs(x, o, [i \in 1..n |-> IF i = 1 THEN a[1] ELSE IF c = 0 THEN a[i] - a[i - 1] ELSE OpA(a[i], a[i - 1])])

\* =============================================================================================
\* Ref: operational reference (the textbook loops)
\* =============================================================================================
\* linear scan: first 0-based index >= from with P, else n
Scan(n, from, P(_)) == LET f[i \in from..n] == IF i = n THEN n ELSE IF P(i) THEN i ELSE f[i + 1] IN f[from]
CountIf(n, P(_)) == LET f[i \in 0..n] == IF i = 0 THEN 0 ELSE f[i - 1] + B2I(P(i)) IN f[n]
RECURSIVE InsInto(_, _, _)
InsInto(s, e, c) ==   \* stable insertion of e into the sorted s (after its equivalents)
    IF s = <<>> THEN <<e>>
    ELSE IF Lt(c, e, Head(s)) THEN <<e>> \o s ELSE <<Head(s)>> \o InsInto(Tail(s), e, c)
RECURSIVE InsSort(_, _)
InsSort(s, c) == IF s = <<>> THEN <<>> ELSE InsInto(InsSort(Take(s, Len(s) - 1), c), s[Len(s)], c)
\* the two-finger walks of [alg.merge] / [alg.set.operations]
RECURSIVE Walk(_, _, _, _)
Walk(op, a, b, c) ==
    IF a = <<>> THEN (IF op \in {"merge", "set_union", "set_symmetric_difference"} THEN b ELSE <<>>)
    ELSE IF b = <<>> THEN (IF op = "set_intersection" THEN <<>> ELSE a)
    ELSE IF Lt(c, Head(b), Head(a))
         THEN (IF op \in {"merge", "set_union", "set_symmetric_difference"} THEN <<Head(b)>> ELSE <<>>) \o Walk(op, a, Tail(b), c)
    ELSE IF Lt(c, Head(a), Head(b)) \/ op = "merge"
         THEN (IF op = "set_intersection" THEN <<>> ELSE <<Head(a)>>) \o Walk(op, Tail(a), b, c)
    ELSE (IF op \in {"set_union", "set_intersection"} THEN <<Head(a)>> ELSE <<>>) \o Walk(op, Tail(a), Tail(b), c)
RECURSIVE IncludesW(_, _, _)
IncludesW(a, b, c) ==
    IF b = <<>> THEN TRUE
    ELSE IF a = <<>> \/ Lt(c, Head(b), Head(a)) THEN FALSE
    ELSE IF Lt(c, Head(a), Head(b)) THEN IncludesW(Tail(a), b, c) ELSE IncludesW(Tail(a), Tail(b), c)
RECURSIVE UniqW(_, _, _)
UniqW(kept, rest, c) ==   \* compares with the last element kept
    IF rest = <<>> THEN kept
    ELSE IF Eq(c, kept[Len(kept)], Head(rest)) THEN UniqW(kept, Tail(rest), c) ELSE UniqW(Append(kept, Head(rest)), Tail(rest), c)
RECURSIVE LexW(_, _, _)
LexW(a, b, c) ==
    IF b = <<>> THEN FALSE ELSE IF a = <<>> THEN TRUE
    ELSE IF Lt(c, Head(a), Head(b)) THEN TRUE ELSE IF Lt(c, Head(b), Head(a)) THEN FALSE ELSE LexW(Tail(a), Tail(b), c)
RECURSIVE RevW(_)
RevW(s) == IF s = <<>> THEN <<>> ELSE Append(RevW(Tail(s)), Head(s))
MovedFrom(s) == [i \in 1..Len(s) |-> 9 * 16 + Tag(s[i])]
FoldL(n, init, F(_, _)) == LET f[i \in 0..n] == IF i = 0 THEN init ELSE F(f[i - 1], i) IN f[n]
\* index of the extreme element by a left-to-right scan; strict: keep the first, ~strict: keep the last
ScanBest(a, c, wantMax, keepLast) ==
    FoldL(Len(a), 0, LAMBDA best, i :
        IF i = 1 THEN 0
        ELSE LET cur == a[i] bst == a[best + 1]
                 better == IF wantMax THEN (IF keepLast THEN ~Lt(c, cur, bst) ELSE Lt(c, bst, cur))
                                      ELSE (IF keepLast THEN ~Lt(c, bst, cur) ELSE Lt(c, cur, bst))
             IN IF better THEN i - 1 ELSE best)

Ref(op, x) ==
    LET a == x.a b == x.b c == x.c m == x.m n == Len(x.a) nb == Len(x.b) IN
    CASE op \in FindOps -> RO(x, <<Scan(n, 0, LAMBDA i : Sat(op, x, a[i + 1]))>>)
      [] op = "all_of" -> RO(x, <<B2I(Scan(n, 0, LAMBDA i : ~U(c, a[i + 1])) = n)>>)
      [] op = "any_of" -> RO(x, <<B2I(Scan(n, 0, LAMBDA i : U(c, a[i + 1])) # n)>>)
      [] op = "none_of" -> RO(x, <<B2I(Scan(n, 0, LAMBDA i : U(c, a[i + 1])) = n)>>)
      [] op \in {"count", "count_if"} -> RO(x, <<CountIf(n, LAMBDA i : Sat(op, x, a[i]))>>)
      [] op = "for_each" -> InPl(x, [i \in 1..n |-> T1(a[i])], <<n>> \o a)
      [] op = "for_each_n" -> InPl(x, [i \in 1..n |-> IF i <= m THEN T1(a[i]) ELSE a[i]], <<m>> \o Take(a, m))
      [] op = "adjacent_find" ->
            RO(x, <<IF n = 0 THEN 0 ELSE LET j == Scan(n - 1, 0, LAMBDA i : Eq(c, a[i + 1], a[i + 2])) IN IF j = n - 1 THEN n ELSE j>>)
      [] op \in {"mismatch3", "mismatch4"} ->
            LET k == IF op = "mismatch3" THEN n ELSE Min2(n, nb) j == Scan(k, 0, LAMBDA i : ~Eq(c, a[i + 1], b[i + 1])) IN RO(x, <<j, j>>)
      [] op = "equal3" -> RO(x, <<B2I(Scan(n, 0, LAMBDA i : ~Eq(c, a[i + 1], b[i + 1])) = n)>>)
      [] op = "equal4" -> RO(x, <<B2I(n = nb /\ Scan(n, 0, LAMBDA i : ~Eq(c, a[i + 1], b[i + 1])) = n)>>)
      [] op \in {"search", "search_s"} ->
            RO(x, <<IF nb > n THEN n ELSE
                      LET j == Scan(n - nb + 1, 0, LAMBDA i : Scan(nb, 0, LAMBDA k : ~Eq(c, a[i + k + 1], b[k + 1])) = nb)
                      IN IF j = n - nb + 1 THEN n ELSE j>>)
      [] op = "find_end" ->
            RO(x, <<IF nb = 0 \/ nb > n THEN n ELSE
                      FoldL(n - nb + 1, n, LAMBDA res, i :
                            IF Scan(nb, 0, LAMBDA k : ~Eq(c, a[i + k], b[k + 1])) = nb THEN i - 1 ELSE res)>>)
      [] op = "search_n" ->
            RO(x, <<IF m <= 0 THEN 0 ELSE IF m > n THEN n ELSE
                      LET j == Scan(n - m + 1, 0, LAMBDA i : Scan(m, 0, LAMBDA k : ~Eq(c, a[i + k + 1], VC(x))) = m)
                      IN IF j = n - m + 1 THEN n ELSE j>>)
      [] op = "find_first_of" -> RO(x, <<Scan(n, 0, LAMBDA i : Scan(nb, 0, LAMBDA k : Eq(c, a[i + 1], b[k + 1])) # nb)>>)
      [] op \in {"is_permutation3", "is_permutation4"} ->
            \* sort both by key and compare the key sequences
            LET sa == InsSort(a, 1) sb == InsSort(b, 1) IN
            RO(x, <<B2I(n = nb /\ \A i \in 1..n : Key(sa[i]) = Key(sb[i]))>>)
      [] op = "lexicographical_compare" -> RO(x, <<B2I(LexW(a, b, c))>>)
      [] op = "lower_bound" -> RO(x, <<CountIf(n, LAMBDA i : Lt(c, a[i], VC(x)))>>)
      [] op = "upper_bound" -> RO(x, <<CountIf(n, LAMBDA i : ~Lt(c, VC(x), a[i]))>>)
      [] op = "equal_range" -> RO(x, <<CountIf(n, LAMBDA i : Lt(c, a[i], VC(x))), CountIf(n, LAMBDA i : ~Lt(c, VC(x), a[i]))>>)
      [] op = "binary_search" ->
            LET lb == CountIf(n, LAMBDA i : Lt(c, a[i], VC(x))) IN RO(x, <<B2I(lb < n /\ ~Lt(c, VC(x), a[lb + 1]))>>)
      [] op = "includes" -> RO(x, <<B2I(IncludesW(a, b, c))>>)
      [] op = "min_element" -> RO(x, <<ScanBest(a, c, FALSE, FALSE)>>)
      [] op = "max_element" -> RO(x, <<ScanBest(a, c, TRUE, FALSE)>>)
      [] op = "minmax_element" -> RO(x, <<ScanBest(a, c, FALSE, FALSE), ScanBest(a, c, TRUE, TRUE)>>)
      [] op = "min" -> RO(x, <<IF Lt(c, a[2], a[1]) THEN a[2] ELSE a[1]>>)
      [] op = "max" -> RO(x, <<IF Lt(c, a[1], a[2]) THEN a[2] ELSE a[1]>>)
      [] op = "minmax" -> RO(x, IF Lt(c, a[2], a[1]) THEN <<a[2], a[1]>> ELSE <<a[1], a[2]>>)
      [] op = "clamp" -> RO(x, <<IF Lt(c, a[1], a[2]) THEN a[2] ELSE IF Lt(c, a[3], a[1]) THEN a[3] ELSE a[1]>>)
      [] op = "is_sorted" -> RO(x, <<B2I(n < 2 \/ Scan(n - 1, 0, LAMBDA i : Lt(c, a[i + 2], a[i + 1])) = n - 1)>>)
      [] op = "is_sorted_until" ->
            RO(x, <<IF n < 2 THEN n ELSE Scan(n - 1, 0, LAMBDA i : Lt(c, a[i + 2], a[i + 1])) + 1>>)
      [] op = "is_partitioned" ->
            LET k == Scan(n, 0, LAMBDA i : ~U(c, a[i + 1])) IN RO(x, <<B2I(Scan(n, k, LAMBDA i : U(c, a[i + 1])) = n)>>)
      [] op = "partition_point" -> RO(x, <<Scan(n, 0, LAMBDA i : ~U(c, a[i + 1]))>>)
      [] op \in {"copy", "copy_back"} -> ToD(x, a, <<n>>)
      [] op = "copy_if" -> LET s == Filter(a, LAMBDA e : U(c, e)) IN ToD(x, s, <<Len(s)>>)
      [] op = "copy_n" -> ToD(x, Take(a, Max2(m, 0)), <<Max2(m, 0)>>)
      [] op = "copy_backward" -> ToD(x, <<Blank>> \o a, <<1>>)
      [] op = "move" -> O(MovedFrom(a), b, Dst(x, a), <<>>, <<n>>)
      [] op = "move_backward" -> O(MovedFrom(a), b, Dst(x, <<Blank>> \o a), <<>>, <<1>>)
      [] op = "fill" -> InPl(x, [i \in 1..n |-> VC(x)], <<>>)
      [] op = "fill_n" -> InPl(x, [i \in 1..Max2(m, 0) |-> VC(x)] \o Drop(a, Max2(m, 0)), <<Max2(m, 0)>>)
      [] op = "generate" -> InPl(x, [i \in 1..n |-> G(i)], <<n>>)
      [] op = "generate_n" -> InPl(x, [i \in 1..Max2(m, 0) |-> G(i)] \o Drop(a, Max2(m, 0)), <<Max2(m, 0), Max2(m, 0)>>)
      [] op = "transform1" -> ToD(x, [i \in 1..n |-> T1(a[i])], <<n>>)
      [] op = "transform2" -> ToD(x, [i \in 1..n |-> T2(a[i], b[i])], <<n>>)
      [] op \in {"replace", "replace_if"} -> InPl(x, [i \in 1..n |-> IF Sat(op, x, a[i]) THEN m * 16 + 7 ELSE a[i]], <<>>)
      [] op = "reverse" -> InPl(x, RevW(a), <<>>)
      [] op \in {"reverse_copy", "copy_rev"} -> ToD(x, RevW(a), <<n>>)
      [] op = "rotate" -> InPl(x, Drop(a, m) \o Take(a, m), <<n - m>>)
      [] op = "rotate_copy" -> ToD(x, Drop(a, m) \o Take(a, m), <<n>>)
      [] op = "swap_ranges" -> O(b, a, <<>>, <<>>, <<n>>)
      [] op = "iter_swap" -> InPl(x, <<a[2], a[1]>>, <<>>)
      [] op \in SetOps -> LET s == Walk(op, a, b, c) IN ToD(x, s, <<Len(s)>>)
      [] op = "inplace_merge" -> InPl(x, Walk("merge", Take(a, m), Drop(a, m), c), <<>>)
      [] op = "unique" ->
            LET k == IF n = 0 THEN <<>> ELSE UniqW(<<a[1]>>, Tail(a), c) IN InPl(x, k \o Drop(a, Len(k)), <<Len(k)>>)
      [] op = "unique_copy" -> LET k == IF n = 0 THEN <<>> ELSE UniqW(<<a[1]>>, Tail(a), c) IN ToD(x, k, <<Len(k)>>)
      [] op \in {"remove", "remove_if"} ->
            LET k == Filter(a, LAMBDA e : ~Sat(op, x, e)) IN InPl(x, k \o Drop(a, Len(k)), <<Len(k)>>)
      [] op \in {"remove_copy", "remove_copy_if"} -> LET k == Filter(a, LAMBDA e : ~Sat(op, x, e)) IN ToD(x, k, <<Len(k)>>)
      [] op \in {"partition", "stable_partition"} ->
            LET t == Filter(a, LAMBDA e : U(c, e)) IN InPl(x, t \o Filter(a, LAMBDA e : ~U(c, e)), <<Len(t)>>)
      [] op = "partition_copy" ->
            LET t == Filter(a, LAMBDA e : U(c, e)) f == Filter(a, LAMBDA e : ~U(c, e)) IN
            O(a, b, Dst(x, t), Dst(x, f), <<Len(t), Len(f)>>)
      [] op = "shift_left" ->
            IF m = 0 THEN InPl(x, a, <<n>>) ELSE IF m >= n THEN InPl(x, a, <<0>>)
            ELSE InPl(x, Drop(a, m) \o MovedFrom(Drop(a, n - m)), <<n - m>>)
      [] op = "shift_right" ->
            IF m = 0 THEN InPl(x, a, <<0>>) ELSE IF m >= n THEN InPl(x, a, <<n>>)
            ELSE InPl(x, MovedFrom(Take(a, m)) \o Take(a, n - m), <<m>>)
      [] op \in SortOps \cup StableSortOps \cup {"partial_sort", "nth_element"} -> InPl(x, InsSort(a, c), <<>>)
      [] op = "rit_cmp" ->
            \* a reverse iterator with base position i stands at position n - i of the reversed view;
            \* iterators into one sequence compare like their positions
            LET pi == n - (m \div 8) pj == n - (m % 8) IN
            RO(x, <<B2I(pi = pj), B2I(pi # pj), B2I(pi < pj), B2I(pi <= pj), B2I(pi > pj), B2I(pi >= pj), pi - pj, n - pi, n - pj>>)
      [] op = "rit_nav" ->
            LET V == RevW(a) q == n - NavI(x) k == NavK(x)
                At(p) == IF p \in 0..n THEN n - p ELSE NA            \* base of the iterator at view position p
                El(p) == IF p \in 0..(n - 1) THEN V[p + 1] ELSE NA IN
            RO(x, <<At(q + k), At(q + k), At(q + k), At(q - k), At(q - k), El(q + k), El(q), El(q),
                    At(q + 1), IF q < n THEN n - q ELSE NA, At(q + 1), At(q - 1), IF q > 0 THEN n - q ELSE NA, At(q - 1)>>)
      [] op \in {"iter_nav", "iter_nav_ra", "iter_nav_fwd"} ->
            LET i == NavI(x) k == NavK(x) back == op # "iter_nav_fwd" neg == op = "iter_nav_ra"
                Walk1[t \in (-8)..8] == IF t = 0 THEN i ELSE IF t > 0 THEN Walk1[t - 1] + 1 ELSE Walk1[t + 1] - 1
                Go(t) == IF Walk1[t] \in 0..n THEN Walk1[t] ELSE NA IN
            RO(x, <<Go(k), Go(k), IF back THEN Go(0 - k) ELSE NA,
                    IF Go(k) = NA \/ (k < 0 /\ ~neg) THEN NA
                    ELSE IF k >= 0 THEN Cardinality(i..(i + k - 1)) ELSE 0 - Cardinality((i + k)..(i - 1)),
                    Go(1), IF back THEN Go(-1) ELSE NA>>)
      [] op = "iota" -> InPl(x, [i \in 1..n |-> x.v + i - 1], <<>>)
      [] op = "accumulate" -> RO(x, <<FoldL(n, x.v, LAMBDA acc, i : IF c = 0 THEN acc + a[i] ELSE OpA(acc, a[i]))>>)
      [] op = "reduce" -> RO(x, <<FoldL(n, x.v, LAMBDA acc, i : IF c = 2 THEN OpS(acc, a[i]) ELSE acc + a[i])>>)
      [] op = "inner_product" ->
            RO(x, <<FoldL(n, x.v, LAMBDA acc, i : IF c = 0 THEN acc + a[i] * b[i] ELSE OpA(acc, OpB(a[i], b[i])))>>)
      [] op = "transform_reduce2" ->
            RO(x, <<FoldL(n, x.v, LAMBDA acc, i : IF c = 0 THEN acc + a[i] * b[i] ELSE OpS(acc, OpB(a[i], b[i])))>>)
      [] op = "transform_reduce1" -> RO(x, <<FoldL(n, x.v, LAMBDA acc, i : OpS(acc, TU(a[i])))>>)
      [] op = "partial_sum" ->
            ToD(x, [i \in 1..n |-> FoldL(i, 0, LAMBDA acc, j : IF j = 1 THEN a[1] ELSE IF c = 0 THEN acc + a[j] ELSE OpA(acc, a[j]))], <<n>>)
      [] op = "adjacent_difference" ->
            ToD(x, [i \in 1..n |-> IF i = 1 THEN a[1] ELSE IF c = 0 THEN a[i] - a[i - 1] ELSE OpA(a[i], a[i - 1])], <<n>>)

\* operations whose only observable result is the return value: Post must determine it uniquely
RetOnlyOps == FindOps \cup QuantOps \cup
    {"count", "count_if", "adjacent_find", "mismatch3", "mismatch4", "equal3", "equal4", "search", "search_s", "search_n",
     "find_end", "find_first_of", "is_permutation3", "is_permutation4", "lexicographical_compare", "lower_bound",
     "upper_bound", "equal_range", "binary_search", "includes", "min_element", "max_element", "minmax_element",
     "is_sorted", "is_sorted_until", "is_partitioned", "partition_point"}

\* every element a predicate / comparator may be applied to: the two ranges and the value argument
PredOK(x, p) == \A i \in 1..Len(p) : p[i] \in Rng(x.a) \cup Rng(x.b) \cup {VC(x)}
=========================================================================
