----------------------------- MODULE MdTrace -----------------------------
(* Trace validation for property C19: every observation recorded from the real etl templates by        *)
(* harness/md_driver.cpp is judged by the operators of MdOps.  A deviation is printed as                *)
(* <<"DEV", line, kind, expected>>, kind = "+" separated list of the deviating members.                  *)
EXTENDS MdOps, Json, IOUtils, TLC

Tr == ndJsonDeserialize(IOEnv.TRACE)

VARIABLES l, nbad

Has(ev, f) == f \in DOMAIN ev
Chk(name, ok) == IF ok THEN "" ELSE "+" \o name
Iota(n) == [i \in 1..n |-> i - 1]
Rev(s) == [i \in 1..Len(s) |-> s[Len(s) + 1 - i]]

MapOps == {"map", "mapinfo", "elem", "mdinfo"}
\* "crash": under VH_DOMAIN_ONLY (sanitizer runs) an input line whose processing was stopped by a sanitizer, a signal or
\* the watchdog is logged as one crash event - always a deviation (every call of the driver is a valid use)
AllOps == MapOps \cup {"ext_ctor", "subext", "span", "span_obs", "eq", "crash"}

\* the driver stayed inside the domain the property quantifies over (anything else is a harness error)
Pre(ev) ==
    /\ ev.op \in AllOps
    /\ (ev.op \in MapOps =>
            /\ ev.layout \in Layouts /\ Compatible(ev.pat, ev.ext)
            /\ (ev.layout = "stride" => Len(ev.sin) = Len(ev.ext) /\ Len(ev.ext) >= 1)
            /\ (ev.layout \in {"transpose_right", "transpose_left"} => Len(ev.ext) = 2)
            /\ (ev.op \in {"map", "elem"} => InRange(ev.ext, ev.idx)))
    /\ (ev.op = "ext_ctor" => Compatible(ev.pat, ev.ext))
    /\ (ev.op = "eq" => Compatible(ev.pat, ev.ext) /\ Compatible(ev.pat2, ev.ext2) /\ ev.what \in {"extents", "right", "left"}
                        /\ (ev.what # "extents" => Len(ev.ext) = Len(ev.ext2)))
    /\ (ev.op = "subext" => Compatible(ev.pat, ev.ext) /\ SlicesOK(ev.ext, ev.slices))
    /\ (ev.op = "span" => ev.form \in {"first", "last", "subspan"} /\ SpanPre(ev.form, ev.n, ev.o, ev.c)
                          /\ (ev.sn = -1 \/ ev.sn = ev.n))

Bad(ev) ==
    CASE ev.op = "crash" -> "+trap_crash"
      [] ev.op = "map" -> Chk("mapping()", ev.off = Map(ev.layout, ev.ext, ev.sin, ev.idx))
      [] ev.op = "elem" ->
            LET off == Map(ev.layout, ev.ext, ev.sin, ev.idx) IN
            Chk("operator()", ev.addr = off) \o Chk("operator[]array", ev.addr_arr = off) \o Chk("operator[]span", ev.addr_span = off)
      [] ev.op = "mapinfo" ->
            Chk("extents", ev.xext = ev.ext) \o Chk("static_extent", ev.xstat = ev.pat)
            \o Chk("rank", ev.rank = Len(ev.ext) /\ ev.rdyn = RankDynamic(ev.pat))
            \o Chk("stride", ~Has(ev, "trap") /\ ev.strides = Strides(ev.layout, ev.ext, ev.sin))
            \o Chk("required_span_size", Has(ev, "req") => ev.req = ReqSpan(ev.layout, ev.ext, ev.sin))
            \o Chk("is_unique", ev.uniq) \o Chk("is_strided", ev.strd)
            \o Chk("is_exhaustive", Has(ev, "exh") => ev.exh)
      [] ev.op = "mdinfo" ->
            Chk("size", ev.size = Size(ev.ext)) \o Chk("empty", ev.empty = (Size(ev.ext) = 0)) \o Chk("extents", ev.xext = ev.ext)
            \o Chk("rank", Has(ev, "rank") => ev.rank = Len(ev.ext) /\ ev.rdyn = RankDynamic(ev.pat))
            \o Chk("container_size", Has(ev, "csize") => ev.csize = ReqSpan(ev.layout, ev.ext, ev.sin))
      [] ev.op = "ext_ctor" ->
            Chk("extent", ev.xext = ev.ext) \o Chk("rank", ev.rank = Len(ev.ext) /\ ev.rdyn = RankDynamic(ev.pat))
      [] ev.op = "subext" ->
            Chk("static_extent", ev.rpat = SubPattern(ev.pat, ev.slices)) \o Chk("extent", ev.rext = SubExtents(ev.ext, ev.slices))
            \o Chk("rank", ev.rrank = Len(SubExtents(ev.ext, ev.slices)))
      [] ev.op = "eq" ->
            Chk("operator==", ev.eq = ExtentsEqual(ev.ext, ev.ext2)) \o Chk("operator!=", ev.ne = ~ExtentsEqual(ev.ext, ev.ext2))
      [] ev.op = "span" ->
            Chk("data+size", <<ev.roff, ev.rsize>> = SpanRet(ev.form, ev.n, ev.o, ev.c))
            \o Chk("extent", ev.rext = SpanRetExtent(ev.form, ev.tpl, ev.sn, ev.o, ev.c))
      [] ev.op = "span_obs" ->
            Chk("data", ev.data = 0) \o Chk("size", ev.size = ev.n) \o Chk("size_bytes", ev.bytes = ev.n * ev.esize)
            \o Chk("empty", ev.empty = (ev.n = 0))
            \o Chk("begin..end", ev.fwd = Iota(ev.n)) \o Chk("rbegin..rend", ev.bwd = Rev(Iota(ev.n)))
            \o Chk("operator[]", ev.at = Iota(ev.n))
            \o Chk("front/back", ev.n > 0 => ev.front = 0 /\ ev.back = ev.n - 1)

Judge(ev) == IF ~Pre(ev) THEN "harness-pre" ELSE LET b == Bad(ev) IN IF b = "" THEN "ok" ELSE b

ExpectedRec(ev) ==
    CASE ev.op = "crash" -> [ret |-> "every call returns"]
      [] ev.op \in {"map", "elem"} -> [off |-> Map(ev.layout, ev.ext, ev.sin, ev.idx)]
      [] ev.op = "mapinfo" -> [strides |-> Strides(ev.layout, ev.ext, ev.sin), req |-> ReqSpan(ev.layout, ev.ext, ev.sin),
                               extents |-> ev.ext, rdyn |-> RankDynamic(ev.pat)]
      [] ev.op = "mdinfo" -> [size |-> Size(ev.ext), extents |-> ev.ext]
      [] ev.op = "ext_ctor" -> [extents |-> ev.ext, rdyn |-> RankDynamic(ev.pat)]
      [] ev.op = "subext" -> [rpat |-> SubPattern(ev.pat, ev.slices), rext |-> SubExtents(ev.ext, ev.slices)]
      [] ev.op = "eq" -> [eq |-> ExtentsEqual(ev.ext, ev.ext2)]
      [] ev.op = "span" -> [ret |-> SpanRet(ev.form, ev.n, ev.o, ev.c), extent |-> SpanRetExtent(ev.form, ev.tpl, ev.sn, ev.o, ev.c)]
      [] ev.op = "span_obs" -> [fwd |-> Iota(ev.n)]

Expected(ev) == IF Pre(ev) THEN ToJson(ExpectedRec(ev)) ELSE "-"

Init == l = 1 /\ nbad = 0

Next ==
    /\ l <= Len(Tr)
    /\ l' = l + 1
    /\ LET v == Judge(Tr[l]) IN
       IF v = "ok" THEN nbad' = nbad
       ELSE /\ nbad' = nbad + 1
            /\ PrintT(<<"DEV", l, v, Expected(Tr[l])>>)

Spec == Init /\ [][Next]_<<l, nbad>>
Consumed == TLCGet("stats").diameter - 1 = Len(Tr)
=============================================================================
