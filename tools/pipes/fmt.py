"""Fmt pipeline (spec/Fmt.tla, FmtOps.tla, FmtTrace.tla, harness/fmt_driver.cpp, harness/fmt_probe.cpp).  Serves X12.

  MC/GEN : TLC enumerates every format string up to 5 characters over { '{', '}', 'a', '0', ':' }, proves the laws of
           the format function on each (scanner = declarative token reading, escape round trip, length law, surplus
           arguments ignored, format_to_n prefix law) and exports (string, argument list, capacity) cases
  probes : which entry points / formatter specialisations of the tree compile at all (the others: not drivable)
  replay : every case on every drivable entry point, each call in a forked child
  TV     : FmtTrace.tla judges every recorded call
  calibration: libstdc++ 12 has NO <format>; the reference is an independent hand-written formatter in the driver's
           VH_STD branch (std::to_string for integers) - it calibrates the TLA+ reading against a second reading of
           [format.string.general], not against std::format
"""
import json
import os
import subprocess
from concurrent.futures import ThreadPoolExecutor

import vlib

TAG = "fmt"
PROBES = {1: ("FMT_HAVE_DIRECT", "format_to(OutputIt = back_insert_iterator<inplace_string>) does not compile"),
          2: ("FMT_HAVE_VFORMAT", "vformat_to(out, fmt, make_format_args(...)) does not compile"),
          3: ("FMT_HAVE_ULONG", "formatter<unsigned long> / formatter<unsigned long long> do not compile")}


def model(tier):
    consts = {"quick": {"MaxLenAll": "5", "MaxLenFew": "3"}, "thorough": {"MaxLenAll": "6", "MaxLenFew": "4"}}[tier]
    return vlib.tlc_mc("Fmt.tla", "Fmt.cfg", "%s_mc_%s" % (TAG, tier), workers=4, heap="2g", constants=consts,
                       timeout=1800, env={"JAVA_TOOL_OPTIONS": "-Xss32m"})


def probes():
    """Compile probes against the tree under test: returns (flags, not_drivable)."""
    flags, missing = [], []

    def one(n):
        cmd = ["g++", "-std=c++20", "-fsyntax-only", "-w", "-I" + os.path.join(vlib.REPO, "include"), "-DPROBE=%d" % n,
               os.path.join(vlib.HARNESS, "fmt_probe.cpp")]
        try:
            return n, subprocess.run(cmd, capture_output=True, text=True, timeout=300).returncode == 0
        except subprocess.TimeoutExpired:
            raise vlib.ModelFailure("probe timeout")
    with ThreadPoolExecutor(max_workers=3) as ex:
        for n, ok in ex.map(one, sorted(PROBES)):
            if ok:
                flags.append("-D" + PROBES[n][0])
            else:
                missing.append(PROBES[n][1])
    return flags, missing


def build_drivers(calibrate, flags):
    jobs = [dict(src="fmt_driver.cpp", out="fmt_etl", flags=flags),
            dict(src="fmt_driver.cpp", out="fmt_etl_chk", flags=flags + ["-DFMT_CHECKS"])]
    if calibrate:
        jobs.append(dict(src="fmt_driver.cpp", out="fmt_std", flags=["-DVH_STD"], include_repo=False))
    p = vlib.build_many(jobs)
    return {"etl": p[0], "chk": p[1], "std": p[2] if calibrate else None}


def _run(bins, impl, casefile, tier, nslices=4, ntv=4):
    d = vlib.workdir("traces")
    pre = os.path.join(d, "%s_%s_%s" % (TAG, impl, tier))
    tasks = [([bins[impl], "run", casefile, "%d/%d" % (k, nslices)], pre + "_s%d.ndjson" % k) for k in range(nslices)]
    res = vlib.run_parallel(tasks, par=nslices)
    crashes = sum(1 for _, err in res for l in err.splitlines() if l.startswith("CRASH"))
    unsupported = sorted({l for _, err in res for l in err.splitlines() if l.startswith("UNSUPPORTED")})
    lines = []
    for _, tp in tasks:
        with open(tp, "rb") as g:
            lines += g.readlines()
        os.remove(tp)
    if not lines:
        raise vlib.ModelFailure("fmt driver produced no events")
    per = (len(lines) + ntv - 1) // ntv
    chunks = []
    for i in range(ntv):
        part = lines[i * per:(i + 1) * per]
        if part:
            cp = pre + "_c%d.ndjson" % i
            with open(cp, "wb") as g:
                g.writelines(part)
            chunks.append(cp)
    with ThreadPoolExecutor(max_workers=ntv) as ex:
        futs = [ex.submit(vlib.tlc_tv, "FmtTrace.tla", "FmtTrace.cfg", cp, "%s_tv_%s_%s_%d" % (TAG, impl, tier, i), "2g", 3600,
                          {"JAVA_TOOL_OPTIONS": "-Xss32m"}) for i, cp in enumerate(chunks)]
        rs = [f.result() for f in futs]
    tv = {"events": sum(r["events"] for r in rs), "deviations": [dv for r in rs for dv in r["deviations"]],
          "wall": max(r["wall"] for r in rs)}
    if not tv["deviations"]:
        for cp in chunks:
            os.remove(cp)
    return tv, crashes, unsupported


def pipeline(tier, rep, calibrate=True):
    if os.environ.get("VERIF_CALIBRATE", "1") == "0":
        calibrate = False            # mutation self-tests only: the reference build does not depend on the tree under test
        rep.notes.append("calibration skipped (VERIF_CALIBRATE=0)")
    with ThreadPoolExecutor(max_workers=2) as ex:
        fmc = ex.submit(model, tier)
        flags, missing = probes()
        bins = build_drivers(calibrate, flags)
        mc = fmc.result()
    rep.add_mc("Fmt", mc)
    rep.cov["exhaustive"] = True
    cases = mc["gen"]
    if len(cases) < 10000:
        raise vlib.ModelFailure("Fmt.tla exported only %d cases" % len(cases))
    casefile = os.path.join(vlib.workdir("scripts"), "%s_cases_%s.ndjson" % (TAG, tier))
    with open(casefile, "w") as f:
        for c in cases:
            f.write(json.dumps(c) + "\n")
    tv, crashes, unsupported = _run(bins, "etl", casefile, tier)
    rep.add_tv("Fmt", tv, len(cases), "every exported case on every drivable entry point")
    tvc, crashes_c, _ = _run(bins, "chk", casefile, tier)
    rep.add_tv("Fmt", tvc, len(cases), "the capacity-32 cases again with TETL_ENABLE_CONTRACT_CHECKS (error reporting)")
    m = rep.cov["modules"]["Fmt"]
    m["contract_build_calls_ended_in_handler_or_signal"] = crashes_c
    m["not_drivable"] = missing + unsupported
    m["calls_ended_by_a_signal_or_the_assert_handler"] = crashes
    rep.sample({"module": "Fmt", "case": cases[len(cases) // 2]})
    if calibrate:
        ctv, ccr, cuns = _run(bins, "std", casefile, tier)
        if ctv["deviations"] or ccr or cuns:
            dv = (ctv["deviations"] or [{"kind": "crash/unsupported"}])[0]
            raise vlib.ModelFailure("calibration: the reference formatter deviates from the Fmt spec (spec/projection "
                                    "error): %s %s" % (dv["kind"], json.dumps(dv.get("ev"))[:500]))
        m["calibration_events_reference"] = ctv["events"]
    return tv


def replay(rec):
    """tools/check.py --replay: run the recorded case again on the current tree and judge the fresh events."""
    ev = rec["event"]
    d = vlib.workdir("replay")
    flags, _ = probes()
    if ev.get("checks"):
        flags = flags + ["-DFMT_CHECKS"]
    b = vlib.build("fmt_driver.cpp", "fmt_replay", flags=flags)
    cp = os.path.join(d, "fmt_case.ndjson")
    with open(cp, "w") as f:
        f.write(json.dumps({"f": ev["f"], "args": ev["args"], "cap": ev["cap"]}) + "\n")
    tp = os.path.join(d, "fmt_trace.ndjson")
    vlib.run([b, "run", cp], tp)
    tv = vlib.tlc_tv("FmtTrace.tla", "FmtTrace.cfg", tp, "fmt_replay", "2g", 3600, {"JAVA_TOOL_OPTIONS": "-Xss32m"})
    return [dv for dv in tv["deviations"] if dv.get("ev", {}).get("entry") == ev.get("entry")]
