"""X03 (extension) - etl::array<T, N> is a value sequence of fixed length N with the std::array surface."""
from pipes import array


def run(tier, rep):
    array.pipeline(tier, rep)
    rep.assumptions += ["N in 0..4, element values small integers; int and the lifetime-tracked element type stand for every T",
                        "front() / back() / operator[] of array<T, 0> and out-of-range indices are outside the domain (undefined)",
                        "etl::array has no at() (no exceptions) and no operator<=>: not covered",
                        "the TLA+ reading of [array] is calibrated against libstdc++ std::array on the same scripts"]
