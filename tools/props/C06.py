"""C06 - algorithms return exactly what the standard specifies for every input."""
import json
import os

import vlib
from pipes import algo


def run(tier, rep):
    algo.pipeline(tier, rep)
    rep.assumptions += [
        "elements are (key, tag) identities over a 3-value key alphabet; predicates/comparators look at the key only "
        "(less, greater, less-modulo-2, equal, equal-modulo-2, key==k, key odd)",
        "every range is embedded in a canary-padded buffer, so sub-ranges [first,last) of a larger array are covered by "
        "running the algorithm on every sequence as the whole range (content outside the range = canaries)",
        "first ranges up to length 5 (thorough 6); with a needle / second range the bounds MaxA2, MaxLen2, MaxPair of "
        "tools/pipes/algo.py apply; 3-iterator overloads get a second range of exactly the same length",
        "inputs violating a standard precondition (unsorted input of the binary-search/set family, negative shift, "
        "hi < lo for clamp, count > size for *_n) are outside the domain",
        "reduce / transform_reduce are driven with commutative+associative reductions only (GENERALIZED_SUM)",
        "the TLA+ reading of the standard is calibrated against libstdc++ on the identical calls (zero deviations "
        "required); tetl's non-standard sorts are calibrated on std::sort / std::stable_sort",
        "the model theorems (Algo.tla) are proven on a smaller bound than the replayed domain (see mc_constants)",
        "the iterator-adaptor operations (reverse_iterator relations/navigation, next/prev/advance/distance) run on one "
        "sequence per length (positions and offsets are exhaustive, element values only matter for dereference); category "
        "'rev' runs the iterator-comparing algorithms over the library's reverse_iterator<pointer>",
    ]


def replay(path):
    """Re-execute the recorded case on the current tree; exit 1 (VIOLATION line) if it still deviates."""
    rec = json.load(open(path))
    ev = rec["event"]
    out = {}
    algo.build_drivers(out)
    keys = lambda s: "".join(str(c // 16) for c in s) or "-"   # noqa: E731
    tp = os.path.join(vlib.workdir("traces"), "algo_replay.ndjson")
    rc, err = vlib.run([out["bins"]["etl"], "one", ev["op"], ev["inst"], str(ev["c"]), str(ev["m"]), str(ev["v"]),
                        keys(ev["a"]), keys(ev["b"])], tp, ok_codes=(0, 3))
    if rc == 3:
        raise vlib.ModelFailure("replay: %s/%s is not drivable on this tree" % (ev["op"], ev["inst"]))
    tv = vlib.tlc_tv("AlgoTrace.tla", "AlgoTrace_thorough.cfg", tp, "algo_tv_replay", heap="1g")
    devs = [d for d in tv["deviations"]]
    if any(d["kind"].startswith("harness") for d in devs):
        raise vlib.ModelFailure("replay: recorded case is outside the model's domain: " + json.dumps(ev)[:300])
    for d in devs:
        print("VIOLATION property=C06 replay=%s kind=%s got=%s expected=%s"
              % (path, d["kind"], json.dumps({k: d["ev"][k] for k in ("oa", "ob", "od", "oc", "r", "p", "cz")}), json.dumps(d["expected"])))
    return 1 if devs else 0
