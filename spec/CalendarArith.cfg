SPECIFICATION Spec
CONSTANTS
  MonthDelta = 40
  WdDelta = 20
  YearGridIdx = {1, 2, 32367, 32368, 32369, 32767, 32768, 32769, 34737, 34738, 34767, 34768, 34788, 34792, 65534, 65535}
  YearDeltaAbs = {0, 1, 2, 3, 4, 100, 400, 32767, 65534}
  Tier = "quick"
INVARIANTS EmitInv Laws
CHECK_DEADLOCK FALSE
