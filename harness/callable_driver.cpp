// Conformance driver for the callable wrappers and pair / tuple (property C20).
//   callable_driver ipf   <script>  : replays histories exported from spec/Callable.tla (SpecIpf) on two
//                                     inplace_function<int(int), 16> objects f, g
//   callable_driver cases <file>    : executes the enumerated cases (SpecCases): one call through every
//                                     wrapper / INVOKE form, and the pair / tuple operations
// Every event is self-contained ({fam, op/form, x, pre, post, ret, calls, handler, obs, ...}); the
// instrumented callables log one target-call record per invocation (which target, captured value, value
// category of the callee object and of every argument, result).  Events are judged by
// spec/CallableTrace.tla - no oracle and no comparison here.
// -DVH_STD builds the same source against libstdc++ (std::function stands in for inplace_function in the
// shared subset) as the calibration run.
#include "common.hpp"

#include <csetjmp>
#include <csignal>
#include <functional>
#include <initializer_list>
#include <set>
#include <tuple>
#include <type_traits>
#include <utility>

namespace {
int g_handler = 0; // how often the failure handler fired
}

#ifdef VH_STD
namespace lib = std;
#else
    #ifndef TETL_ENABLE_CUSTOM_EXCEPTION_HANDLER
        #define TETL_ENABLE_CUSTOM_EXCEPTION_HANDLER 1
    #endif
namespace etl {
template <typename Exception>
[[noreturn]] auto exception_handler(Exception const& e) -> void;
}
    #include <etl/functional.hpp>
    #include <etl/tuple.hpp>
    #include <etl/utility.hpp>
namespace etl {
// user-provided handler: records, then leaves the call by throwing (as the library's own tests do)
template <typename Exception>
[[noreturn]] auto exception_handler(Exception const& e) -> void
{
    ++g_handler;
    throw e;
}
} // namespace etl
namespace lib = etl;
#endif

// Members that are declared but whose body does not instantiate cannot be detected by a requires-expression:
// tools/pipes/callable.py measures them with compile probes (for etl and for libstdc++) and passes -DVP_<name>=0/1.
#ifndef VP_TUPLE_EMPTY
    #define VP_TUPLE_EMPTY 0
#endif
#ifndef VP_BF_LVALUE
    #define VP_BF_LVALUE 0
#endif
#ifndef VP_GET_T_PAIR
    #define VP_GET_T_PAIR 0
#endif
#ifndef VP_GET_T_TUPLE
    #define VP_GET_T_TUPLE 0
#endif
#ifndef VP_TUPLE_SB
    #define VP_TUPLE_SB 0
#endif
#ifndef VP_RGET_REF_PAIR
    #define VP_RGET_REF_PAIR 0
#endif
#ifndef VP_RGET_REF_TUPLE
    #define VP_RGET_REF_TUPLE 0
#endif
#ifndef VP_APPLY_PAIR
    #define VP_APPLY_PAIR 0
#endif
#ifndef VP_MFT_PAIR
    #define VP_MFT_PAIR 0
#endif
#ifndef VP_CAT_LVALUE
    #define VP_CAT_LVALUE 0
#endif
#ifndef VP_CAT_PAIR
    #define VP_CAT_PAIR 0
#endif
#ifndef VP_CAT_RVALUE
    #define VP_CAT_RVALUE 0
#endif
#ifndef VP_CAT_MOVEONLY
    #define VP_CAT_MOVEONLY 0
#endif

using vh::json;
using vh::Tracked;

namespace {

// A call through a wrapper whose storage was never initialised may jump through a wild pointer.  Such a call is made
// under a guard: the fault is turned into an observation ("the call crashed") instead of killing the whole run.
sigjmp_buf g_jb;
volatile std::sig_atomic_t g_guarded = 0;
extern "C" void on_fault(int sig)
{
    if (g_guarded) { siglongjmp(g_jb, 1); }
    std::signal(sig, SIG_DFL);
    std::raise(sig);
}
template <typename F>
bool guarded(F&& f)
{
    g_guarded = 1;
    if (sigsetjmp(g_jb, 1) == 0) {
        f();
        g_guarded = 0;
        return true;
    }
    g_guarded = 0;
    return false;
}
void install_fault_handlers()
{
    struct sigaction sa { };
    sa.sa_handler = on_fault;
    sa.sa_flags   = SA_NODEFER;
    sigemptyset(&sa.sa_mask);
    for (int sg : {SIGSEGV, SIGBUS, SIGILL, SIGFPE}) { sigaction(sg, &sa, nullptr); }
}
constexpr unsigned char POISON = 0xA5; // storage handed to a constructor never holds a stale (plausible) capture

// ---- target-call log ------------------------------------------------------------------------------
struct CallLog {
    bool on    = false;
    json calls = json::array();
};
CallLog g_log;

int wsum(std::vector<int> const& a)
{
    int w = 0, m = 1;
    for (int v : a) {
        w += v * m;
        m *= 3;
    }
    return w;
}
int res(int t, int c, std::vector<int> const& a) { return 1000 * t + 100 * c + wsum(a); }
void rec(int t, int c, int self, std::vector<int> const& a, std::vector<int> const& k, int r)
{
    if (!g_log.on) { return; }
    json e;
    e["t"]    = t;
    e["c"]    = c;
    e["self"] = self;
    e["a"]    = a;
    e["k"]    = k;
    e["r"]    = r;
    g_log.calls.push_back(std::move(e));
}

// move-only / copy-only element types
struct Mo {
    int v;
    explicit Mo(int x = 0) : v(x) { }
    Mo(Mo&& o) noexcept : v(o.v) { o.v = -1; }
    auto operator=(Mo&& o) noexcept -> Mo&
    {
        int x = o.v;
        if (this != &o) { o.v = -1; }
        v = x;
        return *this;
    }
    Mo(Mo const&)                    = delete;
    auto operator=(Mo const&) -> Mo& = delete;
    friend bool operator==(Mo const& a, Mo const& b) { return a.v == b.v; }
    friend bool operator<(Mo const& a, Mo const& b) { return a.v < b.v; }
};
struct Co { // copy constructor / copy assignment only: rvalues are copied too
    int v;
    explicit Co(int x = 0) : v(x) { }
    Co(Co const& o) : v(o.v) { }
    auto operator=(Co const& o) -> Co&
    {
        v = o.v;
        return *this;
    }
    friend bool operator==(Co const& a, Co const& b) { return a.v == b.v; }
    friend bool operator<(Co const& a, Co const& b) { return a.v < b.v; }
};

inline int vo(int x) { return x; }
inline int vo(Tracked const& x) { return x.v; }
inline int vo(Mo const& x) { return x.v; }
inline int vo(Co const& x) { return x.v; }

template <typename X>
constexpr int cat()
{
    using R = std::remove_reference_t<X>;
    if constexpr (std::is_lvalue_reference_v<X>) {
        return std::is_const_v<R> ? 2 : 1;
    } else {
        return std::is_const_v<R> ? 4 : 3;
    }
}

// ---- instrumented targets -------------------------------------------------------------------------
int fn1(int a)
{
    int r = res(1, 0, {a});
    rec(1, 0, 0, {a}, {0}, r);
    return r;
}
bool isodd(int a)
{
    bool r = a % 2 == 1;
    rec(10, 0, 0, {a}, {0}, r ? 1 : 0);
    return r;
}

// generic functor: perfect-forwarding call operator with all four ref-qualifiers; never consumes its arguments
template <int T, typename Cap, size_t Pad>
struct Probe {
    Cap cap;
    char pad[Pad == 0 ? 1 : Pad];
    explicit Probe(int c) : cap(c), pad{} { }
    template <typename... A>
    int go(int self, A&&... a) const
    {
        std::vector<int> vals{vo(a)...};
        std::vector<int> cats{cat<A&&>()...};
        int r = res(T, vo(cap), vals);
        rec(T, vo(cap), self, vals, cats, r);
        return r;
    }
    template <typename... A>
    int operator()(A&&... a) &
    {
        return go(1, std::forward<A>(a)...);
    }
    template <typename... A>
    int operator()(A&&... a) const&
    {
        return go(2, std::forward<A>(a)...);
    }
    template <typename... A>
    int operator()(A&&... a) &&
    {
        return go(3, std::forward<A>(a)...);
    }
    template <typename... A>
    int operator()(A&&... a) const&&
    {
        return go(4, std::forward<A>(a)...);
    }
};
template <int T, typename Cap>
struct Probe<T, Cap, 0> {
    Cap cap;
    explicit Probe(int c) : cap(c) { }
    template <typename... A>
    int go(int self, A&&... a) const
    {
        std::vector<int> vals{vo(a)...};
        std::vector<int> cats{cat<A&&>()...};
        int r = res(T, vo(cap), vals);
        rec(T, vo(cap), self, vals, cats, r);
        return r;
    }
    template <typename... A>
    int operator()(A&&... a) &
    {
        return go(1, std::forward<A>(a)...);
    }
    template <typename... A>
    int operator()(A&&... a) const&
    {
        return go(2, std::forward<A>(a)...);
    }
    template <typename... A>
    int operator()(A&&... a) &&
    {
        return go(3, std::forward<A>(a)...);
    }
    template <typename... A>
    int operator()(A&&... a) const&&
    {
        return go(4, std::forward<A>(a)...);
    }
};
using P2 = Probe<2, int, 0>;      // 4 bytes, trivially copyable
using P3 = Probe<3, Tracked, 0>;  // 4 bytes, non-trivially copyable capture
using P4 = Probe<4, int, 12>;     // exactly 16 bytes
using P5 = Probe<5, Tracked, 12>; // exactly 16 bytes, non-trivial
using P7 = Probe<7, int, 0>;      // visitor of apply
static_assert(sizeof(P2) == 4 && sizeof(P3) == 4 && sizeof(P4) == 16 && sizeof(P5) == 16);

struct PredProbe {
    int c;
    template <typename A>
    bool go(int self, A&& a) const
    {
        bool r = (c + vo(a)) % 2 == 1;
        rec(9, c, self, {vo(a)}, {cat<A&&>()}, r ? 1 : 0);
        return r;
    }
    template <typename A>
    bool operator()(A&& a) &
    {
        return go(1, std::forward<A>(a));
    }
    template <typename A>
    bool operator()(A&& a) const&
    {
        return go(2, std::forward<A>(a));
    }
    template <typename A>
    bool operator()(A&& a) &&
    {
        return go(3, std::forward<A>(a));
    }
    template <typename A>
    bool operator()(A&& a) const&&
    {
        return go(4, std::forward<A>(a));
    }
};

struct S {
    int v;
    int mf(int a)
    {
        int r = res(6, v, {a});
        rec(6, v, 1, {a}, {0}, r);
        return r;
    }
    int mfc(int a) const
    {
        int r = res(6, v, {a});
        rec(6, v, 2, {a}, {0}, r);
        return r;
    }
};
// copy / move observing argument type for by-value parameters: `how` tells how the PARAMETER object was initialised
struct CM {
    int v;
    int how;
    explicit CM(int x) : v(x), how(0) { }
    CM(CM const& o) : v(o.v), how(1) { }
    CM(CM&& o) noexcept : v(o.v), how(3) { o.v = -1; }
};
struct SV : S {
    int mt(CM a)
    {
        int r = res(12, v, {a.v});
        rec(12, v, 1, {a.v}, {a.how}, r);
        return r;
    }
};
struct D : S { };
struct DV : SV { };

// constructed by make_from_tuple: the constructor logs what it was given
struct RecCtor {
    int r;
    template <typename... A>
        requires(!(sizeof...(A) == 1 && (std::is_same_v<std::remove_cvref_t<A>, RecCtor> && ...)))
    explicit RecCtor(A&&... a)
    {
        std::vector<int> vals{vo(a)...};
        std::vector<int> cats{cat<A&&>()...};
        r = res(8, 0, vals);
        rec(8, 0, 0, vals, cats, r);
    }
};

// target of make_from_tuple with BOTH a two-int constructor and an initializer_list constructor: records which one ran
// ([tuple.apply]: make_from_tuple initialises with parentheses, so the (int, int) constructor)
struct RecIL {
    int which, a, b;
    RecIL(int x, int y) : which(1), a(x), b(y) { }
    RecIL(std::initializer_list<int> l) : which(2), a(l.size() > 0 ? l.begin()[0] : -5), b(l.size() > 1 ? l.begin()[1] : -5) { }
};

std::string g_ty2_0; // first element type tag of the source of the current converting case

// ---- wrappers -------------------------------------------------------------------------------------
#ifdef VH_STD
using W   = std::function<int(int)>;
using WS  = std::function<int(int)>; // "smaller capacity" has no meaning for std::function: the plain copy / move is calibrated
using W3  = std::function<int(int&, int const&, int&&)>;
constexpr bool have_small = true;
#else
using W   = etl::inplace_function<int(int), 16>;
using WS  = etl::inplace_function<int(int), 8>;
using W3  = etl::inplace_function<int(int&, int const&, int&&), 16>;
constexpr bool have_small = true;
#endif

std::set<std::string> g_unsupported;
void unsupported(std::string const& what)
{
    if (g_unsupported.insert(what).second) { std::fprintf(stderr, "UNSUPPORTED %s\n", what.c_str()); }
}

// =================================== fam "ipf" =====================================================
struct IpfRunner {
    alignas(W) unsigned char store[2][sizeof(W)];
    alignas(WS) unsigned char store_h[sizeof(WS)];
    W* ob[2];
    WS* h; // persistent wrapper of the smaller capacity: source of the cross-capacity constructors / assignments
    long nev = 0, nskip = 0;
    bool broken = false, life_used = false;
    json ext_vals = json::array(), ext_end = json::array();

    IpfRunner()
    {
        for (int i = 0; i < 2; ++i) { ob[i] = new (store[i]) W(); }
        h = new (store_h) WS();
    }
    ~IpfRunner()
    {
        for (int i = 0; i < 2; ++i) { ob[i]->~W(); }
        h->~WS();
    }
    static int oi(std::string const& o) { return o == "f" ? 0 : 1; }

    struct Guard {
        IpfRunner& R;
        explicit Guard(IpfRunner& r) : R(r)
        {
#ifndef VH_STD
            vh::life().begin_window({{reinterpret_cast<char const*>(R.store[0]), sizeof(W), 1, 1},
                {reinterpret_cast<char const*>(R.store[1]), sizeof(W), 1, 2},
                {reinterpret_cast<char const*>(R.store_h), sizeof(WS), 1, 3}});
            R.ext_vals  = json::array();
            R.life_used = true;
#endif
        }
        ~Guard()
        {
#ifndef VH_STD
            vh::life().end_window();
            R.ext_end = json::array();
            for (auto c : vh::life().ext_live_at_start) { R.ext_end.push_back(c); }
#endif
        }
        void ext(Tracked const& t)
        {
#ifndef VH_STD
            vh::life().declare_ext(&t);
            R.ext_vals.push_back({{"c", vh::life().cell(&t)}, {"v", t.v}});
#endif
        }
        void ext(int const&) { }
    };

    // state of one wrapper through its public interface: bool, and (when not empty) which target a call reaches
    template <typename WT>
    json project(WT& w)
    {
        json s;
        bool e = static_cast<bool>(w);
        int t = 0, c = 0;
        if (e) {
            CallLog saved = std::move(g_log);
            g_log         = CallLog{true, json::array()};
            int h0        = g_handler;
            bool alive    = guarded([&] {
                try {
                    (void)w(0);
                } catch (...) {
#ifdef VH_STD
                    ++g_handler;
#endif
                }
            });
            if (!alive) {
                t = -2; // the call faulted (wild jump): the wrapper holds no callable target
                c = 0;
            } else if (g_log.calls.size() == 1) {
                t = g_log.calls[0]["t"].get<int>();
                c = g_log.calls[0]["c"].get<int>();
            } else {
                t = -1; // bool says "not empty" but a call reaches no target (or several)
                c = (int)g_log.calls.size();
            }
            g_handler = h0;
            g_log     = std::move(saved);
        }
        s["e"] = e ? 1 : 0;
        s["t"] = t;
        s["c"] = c;
        return s;
    }
    json state()
    {
        json s;
        s["f"] = project(*ob[0]);
        s["g"] = project(*ob[1]);
        s["h"] = project(*h);
        return s;
    }
    template <typename WT>
    static json observe(WT const& w)
    {
        json o;
        o["bool"]   = static_cast<bool>(w);
        o["eqnull"] = (w == nullptr);
        o["nenull"] = (w != nullptr);
        o["nulleq"] = (nullptr == w);
        o["nullne"] = (nullptr != w);
        return o;
    }

    template <typename F>
    void with_target(int t, int c, F&& f)
    {
        if (t == 1) { auto fp = &fn1; f(fp); }
        else if (t == 2) { P2 p(c); f(p); }
        else if (t == 3) { P3 p(c); f(p); }
        else if (t == 4) { P4 p(c); f(p); }
        else if (t == 5) { P5 p(c); f(p); }
    }
    template <typename P>
    static void decl(Guard& g, P const& p)
    {
        if constexpr (requires { p.cap; }) { g.ext(p.cap); }
    }

    bool apply(std::string const& op, int o, json const& x, json& ret)
    {
        W& v   = *ob[o];
        W& src = *ob[oi(x.value("src", std::string("f")))];
        int xt = x.value("t", 0), xc = x.value("c", 0), xa = x.value("a", 0), xm = x.value("m", 0);
        bool ok = true;
        ret     = json::array();
        if (op == "ctor_default") {
            Guard g(*this);
            v.~W();
            new (&v) W();
        } else if (op == "ctor_nullptr") {
            Guard g(*this);
            v.~W();
            new (&v) W(nullptr);
        } else if (op == "assign_nullptr") {
            Guard g(*this);
            v = nullptr;
        } else if (op == "ctor_target") {
            with_target(xt, xc, [&](auto& p) {
                Guard g(*this);
                decl(g, p);
                v.~W();
                if (xm) { new (&v) W(std::move(p)); } else { new (&v) W(p); }
            });
        } else if (op == "assign_target") {
            with_target(xt, xc, [&](auto& p) {
                Guard g(*this);
                decl(g, p);
                if (xm) { v = std::move(p); } else { v = p; }
            });
        } else if (op == "set_small") {
            // (re)construct the small wrapper h from a target (t = 0: empty)
            if (xt == 0) {
                Guard g(*this);
                h->~WS();
                new (store_h) WS();
            } else {
                with_target(xt, xc, [&](auto& p) {
                    // only targets that fit the small capacity (the model offers nothing else)
                    if constexpr (sizeof(p) <= 8) {
                        Guard g(*this);
                        decl(g, p);
                        h->~WS();
                        new (store_h) WS(p);
                    } else { ok = false; }
                });
            }
        } else if (op == "ctor_copy_small" || op == "ctor_move_small" || op == "assign_copy_small" || op == "assign_move_small") {
            if constexpr (have_small && requires(WS & s, W & d) { W(std::as_const(s)); W(std::move(s)); d = std::as_const(s); d = std::move(s); }) {
                Guard g(*this);
                if (op == "ctor_copy_small") { v.~W(); new (&v) W(std::as_const(*h)); }
                else if (op == "ctor_move_small") { v.~W(); new (&v) W(std::move(*h)); }
                else if (op == "assign_copy_small") { v = std::as_const(*h); }
                else { v = std::move(*h); }
            } else { ok = false; }
        } else if (op == "ctor_copy") {
            Guard g(*this);
            v.~W();
            new (&v) W(std::as_const(src));
        } else if (op == "ctor_move") {
            Guard g(*this);
            v.~W();
            new (&v) W(std::move(src));
        } else if (op == "assign_copy") {
            Guard g(*this);
            v = std::as_const(src);
        } else if (op == "assign_move") {
            Guard g(*this);
            v = std::move(src);
        } else if (op == "swap") {
            Guard g(*this);
            v.swap(src);
        } else if (op == "fswap") {
            Guard g(*this);
            using lib::swap;
            swap(v, src);
        } else if (op == "call") {
            Guard g(*this);
            bool alive = guarded([&] {
                try {
                    int r = std::as_const(v)(xa);
                    ret.push_back(r);
                } catch (...) {
#ifdef VH_STD
                    ++g_handler; // std::function reports the empty call by throwing bad_function_call
#endif
                }
            });
            if (!alive) { ret.push_back(-2); }
        } else {
            ok = false;
        }
        return ok;
    }

    void step(std::string const& op, std::string const& o, json const& x)
    {
        json ev;
        ev["fam"] = "ipf";
        ev["op"]  = op;
        ev["o"]   = o;
        ev["x"]   = x;
        ev["pre"] = state();
        json ret;
        life_used   = false;
        g_handler   = 0;
        g_log       = CallLog{true, json::array()};
        bool ok     = apply(op, oi(o), x, ret);
        g_log.on    = false;
        json calls  = g_log.calls;
        int handler = g_handler;
        if (!ok) {
            ++nskip;
            broken = true;
            unsupported("ipf " + op);
            return;
        }
        ev["post"]    = state();
        ev["ret"]     = ret;
        ev["calls"]   = calls;
        ev["handler"] = handler;
        json obs;
        obs["f"]  = observe(*ob[0]);
        obs["g"]  = observe(*ob[1]);
        obs["h"]  = observe(*h);
        ev["obs"] = obs;
#ifndef VH_STD
        if (life_used) {
            json l;
            l["evs"]    = vh::life().events;
            l["ext"]    = ext_vals;
            l["extend"] = ext_end;
            ev["life"]  = l;
        }
#endif
        ev["inst"] = "ipf16";
        vh::emit(ev);
        ++nev;
    }
    void reset()
    {
        for (int i = 0; i < 2; ++i) {
            ob[i]->~W();
            std::memset(store[i], POISON, sizeof(W));
            ob[i] = new (store[i]) W();
        }
        h->~WS();
        std::memset(store_h, POISON, sizeof(WS));
        h = new (store_h) WS();
    }
    void replay(std::vector<json> const& script)
    {
        for (auto const& ln : script) {
            if (ln.contains("reset")) {
                reset();
                broken = false;
                continue;
            }
            if (broken) { continue; }
            step(ln["op"].get<std::string>(), ln["o"].get<std::string>(), ln["x"]);
        }
    }
};

// =================================== fam "form" ====================================================
template <typename T>
void cv_cat_val(T&& r, json& ret)
{
    ret.push_back(vo(r));
    ret.push_back(cat<T&&>());
}

bool run_form(std::string const& form, json const& x, json& ret)
{
    int c = x["c"].get<int>(), a = x["a"].get<int>(), b0 = x["b"].get<int>(), d = x["d"].get<int>();
    int const b = b0;
    bool ok     = true;
    ret         = json::array();
    if (form == "inv_fn") {
        ret.push_back(lib::invoke(fn1, a));
    } else if (form == "inv_fnptr") {
        ret.push_back(lib::invoke(&fn1, a));
    } else if (form == "inv_functor_l") {
        P2 p(c);
        ret.push_back(lib::invoke(p, a, b, std::move(d)));
    } else if (form == "inv_functor_c") {
        P2 const p(c);
        ret.push_back(lib::invoke(p, a, b, std::move(d)));
    } else if (form == "inv_functor_r") {
        P2 p(c);
        ret.push_back(lib::invoke(std::move(p), a, b, std::move(d)));
    } else if (form == "inv_memfn_obj") {
        S s{c};
        ret.push_back(lib::invoke(&S::mf, s, a));
    } else if (form == "inv_memfn_ptr") {
        S s{c};
        ret.push_back(lib::invoke(&S::mf, &s, a));
    } else if (form == "inv_memfn_refw") {
        S s{c};
        ret.push_back(lib::invoke(&S::mf, lib::ref(s), a));
    } else if (form == "inv_memfn_cobj") {
        S const s{c};
        ret.push_back(lib::invoke(&S::mfc, s, a));
    } else if (form == "inv_memfn_derived") {
        D s;
        s.v = c;
        ret.push_back(lib::invoke(&S::mf, s, a));
    } else if (form == "inv_memfn_robj") {
        S s{c};
        ret.push_back(lib::invoke(&S::mf, std::move(s), a));
    } else if (form.rfind("inv_mv_", 0) == 0) {
        // member function taking a class type BY VALUE, through object / pointer / reference_wrapper (to a derived object),
        // lvalue and rvalue argument: the parameter must be copy- resp. move-constructed exactly as by a direct call
        DV s;
        s.v = c;
        CM arg(a);
        bool rv = form.back() == 'r';
        std::string via = form.substr(7, form.size() - 9);
        if (via == "obj") { ret.push_back(rv ? lib::invoke(&SV::mt, s, std::move(arg)) : lib::invoke(&SV::mt, s, arg)); }
        else if (via == "ptr") { ret.push_back(rv ? lib::invoke(&SV::mt, &s, std::move(arg)) : lib::invoke(&SV::mt, &s, arg)); }
        else if (via == "refw") { ret.push_back(rv ? lib::invoke(&SV::mt, lib::ref(s), std::move(arg)) : lib::invoke(&SV::mt, lib::ref(s), arg)); }
        else { ok = false; }
        ret.push_back(arg.v); // the caller's argument afterwards: moved-from (-1) iff it was passed as an rvalue
    } else if (form == "inv_memdata_obj") {
        S s{c};
        cv_cat_val(lib::invoke(&S::v, s), ret);
    } else if (form == "inv_memdata_cobj") {
        S const s{c};
        cv_cat_val(lib::invoke(&S::v, s), ret);
    } else if (form == "inv_memdata_robj") {
        S s{c};
        cv_cat_val(lib::invoke(&S::v, std::move(s)), ret);
    } else if (form == "inv_memdata_ptr") {
        S s{c};
        cv_cat_val(lib::invoke(&S::v, &s), ret);
    } else if (form == "inv_memdata_refw") {
        S s{c};
        cv_cat_val(lib::invoke(&S::v, lib::ref(s)), ret);
    } else if (form == "inv_memdata_derived") {
        D s;
        s.v = c;
        cv_cat_val(lib::invoke(&S::v, s), ret);
    }
#ifndef VH_STD
    else if (form == "fr_fn") {
        etl::function_ref<int(int)> r(fn1);
        ret.push_back(r(a));
    } else if (form == "fr_functor_l") {
        P2 p(c);
        etl::function_ref<int(int&, int const&, int&&)> r(p);
        ret.push_back(r(a, b, std::move(d)));
    } else if (form == "fr_functor_c") {
        P2 const p(c);
        etl::function_ref<int(int&, int const&, int&&)> r(p);
        ret.push_back(r(a, b, std::move(d)));
    } else if (form == "fr_copy") {
        P2 p(c);
        etl::function_ref<int(int&, int const&, int&&)> r(p);
        auto r2 = r;
        ret.push_back(r2(a, b, std::move(d)));
    } else if (form == "fr_lambda") {
        auto lam = [c](int q) {
            int r = res(3, c, {q});
            rec(3, c, 0, {q}, {0}, r);
            return r;
        };
        etl::function_ref<int(int)> r(lam);
        ret.push_back(r(a));
    }
#endif
    else if (form == "rw_call_l") {
        P2 p(c);
        ret.push_back(lib::ref(p)(a, b, std::move(d)));
    } else if (form == "rw_call_c") {
        P2 p(c);
        ret.push_back(lib::cref(p)(a, b, std::move(d)));
    } else if (form == "rw_fn") {
        auto go = [&](auto& f) {
            if constexpr (requires { lib::ref(f)(a); }) { ret.push_back(lib::ref(f)(a)); } else { ok = false; }
        };
        go(fn1);
    } else if (form == "rw_identity") {
        S s{c}, s2{c + 1};
        auto r  = lib::ref(s);
        S& conv = r;
        auto r2 = r;
        ret.push_back(&r.get() == &s ? 1 : 0);
        ret.push_back(&conv == &s ? 1 : 0);
        ret.push_back(&r2.get() == &s ? 1 : 0);
        r2 = lib::ref(s2);
        ret.push_back(&r2.get() == &s2 && &r.get() == &s ? 1 : 0);
    } else if (form == "bf_l") {
        auto bf = lib::bind_front(P2(c), int(b0));
        ret.push_back(bf(a, b, std::move(d)));
    } else if (form == "bf_c") {
        auto const bf = lib::bind_front(P2(c), int(b0));
        ret.push_back(bf(a, b, std::move(d)));
    } else if (form == "bf_r") {
        auto bf = lib::bind_front(P2(c), int(b0));
        ret.push_back(std::move(bf)(a, b, std::move(d)));
    } else if (form == "bf_lv") {
        // bound argument given as an lvalue (stored by value, as decay_t)
#if VP_BF_LVALUE
        auto bf = lib::bind_front(P2(c), b0);
        b0      = 2 - b0; // the wrapper holds its own copy
        ret.push_back(bf(a, b, std::move(d)));
#else
        ok = false;
#endif
    } else if (form == "bf_memfn") {
        S s{c};
        auto bf = lib::bind_front(&S::mf, &s);
        ret.push_back(bf(a));
    } else if (form == "bf_fn") {
        auto bf = lib::bind_front(fn1, int(b0));
        ret.push_back(bf());
    } else if (form == "nf_l") {
        auto n = lib::not_fn(PredProbe{c});
        ret.push_back(n(a) ? 1 : 0);
    } else if (form == "nf_c") {
        auto const n = lib::not_fn(PredProbe{c});
        ret.push_back(n(a) ? 1 : 0);
    } else if (form == "nf_r") {
        auto n = lib::not_fn(PredProbe{c});
        ret.push_back(std::move(n)(a) ? 1 : 0);
    } else if (form == "nf_fn") {
        auto n = lib::not_fn(isodd);
        ret.push_back(n(a) ? 1 : 0);
    }
#if !defined(VH_STD) || defined(__cpp_lib_forward_like)
    else if (form.rfind("fl", 0) == 0) {
        // forward_like<Owner>(member): category of the result
        auto go = [&](auto& m) {
            if constexpr (requires { lib::forward_like<S&>(m); }) {
                bool k = form.rfind("flk", 0) == 0;
                std::string o = form.substr(k ? 4 : 3);
                ret.push_back(m);
                if (o == "l") { ret.push_back(cat<decltype(lib::forward_like<S&>(m))>()); }
                else if (o == "c") { ret.push_back(cat<decltype(lib::forward_like<S const&>(m))>()); }
                else if (o == "r") { ret.push_back(cat<decltype(lib::forward_like<S&&>(m))>()); }
                else { ret.push_back(cat<decltype(lib::forward_like<S const&&>(m))>()); }
            } else { ok = false; }
        };
        int mm        = a;
        int const mk  = a;
        if (form.rfind("flk", 0) == 0) { go(mk); } else { go(mm); }
    }
#endif
    else if (form == "ipf_sig3") {
        W3 w(P2{c});
        ret.push_back(w(a, b, std::move(d)));
    } else if (form == "ipf_sig3_copy") {
        W3 w(P2{c});
        W3 w2(w);
        ret.push_back(w2(a, b, std::move(d)));
    } else {
        ok = false;
    }
    return ok;
}

// =================================== fam "tup" =====================================================
template <typename E>
struct etag;
template <>
struct etag<int> {
    static constexpr char const* n = "int";
};
template <>
struct etag<Tracked> {
    static constexpr char const* n = "trk";
};
template <>
struct etag<Mo> {
    static constexpr char const* n = "mo";
};
template <>
struct etag<Co> {
    static constexpr char const* n = "co";
};
template <>
struct etag<int&> {
    static constexpr char const* n = "lref";
};
template <>
struct etag<int const> {
    static constexpr char const* n = "cint";
};

// initialiser of an element of type E with value v (a reference element binds to slot)
template <typename E>
decltype(auto) elem(int v, int& slot)
{
    if constexpr (std::is_same_v<E, int&>) {
        slot = v;
        return (slot);
    } else if constexpr (std::is_same_v<E, int const> || std::is_same_v<E, int>) {
        return int(v);
    } else {
        return E(v);
    }
}

template <typename... Es>
struct TL {
    static constexpr size_t N = sizeof...(Es);
    template <size_t I>
    using at = std::tuple_element_t<I, std::tuple<std::type_identity<Es>...>>;
};

template <bool IsPair, typename... Es>
struct Cfg {
    static constexpr bool is_pair = IsPair;
    static constexpr size_t N     = sizeof...(Es);
    using TT                      = std::conditional_t<IsPair, lib::pair<std::tuple_element_t<0, std::tuple<Es..., void, void>>, std::tuple_element_t<1, std::tuple<Es..., void, void>>>, lib::tuple<Es...>>;
    template <size_t I>
    using E = std::tuple_element_t<I, std::tuple<Es...>>;
    static constexpr bool copyable   = (std::is_copy_constructible_v<Es> && ...);
    static constexpr bool assignable = (!std::is_const_v<Es> && ...);
    static constexpr bool has_ref    = (std::is_reference_v<Es> || ...);
    static constexpr bool is_ii      = sizeof...(Es) == 2 && (std::is_same_v<Es, int> && ...);
    static constexpr bool has_mo     = (!std::is_copy_constructible_v<Es> || ...);
    template <typename X>
    static constexpr int cnt()
    {
        return (0 + ... + (std::is_same_v<Es, X> ? 1 : 0));
    }
    static constexpr bool unique = cnt<int>() <= 1 && cnt<Tracked>() <= 1 && cnt<Mo>() <= 1 && cnt<Co>() <= 1;
    static json types() { return json::array({etag<Es>::n...}); }
    // slots: storage for the referents of reference elements
    static TT build(json const& vals, int* slots)
    {
        return [&]<size_t... I>(std::index_sequence<I...>) { return TT(elem<Es>(vals[I].template get<int>(), slots[I])...); }(std::make_index_sequence<N>{});
    }
    template <typename T>
    static void vals(T const& t, json& out)
    {
        [&]<size_t... I>(std::index_sequence<I...>) { (out.push_back(vo(lib::get<I>(t))), ...); }(std::make_index_sequence<N>{});
    }
};
// a tuple<> has no elements to build from
#if VP_TUPLE_EMPTY
template <>
struct Cfg<false> {
    static constexpr bool is_pair  = false;
    static constexpr size_t N      = 0;
    using TT                       = lib::tuple<>;
    static constexpr bool copyable   = true;
    static constexpr bool assignable = true;
    static constexpr bool has_ref    = false;
    static constexpr bool is_ii      = false;
    static constexpr bool has_mo     = false;
    static constexpr bool unique     = true;
    template <size_t I>
    using E = void;
    static json types() { return json::array(); }
    static TT build(json const&, int*) { return TT(); }
    template <typename T>
    static void vals(T const&, json&)
    {
    }
};
using C_t_0 = Cfg<false>;
#endif

using C_p_ii  = Cfg<true, int, int>;
using C_p_ti  = Cfg<true, Tracked, int>;
using C_p_tt  = Cfg<true, Tracked, Tracked>;
using C_p_mi  = Cfg<true, Mo, int>;
using C_p_ic  = Cfg<true, int, Co>;
using C_p_ri  = Cfg<true, int&, int>;
using C_p_ki  = Cfg<true, int const, int>;
using C_t_i   = Cfg<false, int>;
using C_t_ii  = Cfg<false, int, int>;
using C_t_iii = Cfg<false, int, int, int>;
using C_t_ttt = Cfg<false, Tracked, Tracked, Tracked>;
using C_t_mic = Cfg<false, Mo, int, Co>;
using C_t_rk  = Cfg<false, int&, int const>;

template <size_t N, typename F>
void with_index(size_t i, F&& f)
{
    [&]<size_t... I>(std::index_sequence<I...>) {
        ((i == I ? (f(std::integral_constant<size_t, I>{}), 0) : 0), ...);
    }(std::make_index_sequence<N>{});
}

#define VH_REL(expr) [](auto const& p, auto const& q) -> decltype(expr) { return expr; }

template <typename A, typename B>
json rel6(A const& a, B const& b, std::string const& what, bool all6)
{
    json f   = json::array();
    auto one = [&](auto fn, char const* nm) {
        if constexpr (requires { bool(fn(a, b)); }) {
            f.push_back(fn(a, b) ? 1 : 0);
        } else {
            f.push_back(-1);
            unsupported(what + "[" + nm + "]");
        }
    };
    one(VH_REL(p == q), "==");
    one(VH_REL(p != q), "!=");
    if (all6) {
        one(VH_REL(p < q), "<");
        one(VH_REL(p <= q), "<=");
        one(VH_REL(p > q), ">");
        one(VH_REL(p >= q), ">=");
    }
    return f;
}

// second operand type of tuple_cat for a configuration (spec: CatShapes)
template <typename C>
struct cat_partner {
    using type = void;
};
template <>
struct cat_partner<C_t_ii> {
    using type = C_t_i;
};
template <>
struct cat_partner<C_t_ttt> {
    using type = C_t_ii;
};
template <>
struct cat_partner<C_p_ti> {
    using type = C_t_ttt;
};
#if VP_TUPLE_EMPTY
template <>
struct cat_partner<C_t_0> {
    using type = C_t_ii;
};
template <>
struct cat_partner<C_t_i> {
    using type = C_t_0;
};
#endif
template <>
struct cat_partner<C_t_mic> {
    using type = C_p_tt;
};
// source type of the converting pair operations
template <typename C>
struct conv_source {
    using type = void;
};
template <>
struct conv_source<C_p_ii> {
    using type = C_p_ii; // pair<long,long> <- pair<int,int> would change the destination type; use short/long below
};
template <>
struct conv_source<C_p_ti> {
    using type = C_p_ii;
};
template <>
struct conv_source<C_p_tt> {
    using type = C_p_ti;
};

template <typename C>
bool run_tup(std::string const& name, std::string const& op, json const& x, json& ret)
{
    using TT = typename C::TT;
    constexpr size_t N = C::N;
    json const& pv = x["p"];
    json const& qv = x["q"];
    int mode = x["mode"].get<int>(), mode2 = x["mode2"].get<int>(), xi = x["i"].get<int>();
    int sp[4] = {0, 0, 0, 0}, sq[4] = {0, 0, 0, 0};
    bool ok = true;
    ret     = json::array();
    std::string what = "tup " + name + " " + op;

    if (op == "cmp") {
        TT p = C::build(pv, sp), q = C::build(qv, sq);
        ret = rel6(p, q, what, C::is_pair);
    } else if (op == "ctor_copy") {
        if constexpr (requires(TT const& q) { TT(q); } && C::copyable) {
            TT q = C::build(qv, sq);
            TT dd(std::as_const(q));
            C::vals(dd, ret);
            C::vals(q, ret);
        } else { ok = false; }
    } else if (op == "ctor_move") {
        TT q = C::build(qv, sq);
        TT dd(std::move(q));
        C::vals(dd, ret);
        C::vals(q, ret);
    } else if (op == "assign_copy") {
        if constexpr (requires(TT & p, TT const& q) { p = q; }) {
            TT p = C::build(pv, sp), q = C::build(qv, sq);
            p = std::as_const(q);
            C::vals(p, ret);
            C::vals(q, ret);
        } else { ok = false; }
    } else if (op == "assign_move") {
        if constexpr (requires(TT & p, TT & q) { p = std::move(q); }) {
            TT p = C::build(pv, sp), q = C::build(qv, sq);
            p = std::move(q);
            C::vals(p, ret);
            C::vals(q, ret);
        } else { ok = false; }
    } else if (op == "swap" || op == "fswap") {
        // a const element cannot be swapped (the member is declared but its body does not instantiate)
        if constexpr (!C::assignable) {
            ok = false;
        } else {
            TT p = C::build(pv, sp), q = C::build(qv, sq);
            if (op == "swap") {
                if constexpr (requires { p.swap(q); }) { p.swap(q); } else { ok = false; }
            } else {
                using lib::swap;
                if constexpr (requires { swap(p, q); }) { swap(p, q); } else { ok = false; }
            }
            C::vals(p, ret);
            C::vals(q, ret);
        }
    } else if ((op == "ctor_conv_copy" || op == "ctor_conv_move" || op == "assign_conv_copy" || op == "assign_conv_move")
               && (g_ty2_0 == "tref" || g_ty2_0 == "ctref")) {
        // source pair whose first element is an lvalue reference (Tracked& / Tracked const&): forward<U1> of an lvalue
        // reference is an lvalue, so even the converting MOVE operations copy from the referent and leave it untouched
        if constexpr (std::is_same_v<C, C_p_ti>) {
            auto go = [&](auto sid) {
                using ST = typename decltype(sid)::type;
                if constexpr (requires(TT & dd, ST & s) { TT(std::as_const(s)); TT(std::move(s)); dd = std::as_const(s); dd = std::move(s); }) {
                    Tracked rt(qv[0].template get<int>());
                    ST s(rt, qv[1].template get<int>());
                    auto fin = [&](TT const& dd) {
                        C::vals(dd, ret);
                        ret.push_back(vo(rt)); // the referent afterwards
                        ret.push_back(vo(lib::get<1>(s)));
                    };
                    if (op == "ctor_conv_copy") { TT dd(std::as_const(s)); fin(dd); }
                    else if (op == "ctor_conv_move") { TT dd(std::move(s)); fin(dd); }
                    else {
                        TT dd = C::build(pv, sp);
                        if (op == "assign_conv_copy") { dd = std::as_const(s); } else { dd = std::move(s); }
                        fin(dd);
                    }
                } else { ok = false; }
            };
            if (g_ty2_0 == "tref") { go(std::type_identity<lib::pair<Tracked&, int>>{}); }
            else { go(std::type_identity<lib::pair<Tracked const&, int>>{}); }
        } else { ok = false; }
    } else if (op == "ctor_conv_copy" || op == "ctor_conv_move" || op == "assign_conv_copy" || op == "assign_conv_move") {
        using SC = typename conv_source<C>::type;
        if constexpr (std::is_void_v<SC>) {
            ok = false;
        } else {
            // destination differs from the source in at least one element type: p_ii is driven as pair<long,short>
            using DT = std::conditional_t<std::is_same_v<C, C_p_ii>, lib::pair<long, short>, TT>;
            using ST = typename SC::TT;
            if constexpr (requires(DT & dd, ST & s) { DT(std::as_const(s)); DT(std::move(s)); dd = std::as_const(s); dd = std::move(s); }) {
                ST s = SC::build(qv, sq);
                auto fin = [&](DT const& dd) {
                    ret.push_back((int)vo(lib::get<0>(dd)));
                    ret.push_back((int)vo(lib::get<1>(dd)));
                    SC::vals(s, ret);
                };
                if (op == "ctor_conv_copy") { DT dd(std::as_const(s)); fin(dd); }
                else if (op == "ctor_conv_move") { DT dd(std::move(s)); fin(dd); }
                else {
                    DT dd = [&] {
                        if constexpr (std::is_same_v<DT, TT>) { return C::build(pv, sp); } else { return DT(pv[0].get<int>(), (short)pv[1].get<int>()); }
                    }();
                    if (op == "assign_conv_copy") { dd = std::as_const(s); } else { dd = std::move(s); }
                    fin(dd);
                }
            } else { ok = false; }
        }
    } else if (op == "get") {
        if constexpr (N == 0) {
            ok = false;
        } else {
            TT p = C::build(pv, sp);
            with_index<N>((size_t)xi, [&](auto Ic) {
                constexpr size_t I = decltype(Ic)::value;
                using E            = std::remove_cvref_t<typename C::template E<I>>;
                // get<I> of an rvalue whose element is a reference: declared, but the body may not instantiate
                constexpr bool rget = !std::is_reference_v<typename C::template E<I>> || (C::is_pair ? VP_RGET_REF_PAIR != 0 : VP_RGET_REF_TUPLE != 0);
                if (mode == 1) {
                    ret.push_back(vo(lib::get<I>(p)));
                    ret.push_back(cat<decltype(lib::get<I>(p))>());
                } else if (mode == 2) {
                    ret.push_back(vo(lib::get<I>(std::as_const(p))));
                    ret.push_back(cat<decltype(lib::get<I>(std::as_const(p)))>());
                } else if constexpr (!rget) {
                    ok = false;
                } else if (mode == 3) {
                    if constexpr (requires { E(lib::get<I>(std::move(p))); }) {
                        E n(lib::get<I>(std::move(p))); // the result initialises a new object: a move if it is an rvalue
                        ret.push_back(vo(n));
                        ret.push_back(cat<decltype(lib::get<I>(std::move(p)))>());
                    } else { ok = false; }
                } else {
                    if constexpr (requires { lib::get<I>(std::move(std::as_const(p))); }) {
                        ret.push_back(vo(lib::get<I>(std::move(std::as_const(p)))));
                        ret.push_back(cat<decltype(lib::get<I>(std::move(std::as_const(p))))>());
                    } else { ok = false; }
                }
                ret.push_back(vo(lib::get<I>(p)));
            });
        }
    } else if (op == "get_t") {
        constexpr bool have = C::is_pair ? (VP_GET_T_PAIR != 0) : (VP_GET_T_TUPLE != 0);
        if constexpr (N == 0 || !C::unique || !have) {
            ok = false;
        } else {
            TT p = C::build(pv, sp);
            with_index<N>((size_t)xi, [&](auto Ic) {
                constexpr size_t I = decltype(Ic)::value;
                using ET           = typename C::template E<I>;
                using E            = std::remove_cvref_t<ET>;
                // get<T&>(rvalue): not even libstdc++ instantiates it for a pair, so it is never driven
                constexpr bool rget = !std::is_reference_v<ET>;
                if constexpr (!requires { lib::get<ET>(p); }) {
                    ok = false;
                } else if constexpr (!rget) {
                    if (mode >= 3) { ok = false; }
                    else if (mode == 1) {
                        ret.push_back(vo(lib::get<ET>(p)));
                        ret.push_back(cat<decltype(lib::get<ET>(p))>());
                        ret.push_back(vo(lib::get<I>(p)));
                    } else {
                        ret.push_back(vo(lib::get<ET>(std::as_const(p))));
                        ret.push_back(cat<decltype(lib::get<ET>(std::as_const(p)))>());
                        ret.push_back(vo(lib::get<I>(p)));
                    }
                } else {
                    if (mode == 1) {
                        ret.push_back(vo(lib::get<ET>(p)));
                        ret.push_back(cat<decltype(lib::get<ET>(p))>());
                    } else if (mode == 2) {
                        ret.push_back(vo(lib::get<ET>(std::as_const(p))));
                        ret.push_back(cat<decltype(lib::get<ET>(std::as_const(p)))>());
                    } else if (mode == 3) {
                        if constexpr (requires { E(lib::get<ET>(std::move(p))); }) {
                            E n(lib::get<ET>(std::move(p)));
                            ret.push_back(vo(n));
                            ret.push_back(cat<decltype(lib::get<ET>(std::move(p)))>());
                        } else { ok = false; }
                    } else {
                        ret.push_back(vo(lib::get<ET>(std::move(std::as_const(p)))));
                        ret.push_back(cat<decltype(lib::get<ET>(std::move(std::as_const(p))))>());
                    }
                    ret.push_back(vo(lib::get<I>(p)));
                }
            });
        }
    } else if (op == "apply") {
        if constexpr (C::is_pair && !VP_APPLY_PAIR) {
            ok = false;
        } else {
            // elements of an rvalue tuple are obtained with get<I>(rvalue): see VP_RGET_REF_*
            constexpr bool rv_ok = !C::has_ref || (C::is_pair ? VP_RGET_REF_PAIR != 0 : VP_RGET_REF_TUPLE != 0);
            TT p = C::build(pv, sp);
            P7 f(0);
            if (mode == 1) { ret.push_back(lib::apply(f, p)); }
            else if (mode == 2) { ret.push_back(lib::apply(f, std::as_const(p))); }
            else if constexpr (rv_ok) { ret.push_back(lib::apply(f, std::move(p))); }
            else { ok = false; }
            C::vals(p, ret);
        }
    } else if (op == "mft") {
        if constexpr (C::is_pair && !VP_MFT_PAIR) {
            ok = false;
        } else {
            constexpr bool rv_ok = !C::has_ref || (C::is_pair ? VP_RGET_REF_PAIR != 0 : VP_RGET_REF_TUPLE != 0);
            TT p = C::build(pv, sp);
            if (mode == 1) { ret.push_back(lib::make_from_tuple<RecCtor>(p).r); }
            else if (mode == 2) { ret.push_back(lib::make_from_tuple<RecCtor>(std::as_const(p)).r); }
            else if constexpr (rv_ok) { ret.push_back(lib::make_from_tuple<RecCtor>(std::move(p)).r); }
            else { ok = false; }
            C::vals(p, ret);
        }
    } else if (op == "mft_il") {
        if constexpr (!C::is_ii || (C::is_pair && !VP_MFT_PAIR)) {
            ok = false;
        } else {
            TT p = C::build(pv, sp);
            auto push = [&](RecIL const& rr) {
                ret.push_back(rr.which);
                ret.push_back(rr.a);
                ret.push_back(rr.b);
            };
            if (mode == 1) { push(lib::make_from_tuple<RecIL>(p)); }
            else if (mode == 2) { push(lib::make_from_tuple<RecIL>(std::as_const(p))); }
            else { push(lib::make_from_tuple<RecIL>(std::move(p))); }
        }
    } else if (op == "cat") {
        using C2 = typename cat_partner<C>::type;
        if constexpr (std::is_void_v<C2>) {
            ok = false;
        } else if constexpr (!VP_CAT_RVALUE || ((C::is_pair || C2::is_pair) && !VP_CAT_PAIR) || ((C::has_mo || C2::has_mo) && !VP_CAT_MOVEONLY)) {
            ok = false;
        } else {
            using T2 = typename C2::TT;
            TT p     = C::build(pv, sp);
            T2 q     = C2::build(qv, sq);
            auto fin = [&](auto const& r) {
                [&]<size_t... I>(std::index_sequence<I...>) { (ret.push_back(vo(lib::get<I>(r))), ...); }(std::make_index_sequence<N + C2::N>{});
                C::vals(p, ret);
                C2::vals(q, ret);
            };
            if (mode == 3 && mode2 == 3) {
                fin(lib::tuple_cat(std::move(p), std::move(q)));
            } else {
                // an lvalue argument is copied from
                if constexpr (!VP_CAT_LVALUE) {
                    ok = false;
                } else if (mode == 1 && mode2 == 1) {
                    if constexpr (C::copyable && C2::copyable) { fin(lib::tuple_cat(p, q)); } else { ok = false; }
                } else if (mode == 3 && mode2 == 1) {
                    if constexpr (C2::copyable) { fin(lib::tuple_cat(std::move(p), q)); } else { ok = false; }
                } else {
                    if constexpr (C::copyable) { fin(lib::tuple_cat(p, std::move(q))); } else { ok = false; }
                }
            }
        }
    } else if (op == "sb") {
        if constexpr (N != 2 || (!C::is_pair && !VP_TUPLE_SB)) {
            ok = false;
        } else {
            TT p = C::build(pv, sp);
            auto& [e0, e1] = p;
            ret.push_back(vo(e0));
            ret.push_back(vo(e1));
            ret.push_back(&e0 == &lib::get<0>(p) && &e1 == &lib::get<1>(p) ? 1 : 0);
        }
    } else if (op == "make") {
        // make_pair / make_tuple decay their arguments: values are preserved
        [&]<size_t... I>(std::index_sequence<I...>) {
            if constexpr (C::is_pair) {
                auto m = lib::make_pair(elem<typename C::template E<I>>(pv[I].template get<int>(), sp[I])...);
                (ret.push_back(vo(lib::get<I>(m))), ...);
            } else {
                auto m = lib::make_tuple(elem<typename C::template E<I>>(pv[I].template get<int>(), sp[I])...);
                (ret.push_back(vo(lib::get<I>(m))), ...);
            }
        }(std::make_index_sequence<N>{});
    } else {
        ok = false;
    }
    if (!ok) { unsupported(what); }
    return ok;
}

bool dispatch_tup(std::string const& cfg, std::string const& op, json const& x, json& ret)
{
    if (cfg == "p_ii") { return run_tup<C_p_ii>(cfg, op, x, ret); }
    if (cfg == "p_ti") { return run_tup<C_p_ti>(cfg, op, x, ret); }
    if (cfg == "p_tt") { return run_tup<C_p_tt>(cfg, op, x, ret); }
    if (cfg == "p_mi") { return run_tup<C_p_mi>(cfg, op, x, ret); }
    if (cfg == "p_ic") { return run_tup<C_p_ic>(cfg, op, x, ret); }
    if (cfg == "p_ri") { return run_tup<C_p_ri>(cfg, op, x, ret); }
    if (cfg == "p_ki") { return run_tup<C_p_ki>(cfg, op, x, ret); }
    if (cfg == "t_0") {
#if VP_TUPLE_EMPTY
        return run_tup<C_t_0>(cfg, op, x, ret);
#else
        unsupported("tup t_0 " + op);
        return false;
#endif
    }
    if (cfg == "t_i") { return run_tup<C_t_i>(cfg, op, x, ret); }
    if (cfg == "t_ii") { return run_tup<C_t_ii>(cfg, op, x, ret); }
    if (cfg == "t_iii") { return run_tup<C_t_iii>(cfg, op, x, ret); }
    if (cfg == "t_ttt") { return run_tup<C_t_ttt>(cfg, op, x, ret); }
    if (cfg == "t_mic") { return run_tup<C_t_mic>(cfg, op, x, ret); }
    if (cfg == "t_rk") { return run_tup<C_t_rk>(cfg, op, x, ret); }
    std::fprintf(stderr, "unknown configuration %s\n", cfg.c_str());
    std::exit(2);
}

int run_cases(std::string const& path)
{
    long nev = 0, nskip = 0;
    for (auto const& c : vh::read_ndjson(path)) {
        json ev  = c;
        json ret = json::array();
        g_log    = CallLog{true, json::array()};
        bool ok;
        if (c["fam"] == "form") {
            ok = run_form(c["form"].get<std::string>(), c["x"], ret);
            if (!ok) { unsupported("form " + c["form"].get<std::string>()); }
        } else {
            g_ty2_0 = c["ty2"].empty() ? std::string() : c["ty2"][0].get<std::string>();
            ok      = dispatch_tup(c["cfg"].get<std::string>(), c["op"].get<std::string>(), c["x"], ret);
        }
        g_log.on = false;
        if (!ok) {
            ++nskip;
            continue;
        }
        ev["ret"]   = ret;
        ev["calls"] = g_log.calls;
        ev["inst"]  = c["fam"] == "form" ? "form" : c["cfg"].get<std::string>();
        vh::emit(ev);
        ++nev;
    }
    std::fprintf(stderr, "SUMMARY inst=cases events=%ld unsupported=%ld live_delta=0\n", nev, nskip);
    return 0;
}

} // namespace

int main(int argc, char** argv)
{
    if (argc < 3) {
        std::fprintf(stderr, "usage: callable_driver ipf <script> | cases <file>\n");
        return 2;
    }
    std::string mode = argv[1];
    install_fault_handlers();
    if (mode == "ipf") {
        long before = vh::live_count();
        long nev, nskip;
        {
            IpfRunner r;
            r.replay(vh::read_ndjson(argv[2]));
            r.reset();
            nev   = r.nev;
            nskip = r.nskip;
        }
        std::fprintf(stderr, "SUMMARY inst=ipf16 events=%ld unsupported=%ld live_delta=%ld\n", nev, nskip, vh::live_count() - before);
        return 0;
    }
    if (mode == "cases") { return run_cases(argv[2]); }
    return 2;
}
