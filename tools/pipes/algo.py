"""Algorithm family pipeline (spec/AlgoOps.tla, AlgoDom.tla, Algo.tla, AlgoTrace.tla,
harness/algo_driver.cpp, harness/iter_wrappers.hpp).  Serves C06.

  1. TLC model-checks Algo.tla (Post(op, x, Ref(op, x)) and uniqueness of the returned value on a bounded
     domain, |Dom| = DomSize) and exports the shared input domain (every key sequence up to MaxLen).
  2. compile probes decide which (algorithm, iterator category) instantiations the working tree can
     drive; the driver is built for tetl and, with -DVH_STD, for libstdc++ (calibration).
  3. the drivers replay the exported sequences through every algorithm / category; AlgoTrace.tla judges
     every event and checks exact coverage of the domain per (algorithm, category) group.
Python only orchestrates: it never compares results."""
import json
import os
import subprocess
import threading
from concurrent.futures import ThreadPoolExecutor

import vlib

# replayed domain (spec/AlgoDom.tla; AlgoTrace_<tier>.cfg carries the same numbers)
CONSTS = {"quick": {"MaxLen": 5, "MaxLen2": 3, "MaxPair": 3, "MaxA2": 4},
          "thorough": {"MaxLen": 6, "MaxLen2": 3, "MaxPair": 4, "MaxA2": 6}}
# bound on which Algo.tla proves its theorems (smaller than the replayed domain: the theorems are
# about the specification, every replayed event is judged by the same operators anyway)
MC_CONSTS = {"quick": {"MaxLen": 4, "MaxLen2": 3, "MaxPair": 3, "MaxA2": 3},
             "thorough": {"MaxLen": 6, "MaxLen2": 3, "MaxPair": 4, "MaxA2": 5}}
NFILES = {"quick": 12, "thorough": 60}      # 50-80k events per trace file keep one validator below ~1 GB
TLC_SLOTS = threading.BoundedSemaphore(8)       # trace validators running side by side (both impls)

# (algorithm, category) instantiations the standard requires but the tree may not compile:
# probed on every run; enabled in the driver (-DVH_OK_<fn>_<policy>) as soon as they compile
SUSPECTS = [("search_n", "P_fwd"), ("search_n", "P_ra"), ("inplace_merge", "P_bidi"), ("unique_copy", "P_io"),
            ("stable_partition", "P_bidi"), ("shift_right", "P_fwd")]


def model(tier, out):
    c = {k: str(v) for k, v in MC_CONSTS[tier].items()}
    c["ExportLen"] = str(CONSTS[tier]["MaxLen"])
    out["mc"] = vlib.tlc_mc("Algo.tla", "Algo.cfg", "algo_mc_" + tier, workers=6, constants=c, heap="3g", timeout=3000)


def probe(fn, pol):
    try:
        vlib.build("algo_driver.cpp", "algo_probe_%s_%s" % (fn, pol), opt="-O0",
                   flags=["-fsyntax-only", "-DVH_PROBE_FN=run_" + fn, "-DVH_PROBE_POL=" + pol])
        return True
    except vlib.ModelFailure:
        return False


def build_drivers(out):
    with ThreadPoolExecutor(max_workers=len(SUSPECTS) + 1) as ex:
        std = ex.submit(vlib.build, "algo_driver.cpp", "algo_std", ["-DVH_STD"], "c++20", "-O1", 900, False)
        ok = list(ex.map(lambda s: probe(*s), SUSPECTS))
        flags = ["-DVH_OK_%s_%s" % s for s, k in zip(SUSPECTS, ok) if k]
        etl = vlib.build("algo_driver.cpp", "algo_etl", flags=flags)
        out["bins"] = {"etl": etl, "std": std.result()}
        out["probe"] = {"%s/%s" % (s[0], s[1][2:]): k for s, k in zip(SUSPECTS, ok)}


def listing(binp):
    p = subprocess.run([binp, "list"], capture_output=True, text=True, timeout=60)
    if p.returncode != 0:
        raise vlib.ModelFailure("algo driver list failed")
    res = {}
    for line in p.stdout.splitlines():
        w = line.split()
        res[w[0]] = {"cats": [c for c in w[1:] if not c.startswith("!")], "unsupported": [c[1:] for c in w[1:] if c.startswith("!")]}
    return res


def partition(items, weight, k):
    bins = [[0, []] for _ in range(k)]
    for it in sorted(items, key=lambda o: -weight[o]):
        b = min(bins, key=lambda b: b[0])
        b[0] += weight[it]
        b[1].append(it)
    return [b[1] for b in bins if b[1]]


def execute(impl, binp, domain, parts, tier):
    """Run the groups of every part in one driver process each.  The driver contains faults and hangs itself
    (sigsetjmp, CPU-time watchdog) and logs them as events; a library call that runs off its range can however
    damage the process beyond that (the handler faults again and the kernel kills it).  For the implementation
    under test such a death is a finding, not a harness failure: the group in flight is closed by a `#died` event (judged `crash` by AlgoTrace),
    the events of the groups that finished are kept and the remaining groups run in a fresh process.  The
    calibration build (libstdc++) has no such allowance: a death there is a ModelFailure."""
    d = vlib.workdir("traces")

    def run_part(i, grs):
        tp = os.path.join(d, "algo_%s_%s_%d.ndjson" % (impl, tier, i))
        todo = list(grs)
        done = {}
        k = 0
        with open(tp, "wb") as final:
            while todo:
                part = "%s.part%d" % (tp, k)
                k += 1
                cmd = [binp, "run", domain, ",".join("%s/%s" % g for g in todo)]
                rc, err = vlib.run(cmd, part, ok_codes=None)
                got = {}
                for line in err.splitlines():
                    w = line.split()
                    if len(w) == 4 and w[0] == "GROUP":
                        got[(w[1], w[2])] = int(w[3])
                done.update(got)
                inflight = next((g for g in todo if g not in got), None)
                if rc != 0 and (impl != "etl" or inflight is None or k > 40):
                    raise vlib.ModelFailure("driver failed rc=%d: %s\n%s" % (rc, " ".join(cmd), err[-3000:]))
                last = None
                with open(part, "rb") as f:
                    for line in f:
                        if not line.endswith(b"\n"):
                            continue                      # the line being written when the process died
                        final.write(line)
                        last = line
                os.remove(part)
                if rc != 0 and last is not None:
                    # the driver runs the groups in its own table order: the group in flight is the one the last
                    # complete event belongs to, unless that group was reported as finished
                    try:
                        ev = json.loads(last)
                        if (ev.get("op"), ev.get("inst")) in todo and (ev.get("op"), ev.get("inst")) not in got:
                            inflight = (ev["op"], ev["inst"])
                    except ValueError:
                        pass
                if rc == 0:
                    break
                done[inflight] = done.get(inflight, 0)
                final.write((json.dumps({"op": "#died", "inst": inflight[1], "gop": inflight[0], "rc": rc,
                                         "note": "the driver process died inside this group (a call damaged the process beyond the "
                                                 "driver's own fault containment); the group's earlier events precede this line"})
                             + "\n").encode())
                todo = [g for g in todo if g not in got and g != inflight]
        return tp, done
    from concurrent.futures import ThreadPoolExecutor as _TPE
    with _TPE(max_workers=8) as ex:
        res = list(ex.map(lambda a: run_part(*a), enumerate(parts)))
    groups = {}
    for _, g in res:
        groups.update(g)
    return [tp for tp, _ in res], groups


def validate(traces, cfg, tag, heap):
    """like vlib.tv_parallel, with a bounded number of JVM service threads per TLC and a global limit on
    concurrently running validators (many small TLCs run side by side)."""
    env = {"JAVA_TOOL_OPTIONS": "-XX:ParallelGCThreads=2 -XX:CICompilerCount=2"}

    def one(i, tp):
        with TLC_SLOTS:
            return vlib.tlc_tv("AlgoTrace.tla", cfg, tp, "%s_%d" % (tag, i), heap, 3600, env)
    with ThreadPoolExecutor(max_workers=len(traces)) as ex:
        res = list(ex.map(lambda a: one(*a), enumerate(traces)))
    return {"events": sum(r["events"] for r in res), "deviations": [d for r in res for d in r["deviations"]],
            "wall": max(r["wall"] for r in res)}


def pipeline(tier, rep, calibrate=True):
    out = {}
    errs = []

    def guarded(fn, *a):
        try:
            fn(*a)
        except Exception as e:  # noqa: BLE001 - re-raised in the main thread
            errs.append(e)
    th = [threading.Thread(target=guarded, args=(model, tier, out)), threading.Thread(target=guarded, args=(build_drivers, out))]
    for t in th:
        t.start()
    for t in th:
        t.join()
    if errs:
        raise errs[0]
    mc = out["mc"]
    rep.add_mc("Algo", mc)
    seqs = [g for g in mc["gen"] if g["kind"] == "seq"]
    sizes = {g["op"]: g["size"] for g in mc["gen"] if g["kind"] == "op"}     # at the MC bound: load balancing only
    domain = os.path.join(vlib.workdir("scripts"), "algo_domain_%s.ndjson" % tier)
    with open(domain, "w") as f:
        f.write(json.dumps(dict(kind="cfg", **CONSTS[tier])) + "\n")
        for g in seqs:
            f.write(json.dumps(g) + "\n")
    lst = {impl: listing(out["bins"][impl]) for impl in ("etl", "std")}
    for impl in ("etl", "std"):
        if set(lst[impl]) != set(sizes):
            raise vlib.ModelFailure("algo driver (%s) and Algo.tla disagree on the set of algorithms: %s"
                                    % (impl, sorted(set(lst[impl]) ^ set(sizes))))
    only = [o for o in os.environ.get("VERIF_ALGO_OPS", "").split(",") if o]     # debugging aid, noted in the evidence
    res = {}

    def one(impl):
        want = [(op, cat) for op in sorted(sizes) for cat in lst[impl][op]["cats"] if not only or op in only]
        parts = partition(want, {g: sizes[g[0]] for g in want}, NFILES[tier])
        traces, groups = execute(impl, out["bins"][impl], domain, parts, tier)
        missing = [g for g in want if g not in groups]
        if missing:
            raise vlib.ModelFailure("algo driver (%s) did not run groups %s" % (impl, missing[:5]))
        tv = validate(traces, "AlgoTrace_%s.cfg" % tier, "algo_tv_%s_%s" % (impl, tier), "1500m" if tier == "quick" else "2g")
        if tier == "thorough":                      # ~0.7 GB per implementation; deviating events are kept in the result
            for tp in traces:
                os.remove(tp)
        res[impl] = (tv, groups)
    impls = ["etl", "std"] if calibrate else ["etl"]
    with ThreadPoolExecutor(max_workers=2) as ex:
        list(ex.map(one, impls))
    tv, groups = res["etl"]
    rep.add_tv("Algo", tv, len(groups))
    mod = rep.cov["modules"]["Algo"]
    unsup = sorted("%s/%s" % (op, c) for op in lst["etl"] for c in lst["etl"][op]["unsupported"])
    mod.update({"algorithms": len(sizes), "groups_algorithm_x_iterator_category": len(groups),
                "distinct_inputs_ptr_category": sum(n for (op, cat), n in groups.items() if cat == "ptr"),
                "constants": CONSTS[tier], "mc_constants": MC_CONSTS[tier],
                "not_drivable": unsup, "compile_probes": out["probe"]})
    if only:
        rep.notes.append({"restricted_to_ops": only})
    rep.cov["exhaustive"] = not only
    rep.sample({"module": "Algo", "inputs_per_group": {"%s/%s" % k: v for k, v in sorted(groups.items())[:8]}})
    if calibrate:
        ctv = res["std"][0]
        if ctv["deviations"]:
            d = ctv["deviations"][0]
            raise vlib.ModelFailure("calibration: libstdc++ deviates from the Algo spec (spec/projection error): %s %s"
                                    % (d["kind"], json.dumps(d.get("ev"))[:600]))
        mod["calibration_events_std"] = ctv["events"]
    return tv, groups
