#!/usr/bin/env python3
"""Regenerate seeded/INDEX.md from seeded/*/meta.json."""
import glob, json, os
rows = []
for f in sorted(glob.glob('/verif/seeded/*/meta.json')):
    m = json.load(open(f))
    needs = (m.get('needs') or '').strip().splitlines()
    first = next((l.strip('# ').strip() for l in needs if l.strip()), '')
    rows.append("| %s | %s | %s | %s | %s |" % (m['id'], m['property'], 'yes' if m.get('confirmed') else 'NO',
                ', '.join(m.get('detected_by', [])) or ('**missed**' if m.get('confirmed') else 'n/a (does not break the property on the current tree)'), first[:110].replace('|', '/')))
open('/verif/seeded/INDEX.md', 'w').write("# Seeded changes\n\n| id | property | confirmed | detected by (quick tier) | change |\n|---|---|---|---|---|\n" + "\n".join(rows) + "\n")
conf = [r for r in rows if "| yes |" in r]
print(len(rows), "entries,", len(conf), "confirmed,", sum("**missed**" in r for r in conf), "missed")
