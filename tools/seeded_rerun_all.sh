#!/bin/bash
# Re-runs every stored seeded change (seeded/<id>/patch.diff) against the check(s) of its property in the scratch
# worktree /tmp/seedchk and rewrites seeded/<id>/meta.json + seeded/INDEX.md. Several hours for the full set.
cd "$(dirname "$0")/.." || exit 2
for d in seeded/*/; do
  id=$(basename "$d"); [ -f "$d/meta.json" ] || continue
  prop=$(python3 -c "import json;print(json.load(open('$d/meta.json'))['property'])")
  python3 tools/seeded.py run --id "$id" --checks "$prop" || echo "FAILED $id"
done
python3 tools/seeded_index.py
