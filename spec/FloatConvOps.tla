-------------------------- MODULE FloatConvOps --------------------------
(* C02, character -> floating point conversion (strings::to_floating_point, strtod/strtof/strtold, atof, stof/stod):   *)
(* TLA+ has no reals, so the value is not judged here; what the property states for these calls is the memory           *)
(* footprint: only characters inside the passed view / up to the terminator are read, the reported end lies inside      *)
(* the input, and a rejected input consumes nothing.                                                                     *)
EXTENDS Naturals, Integers, Sequences

\* ev = [api, text (character codes), len, outcome ("returned" | "trap"), end (offset, -1 for null), err (0 ok, 1 invalid)]
FcJudge(ev) ==
    IF ev.outcome # "returned" THEN "trap"                      \* a sanitizer / signal stopped a valid call
    ELSE IF ~(ev.end >= 0 /\ ev.end <= ev.len) THEN "mem-end-outside-input"
    ELSE IF ev.err = 1 /\ ev.end # 0 THEN "mem-rejected-but-consumed"
    ELSE "ok"
=========================================================================
