"""Md pipeline (spec/Md.tla, MdOps.tla, MdTrace.tla, harness/md_driver.cpp, md_ref.hpp, md_probe.cpp).  Serves C19.

  MC/GEN : TLC proves injectivity / bounds / onto / stride laws of the layout model on every extents tuple and
           stride vector inside the bound and exports the domain (extents, strides, span triples)
  probes : members that are declared but do not link / instantiate are measured on every run (not drivable)
  replay : every exported tuple is instantiated on each compatible static/dynamic extents pattern of the real
           templates (compiled in parts, in parallel) and the whole index space is walked
  TV     : every recorded observation is judged by MdTrace.tla
  calibration: the same driver over std::span and the plain reference in harness/md_ref.hpp must give zero deviations
"""
import json
import os
from concurrent.futures import ThreadPoolExecutor

import vlib

PROBES = {
    1: ("layout_stride::mapping::required_span_size", "VP_HAVE_STRIDE_REQ"),
    2: ("layout_stride::mapping::is_exhaustive", None),
    3: ("layout_stride::mapping operator==", None),
    4: ("layout_stride::mapping(other strided mapping)", None),
    5: ("layout_left::mapping(layout_stride::mapping)", None),
    6: ("layout_right::mapping(layout_stride::mapping)", None),
    7: ("submdspan_extents with an index-pair slice", None),
    8: ("submdspan_extents with a strided_slice", None),
    9: ("layout_transpose::mapping::is_always_contiguous / is_contiguous", None),
    10: ("submdspan", None),
    11: ("mdspan(mdarray) deduction guide", None),
}
CXX = ["-pthread"]


def _split(paths, outprefix, per=120000):
    """Re-cut the trace files into pieces of at most `per` events (one TLC each); small files are merged."""
    outs, buf, n = [], [], 0

    def flush():
        nonlocal buf, n
        if buf:
            op = "%s_%d.ndjson" % (outprefix, len(outs))
            with open(op, "wb") as g:
                g.writelines(buf)
            outs.append(op)
            buf, n = [], 0
    for p in paths:
        with open(p, "rb") as f:
            for line in f:
                buf.append(line)
                n += 1
                if n >= per:
                    flush()
    flush()
    if not outs:
        raise vlib.ModelFailure("the drivers produced no events")
    return outs


# sanitizer builds (VERIF_SANITIZE, property C02): the full pattern set is far too expensive to compile instrumented
# (cc1plus needs > 10 min per part and runs out of memory): one compact part stands for all of them.  A sanitizer
# report must end in abort() so that the driver can turn it into a crash event.
SAN_ENV = {"ASAN_OPTIONS": "abort_on_error=1:detect_leaks=0", "UBSAN_OPTIONS": "abort_on_error=1:print_stacktrace=0"}


def parts(tier):
    if os.environ.get("VERIF_SANITIZE"):
        return [10]
    return [0, 1, 2, 3, 4, 5, 7, 8, 9, 11] + ([6] if tier == "thorough" else [])


def model(tier):
    consts = {"quick": {"MaxRank": "3", "MaxExt": "3", "MaxSpan": "6"},
              "thorough": {"MaxRank": "4", "MaxExt": "4", "MaxSpan": "6"}}[tier]
    return vlib.tlc_mc("Md.tla", "Md.cfg", "md_mc_" + tier, workers=4 if tier == "quick" else 8, heap="4g",
                       constants=consts, timeout=3000)


def probe():
    """Returns (not_drivable names, extra -D flags for the etl driver)."""
    def one(k):
        try:
            vlib.build("md_probe.cpp", "md_probe_%d" % k, flags=["-DVP_PROBE=%d" % k], std="c++23", timeout=600)
            return k, True
        except vlib.ModelFailure:
            return k, False
    with ThreadPoolExecutor(max_workers=6) as ex:
        res = dict(ex.map(one, [0] + sorted(PROBES)))
    if not res[0]:
        raise vlib.ModelFailure("the empty probe (harness/md_probe.cpp, VP_PROBE=0) does not build: tool chain / headers broken")
    nd, flags = [], []
    for k, (name, flag) in sorted(PROBES.items()):
        if res[k]:
            if flag:
                flags.append("-D" + flag)
        else:
            nd.append(name)
    return nd, flags


def build_drivers(tier, impls, etl_flags):
    jobs, keys = [], []
    for impl in impls:
        for p in parts(tier):
            fl = CXX + ["-DVH_PART=%d" % p] + (["-DVH_STD"] if impl == "std" else list(etl_flags))
            jobs.append(dict(src="md_driver.cpp", out="md_%s_%d" % (impl, p), std="c++23", flags=fl,
                             include_repo=(impl != "std"), timeout=3600))
            keys.append((impl, p))
    paths = vlib.build_many(jobs, par=8)
    return dict(zip(keys, paths))


def pipeline(tier, rep, calibrate=True):
    if os.environ.get("VERIF_CALIBRATE", "1") == "0":
        calibrate = False        # mutation self-tests only: the std build does not depend on the tree under test
        rep.notes.append("calibration skipped (VERIF_CALIBRATE=0)")
    impls = ("etl", "std") if calibrate else ("etl",)
    d = vlib.workdir("traces")
    with ThreadPoolExecutor(max_workers=2) as ex:
        fmc = ex.submit(model, tier)
        fpr = ex.submit(probe)
        nd, etl_flags = fpr.result()
        bins = build_drivers(tier, impls, etl_flags)
        mc = fmc.result()
    rep.add_mc("Md", mc)
    rep.cov["exhaustive"] = True
    gen = mc["gen"]
    if not gen:
        raise vlib.ModelFailure("Md.tla exported nothing")
    genfile = os.path.join(vlib.workdir("scripts"), "md_gen_%s.ndjson" % tier)
    with open(genfile, "w") as f:
        for g in gen:
            f.write(json.dumps(g) + "\n")
    tv = {}
    traps = 0
    for impl in impls:
        renv = dict(SAN_ENV) if os.environ.get("VERIF_SANITIZE") else {}
        tasks = [([bins[(impl, p)], genfile], os.path.join(d, "md_%s_%s_%d.ndjson" % (impl, tier, p)), {"env": renv}) for p in parts(tier)]
        res = vlib.run_parallel(tasks, par=8)
        if impl == "etl":
            for _, err in res:
                for line in err.splitlines():
                    if line.startswith("SUMMARY") and "traps=" in line:
                        traps += int(line.rsplit("traps=", 1)[1])
        chunks = _split([t[1] for t in tasks], os.path.join(d, "md_%s_%s_c" % (impl, tier)), 40000 if tier == "quick" else 150000)
        tv[impl] = vlib.tv_parallel("MdTrace.tla", "MdTrace.cfg", chunks, "md_tv_%s_%s" % (impl, tier), par=8, heap="3g")
    if tier == "thorough" and not any(tv[i]["deviations"] for i in impls):
        for f in os.listdir(d):          # about a GB per run; every run regenerates them
            if f.startswith("md_") and "_thorough_" in f:
                os.remove(os.path.join(d, f))
    rep.add_tv("Md", tv["etl"], len(gen), "every exported extents tuple / stride vector / span triple on every compiled pattern")
    m = rep.cov["modules"]["Md"]
    m["not_drivable"] = nd
    m["calls_ended_by_a_signal"] = traps
    rep.sample({"module": "Md", "input": gen[len(gen) // 2]})
    if calibrate:
        if tv["std"]["deviations"]:
            dv = tv["std"]["deviations"][0]
            raise vlib.ModelFailure("calibration: the reference implementation deviates from the Md spec "
                                    "(spec/projection error): %s %s" % (dv["kind"], json.dumps(dv.get("ev"))[:500]))
        m["calibration_events_std"] = tv["std"]["events"]
    return tv["etl"]


def replay(rec):
    """tools/check.py --replay: instantiate the extents / strides / span triple of the recorded event again on the
    current tree (all compiled patterns), judge the fresh events and return the deviations on the same
    operation, pattern and layout / form."""
    ev = rec["event"]
    if ev["op"] in ("span", "span_obs"):
        lines = [{"k": "span", "n": ev["n"], "o": ev.get("o", 0), "c": ev.get("c", -1)}]
    elif ev["op"] == "eq":
        lines = [{"k": "ext", "ext": ev["ext"]}] + ([{"k": "ext", "ext": ev["ext2"]}] if ev["ext2"] != ev["ext"] else [])
    elif ev.get("layout") == "stride":
        lines = [{"k": "stride", "ext": ev["ext"], "strides": ev["sin"], "pad": 0}]
    else:
        lines = [{"k": "ext", "ext": ev["ext"]}]
    d = vlib.workdir("replay")
    gp = os.path.join(d, "md_gen.ndjson")
    with open(gp, "w") as f:
        for ln in lines:
            f.write(json.dumps(ln) + "\n")
    nd, etl_flags = probe()
    rank = len(ev.get("ext", []))
    if ev["op"] == "eq":
        rank = -1                      # only part 9 (and the cheap rank-independent parts) matter
    ps = [p for p in parts("thorough") if not (p in (1, 2, 3, 4, 5) and rank != 3) and not (p == 6 and rank != 4)]
    jobs = [dict(src="md_driver.cpp", out="md_replay_%d" % p, std="c++23", flags=CXX + ["-DVH_PART=%d" % p] + list(etl_flags),
                 timeout=1500) for p in ps]
    bins = vlib.build_many(jobs, par=8)
    tp = os.path.join(d, "md_trace.ndjson")
    with open(tp, "wb") as out:
        for b in bins:
            one = os.path.join(d, "md_trace_part.ndjson")
            vlib.run([b, gp], one)
            out.write(open(one, "rb").read())
    if os.path.getsize(tp) == 0:
        raise vlib.ModelFailure("replay produced no events for %s" % json.dumps(ev)[:300])
    tv = vlib.tlc_tv("MdTrace.tla", "MdTrace.cfg", tp, "md_replay", "3g")
    keys = ("op", "pat", "layout", "form", "kind", "it", "tpl", "sn", "slices", "src_pat", "what", "pat2", "ext2", "it2")
    return [x for x in tv["deviations"] if all(x["ev"].get(k) == ev.get(k) for k in keys)]
