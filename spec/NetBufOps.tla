---------------------------- MODULE NetBufOps ----------------------------
(* Meaning of the Networking TS buffer views (N4771 [buffer.mutable], [buffer.const],               *)
(* [buffer.arithmetic], [buffer.creation]) that etl::experimental::net re-implements:                *)
(* mutable_buffer / const_buffer and make_buffer (the TS calls the factory `buffer`).                *)
(* Transcribed from the TS wording, not from the etl sources.                                        *)
(*                                                                                                   *)
(* A buffer is a pair (pointer, size).  The harness places the caller's bytes in one array whose     *)
(* cell i (0-based) holds the value Cell(i); a pointer is abstracted to its byte offset from the     *)
(* start of that array, the null pointer to Null.off = -1:   buf == [off |-> Int, size |-> Nat].      *)
EXTENDS Integers, Sequences

Null == [off |-> -1, size |-> 0]                     \* mutable_buffer() : data_ == nullptr, size_ == 0
Min2(a, b) == IF a < b THEN a ELSE b

\* the harness fills the underlying storage with this pattern; View is what is readable through the buffer
Cell(i) == 10 + i
View(b) == IF b.off < 0 THEN << >> ELSE [k \in 1..b.size |-> Cell(b.off + k - 1)]

\* mutable_buffer(void* p, size_t n): data_ == p, size_ == n
Mk(off, n) == [off |-> off, size |-> n]

\* pointer + k on the abstract offset (nullptr + 0 is nullptr)
PAdd(off, k) == IF off < 0 THEN off ELSE off + k

\* operator+=(n): "Sets data_ to static_cast<char*>(data_) + min(n, size_), and then size_ to size_ - min(n, size_)"
Adv(b, n) == LET k == Min2(n, b.size) IN [off |-> PAdd(b.off, k), size |-> b.size - k]

\* [buffer.arithmetic] b + n / n + b:
\*   "mutable_buffer(static_cast<char*>(b.data()) + min(n, b.size()), b.size() - min(n, b.size()))"
Plus(b, n) == LET k == Min2(n, b.size) IN Mk(PAdd(b.off, k), b.size - k)

\* [buffer.creation] buffer(const mutable_buffer& b, size_t n): "mutable_buffer(b.data(), min(b.size(), n))"
Clamp(b, m) == Mk(b.off, Min2(b.size, m))

\* [buffer.creation] buffer(array<T, N>& data) / buffer(vector<T>& data): the memory range of the n elements,
\* i.e. n * sizeof(T) BYTES starting at data.data().
OfElems(n, esz) == Mk(0, n * esz)

\* ---- one call ------------------------------------------------------------------------------------
\* ops that change the buffer object itself; every other op leaves it as it is
Mutators == {"make", "ctor_default", "adv"}
RetOps == {"plus", "rplus", "max", "to_const", "copy", "make_array", "make_vec"}
AllOps == Mutators \cup RetOps

\* L = length of the caller's memory range handed to make; n = the size_t argument of the op
Eff(op, b, L, n) ==
    CASE op = "make"         -> Mk(0, L)
      [] op = "ctor_default" -> Null
      [] op = "adv"          -> Adv(b, n)
      [] OTHER               -> b

\* value returned by the non-mutating ops (operator+= returns *this: judged through `self`)
Ret(op, b, L, n, esz) ==
    CASE op = "plus"       -> Plus(b, n)
      [] op = "rplus"      -> Plus(b, n)
      [] op = "max"        -> Clamp(b, n)
      [] op = "to_const"   -> b                  \* const_buffer(const mutable_buffer& b): same range
      [] op = "copy"       -> b
      [] op = "make_array" -> OfElems(n, esz)
      [] op = "make_vec"   -> OfElems(n, esz)
      [] OTHER             -> b

\* the TS returns the null pointer for an empty container; a pointer that is never dereferenced is not
\* observable through the view, so any pointer is accepted for an EMPTY range produced from a container
SameBuf(got, exp, lax) == got.size = exp.size /\ (got.off = exp.off \/ (lax /\ exp.size = 0))
=============================================================================
