"""Lock-ownership pipeline (extension X01): spec/Lock.tla, LockOps.tla, LockTrace.tla, harness/lock_driver.cpp.
MC (protocol invariants) + GEN (every transition) -> replay on etl::lock_guard / etl::unique_lock over an
instrumented mutex -> LockTrace judges every event; the same scripts on std::lock_guard / std::unique_lock calibrate."""
import json
import os
from collections import Counter

import vlib
from pipes import ext1

TIERS = {
    "quick": {"NM": 2, "names": ("a", "b"), "durs": (7,)},
    "thorough": {"NM": 2, "names": ("a", "b", "c"), "durs": (0, 7)},
}

ALL_OPS = ["ul_ctor_default", "ul_ctor_lock", "ul_ctor_defer", "ul_ctor_adopt", "move_ctor", "ul_ctor_try", "ul_ctor_for",
           "ul_ctor_until", "lock", "unlock", "release", "swap", "fswap", "move_assign", "dtor", "try_lock", "try_lock_for",
           "try_lock_until", "owns_lock", "op_bool", "mutex", "lg_ctor", "lg_ctor_adopt", "lg_dtor", "h_lock", "h_unlock"]


def _key(t, which):
    return json.dumps(t[which], sort_keys=True)


def _call(t):
    return {"op": t["op"], "w": t["w"], "x": t["x"]}


def model(tier, rep):
    T = TIERS[tier]
    consts = {"NM": str(T["NM"]), "Names": "{%s}" % ", ".join('"%s"' % n for n in T["names"]),
              "Durs": "{%s}" % ", ".join(map(str, T["durs"]))}
    r = vlib.tlc_mc("Lock.tla", "Lock.cfg", "lock_mc_%s" % tier, workers=2 if tier == "quick" else 4, heap="2g", constants=consts)
    rep.add_mc("Lock", r)
    gen = [t for t in r["gen"] if t["op"] != "init"]
    per_op = Counter(t["op"] for t in gen)
    missing = [op for op in ALL_OPS if not per_op.get(op)]
    if missing:                                       # vacuity guard: every action was exported
        raise vlib.ModelFailure("Lock: no transition exported for %s" % missing)
    nerr = sum(1 for t in gen if t["err"])
    if not nerr:
        raise vlib.ModelFailure("Lock: no erroneous call exported")
    init = json.dumps({"mx": [0] * T["NM"], "w": {n: {"live": False, "m": 0, "owns": False} for n in T["names"]},
                       "g": {"live": False, "m": 0}}, sort_keys=True)
    # path prefixes avoid release(): a defect there must not mask the edges planned behind it
    sc, st = vlib.plan_edges(gen, _key, lambda n: n == init, _call, follow=lambda t: t["op"] != "release" and not t["err"])
    if st["unreachable"]:
        raise vlib.ModelFailure("planner: %d unreachable edges in Lock" % st["unreachable"])
    p = os.path.join(vlib.workdir("scripts"), "lock_%s.ndjson" % tier)
    vlib.write_scripts(sc, p)
    rep.cov["modules"]["Lock"].update({"scripts": len(sc), "planner": st, "exported_per_op": dict(per_op),
                                       "erroneous_calls_exported": nerr})
    rep.sample({"module": "Lock", "script": sc[len(sc) // 2]})
    rep.cov["exhaustive"] = True
    return p, sc, T


def _split(path, parts):
    """Cut a trace at script boundaries ({"op":"reset"}) into `parts` files of similar size."""
    lines = open(path, "rb").read().split(b"\n")
    lines = [l for l in lines if l]
    per = max(1, len(lines) // parts)
    outs, cur = [], []
    for ln in lines:
        if b'"op":"reset"' in ln and len(cur) >= per and len(outs) < parts - 1:
            outs.append(cur)
            cur = []
        cur.append(ln)
    if cur:
        outs.append(cur)
    res = []
    for i, ch in enumerate(outs):
        op = "%s.part%d" % (path, i)
        with open(op, "wb") as f:
            f.write(b"\n".join(ch) + b"\n")
        res.append(op)
    return res


def _side(impl, exe, sc, T, tier):
    tp = os.path.join(vlib.workdir("traces"), "lock_%s_%s.ndjson" % (impl, tier))
    r = ext1.replay(lambda sp: [exe, "replay", str(T["NM"]), str(len(T["names"])), sp], sc, tp, "lock_%s_%s" % (impl, tier))
    unsupported = sorted({l for l in r["stderr"] if l.startswith("UNSUPPORTED")})
    ncalls = sum(len(s) for s in sc)
    if not unsupported and not r["traps"] and r["lines"] != len(sc) + ncalls:   # vacuity guard: one event per call, one marker per script
        raise vlib.ModelFailure("lock driver (%s): %d lines for %d scripts with %d calls" % (impl, r["lines"], len(sc), ncalls))
    tv = vlib.tv_parallel("LockTrace.tla", "LockTrace.cfg", _split(tp, 4), "lock_tv_%s_%s" % (impl, tier), par=4, heap="1g")
    return tv, unsupported, len(r["traps"])


def pipeline(tier, rep, calibrate=None):
    from concurrent.futures import ThreadPoolExecutor
    if calibrate is None:
        calibrate = os.environ.get("VERIF_CALIBRATE", "1") != "0"
    script, sc, T = model(tier, rep)
    jobs = [dict(src="lock_driver.cpp", out="lock_etl")]
    if calibrate:
        jobs.append(dict(src="lock_driver.cpp", out="lock_std", flags=["-DVH_STD"], include_repo=False))
    bins = vlib.build_many(jobs)
    with ThreadPoolExecutor(max_workers=2) as ex:
        fe = ex.submit(_side, "etl", bins[0], sc, T, tier)
        fs = ex.submit(_side, "std", bins[1], sc, T, tier) if calibrate else None
        tv, unsup, ntraps = fe.result()
        ctv, cunsup, _ = fs.result() if fs else (None, [], 0)
    if calibrate:
        if ctv["deviations"]:
            d = ctv["deviations"][0]
            raise vlib.ModelFailure("calibration: libstdc++ deviates from Lock spec (spec/projection error): %s %s"
                                    % (d["kind"], json.dumps(d.get("ev"))[:700]))
        if cunsup:
            raise vlib.ModelFailure("calibration build lacks operations: %s" % cunsup)
        rep.cov["modules"]["Lock"]["calibration_events_std"] = ctv["events"]
    rep.add_tv("Lock", tv, len(sc))
    rep.cov["modules"]["Lock"].update({"not_drivable": unsup, "crashes_contained": ntraps})
    return tv
