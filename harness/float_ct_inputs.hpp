// Boundary tables for constant evaluation (shared by float_ct.hpp (C16) and modes_driver.cpp (C13)):
//   ct_in<T>  unary inputs: +-0, denormals, +-inf, NaN, 2^k +- 1 ulp, k + 1/2, integer limits, moderate values
//   ct_gr<T>  pair grid of the binary functions
#pragma once
#include <array>
#include <bit>
#include <cstdint>
#include <limits>
#include <type_traits>
#include <utility>

namespace {

template <class T>
constexpr auto ct_inputs()
{
    struct R {
        std::array<T, 512> v {};
        std::size_t n = 0;
        constexpr void add(T x) { v[n++] = x; }
    } r;
    if constexpr (std::is_same_v<T, float>) {
        float const base[] = {0.0f, 1.0f, 0.5f, 0.75f, 0.25f, 1.5f, 2.0f, 2.5f, 3.0f, 3.5f, 5.0f, 7.0f, 10.0f, 100.5f, 0.001f,
                              3.14159274f, 1.57079637f, 0.785398185f, 6.28318548f, 2.71828175f, 8388607.5f, 8388608.0f,
                              8388609.0f, 16777216.0f, 16777215.0f, 4194304.5f, 2147483648.0f, 2147483520.0f, 4294967296.0f,
                              9223372036854775808.0f, 9223371487098961920.0f, 18446744073709551616.0f, 1e10f, 1e20f, 1e30f,
                              1e-10f, 1e-20f, 1e-30f, 88.0f, 89.0f, 1000.0f, 1e5f};
        for (float b : base) {
            r.add(b);
            r.add(-b);
        }
        std::uint32_t const pats[] = {0x00000001u, 0x00000002u, 0x007FFFFFu, 0x00400000u, 0x00800000u, 0x00800001u, 0x00FFFFFFu,
                                      0x3F7FFFFFu, 0x3F800001u, 0x3EFFFFFFu, 0x3F000001u, 0x7F7FFFFFu, 0x7F7FFFFEu, 0x7F800000u,
                                      0x7FC00000u, 0x4B000001u, 0x4AFFFFFFu, 0x3FC00001u, 0x3FBFFFFFu, 0x40200001u, 0x401FFFFFu};
        for (std::uint32_t p : pats) {
            r.add(std::bit_cast<float>(p));
            r.add(std::bit_cast<float>(p | 0x80000000u));
        }
        for (int e : {127 - 12, 127 - 8, 127 - 4, 127 - 2, 127 - 1, 127, 127 + 1, 127 + 2, 127 + 4, 127 + 8, 127 + 12}) {
            for (std::uint32_t s = 0; s < 2; ++s) {
                std::uint32_t const ms[] = {0u, 0x400000u + 12345u, 0x7FFFFFu / 3u};
                for (std::uint32_t m : ms) { r.add(std::bit_cast<float>((s << 31) | ((std::uint32_t)e << 23) | m)); }
            }
        }
        for (int k = -6; k <= 6; ++k) { r.add((float)k + 0.5f); }
    } else {
        double const base[] = {0.0, 1.0, 0.5, 0.75, 0.25, 1.5, 2.0, 2.5, 3.0, 3.5, 5.0, 7.0, 10.0, 100.5, 0.001, 3.141592653589793,
                               1.5707963267948966, 0.7853981633974483, 6.283185307179586, 2.718281828459045, 8388607.5,
                               16777216.0, 4503599627370495.5, 4503599627370496.0, 4503599627370497.0, 9007199254740992.0,
                               9007199254740991.0, 2251799813685248.5, 2147483647.5, 2147483648.5, 9223372036854775808.0,
                               9223372036854774784.0, 18446744073709551616.0, 1e10, 1e20, 1e30, 1e100, 1e300, 1e-10, 1e-30,
                               1e-100, 1e-300, 709.0, 710.0, 0.1, 0.3, 1000.0, 1e5};
        for (double b : base) {
            r.add(b);
            r.add(-b);
        }
        std::uint64_t const pats[] = {1ull, 2ull, 0x000FFFFFFFFFFFFFull, 0x0008000000000000ull, 0x0010000000000000ull,
                                      0x0010000000000001ull, 0x3FEFFFFFFFFFFFFFull, 0x3FF0000000000001ull, 0x3FDFFFFFFFFFFFFFull,
                                      0x3FE0000000000001ull, 0x7FEFFFFFFFFFFFFFull, 0x7FEFFFFFFFFFFFFEull, 0x7FF0000000000000ull,
                                      0x7FF8000000000000ull, 0x3FF8000000000001ull, 0x3FF7FFFFFFFFFFFFull, 0x4004000000000001ull,
                                      0x4003FFFFFFFFFFFFull};
        for (std::uint64_t p : pats) {
            r.add(std::bit_cast<double>(p));
            r.add(std::bit_cast<double>(p | 0x8000000000000000ull));
        }
        for (int e : {1023 - 12, 1023 - 8, 1023 - 4, 1023 - 2, 1023 - 1, 1023, 1023 + 1, 1023 + 2, 1023 + 4, 1023 + 8, 1023 + 12}) {
            for (std::uint64_t s = 0; s < 2; ++s) {
                std::uint64_t const ms[] = {0ull, 0x8000000000000ull + 123456789ull, 0xFFFFFFFFFFFFFull / 3ull};
                for (std::uint64_t m : ms) { r.add(std::bit_cast<double>((s << 63) | ((std::uint64_t)e << 52) | m)); }
            }
        }
        for (int k = -6; k <= 6; ++k) { r.add((double)k + 0.5); }
    }
    return r;
}
template <class T>
inline constexpr auto ct_in = ct_inputs<T>();

// pair grid of the binary functions
template <class T>
constexpr auto ct_grid()
{
    using L = std::numeric_limits<T>;
    struct R {
        std::array<T, 64> v {};
        std::size_t n = 0;
        constexpr void add(T x) { v[n++] = x; }
    } r;
    T const pos[] = {(T)0, L::denorm_min(), L::min(), (T)0.5, (T)1, (T)1.5, (T)2.5, (T)3, (T)100.5,
                     std::is_same_v<T, float> ? (T)8388607.5 : (T)4503599627370495.5, L::max(), L::infinity(), L::quiet_NaN()};
    for (T p : pos) {
        r.add(p);
        r.add(-p);
    }
    return r;
}
template <class T>
inline constexpr auto ct_gr = ct_grid<T>();


} // namespace
