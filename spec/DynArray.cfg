SPECIFICATION Spec
CONSTANTS
  Ns = {0, 1, 2}
  Vals = {1, 2}
VIEW View
ACTION_CONSTRAINT Emit
INVARIANTS AllGoneNothingLeft BlocksSorted
PROPERTIES ModelConforms MoveConserves MoveAssignReleasesTarget
CHECK_DEADLOCK FALSE
