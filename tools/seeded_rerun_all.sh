#!/bin/bash
# Re-runs every stored seeded change (seeded/<id>/patch.diff) against the check(s) of its property in scratch
# worktrees (/tmp/seedchk_p<k>, one per partition, run in parallel) and rewrites seeded/<id>/meta.json + INDEX.md.
# usage: seeded_rerun_all.sh [partitions=3]      (several hours for the full set)
cd "$(dirname "$0")/.." || exit 2
N=${1:-3}
ids=( $(ls seeded | grep -v INDEX) )
for k in $(seq 0 $((N-1))); do
  (
    i=0
    for id in "${ids[@]}"; do
      if [ $((i % N)) -eq $k ] && [ -f "seeded/$id/meta.json" ]; then
        conf=$(python3 -c "import json;print(json.load(open('seeded/$id/meta.json')).get('confirmed'))")
        prop=$(python3 -c "import json;print(json.load(open('seeded/$id/meta.json'))['property'])")
        if [ "$conf" = "True" ]; then
          SEEDED_WT=/tmp/seedchk_p$k python3 tools/seeded.py run --id "$id" --checks "$prop" || echo "FAILED $id"
        fi
      fi
      i=$((i+1))
    done
  ) > build/seeded_rerun_p$k.log 2>&1 &
done
wait
python3 tools/seeded_index.py
