"""C02: character -> floating point conversion footprint (spec/FloatConv*.tla, harness/floatconv_driver.cpp).
Always built with ASan+UBSan (the point is the read footprint); no std calibration: the judged relation is the
memory relation of the property (end inside the input, nothing consumed on rejection, no sanitizer stop)."""
import json
import os
import vlib


def pipeline(tier, rep, calibrate=False):
    r = vlib.tlc_mc("FloatConv.tla", "FloatConv.cfg", "floatconv_%s" % tier, workers=2, heap="2g",
                    constants={"MaxLen": "3" if tier == "quick" else "4"})
    rep.add_mc("FloatConv", r)
    d = vlib.workdir("floatconv")
    ip = os.path.join(d, "inputs.ndjson")
    with open(ip, "w") as f:
        for g in r["gen"]:
            f.write(json.dumps(g) + "\n")
    b = vlib.build("floatconv_driver.cpp", "floatconv_san", flags=["-fsanitize=address,undefined", "-fno-sanitize-recover=all", "-g"])
    tp = os.path.join(d, "trace.ndjson")
    vlib.run([b, ip], tp, env={"ASAN_OPTIONS": "detect_leaks=0"}, timeout=1800)
    tv = vlib.tlc_tv("FloatConvTrace.tla", "FloatConvTrace.cfg", tp, "floatconv_tv")
    rep.add_tv("FloatConv", tv, len(r["gen"]))
    rep.sample({"module": "FloatConv", "input": r["gen"][len(r["gen"]) // 2]})
    return tv
