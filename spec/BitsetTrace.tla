---------------------------- MODULE BitsetTrace ----------------------------
(* Trace validation for etl::bitset / etl::basic_bitset: every recorded event                          *)
(* [op, o, x, n, kind, pre, post, self, obs] is judged by the operators of BitsetOps.  Deviations are    *)
(* collected (DEV lines), never fatal; one event may deviate in several observer groups.                  *)
EXTENDS BitsetOps, Json, IOUtils, TLC

Tr == ndJsonDeserialize(IOEnv.TRACE)

VARIABLES l, nbad

Bits01(e, n) == Len(e) = n /\ \A i \in 1..n : e[i] \in {0, 1}

Judge(ev) ==
    IF ev.op = "reset" THEN <<>>
    ELSE IF ~(Bits01(ev.pre.a, ev.n) /\ Bits01(ev.pre.b, ev.n)) THEN <<"harness-pre">>
    ELSE IF ~Pre(ev.op, ev.o, ev.x, ev.pre, ev.n) THEN <<"harness-pre">>
    ELSE IF "crash" \in DOMAIN ev THEN <<"crash">>
    ELSE IF ~Post(ev.op, ev.o, ev.x, ev.pre, ev.n, ev.post) THEN <<"post">>
    ELSE (IF "self" \in DOMAIN ev /\ ~ev.self THEN <<"ret">> ELSE <<>>)      \* members returning *this
         \o ObsBad(ev.obs, ev.post)

Expected(ev, v) ==
    IF v \in {"post", "crash"} THEN ToJson(Eff(ev.op, ev.o, ev.x, ev.pre, ev.n))
    ELSE IF v \in {"obs-count", "obs-conv", "obs-str"} THEN ToJson([a |-> ObsExp(ev.post.a), b |-> ObsExp(ev.post.b)])
    ELSE "-"

Init == l = 1 /\ nbad = 0

Next ==
    /\ l <= Len(Tr)
    /\ l' = l + 1
    /\ LET vs == Judge(Tr[l]) IN
       /\ nbad' = nbad + Len(vs)
       /\ \A j \in 1..Len(vs) : PrintT(<<"DEV", l, vs[j], Expected(Tr[l], vs[j])>>)

Spec == Init /\ [][Next]_<<l, nbad>>
Consumed == TLCGet("stats").diameter - 1 = Len(Tr)
============================================================================
