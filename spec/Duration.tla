----------------------------- MODULE Duration -----------------------------
(* Input-domain enumerator for duration / time_point arithmetic (C12).  TLC walks, for every ordered   *)
(* period pair (i, j), the chain of counts -K..K (one chain per pair so that the workers share the      *)
(* domain), plus a set of wide counts around +-2^31 and +-2^62/2^63.  For every state it                *)
(*   - SELECTS the (operation, representation) combinations whose exact result is representable and    *)
(*     whose standard-prescribed arithmetic has no overflow (DurationOps!...Pre) and exports the input  *)
(*     with that list as one GEN line (the driver executes exactly those: it never runs into signed     *)
(*     overflow), and                                                                                   *)
(*   - checks the laws below (MC role): the operational definitions (short division of wide integers)   *)
(*     satisfy the declarative clauses of [time.duration.alg] and are the only values that do; wide     *)
(*     arithmetic agrees with TLC's native integers wherever both apply.                                *)
EXTENDS DurationOps, TLC, Json

CONSTANTS K,        \* counts -K..K for the one-duration operations
          KB,       \* counts -KB..KB for the left operand of two-duration operations
          C2Pos,    \* positive counts of the right operand of two-duration operations
          C2Neg,    \* magnitudes of its negative counts
          KM,       \* counts -KM..KM for member / scalar operations
          KF,       \* numerators -KF..KF of fractional floating-point counts k/2 and k/4 (odd k)
          ScalPos,  \* non-negative scalars
          ScalNeg   \* magnitudes of negative scalars

VARIABLE st
vars == <<st>>

UCombos == {<<"i64", "i64">>, <<"f64", "f64">>, <<"i64", "f64">>, <<"f64", "i64">>, <<"i32", "i32">>, <<"i32", "i64">>}
BCombos == {<<"i64", "i64">>, <<"f64", "f64">>, <<"i64", "f64">>, <<"i32", "i64">>, <<"i32", "i32">>}
MReps == {"i64", "i32", "f64"}
UOps == {"cast", "floor", "ceil", "round", "conv"}

Signed(S) == S \cup {-x : x \in S}
C2s == C2Pos \cup {-x : x \in C2Neg}
Scals == ScalPos \cup {-x : x \in ScalNeg}

\* wide counts around the limits of the 32- and 64-bit representations
BigSeq == <<WSub(WPow2(31), W(2)), WPred(WPow2(31)), WPow2(31), WSucc(WPow2(31)),
            WPred(WPow2(53)), WPow2(53), WPred(WPow2(62)), WPow2(62), WSucc(WPow2(62)),
            WSub(WPow2(63), W(2)), WPred(WPow2(63)),
            WNeg(WSub(WPow2(31), W(2))), WNeg(WPred(WPow2(31))), WNeg(WPow2(31)), WNeg(WSucc(WPow2(31))),
            WNeg(WPred(WPow2(53))), WNeg(WPow2(53)), WNeg(WPred(WPow2(62))), WNeg(WPow2(62)), WNeg(WSucc(WPow2(62))),
            WNeg(WSub(WPow2(63), W(2))), WNeg(WPred(WPow2(63))), WNeg(WPow2(63))>>
NBig == Len(BigSeq)

\* The selectable (operation, representations) combinations, numbered: an exported input lists the NUMBERS of
\* the combinations whose precondition holds; the tables themselves are exported once with the "static" input.
Seq2Set(q) == {q[n] : n \in 1..Len(q)}
UOpSeq == <<"cast", "floor", "ceil", "round", "conv">>
UComboSeq == << <<"i64", "i64">>, <<"f64", "f64">>, <<"i64", "f64">>, <<"f64", "i64">>, <<"i32", "i32">>, <<"i32", "i64">> >>
BOpSeq == <<"plus", "minus", "mod", "div", "cmp", "common">>
BComboSeq == << <<"i64", "i64">>, <<"f64", "f64">>, <<"i64", "f64">>, <<"i32", "i64">>, <<"i32", "i32">> >>
MOpSeq == <<"neg", "pos", "preinc", "postinc", "predec", "postdec", "pluseq", "minuseq", "muleq", "diveq",
            "modeq", "modeq_d", "mul", "rmul", "divs", "mods", "abs", "zero", "count">>
MRepSeq == <<"i64", "i32", "f64">>
Table3(ops, combos) ==
    [n \in 1..(Len(ops) * Len(combos)) |->
        <<ops[((n - 1) \div Len(combos)) + 1], combos[((n - 1) % Len(combos)) + 1][1], combos[((n - 1) % Len(combos)) + 1][2]>>]
UTable == Table3(UOpSeq, UComboSeq)
BTable == Table3(BOpSeq, BComboSeq)
MTable == [n \in 1..(Len(MOpSeq) * Len(MRepSeq)) |-> <<MOpSeq[((n - 1) \div Len(MRepSeq)) + 1], MRepSeq[((n - 1) % Len(MRepSeq)) + 1]>>]
ASSUME TablesOK == Seq2Set(UOpSeq) = UOps /\ Seq2Set(BOpSeq) = BinOps /\ Seq2Set(MOpSeq) = MemberOps
                   /\ Seq2Set(UComboSeq) = UCombos /\ Seq2Set(BComboSeq) = BCombos /\ Seq2Set(MRepSeq) = MReps

UOk(i, j, c) ==
    LET x == UCtx(i, j, c, 0) IN {n \in 1..Len(UTable) : UPreC(UTable[n][1], UTable[n][2], UTable[n][3], c, x)}
\* fractional count c / 2^ce of a floating-point source (odd numerators only: the others are covered with a smaller ce)
UOkF(i, j, c, ce) ==
    IF c % 2 = 0 THEN {}
    ELSE LET x == UCtx(i, j, W(c), ce) IN
         {n \in 1..Len(UTable) : UTable[n][2] = "f64" /\ UPreC(UTable[n][1], UTable[n][2], UTable[n][3], W(c), x)}
BOk(i, j, c1, c2) ==
    LET x == CvX(i, j, c1) y == CvY(i, j, c2) IN
    {n \in 1..Len(BTable) : BinPreC(BTable[n][1], BTable[n][2], BTable[n][3], c1, c2, x, y)}
\* spellings that ignore the scalar are exported once (k = 1), zero() once per chain
KIndep == {"neg", "pos", "preinc", "postinc", "predec", "postdec", "abs", "zero", "count"}
MOk(c, k) == {n \in 1..Len(MTable) :
                 /\ (MTable[n][1] \in KIndep => k = 1) /\ (MTable[n][1] = "zero" => c = WZero)
                 /\ MemberPre(MTable[n][1], MTable[n][2], c, k)}

\* the exported input of a state
Input(s) ==
    CASE s.kind = "u"  -> [fam |-> "u", i |-> s.i, j |-> s.j, c |-> W(s.c), ce |-> 0, ok |-> UOk(s.i, s.j, W(s.c))]
      [] s.kind = "ub" -> [fam |-> "u", i |-> s.i, j |-> s.j, c |-> BigSeq[s.c], ce |-> 0, ok |-> UOk(s.i, s.j, BigSeq[s.c])]
      [] s.kind = "uf" -> [fam |-> "u", i |-> s.i, j |-> s.j, c |-> W(s.c), ce |-> s.c2, ok |-> UOkF(s.i, s.j, s.c, s.c2)]
      [] s.kind = "b"  -> [fam |-> "b", i |-> s.i, j |-> s.j, c |-> W(s.c), c2 |-> W(s.c2), ok |-> BOk(s.i, s.j, W(s.c), W(s.c2))]
      [] s.kind = "bb" -> [fam |-> "b", i |-> s.i, j |-> s.j, c |-> BigSeq[s.c], c2 |-> W(s.c2), ok |-> BOk(s.i, s.j, BigSeq[s.c], W(s.c2))]
      [] s.kind = "m"  -> [fam |-> "m", i |-> s.i, c |-> W(s.c), k |-> s.c2, ok |-> MOk(W(s.c), s.c2)]
      [] s.kind = "mb" -> [fam |-> "m", i |-> s.i, c |-> BigSeq[s.c], k |-> s.c2, ok |-> MOk(BigSeq[s.c], s.c2)]
      [] s.kind = "static" -> [fam |-> "static", np |-> NP, utable |-> UTable, btable |-> BTable, mtable |-> MTable]

Init ==
    \/ \E i \in 1..NP, j \in 1..NP : st = [kind |-> "u", i |-> i, j |-> j, c |-> -K, c2 |-> 0]
    \/ \E i \in 1..NP, j \in 1..NP : st = [kind |-> "ub", i |-> i, j |-> j, c |-> 1, c2 |-> 0]
    \/ \E i \in 1..NP, j \in 1..NP, ce \in {1, 2} : st = [kind |-> "uf", i |-> i, j |-> j, c |-> -KF, c2 |-> ce]
    \/ \E i \in 1..NP, j \in 1..NP, c2 \in C2s : st = [kind |-> "b", i |-> i, j |-> j, c |-> -KB, c2 |-> c2]
    \/ \E i \in 1..NP, j \in 1..NP, c2 \in {1, -1} : st = [kind |-> "bb", i |-> i, j |-> j, c |-> 1, c2 |-> c2]
    \/ \E i \in {4, 10}, k \in Scals : st = [kind |-> "m", i |-> i, j |-> i, c |-> -KM, c2 |-> k]
    \/ \E k \in Scals : st = [kind |-> "mb", i |-> 4, j |-> 4, c |-> 1, c2 |-> k]
    \/ st = [kind |-> "static", i |-> 1, j |-> 1, c |-> 0, c2 |-> 0]

Next ==
    /\ st.kind # "static"
    /\ st.c < (IF st.kind = "u" THEN K ELSE IF st.kind = "b" THEN KB ELSE IF st.kind = "m" THEN KM
               ELSE IF st.kind = "uf" THEN KF ELSE NBig)
    /\ st' = [st EXCEPT !.c = st.c + 1]

Spec == Init /\ [][Next]_vars

EmitInv == PrintT(<<"GEN", ToJson(Input(st))>>)

\* ---- laws ------------------------------------------------------------------------------------------
ASSUME WideSelfTest ==
    /\ WMul(WPow2(31), WPow2(31)) = WPow2(62)
    /\ WAdd(WPred(WPow2(62)), WOne) = WPow2(62)
    /\ WSub(WPow2(45), WPow2(45)) = WZero
    /\ WMul(W(123456789), W(-987654321)) = WNeg(WMul(W(987654321), W(123456789)))
    /\ WTrunc(WMul(W(123456789), W(1000)), <<1000>>) = W(123456789)
    /\ WTrunc(WPow2(62), <<32767, 2>>) = WTrunc(WTrunc(WPow2(62), <<32767>>), <<2>>)
    /\ WToInt(WTrunc(W(-1000000007), <<13, 7>>)) = -10989011
    /\ W(32768).m = <<0, 1>> /\ WellFormed(WPow2(63)) /\ WFitsBits(WNeg(WPow2(63)), 64) /\ ~WFitsBits(WPow2(63), 64)
    /\ \A i \in 1..NP : ChunksOK(Periods[i][1]) /\ ChunksOK(Periods[i][2]) /\ Gcd(Periods[i][1], Periods[i][2]) = 1

ASSUME LimitsModel ==
    \A r \in Reps :
        LET lo == LimVal(r, "min") hi == LimVal(r, "max") IN
        /\ lo.m.s = -1 /\ hi.m.s = 1 /\ LimVal(r, "zero").m = WZero                       \* min() < zero() < max()
        /\ (r = "f64" => lo.m = WNeg(hi.m) /\ lo.x = hi.x /\ WIsOdd(hi.m) /\ WLt(hi.m, P53))  \* -max() == min(), 53-bit mantissa
        /\ (IsInt(r) => lo.m = WNeg(WSucc(hi.m)) /\ RepFits(r, hi.m) /\ ~RepFits(r, WSucc(hi.m))
                                                 /\ RepFits(r, lo.m) /\ ~RepFits(r, WPred(lo.m)))

CW == IF st.kind \in {"ub", "bb", "mb"} THEN BigSeq[st.c] ELSE W(st.c)

CE == IF st.kind = "uf" THEN st.c2 ELSE 0      \* binary exponent of the count (fractional floating-point sources)

RoundingLaws ==
    st.kind \in {"u", "ub", "uf"} =>
        LET a  == Num(st.i, st.j, CW)
            d  == DenE(st.i, st.j, CE)
            dw == WProd(d)
            t  == WTrunc(a, d) f == WFloor(a, d) c == WCeil(a, d) r == RoundW(a, d)
        IN /\ IsTruncOf(t, a, dw) /\ IsFloorOf(f, a, dw) /\ IsCeilOf(c, a, dw) /\ IsRoundOf(r, a, dw)
           \* Floor <= exact < Floor + 1 has exactly one solution, likewise Ceil, Round
           /\ ~IsFloorOf(WSucc(f), a, dw) /\ ~IsFloorOf(WPred(f), a, dw)
           /\ ~IsCeilOf(WSucc(c), a, dw) /\ ~IsCeilOf(WPred(c), a, dw)
           /\ ~IsTruncOf(WSucc(t), a, dw) /\ ~IsTruncOf(WPred(t), a, dw)
           /\ (r = f \/ r = c) /\ (IsRoundOf(f, a, dw) /\ IsRoundOf(c, a, dw) => (f = c \/ r = (IF WIsOdd(f) THEN c ELSE f)))
           /\ WLe(f, t) /\ WLe(t, c)                                  \* Cast between Floor and Ceil
           /\ (WExact(a, d) <=> f = c) /\ (f = c \/ c = WSucc(f))
           /\ (a.s >= 0 => t = f) /\ (a.s <= 0 => t = c)
           \* wide arithmetic = native arithmetic where both apply
           /\ (WIsSmall(a) /\ WIsSmall(dw) =>
                  /\ WToInt(f) = WToInt(a) \div WToInt(dw)
                  /\ WToInt(c) = -((-WToInt(a)) \div WToInt(dw)))
           \* the identity conversion and the round trip through a finer period are exact
           /\ (st.i = st.j /\ CE = 0 => t = CW /\ d = <<>> /\ CF(st.i, st.j).n = <<>>)
           \* a fractional count k / 2^ce with odd k in the same period: never exact, Floor < Ceil
           /\ (st.i = st.j /\ CE > 0 /\ st.c % 2 = 1 => c = WSucc(f) /\ ~WExact(a, d))
           /\ (d = <<>> => WTrunc(Num(st.j, st.i, t), Den(st.j, st.i)) = CW)

BinaryLaws ==
    st.kind \in {"b", "bb"} =>
        LET x == CvX(st.i, st.j, CW) y == CvY(st.i, st.j, W(st.c2)) IN
        /\ WSub(WAdd(x, y), y) = x /\ WAdd(WSub(x, y), y) = x
        /\ CmpVec(x, y)[3] = CmpVec(y, x)[5] /\ CmpVec(x, y)[1] = CmpVec(y, x)[1]       \* antisymmetry
        /\ CmpVec(x, y)[3] + CmpVec(x, y)[1] + CmpVec(x, y)[5] = 1                        \* trichotomy
        \* the common period divides both periods: N, D are integers (chunks) by construction; X / Y is the exact ratio
        /\ (WIsSmall(x) /\ WIsSmall(y) /\ y.s # 0 =>
               LET xn == WToInt(x) yn == WToInt(y)
                   ay == IF yn < 0 THEN -yn ELSE yn
                   ax == IF xn < 0 THEN -xn ELSE xn
                   qa == ax \div ay
                   q  == IF (xn < 0) = (yn < 0) THEN qa ELSE -qa
                   r  == xn - q * yn
               IN /\ IsQuotOf(W(q), x, y) /\ ~IsQuotOf(W(q + 1), x, y) /\ ~IsQuotOf(W(q - 1), x, y)
                  /\ xn = q * yn + r /\ (r = 0 \/ (r < 0) = (xn < 0)) /\ (IF r < 0 THEN -r ELSE r) < ay   \* a = (a/b) b + a%b
                  /\ WAdd(x, y) = W(xn + yn) /\ WMul(x, y) = WMul(W(xn), W(yn)))

MemberLaws ==
    st.kind = "m" /\ st.c2 # 0 /\ st.c2 > -Base /\ st.c2 < Base =>
        LET c == W(st.c) k == st.c2 IN
        /\ WAdd(WMul(DivK(c, k), W(k)), ModK(c, k)) = c
        /\ IsQuotOf(DivK(c, k), c, W(k))
        /\ WToInt(DivK(c, k)) = (IF (st.c < 0) = (k < 0) THEN 1 ELSE -1) * ((IF st.c < 0 THEN -st.c ELSE st.c) \div (IF k < 0 THEN -k ELSE k))

\* the reduced context of the judge decides exactly like the full context used for the selection
CtxLaw ==
    /\ (st.kind = "ub" \/ (st.kind = "u" /\ st.c % 6 = 0)) =>       \* every sixth count and all wide ones (cost)
          \A n \in 1..Len(UTable) :
              UPre(UTable[n][1], st.i, st.j, UTable[n][2], UTable[n][3], CW, 0) = (n \in UOk(st.i, st.j, CW))
    /\ (st.kind = "uf" /\ st.c % 6 = 1) =>
          \A n \in 1..Len(UTable) :
              UPre(UTable[n][1], st.i, st.j, UTable[n][2], UTable[n][3], CW, CE) = (n \in UOkF(st.i, st.j, st.c, CE))

Laws == RoundingLaws /\ BinaryLaws /\ MemberLaws /\ CtxLaw
===========================================================================
