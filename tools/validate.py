#!/usr/bin/env python3
"""Validate MANIFEST.json and evidence/*.json against the schemas (run with python3-vt: needs jsonschema)."""
import glob, json, sys
import jsonschema
m = json.load(open('/verif/MANIFEST.json'))
jsonschema.validate(m, json.load(open('/root/.vp/MANIFEST.schema.json')))
es = json.load(open('/root/.vp/EVIDENCE.schema.json'))
ids = {c['property_id'] for c in m['checks']} | {c['property_id'] for c in m.get('not_applicable', [])}
print("manifest ok; claimed", sorted(c['property_id'] for c in m['checks']))
missing = [("C%02d" % i) for i in range(1, 21) if ("C%02d" % i) not in ids]
if missing: print("NOT LISTED:", missing)
for f in sorted(glob.glob('/verif/evidence/*.json')):
    try:
        jsonschema.validate(json.load(open(f)), es); print("ok", f)
    except Exception as e:
        print("BAD", f, str(e)[:300]); sys.exit(1)
