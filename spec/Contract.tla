----------------------------- MODULE Contract -----------------------------
(* Enumerates, for every checked site of ContractOps, every abstract object state and every argument *)
(* at and beyond the boundary (0, 1, n-1, n, n+1, n+2, cap-1, cap, cap+1, cap+2, max-1, max) - valid   *)
(* and (max-1 = SIZE_MAX-1 exposes checks written as "offset + count <= size()" that wrap around)       *)
(* violating - and exports them (GEN).  MC role: the table is total (CPre is a boolean for every       *)
(* offered call) and both classes are non-empty for every site (non-vacuity).                          *)
EXTENDS ContractOps, TLC, Json

CONSTANTS StrCaps      \* capacities of the string instantiations (tiny layout and normal layout)

VARIABLE call

CapsOf(site) ==
    LET f == Family(site) IN
    CASE f = "str" -> StrCaps
      [] f \in {"sv", "span", "arr"} -> {4}
      [] f \in {"opt", "exp"} -> {1}
      [] f = "var" -> {2}
      [] f \in {"bs", "bbs"} -> {5, 13}
      [] f = "bit" -> {8}
      [] f = "md" -> {2}
      [] OTHER -> {0}

StatesOf(site, cap) ==
    LET f == Family(site) IN
    CASE f \in {"str", "sv", "span"} -> {0, 1, cap - 1, cap} \cap (0..cap)
      [] f \in {"opt", "exp"} -> {0, 1}
      [] f = "var" -> {0, 1}
      [] f = "arr" -> {cap}
      [] OTHER -> {0}

ArgDom(site, cap, n) ==
    LET f == Family(site) IN
    CASE f = "num" -> {0, 1, 2, MAXTOK}
      [] f = "chrono" -> {0, 1, 12, 31, 254, 255, 256, MAXTOK}
      [] f = "var" -> {0, 1}
      [] OTHER -> ({0, 1, n - 1, n, n + 1, n + 2, cap - 1, cap, cap + 1, cap + 2, MAXTOK - 1, MAXTOK}) \cap Nat

Calls ==
    UNION {
      UNION {
        UNION {
          {[site |-> s, cap |-> c, n |-> n, a |-> a, b |-> b] :
              a \in (IF Arity[s] >= 1 THEN ArgDom(s, c, n) ELSE {0}),
              b \in (IF Arity[s] >= 2 THEN ArgDom(s, c, n) ELSE {0})}
          : n \in StatesOf(s, c)}
        : c \in CapsOf(s)}
      : s \in Sites}

Init == call \in Calls
Next == UNCHANGED call
Spec == Init /\ [][Next]_call

Valid(c) == CPre(c.site, c.cap, c.n, c.a, c.b)
EmitInv == PrintT(<<"GEN", ToJson([site |-> call.site, cap |-> call.cap, n |-> call.n, a |-> call.a, b |-> call.b,
                                    bad |-> ~Valid(call)])>>)
Total == Valid(call) \in BOOLEAN
\* non-vacuity: every site offers at least one valid and one violating call
NonVacuous == \A s \in Sites : (\E c \in Calls : c.site = s /\ Valid(c)) /\ (\E c \in Calls : c.site = s /\ ~Valid(c))
ASSUME NonVacuous
==========================================================================
