"""string_view pipeline (spec/StringViewOps.tla, StringViewCalls.tla, StringView.tla, StringViewTrace.tla,
harness/stringview_driver.cpp).  Serves C08; the sanitizer pass (thorough) also feeds C02.

  model()    TLC proves declarative == operational definitions + laws on the bounded domain and exports one
             input record per (haystack, needle) with the argument lists to combine and the number of calls
  execute()  the driver expands every record into all overloads of all members on the real template
             (sharded; one ndjson trace per shard); the number of events must equal the exported call count
  validate() StringViewTrace.tla judges every event
  calibration: the identical calls on std::basic_string_view must give zero deviations
"""
import json
import os
import vlib

TYPES = ("char", "wchar_t", "char16_t")
CHUNK = 150000          # events per trace file (one TLC each)

# (tag, constants, character types that replay it)
DOMAINS = {
    "quick": [("a2", {"Alphabet": "{0, 200}", "MaxH": "4", "MaxN": "4", "MaxC5": "2"}, TYPES),
              ("a3", {"Alphabet": "{0, 97, 200}", "MaxH": "3", "MaxN": "2", "MaxC5": "2"}, TYPES)],
    "thorough": [("a2", {"Alphabet": "{0, 200}", "MaxH": "5", "MaxN": "5", "MaxC5": "3"}, TYPES),
                 ("a3", {"Alphabet": "{0, 97, 200}", "MaxH": "4", "MaxN": "4", "MaxC5": "2"}, ("char",)),
                 ("a3w", {"Alphabet": "{0, 97, 200}", "MaxH": "4", "MaxN": "3", "MaxC5": "2"}, ("wchar_t", "char16_t")),
                 ("s2", {"Alphabet": "{0, 200}", "MaxH": "4", "MaxN": "4", "MaxC5": "2"}, TYPES),
                 ("s3", {"Alphabet": "{0, 97, 200}", "MaxH": "3", "MaxN": "2", "MaxC5": "2"}, TYPES)],
}
# the sanitizer pass replays the two quick domains (every out-of-view read traps there); the plain pass skips them in the
# thorough tier (they are sub-domains of a2 / a3)
SAN_DOMAINS = ("s2", "s3")
PLAIN_SKIP = ("s2", "s3")
RANDOM = {"quick": (100, 64), "thorough": (2500, 64)}    # (records per type, max length)


def model(tier, rep, name="StringView"):
    from concurrent.futures import ThreadPoolExecutor
    doms = DOMAINS[tier]

    def one(d):
        tag, consts, _ = d
        return vlib.tlc_mc("StringView.tla", "StringView.cfg", "stringview_%s_%s" % (tag, tier), workers=5,
                           constants=consts, heap="4g")
    with ThreadPoolExecutor(max_workers=3) as ex:
        res = list(ex.map(one, doms))
    inputs = {}
    sdir = vlib.workdir("scripts")
    for (tag, consts, types), r in zip(doms, res):
        rep.add_mc("%s[%s]" % (name, tag), r)
        seen = set()
        recs = []
        for g in r["gen"]:
            k = (tuple(g["h"]), tuple(g["n"]))
            if k in seen:
                continue
            seen.add(k)
            recs.append(g)
        if len(recs) != r["states"]:
            raise vlib.ModelFailure("StringView[%s]: %d exported records for %d states" % (tag, len(recs), r["states"]))
        p = os.path.join(sdir, "stringview_%s_%s.ndjson" % (tag, tier))
        with open(p, "w") as f:
            for g in recs:
                f.write(json.dumps(g) + "\n")
        inputs[tag] = {"path": p, "records": len(recs), "ncalls": [g["ncalls"] for g in recs], "types": types,
                       "constants": consts}
        rep.cov["modules"]["%s[%s]" % (name, tag)].update({"input_records": len(recs), "calls": sum(g["ncalls"] for g in recs),
                                                          "constants": consts})
        rep.sample({"module": name, "input_record": recs[len(recs) // 2]})
    rep.cov["exhaustive"] = True
    return inputs


def build_drivers(tier, sanitize=False, std=True):
    san = ["-fsanitize=address,undefined", "-fno-sanitize-recover=all", "-g"] if sanitize else []
    sfx = "_san" if sanitize else ""
    jobs = [dict(src="stringview_driver.cpp", out="stringview_etl" + sfx, flags=san, std="c++23")]
    if std:
        jobs.append(dict(src="stringview_driver.cpp", out="stringview_std" + sfx, flags=["-DVH_STD"] + san, std="c++23",
                         include_repo=False))
    paths = vlib.build_many(jobs)
    return {"etl": paths[0], "std": paths[1] if std else None}


SAN_ENV = {"ASAN_OPTIONS": "symbolize=0:detect_leaks=0:abort_on_error=0:allocator_may_return_null=1",
           "UBSAN_OPTIONS": "symbolize=0:print_stacktrace=0"}


def _count_lines(p):
    n = 0
    with open(p, "rb") as f:
        for _ in f:
            n += 1
    return n


def execute(tier, inputs, binpath, impl, tags=None, tag="", env=None, nrandom=None):
    """Replay the exported records (sharded) and the seeded random records. Returns (trace paths, stats)."""
    d = vlib.workdir("traces")
    tasks = []
    expect = []
    if tags is None:
        tags = [t for t in inputs if not (tier == "thorough" and t in PLAIN_SKIP)]
    for dtag, inp in sorted(inputs.items()):
        if dtag not in tags:
            continue
        total = sum(inp["ncalls"])
        m = max(1, -(-total // CHUNK))
        for ty in inp["types"]:
            for k in range(m):
                tp = os.path.join(d, "stringview_%s_%s_%s_%d%s.ndjson" % (impl, dtag, ty, k, tag))
                tasks.append(([binpath, "replay", ty, inp["path"], str(k), str(m)], tp, {"env": env} if env else {}))
                expect.append(sum(inp["ncalls"][k::m]))
    nrec, maxlen = RANDOM[tier] if nrandom is None else nrandom
    rshards = max(1, nrec // 500)
    for ty in TYPES:
        for k in range(rshards):
            tp = os.path.join(d, "stringview_%s_rnd_%s_%d%s.ndjson" % (impl, ty, k, tag))
            tasks.append(([binpath, "random", ty, str(nrec), str(vlib.seed()), str(maxlen), str(k), str(rshards)], tp,
                          {"env": env} if env else {}))
            expect.append(None)
    res = vlib.run_parallel(tasks, par=min(vlib.NCPU, 12))
    traps = 0
    outs = []
    events = 0
    for (cmd, tp, _), want, (rc, err) in zip(tasks, expect, res):
        got = _count_lines(tp)
        if want is not None and got != want:
            raise vlib.ModelFailure("driver made %d calls, the specification enumerates %d (%s)" % (got, want, " ".join(cmd)))
        if got == 0:
            raise vlib.ModelFailure("driver produced no events: " + " ".join(cmd))
        for l in err.splitlines():
            if l.startswith("SUMMARY") and "traps=" in l:
                traps += int(l.rsplit("traps=", 1)[1])
        outs.append(tp)
        events += got
    nrecs = sum(inp["records"] * len(inp["types"]) for t, inp in inputs.items() if t in tags) + nrec * len(TYPES)
    return outs, {"events": events, "records": nrecs, "traps": traps}


def validate(paths, tag, keep_bad=True):
    # many single-worker TLC processes side by side: keep each JVM's collector small
    os.environ.setdefault("JAVA_TOOL_OPTIONS", "-XX:ParallelGCThreads=2")
    tv = vlib.tv_parallel("StringViewTrace.tla", "StringViewTrace.cfg", paths, tag, par=min(vlib.NCPU, 6), heap="2g")
    return tv


def _cleanup(paths):
    for p in paths:
        try:
            os.remove(p)
        except OSError:
            pass


def pipeline(tier, rep, calibrate=True, name="StringView"):
    # self-test shortcuts (tools/str_mutants.py): the calibration does not depend on the tree under test, and one
    # character type is enough to show that a seeded bug is noticed
    calibrate = calibrate and not os.environ.get("VERIF_NOCALIB")
    only = [t for t in os.environ.get("VERIF_TYPES", "").split(",") if t]
    global TYPES
    if only:
        TYPES = tuple(t for t in TYPES if t in only)
        rep.notes.append({"restricted_char_types": list(TYPES)})
    inputs = model(tier, rep, name)
    if only:
        for inp in inputs.values():
            inp["types"] = tuple(t for t in inp["types"] if t in TYPES)
    bins = build_drivers(tier, std=calibrate)
    # calibration first: a deviation of libstdc++ is an error of the specification / projection
    if calibrate:
        ctr, cst = execute(tier, inputs, bins["std"], "std")
        ctv = validate(ctr, "stringview_tv_std")
        if ctv["deviations"]:
            dv = ctv["deviations"][0]
            raise vlib.ModelFailure("calibration: libstdc++ deviates from the StringView spec (spec/projection error): %s %s"
                                    % (dv["kind"], json.dumps(dv.get("ev"))[:500]))
        rep.cov["modules"].setdefault(name, {})["calibration_events_std"] = ctv["events"]
        _cleanup(ctr)
    traces, st = execute(tier, inputs, bins["etl"], "etl")
    tv = validate(traces, "stringview_tv_etl")
    rep.add_tv(name, tv, st["records"])
    rep.cov["modules"][name].update({"not_drivable": [], "traps_plain_build": st["traps"], "char_types": list(TYPES)})
    if not tv["deviations"]:
        _cleanup(traces)
    if tier == "thorough":
        sbins = build_drivers(tier, sanitize=True, std=calibrate)
        nrnd = (500, 64)
        if calibrate:
            ctr, cst = execute(tier, inputs, sbins["std"], "std", tags=SAN_DOMAINS, tag="_san", env=SAN_ENV, nrandom=nrnd)
            ctv = validate(ctr, "stringview_tv_std_san")
            if ctv["deviations"]:
                dv = ctv["deviations"][0]
                raise vlib.ModelFailure("calibration (sanitizer build): libstdc++ deviates: %s %s"
                                        % (dv["kind"], json.dumps(dv.get("ev"))[:500]))
            rep.cov["modules"][name]["calibration_events_std_sanitized"] = ctv["events"]
            _cleanup(ctr)
        straces, sst = execute(tier, inputs, sbins["etl"], "etl", tags=SAN_DOMAINS, tag="_san", env=SAN_ENV, nrandom=nrnd)
        stv = validate(straces, "stringview_tv_etl_san")
        rep.add_tv(name + "[asan+ubsan]", stv, sst["records"])
        rep.cov["modules"][name + "[asan+ubsan]"].update({"traps": sst["traps"]})
        if not stv["deviations"]:
            _cleanup(straces)
    return tv, st


def replay(rec):
    """Re-run one recorded call on the current tree: the driver expands a one-point input record (the recorded haystack,
    needle and argument values) and the trace spec judges it; returns the deviations of the recorded call signature."""
    ev = rec["event"]
    ty = ev.get("inst", "char")
    r = {"h": ev["h"], "n": ev["n"], "P": [ev["pos"]], "C": [min(max(ev["cnt"], 0), len(ev["n"]))],
         "P1": [min(max(ev["pos"], 0), len(ev["h"]))], "C1": [ev["cnt"]], "P2": [min(max(ev["pos2"], 0), len(ev["n"]))],
         "C2": [ev["cnt2"]], "K": [min(max(ev["pos"], 0), len(ev["h"]))], "u": 1, "c5": 1}
    if ev["op"] == "compare" and ev.get("ov") == "4pn":
        r["C"] = [ev["cnt2"]]
    d = vlib.workdir("replay")
    sp = os.path.join(d, "stringview_record.ndjson")
    with open(sp, "w") as f:
        f.write(json.dumps(r) + "\n")
    b = vlib.build("stringview_driver.cpp", "stringview_replay", std="c++23")
    tp = os.path.join(d, "stringview_trace.ndjson")
    vlib.run([b, "replay", ty, sp], tp)
    tv = vlib.tlc_tv("StringViewTrace.tla", "StringViewTrace.cfg", tp, "stringview_replay", heap="2g")
    sig = lambda e: tuple(e.get(k) for k in ("op", "ov", "d", "pos", "cnt", "pos2", "cnt2"))
    return [x for x in tv["deviations"] if sig(x.get("ev", {})) == sig(ev)]
