"""Bitset pipeline (spec/Bitset.tla, BitsetOps.tla, BitsetTrace.tla, harness/bitset_driver.cpp). Serves C17."""
import json
import os

import vlib
from pipes.vector import concat

WORDS = (0, 8, 16, 32, 64)                       # 0 = etl::bitset<N>, else etl::basic_bitset<N, uintW_t>
BIG = (1, 7, 8, 9, 31, 32, 33, 63, 64, 65, 127, 128, 129)
TIERS = {"quick": {"Ns": (1, 2, 3, 4), "rsteps": 120},
         "thorough": {"Ns": (1, 2, 3, 4, 5), "rsteps": 1500}}


def _inst(w):
    return "bitset" if w == 0 else "basic%d" % w


def _state_key(t, which):
    return json.dumps([t["n"], t[which]], sort_keys=True)


def _call(t):
    return {"op": t["op"], "o": t["o"], "x": t["x"], "post": t["post"]}


def model(tier, rep):
    """MC + GEN for both API surfaces. Returns {kind: {n: (script_path, nscripts)}}."""
    T = TIERS[tier]
    consts = {"Ns": "{%s}" % ", ".join(map(str, T["Ns"]))}
    from concurrent.futures import ThreadPoolExecutor

    def one(kind):
        return kind, vlib.tlc_mc("Bitset.tla", "Bitset_%s.cfg" % kind, "bitset_%s_%s" % (kind, tier), workers=6, constants=consts, heap="3g")
    with ThreadPoolExecutor(max_workers=2) as ex:
        res = dict(ex.map(one, ("bitset", "basic")))
    scripts = {}
    d = vlib.workdir("scripts")
    for kind, r in res.items():
        name = "Bitset[%s]" % kind
        rep.add_mc(name, r)
        want = sum(4 ** n for n in T["Ns"])                      # every pair of values of every width
        if r["states"] != want:
            raise vlib.ModelFailure("%s: %d states, expected %d (not every pair of values reached)" % (name, r["states"], want))
        gen = [t for t in r["gen"] if t["op"] != "init"]
        sc, st = vlib.plan_edges(gen, _state_key, lambda k: not any(json.loads(k)[1]["a"]) and not any(json.loads(k)[1]["b"]), _call,
                                 follow=lambda t: t["op"] == "ctor_ull")
        if st["unreachable"]:
            raise vlib.ModelFailure("planner: %d unreachable edges in %s" % (st["unreachable"], name))
        sc = [s[:-1] + [dict(s[-1], last=1)] for s in sc]
        byn = {}
        for t, s in zip(gen, sc):
            byn.setdefault(t["n"], []).append(s)
        scripts[kind] = {}
        for n, ss in byn.items():
            p = os.path.join(d, "bitset_%s_%s_n%d.ndjson" % (kind, tier, n))
            vlib.write_scripts(ss, p)
            scripts[kind][n] = (p, len(ss))
        rep.cov["modules"][name].update({"scripts": len(sc), "planner": st})
        if sc:
            rep.sample({"module": name, "script": sc[len(sc) // 3]})
    rep.cov["exhaustive"] = True
    return scripts


def build_drivers(tier, std=True):
    widths = ",".join(str(n) for n in sorted(set(TIERS[tier]["Ns"]) | set(BIG)))
    jobs, keys = [], []
    for w in WORDS:
        jobs.append(dict(src="bitset_driver.cpp", out="bitset_etl_%d" % w, flags=["-DBH_WORD=%d" % w, "-DBH_WIDTHS=" + widths]))
        keys.append(("etl", w))
    if std:
        jobs.append(dict(src="bitset_driver.cpp", out="bitset_std", flags=["-DVH_STD", "-DBH_WIDTHS=" + widths], include_repo=False))
        keys.append(("std", 0))
    return dict(zip(keys, vlib.build_many(jobs)))


def execute(tier, scripts, bins, impl):
    T = TIERS[tier]
    d = vlib.workdir("traces")
    tasks, outs = [], []
    nscripts = nhist = 0
    for w in (WORDS if impl == "etl" else (0,)):
        kind = "bitset" if w == 0 else "basic"
        tag = _inst(w) if impl == "etl" else "std"
        for n, (sp, k) in sorted(scripts[kind].items()):
            tp = os.path.join(d, "bitset_%s_%s_n%d_%s.ndjson" % (impl, tag, n, tier))
            tasks.append(([bins[(impl, w)], "replay", str(n), sp], tp))
            outs.append(tp)
            nscripts += k
        for n in BIG:
            tp = os.path.join(d, "bitset_%s_%s_r%d_%s.ndjson" % (impl, tag, n, tier))
            tasks.append(([bins[(impl, w)], "random", str(n), str(T["rsteps"]), str(vlib.seed())], tp))
            outs.append(tp)
            nhist += 1
    res = vlib.run_parallel(tasks)
    errs = [l for _, err in res for l in err.splitlines()]
    summ = [l for l in errs if l.startswith("SUMMARY")]
    return outs, {"scripts": nscripts, "histories": nhist,
                  "unsupported": sorted({l for l in errs if l.startswith("UNSUPPORTED")}),
                  "desync": sum(int(l.split("desync=")[1].split()[0]) for l in summ),
                  "crashes": len([l for l in errs if l.startswith("CRASH")])}


def _side(tier, scripts, bins, impl, groups):
    traces, st = execute(tier, scripts, bins, impl)
    merged = concat(traces, os.path.join(vlib.workdir("traces"), "bitset_%s_merged_%s" % (impl, tier)), groups)
    tv = vlib.tv_parallel("BitsetTrace.tla", "BitsetTrace.cfg", merged, "bitset_tv_%s_%s" % (impl, tier), par=groups, heap="2g")
    return tv, st


def pipeline(tier, rep, calibrate=True):
    from concurrent.futures import ThreadPoolExecutor
    scripts = model(tier, rep)
    bins = build_drivers(tier, std=calibrate)
    with ThreadPoolExecutor(max_workers=2) as ex:      # implementation and calibration side by side
        fe = ex.submit(_side, tier, scripts, bins, "etl", 8)
        fs = ex.submit(_side, tier, scripts, bins, "std", 3) if calibrate else None
        tv, st = fe.result()
        ctv, cst = fs.result() if fs else (None, None)
    if calibrate:
        if ctv["deviations"] or cst["desync"] or cst["crashes"] or cst["unsupported"]:
            d = ctv["deviations"][0] if ctv["deviations"] else {"kind": "desync/crash/unsupported", "ev": [cst["desync"], cst["crashes"], cst["unsupported"]]}
            raise vlib.ModelFailure("calibration: libstdc++ std::bitset deviates from Bitset spec (spec/projection error): %s %s"
                                    % (d["kind"], json.dumps(d.get("ev"))[:700]))
    rep.add_tv("Bitset", tv, st["scripts"] + st["histories"])
    rep.cov["modules"]["Bitset"].update({"not_drivable": st["unsupported"], "replay_desync": st["desync"], "crashes_contained": st["crashes"],
                                         "widths_random": list(BIG), "word_types": ["size_t (etl::bitset)", "uint8_t", "uint16_t", "uint32_t", "uint64_t"]})
    if st["desync"] and not tv["deviations"]:
        raise vlib.ModelFailure("bitset replay: %d scripts left the planned path but no event deviates" % st["desync"])
    if calibrate:
        rep.cov["modules"]["Bitset"]["calibration_events_std"] = ctv["events"]
    return tv, st
