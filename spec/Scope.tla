------------------------------ MODULE Scope ------------------------------
(* Two (or three) scope-guard slots and a bounded supply of exit-function *tokens*: every guard is made     *)
(* from a fresh token, so "the exit function" of a construction is identifiable.  TLC proves (MC role)      *)
(*   Conservation: for every issued token exactly one of {a live active guard holds it, it has run exactly   *)
(*   once, it was released} - i.e. the exit function runs exactly once, at the destruction of the guard that  *)
(*   holds the obligation, unless released; move construction transfers the obligation;                      *)
(* and exports every transition (GEN role).                                                                 *)
EXTENDS ScopeOps, TLC, Json

CONSTANTS GNames, MaxTok

VARIABLES st, ran, rel, nxt, last
\* ghosts: ran[t] = how often token t's exit function ran; rel[t] = its obligation was released; nxt = next fresh token
vars == <<st, ran, rel, nxt, last>>
View == <<st, ran, rel, nxt>>

Toks == 1..MaxTok
X0 == [f |-> 0, f2 |-> 0, r1 |-> FALSE, r2 |-> FALSE, src |-> "g1"]
Call(op, g, x) == [op |-> op, g |-> g, x |-> x]

Calls ==
    {Call(op, g, [X0 EXCEPT !.f = nxt]) : op \in MakeOps, g \in GNames}
    \cup {Call(op, g, X0) : op \in {"release", "dtor"}, g \in GNames}
    \cup {Call("move_ctor", g, [X0 EXCEPT !.src = s]) : g \in GNames, s \in GNames}
    \cup {Call("block", "-", [X0 EXCEPT !.f = nxt, !.f2 = nxt + 1, !.r1 = r1, !.r2 = r2]) : r1 \in BOOLEAN, r2 \in BOOLEAN}

St0 == [g |-> [n \in GNames |-> Dead]]

Init ==
    /\ st = St0
    /\ ran = [t \in Toks |-> 0]
    /\ rel = [t \in Toks |-> FALSE]
    /\ nxt = 1
    /\ last = [op |-> "init", g |-> "g1", x |-> X0, pre |-> St0, post |-> St0, inv |-> <<>>, cp |-> 0, mv |-> 0,
               pk |-> <<St0, [t \in Toks |-> 0], [t \in Toks |-> FALSE], 1>>, qk |-> <<St0, [t \in Toks |-> 0], [t \in Toks |-> FALSE], 1>>]

Count(s, t) == Cardinality({i \in 1..Len(s) : s[i] = t})
Used(c) == IF c.op \in MakeOps THEN 1 ELSE IF c.op = "block" THEN 2 ELSE 0

Step(c) ==
    /\ nxt + Used(c) - 1 <= MaxTok
    /\ Pre(c.op, c.g, c.x, st)
    /\ LET ef == Eff(c.op, c.g, c.x, st) IN
       /\ st' = ef.st
       /\ ran' = [t \in Toks |-> ran[t] + Count(ef.inv, t)]
       /\ rel' = [t \in Toks |->
                    \/ rel[t]
                    \/ (c.op = "release" /\ st.g[c.g].active /\ st.g[c.g].f = t)
                    \/ (c.op = "block" /\ ((c.x.r1 /\ t = c.x.f) \/ (c.x.r2 /\ t = c.x.f2)))]
       /\ nxt' = nxt + Used(c)
       /\ last' = [op |-> c.op, g |-> c.g, x |-> c.x, pre |-> st, post |-> ef.st, inv |-> ef.inv, cp |-> ef.cp, mv |-> ef.mv,
                   pk |-> <<st, ran, rel, nxt>>, qk |-> <<st', ran', rel', nxt'>>]     \* planner keys: the whole model state

Next == \E c \in Calls : Step(c)
Spec == Init /\ [][Next]_vars
Emit == PrintT(<<"GEN", ToJson(last')>>)

\* ---- what TLC proves ------------------------------------------------------------------------------------
Holders(t) == {n \in GNames : st.g[n].live /\ st.g[n].active /\ st.g[n].f = t}
B(b) == IF b THEN 1 ELSE 0

TypeOK == /\ \A n \in GNames : st.g[n].live \in BOOLEAN /\ st.g[n].active \in BOOLEAN /\ st.g[n].f \in 0..MaxTok
          /\ nxt \in 1..(MaxTok + 1)

\* exactly once, unless released; the obligation is always in exactly one place
Conservation ==
    \A t \in Toks :
        IF t < nxt THEN Cardinality(Holders(t)) + ran[t] + B(rel[t]) = 1
        ELSE Holders(t) = {} /\ ran[t] = 0 /\ ~rel[t]

AtMostOnce == \A t \in Toks : ran[t] <= 1
ReleasedNeverRuns == \A t \in Toks : rel[t] => ran[t] = 0
AllGoneAllSettled == (\A n \in GNames : ~st.g[n].live) => \A t \in Toks : t < nxt => (ran[t] = 1) # rel[t]

\* the exit function only ever runs in a destructor (explicit or at the end of a block)
OnlyAtDestruction == [][last'.inv # <<>> => last'.op \in {"dtor", "block"}]_vars
\* once inactive, never active again
NoReactivation == [][\A n \in GNames : (st.g[n].live /\ ~st.g[n].active /\ st'.g[n].live) => ~st'.g[n].active]_vars
\* move construction transfers the obligation and runs nothing
MoveTransfers ==
    [][last'.op = "move_ctor" =>
          /\ st'.g[last'.g].active = st.g[last'.x.src].active
          /\ ~st'.g[last'.x.src].active
          /\ last'.inv = <<>>]_vars
==========================================================================
