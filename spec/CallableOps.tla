-------------------------- MODULE CallableOps --------------------------
(* Constant-free meaning of the callable wrappers and of pair / tuple (property C20), transcribed      *)
(* from [func.wrap.func] (shared subset of inplace_function with std::function), [func.invoke],        *)
(* [func.require] (INVOKE), [refwrap], [func.bind.partial], [func.not.fn], P0792 (function_ref),       *)
(* [pairs], [tuple].  Three families of events:                                                        *)
(*   fam "ipf"  : histories of two inplace_function objects f, g                                        *)
(*   fam "form" : one call through a wrapper / invoke form, monitored by the target-call log            *)
(*   fam "tup"  : pair / tuple operations on value sequences                                            *)
(* The instrumented callables of the harness log one *target-call record* per invocation               *)
(*     [t target id, c captured value, self, a argument values, k argument categories, r result]        *)
(* self / k: value category as seen by the callee: 1 lvalue, 2 const lvalue, 3 rvalue, 4 const rvalue,  *)
(* 0 not observable (free function, by-value parameter).                                                *)
EXTENDS Naturals, Integers, Sequences, FiniteSets

MOVED == -1
B(p) == IF p THEN 1 ELSE 0
Other(o) == IF o = "f" THEN "g" ELSE "f"

\* result every instrumented target computes from its identity, its capture and its arguments
W(a) == (IF Len(a) >= 1 THEN a[1] ELSE 0) + (IF Len(a) >= 2 THEN 3 * a[2] ELSE 0)
        + (IF Len(a) >= 3 THEN 9 * a[3] ELSE 0) + (IF Len(a) >= 4 THEN 27 * a[4] ELSE 0)
Res(t, c, a) == 1000 * t + 100 * c + W(a)
Rec(t, c, self, a, k) == [t |-> t, c |-> c, self |-> self, a |-> a, k |-> k, r |-> Res(t, c, a)]

\* ============================ 1. inplace_function<int(int), Cap> ==================================
\* state of one wrapper: empty, or holds(target id, captured value)
\* targets: 1 function pointer, 2 small trivially copyable functor, 3 small functor with a non-trivially
\* copyable capture, 4 / 5 the same two padded to exactly the capacity
EmptyW == [e |-> 0, t |-> 0, c |-> 0]
Holds(t, c) == [e |-> 1, t |-> t, c |-> c]
Targets == 1..5
SmallTargets == 1..3          \* fit into the smaller capacity used by the cross-capacity constructors
CapDom(t) == IF t = 1 THEN {0} ELSE 0..2
NonTrivialT(t) == t \in {3, 5}
LegalW(w) == w = EmptyW \/ (w.e = 1 /\ w.t \in Targets /\ w.c \in CapDom(w.t))

IpfTargetOps == {"ctor_target", "assign_target"}
\* h: a third, persistent wrapper of a SMALLER capacity (the source of the cross-capacity constructors / assignments)
IpfSmallCopyOps == {"ctor_copy_small", "assign_copy_small"}
IpfSmallMoveOps == {"ctor_move_small", "assign_move_small"}
IpfSmallOps == IpfSmallCopyOps \cup IpfSmallMoveOps
IpfMoveOps == {"ctor_move", "assign_move"}
IpfCopyOps == {"ctor_copy", "assign_copy"}
IpfSwapOps == {"swap", "fswap"}
IpfClearOps == {"ctor_default", "ctor_nullptr", "assign_nullptr"}
IpfOps == IpfTargetOps \cup IpfSmallOps \cup IpfMoveOps \cup IpfCopyOps \cup IpfSwapOps \cup IpfClearOps \cup {"call", "set_small"}

\* x = [t, c, a, src, m]
IpfPre(op, o, x, s) ==
    /\ op \in IpfOps
    /\ CASE op \in IpfTargetOps -> x.t \in Targets /\ x.c \in CapDom(x.t)
         [] op = "set_small" -> x.t = 0 \/ (x.t \in SmallTargets /\ x.c \in CapDom(x.t))
         [] op \in IpfSmallOps -> s.h = EmptyW \/ s.h.t \in SmallTargets
         [] op \in IpfMoveOps \cup {"ctor_copy"} -> x.src = Other(o)
         [] op = "call" -> x.a \in 0..2
         [] OTHER -> TRUE

\* the callee sees: a functor stored in the wrapper is called as a non-const lvalue (self 1) and receives the
\* by-value parameter of the signature as an rvalue (3); a plain function shows neither (0)
CallRec(w, a) == IF w.t = 1 THEN Rec(1, 0, 0, <<a>>, <<0>>) ELSE Rec(w.t, w.c, 1, <<a>>, <<3>>)

IpfEff(op, o, x, s) ==
    LET w == s[o] IN
    CASE op \in IpfClearOps -> [st |-> [s EXCEPT ![o] = EmptyW], ret |-> <<>>, calls |-> <<>>, handler |-> 0]
      [] op \in IpfTargetOps -> [st |-> [s EXCEPT ![o] = Holds(x.t, x.c)], ret |-> <<>>, calls |-> <<>>, handler |-> 0]
      \* (re)construct the small wrapper h from a target (t = 0: empty)
      [] op = "set_small" ->
            [st |-> [s EXCEPT !.h = IF x.t = 0 THEN EmptyW ELSE Holds(x.t, x.c)], ret |-> <<>>, calls |-> <<>>, handler |-> 0]
      \* big(const small&) / big = small: an equivalent target, the source untouched
      [] op \in IpfSmallCopyOps -> [st |-> [s EXCEPT ![o] = s.h], ret |-> <<>>, calls |-> <<>>, handler |-> 0]
      \* big(small&&) / big = move(small): the source is modelled as empty; IpfPost leaves it open
      [] op \in IpfSmallMoveOps -> [st |-> [s EXCEPT ![o] = s.h, !.h = EmptyW], ret |-> <<>>, calls |-> <<>>, handler |-> 0]
      [] op \in IpfCopyOps -> [st |-> [s EXCEPT ![o] = s[x.src]], ret |-> <<>>, calls |-> <<>>, handler |-> 0]
      \* the moved-from wrapper is modelled as empty; the judged relation (IpfPost) leaves it open
      [] op \in IpfMoveOps -> [st |-> [s EXCEPT ![o] = s[x.src], ![x.src] = EmptyW], ret |-> <<>>, calls |-> <<>>, handler |-> 0]
      [] op \in IpfSwapOps -> [st |-> [s EXCEPT ![o] = s[x.src], ![x.src] = s[o]], ret |-> <<>>, calls |-> <<>>, handler |-> 0]
      [] op = "call" ->
            IF w.e = 1
            THEN [st |-> s, ret |-> <<Res(w.t, w.c, <<x.a>>)>>, calls |-> <<CallRec(w, x.a)>>, handler |-> 0]
            \* an empty wrapper never calls anything: the failure handler fires exactly once
            ELSE [st |-> s, ret |-> <<>>, calls |-> <<>>, handler |-> 1]

IpfPost(op, o, x, s, t, r, calls, handler) ==
    LET ef == IpfEff(op, o, x, s) IN
    /\ r = ef.ret /\ calls = ef.calls /\ handler = ef.handler
    /\ IF op \in IpfMoveOps
       THEN /\ t[o] = ef.st[o] /\ (t[x.src] = EmptyW \/ LegalW(t[x.src]))     \* source: valid but unspecified
            /\ t.h = s.h /\ t[Other(x.src)] = ef.st[Other(x.src)]
       ELSE IF op \in IpfSmallMoveOps
       THEN t[o] = ef.st[o] /\ t[Other(o)] = s[Other(o)] /\ (t.h = EmptyW \/ LegalW(t.h))
       ELSE t = ef.st

IpfObsOne(q, w) ==
    /\ q.bool = (w.e = 1)
    /\ q.eqnull = (w.e = 0) /\ q.nulleq = (w.e = 0)
    /\ q.nenull = (w.e = 1) /\ q.nullne = (w.e = 1)
IpfObsOK(obs, t) == IpfObsOne(obs.f, t.f) /\ IpfObsOne(obs.g, t.g) /\ IpfObsOne(obs.h, t.h)

\* lifetime cells (LifeOps): the storage of a wrapper is one cell that is alive while a non-trivial capture lives there
IpfEls(w) == IF w.e = 1 /\ NonTrivialT(w.t) THEN <<w.c>> ELSE <<>>

\* ============================ 2. one call through a wrapper / INVOKE form ==========================
\* x = [c, a, b, d]: captured / object value and up to three call arguments.  The harness passes a as a
\* non-const lvalue, b as a const lvalue, d as an rvalue.  Targets: 1 free function (int), 2 generic functor
\* (perfect-forwarding operator() with all four ref-qualifiers), 6 member function S::mf(int) (self 1) /
\* S::mfc(int) const (self 2), 9 predicate functor (result is a bool: odd(c + a)).
ABD(x) == <<x.a, x.b, x.d>>
Odd(n) == n % 2 = 1
Fn1(x) == [calls |-> <<Rec(1, 0, 0, <<x.a>>, <<0>>)>>, ret |-> <<Res(1, 0, <<x.a>>)>>]
Functor3(x, self) == [calls |-> <<Rec(2, x.c, self, ABD(x), <<1, 2, 3>>)>>, ret |-> <<Res(2, x.c, ABD(x))>>]
MemFn(x, self) == [calls |-> <<Rec(6, x.c, self, <<x.a>>, <<0>>)>>, ret |-> <<Res(6, x.c, <<x.a>>)>>]
\* member data pointer: nothing is called; the result designates the member with the category of the object
MemData(x, cat) == [calls |-> <<>>, ret |-> <<x.c, cat>>]
\* bind_front(functor, bound = x.b)(a, b, d): the bound argument arrives with the category of the call wrapper
Bind(x, self) == [calls |-> <<Rec(2, x.c, self, <<x.b, x.a, x.b, x.d>>, <<self, 1, 2, 3>>)>>,
                  ret |-> <<Res(2, x.c, <<x.b, x.a, x.b, x.d>>)>>]
Pred(x, self) == [calls |-> <<[t |-> 9, c |-> x.c, self |-> self, a |-> <<x.a>>, k |-> <<1>>, r |-> B(Odd(x.c + x.a))]>>,
                  ret |-> <<B(~Odd(x.c + x.a))>>]

FormNames == {"inv_fn", "inv_fnptr", "inv_functor_l", "inv_functor_c", "inv_functor_r",
              "inv_memfn_obj", "inv_memfn_ptr", "inv_memfn_refw", "inv_memfn_cobj", "inv_memfn_derived", "inv_memfn_robj",
              "inv_memdata_obj", "inv_memdata_cobj", "inv_memdata_robj", "inv_memdata_ptr", "inv_memdata_refw",
              "inv_memdata_derived",
              "fr_fn", "fr_functor_l", "fr_functor_c", "fr_copy", "fr_lambda",
              "rw_call_l", "rw_call_c", "rw_identity", "rw_fn",
              "bf_l", "bf_c", "bf_r", "bf_lv", "bf_memfn", "bf_fn",
              "nf_l", "nf_c", "nf_r", "nf_fn",
              "ipf_sig3", "ipf_sig3_copy",
              "fl_l", "fl_c", "fl_r", "fl_cr", "flk_l", "flk_c", "flk_r", "flk_cr",
              "inv_mv_obj_l", "inv_mv_obj_r", "inv_mv_ptr_l", "inv_mv_ptr_r", "inv_mv_refw_l", "inv_mv_refw_r"}

FormExpect(form, x) ==
    CASE form \in {"inv_fn", "inv_fnptr", "fr_fn", "rw_fn"} -> Fn1(x)
      [] form \in {"inv_functor_l", "fr_functor_l", "fr_copy", "rw_call_l", "ipf_sig3", "ipf_sig3_copy"} -> Functor3(x, 1)
      [] form \in {"inv_functor_c", "fr_functor_c", "rw_call_c"} -> Functor3(x, 2)
      [] form = "inv_functor_r" -> Functor3(x, 3)
      \* a lambda [c](int a): called as lvalue, by-value parameter
      [] form = "fr_lambda" -> [calls |-> <<Rec(3, x.c, 0, <<x.a>>, <<0>>)>>, ret |-> <<Res(3, x.c, <<x.a>>)>>]
      [] form \in {"inv_memfn_obj", "inv_memfn_ptr", "inv_memfn_refw", "inv_memfn_derived", "inv_memfn_robj", "bf_memfn"} -> MemFn(x, 1)
      [] form = "inv_memfn_cobj" -> MemFn(x, 2)
      [] form \in {"inv_memdata_obj", "inv_memdata_ptr", "inv_memdata_refw", "inv_memdata_derived"} -> MemData(x, 1)
      [] form = "inv_memdata_cobj" -> MemData(x, 2)
      [] form = "inv_memdata_robj" -> MemData(x, 3)
      \* reference_wrapper: get(), conversion, copy all designate the wrapped object; assignment rebinds
      [] form = "rw_identity" -> [calls |-> <<>>, ret |-> <<1, 1, 1, 1>>]
      [] form \in {"bf_l", "bf_lv"} -> Bind(x, 1)
      [] form = "bf_c" -> Bind(x, 2)
      [] form = "bf_r" -> Bind(x, 3)
      \* bind_front(fn, b)() : the free function receives the bound value
      [] form = "bf_fn" -> [calls |-> <<Rec(1, 0, 0, <<x.b>>, <<0>>)>>, ret |-> <<Res(1, 0, <<x.b>>)>>]
      [] form = "nf_l" -> Pred(x, 1)
      [] form = "nf_c" -> Pred(x, 2)
      [] form = "nf_r" -> Pred(x, 3)
      \* forward_like<Owner>(member) ([forward]/P2445): const from the owner or the member, rvalue iff the owner is
      [] form = "fl_l" -> [calls |-> <<>>, ret |-> <<x.a, 1>>]
      [] form = "fl_c" -> [calls |-> <<>>, ret |-> <<x.a, 2>>]
      [] form = "fl_r" -> [calls |-> <<>>, ret |-> <<x.a, 3>>]
      [] form = "fl_cr" -> [calls |-> <<>>, ret |-> <<x.a, 4>>]
      [] form \in {"flk_l", "flk_c"} -> [calls |-> <<>>, ret |-> <<x.a, 2>>]
      [] form \in {"flk_r", "flk_cr"} -> [calls |-> <<>>, ret |-> <<x.a, 4>>]
      \* member function with a class-type BY-VALUE parameter (target 12), object given directly / by pointer / by
      \* reference_wrapper: an lvalue argument copy-constructs the parameter (1) and stays intact, an rvalue argument
      \* move-constructs it (3) and is left moved-from; ret = <<result, caller's argument afterwards>>
      [] form \in {"inv_mv_obj_l", "inv_mv_ptr_l", "inv_mv_refw_l"} ->
            [calls |-> <<Rec(12, x.c, 1, <<x.a>>, <<1>>)>>, ret |-> <<Res(12, x.c, <<x.a>>), x.a>>]
      [] form \in {"inv_mv_obj_r", "inv_mv_ptr_r", "inv_mv_refw_r"} ->
            [calls |-> <<Rec(12, x.c, 1, <<x.a>>, <<3>>)>>, ret |-> <<Res(12, x.c, <<x.a>>), MOVED>>]
      \* not_fn(function): odd(a) negated
      [] form = "nf_fn" -> [calls |-> <<[t |-> 10, c |-> 0, self |-> 0, a |-> <<x.a>>, k |-> <<0>>, r |-> B(Odd(x.a))]>>,
                            ret |-> <<B(~Odd(x.a))>>]

FormPre(form, x) == form \in FormNames /\ x.c \in 0..2 /\ x.a \in 0..2 /\ x.b \in 0..2 /\ x.d \in 0..2
\* exactly one target call, same argument values and categories, result passed through unchanged
FormOK(form, x, calls, ret) == LET e == FormExpect(form, x) IN calls = e.calls /\ ret = e.ret

\* ============================ 3. pair / tuple as value sequences ===================================
\* element type tags: "int", "trk" (non-trivial, copy + move), "mo" (move-only), "co" (copy-only),
\* "lref" (int&), "cint" (int const); as SOURCE element of the converting operations also "tref" (Tracked&) and
\* "ctref" (Tracked const&): forward<U> of an lvalue reference is an lvalue, so the referent is copied from, never moved.  p, q: value sequences (for "lref" the value of the referent).
Movable(ty) == ty \in {"trk", "mo"}                     \* a move leaves MOVED behind
ElemMoved(ty, v) == IF Movable(ty) THEN MOVED ELSE v
MovedSeq(tys, vs) == [i \in 1..Len(vs) |-> ElemMoved(tys[i], vs[i])]
Min2(a, b) == IF a < b THEN a ELSE b
LexLess(s, t) ==
    \E k \in 0..Min2(Len(s), Len(t)) :
        /\ \A i \in 1..k : s[i] = t[i]
        /\ \/ k = Len(s) /\ k < Len(t)
           \/ k < Len(s) /\ k < Len(t) /\ s[k + 1] < t[k + 1]
Flags6(p, q) == <<B(p = q), B(p # q), B(LexLess(p, q)), B(~LexLess(q, p)), B(LexLess(q, p)), B(~LexLess(p, q))>>
\* category of get<I>(t) for an element of type ty when t is accessed as mode (1 l, 2 cl, 3 r, 4 cr)
GetCat(ty, mode) == IF ty = "lref" THEN 1
                    ELSE IF ty = "cint" THEN (IF mode \in {1, 2} THEN 2 ELSE 4)
                    ELSE mode
Cats(tys, mode) == [i \in 1..Len(tys) |-> GetCat(tys[i], mode)]

TupOps == {"cmp", "ctor_copy", "ctor_move", "assign_copy", "assign_move", "assign_conv_copy", "assign_conv_move",
           "ctor_conv_copy", "ctor_conv_move", "swap", "fswap", "get", "get_t", "apply", "cat", "mft", "mft_il", "sb", "make"}

\* ev fields: k ("pair"/"tuple"), ty, ty2, x = [p, q, i, mode, mode2]
TupPre(k, ty, ty2, op, x) ==
    /\ op \in TupOps
    /\ Len(x.p) = Len(ty)
    /\ (op \in {"get", "get_t"} => x.i \in 0..(Len(ty) - 1) /\ x.mode \in 1..4)
    /\ (op \in {"apply", "mft", "mft_il"} => x.mode \in 1..3)
    /\ (op = "mft_il" => Len(ty) = 2)
    /\ (op = "cat" => x.mode \in {1, 3} /\ x.mode2 \in {1, 3} /\ Len(x.q) = Len(ty2))
    /\ (op \in {"cmp", "ctor_copy", "ctor_move", "assign_copy", "assign_move", "swap", "fswap"} => Len(x.q) = Len(ty))

TupExpect(k, ty, ty2, op, x) ==
    LET p == x.p q == x.q IN
    CASE op = "cmp" -> [calls |-> <<>>, ret |-> IF k = "pair" THEN Flags6(p, q) ELSE <<B(p = q), B(p # q)>>]
      \* ret = destination values, then source values after the call
      [] op \in {"ctor_copy", "assign_copy", "ctor_conv_copy", "assign_conv_copy"} -> [calls |-> <<>>, ret |-> q \o q]
      [] op \in {"ctor_move", "assign_move"} -> [calls |-> <<>>, ret |-> q \o MovedSeq(ty, q)]
      [] op \in {"ctor_conv_move", "assign_conv_move"} -> [calls |-> <<>>, ret |-> q \o MovedSeq(ty2, q)]
      [] op \in {"swap", "fswap"} -> [calls |-> <<>>, ret |-> q \o p]
      \* get<I> / get<T>: value, category, and what is left in the element once the result initialised a new object
      [] op \in {"get", "get_t"} ->
            LET e == ty[x.i + 1] v == p[x.i + 1] IN
            [calls |-> <<>>, ret |-> <<v, GetCat(e, x.mode), IF x.mode = 3 THEN ElemMoved(e, v) ELSE v>>]
      \* apply(f, t): f is called once with the elements in order, each with the category get<I> gives
      [] op = "apply" -> [calls |-> <<Rec(7, 0, 1, p, Cats(ty, x.mode))>>, ret |-> <<Res(7, 0, p)>> \o p]
      \* make_from_tuple<R>(t): R's constructor sees the same
      [] op = "mft" -> [calls |-> <<Rec(8, 0, 0, p, Cats(ty, x.mode))>>, ret |-> <<Res(8, 0, p)>> \o p]
      \* make_from_tuple<R>(t) for an R with an (int, int) AND an initializer_list<int> constructor: the initialisation is
      \* T(get<I>(t)...) with parentheses, so the (int, int) constructor runs (1), never the list constructor (2)
      [] op = "mft_il" -> [calls |-> <<>>, ret |-> <<1>> \o p]
      \* tuple_cat(t1, t2): concatenation; an rvalue argument is moved from, an lvalue argument copied
      [] op = "cat" ->
            [calls |-> <<>>,
             ret |-> (p \o q) \o (IF x.mode = 3 THEN MovedSeq(ty, p) ELSE p) \o (IF x.mode2 = 3 THEN MovedSeq(ty2, q) ELSE q)]
      \* structured bindings by reference: the names read the element values and designate the elements themselves
      [] op = "sb" -> [calls |-> <<>>, ret |-> p \o <<1>>]
      \* make_pair / make_tuple / forward_as_tuple: values preserved
      [] op = "make" -> [calls |-> <<>>, ret |-> p]

TupOK(k, ty, ty2, op, x, calls, ret) == LET e == TupExpect(k, ty, ty2, op, x) IN calls = e.calls /\ ret = e.ret
=========================================================================
