--------------------------------- MODULE Md ---------------------------------
(* Domain enumerator and theorem checker for property C19.                                              *)
(*   kind "ext"    : every extents tuple of rank 0..MaxRank with each extent in 0..MaxExt                *)
(*   kind "stride" : (successor of an "ext" state of rank >= 1) the same extents with an explicit stride  *)
(*                   vector: every permutation of the dimensions, tight (pad 0) and padded (pad 1)        *)
(*   kind "span"   : every (n, offset, count) with n <= MaxSpan, offset <= n, count = -1 (dynamic) or     *)
(*                   count <= n - offset                                                                  *)
(* MC role: on each of them TLC proves what C19 states about the *model* of MdOps: the layout mappings    *)
(* are injective on the index space, land in [0, required_span_size), are onto for the exhaustive         *)
(* layouts, stride(r) is the offset difference of a unit step in dimension r, closed form = nested form,  *)
(* transposition exchanges row- and column-major, sub-views stay inside their range.                      *)
(* GEN role: every state is exported as one line <<"GEN", json>>; harness/md_driver.cpp instantiates the  *)
(* extents/strides on the real templates (every compatible static/dynamic pattern) and walks the whole    *)
(* index space.                                                                                           *)
EXTENDS MdOps, TLC, Json

CONSTANTS MaxRank, MaxExt, MaxSpan

VARIABLES kind, ext, sin, pad, sp
vars == <<kind, ext, sin, pad, sp>>

ExtSet == UNION {[1..n -> 0..MaxExt] : n \in 0..MaxRank}
SpanSet == {<<n, o, c>> : n \in 0..MaxSpan, o \in 0..MaxSpan, c \in -1..MaxSpan}

Perms(n) == {p \in [1..n -> 1..n] : \A i, j \in 1..n : i # j => p[i] # p[j]}
Max2(a, b) == IF a > b THEN a ELSE b
\* stride of the k-th dimension in the order p: the previous stride times the previous extent, plus padding
RECURSIVE StrAt(_, _, _, _)
StrAt(e, p, pd, k) == IF k = 1 THEN 1 + pd ELSE StrAt(e, p, pd, k - 1) * Max2(e[p[k - 1]], 1) + pd
StrideCfg(e, p, pd) == [r \in 1..Len(e) |-> StrAt(e, p, pd, CHOOSE k \in 1..Len(e) : p[k] = r)]

Init == \/ /\ kind = "ext" /\ ext \in ExtSet /\ sin = <<>> /\ pad = 0 /\ sp = <<>>
        \/ /\ kind = "span" /\ sp \in {s \in SpanSet : s[2] <= s[1] /\ s[3] <= s[1] - s[2]}
           /\ ext = <<>> /\ sin = <<>> /\ pad = 0

Next == /\ kind = "ext" /\ Len(ext) >= 1
        /\ kind' = "stride"
        /\ \E p \in Perms(Len(ext)) : \E pd \in {0, 1} : sin' = StrideCfg(ext, p, pd) /\ pad' = pd
        /\ UNCHANGED <<ext, sp>>

Spec == Init /\ [][Next]_vars

\* ---- theorems about one mapping: f = offset function on the index space, req = required span size ------
Image(f(_), e) == {f(idx) : idx \in IndexSpace(e)}
Injective(f(_), e) == Cardinality(Image(f, e)) = Cardinality(IndexSpace(e))
InBounds(f(_), e, req) == \A idx \in IndexSpace(e) : f(idx) \in 0..(req - 1)
Onto(f(_), e, req) == Image(f, e) = 0..(req - 1)
Step(idx, r) == [idx EXCEPT ![r] = idx[r] + 1]
UnitStep(f(_), e, strides) ==
    \A idx \in IndexSpace(e) : \A r \in 1..Len(e) :
        idx[r] + 1 < e[r] => f(Step(idx, r)) - f(idx) = strides[r]

DenseLaws(e) ==
    LET R(idx) == LayoutRight(e, idx)
        L(idx) == LayoutLeft(e, idx)
        req == ReqSpanDense(e)
    IN
    /\ Cardinality(IndexSpace(e)) = Size(e)
    /\ \A idx \in IndexSpace(e) : R(idx) = RowMajor(e, idx) /\ L(idx) = ColMajor(e, idx)
    /\ Injective(R, e) /\ InBounds(R, e, req) /\ Onto(R, e, req) /\ UnitStep(R, e, StridesRight(e))
    /\ Injective(L, e) /\ InBounds(L, e, req) /\ Onto(L, e, req) /\ UnitStep(L, e, StridesLeft(e))
    /\ (Len(e) = 0 => req = 1 /\ R(<<>>) = 0 /\ L(<<>>) = 0)
    /\ (Len(e) >= 1 /\ Size(e) > 0 => StrideRight(e, Len(e)) = 1 /\ StrideLeft(e, 1) = 1)
    \* a dense layout is the stride layout with its own strides
    /\ ReqSpanStride(e, StridesRight(e)) = (IF Size(e) = 0 THEN 0 ELSE req)
    /\ ReqSpanStride(e, StridesLeft(e)) = (IF Size(e) = 0 THEN 0 ELSE req)
    \* rank 2: the transposed row-major mapping is the column-major mapping of the same extents, and vice versa
    /\ (Len(e) = 2 =>
          /\ \A idx \in IndexSpace(e) :
                /\ Map("transpose_right", e, <<>>, idx) = LayoutRight(Swap2(e), Swap2(idx))
                /\ Map("transpose_right", e, <<>>, idx) = L(idx)
                /\ Map("transpose_left", e, <<>>, idx) = LayoutLeft(Swap2(e), Swap2(idx))
                /\ Map("transpose_left", e, <<>>, idx) = R(idx)
          /\ Strides("transpose_right", e, <<>>) = StridesLeft(e)
          /\ Strides("transpose_left", e, <<>>) = StridesRight(e))
    \* equality: equal extents give the same mapping; conversely (no zero extent) the strides and the size determine the extents
    /\ \A e2 \in [1..Len(e) -> 0..MaxExt] :
          /\ (ExtentsEqual(e, e2) <=> e = e2)
          /\ (ExtentsEqual(e, e2) => StridesRight(e) = StridesRight(e2) /\ StridesLeft(e) = StridesLeft(e2) /\ Size(e) = Size(e2))
          /\ (Size(e) > 0 /\ Size(e2) > 0 /\ StridesRight(e) = StridesRight(e2) /\ Size(e) = Size(e2) => ExtentsEqual(e, e2))
    /\ \A n \in 0..MaxRank : n # Len(e) => ~ExtentsEqual(e, [r \in 1..n |-> 1])
    \* submdspan_extents with full_extent / single-index slices: the kept sub-space has as many points as there are
    \* multi-indices agreeing with the fixed positions
    /\ \A sl \in [1..Len(e) -> -1..(MaxExt - 1)] :
          SlicesOK(e, sl) =>
              /\ Size(SubExtents(e, sl)) = Cardinality({idx \in IndexSpace(e) : \A r \in 1..Len(e) : sl[r] = -1 \/ idx[r] = sl[r]})
              /\ Len(SubExtents(e, sl)) = Cardinality({r \in 1..Len(e) : sl[r] = -1})
              /\ ((\A r \in 1..Len(e) : sl[r] = -1) => SubExtents(e, sl) = e)

StrideLaws(e, s, pd) ==
    LET F(idx) == LayoutStride(s, idx)
        req == ReqSpanStride(e, s)
    IN
    /\ Injective(F, e) /\ InBounds(F, e, req) /\ UnitStep(F, e, s)
    /\ (Size(e) = 0 => req = 0)
    /\ (Size(e) > 0 => req >= Size(e) /\ F([r \in 1..Len(e) |-> e[r] - 1]) = req - 1)
    \* exhaustive iff tight (only meaningful when every extent is at least 2: a dimension of extent 1 hides its stride)
    /\ ((\A r \in 1..Len(e) : e[r] >= 2) => (Onto(F, e, req) <=> pd = 0))

SpanLaws(s) ==
    LET n == s[1] o == s[2] c == s[3]
        sub == SpanSubspan(n, o, c)
    IN
    /\ SpanPre("subspan", n, o, c)
    /\ sub[1] >= 0 /\ sub[2] >= 0 /\ sub[1] + sub[2] <= n                   \* never outside the original range
    /\ (c # -1 /\ o = 0 => SpanFirst(n, c) = sub)
    /\ (c # -1 /\ o + c = n => SpanLast(n, c) = sub)
    /\ (c = -1 => sub = SpanLast(n, n - o))
    /\ SpanRetExtent("subspan", TRUE, n, o, c) = sub[2]                       \* static source: the size is known
    /\ SpanRetExtent("subspan", TRUE, -1, o, c) = c
    /\ SpanRetExtent("subspan", FALSE, n, o, c) = -1

Laws == CASE kind = "ext" -> DenseLaws(ext)
          [] kind = "stride" -> StrideLaws(ext, sin, pad)
          [] kind = "span" -> SpanLaws(sp)

\* ---- GEN --------------------------------------------------------------------------------------------------
EmitInv ==
    PrintT(<<"GEN", ToJson(CASE kind = "ext" -> [k |-> "ext", ext |-> ext]
                             [] kind = "stride" -> [k |-> "stride", ext |-> ext, strides |-> sin, pad |-> pad]
                             [] kind = "span" -> [k |-> "span", n |-> sp[1], o |-> sp[2], c |-> sp[3]])>>)
=============================================================================
