#!/usr/bin/env python3
"""Entry point: python3 tools/check.py <property-id> [--tier quick|thorough] [--replay <path>]"""
import importlib
import os
import sys

sys.path.insert(0, os.path.dirname(os.path.abspath(__file__)))
import vlib  # noqa: E402


def replay(pid, mod, path):
    """Re-execute a saved failing case against the current tree and re-validate it.
    Module-specific fast path: pipes.<module>.replay(record) when the pipeline provides one (rebuilds the
    pre-state through the public API, runs the one call, validates the recorded event with TLC).
    Fallback: re-run the quick check (evidence redirected) and report whether the same signature recurs."""
    import json
    rec = json.load(open(path))
    modname = rec.get("module", "").split("[")[0].lower()
    try:
        pipe = importlib.import_module("pipes." + modname)
    except Exception:
        pipe = None
    if pipe is not None and hasattr(pipe, "replay"):
        devs = pipe.replay(rec)
        if devs:
            print("VIOLATION property=%s replay=%s" % (pid, path))
            for d in devs[:3]:
                print("  still deviates: %s expected=%s" % (d["kind"], json.dumps(d.get("expected"))[:300]), file=sys.stderr)
            return 1
        print("replay: the recorded case conforms on the current tree", file=sys.stderr)
        return 0
    os.environ["VERIF_EVID"] = os.path.join(vlib.BUILD, "replay_evidence")
    vlib.EVID = os.environ["VERIF_EVID"]
    rep = vlib.Report(pid, "quick", getattr(mod, "LEVEL", "model_checking"))
    mod.run("quick", rep)
    ev = rec.get("event", {})
    same = [d for d in rep.devs if d.get("kind") == rec.get("kind") and d.get("ev", {}).get("op") == ev.get("op")]
    if same:
        print("VIOLATION property=%s replay=%s" % (pid, path))
        return 1
    print("replay: no deviation with the recorded signature on the current tree", file=sys.stderr)
    return 0


def main():
    if len(sys.argv) < 2:
        print("usage: check.py <id> [--tier quick|thorough] [--replay path]", file=sys.stderr)
        return 2
    pid = sys.argv[1]
    del sys.argv[1]
    import argparse
    ap = argparse.ArgumentParser()
    ap.add_argument("--tier", default=os.environ.get("VERIF_TIER", "quick"), choices=["quick", "thorough"])
    ap.add_argument("--replay", default=None)
    a = ap.parse_args()
    try:
        mod = importlib.import_module("props." + pid)
        if a.replay:
            return replay(pid, mod, a.replay)
        rep = vlib.Report(pid, a.tier, getattr(mod, "LEVEL", "model_checking"))
        mod.run(a.tier, rep)
        return rep.finish()
    except vlib.ModelFailure as e:
        print("MODEL-FAILURE property=%s: %s" % (pid, e), file=sys.stderr)
        return 2


if __name__ == "__main__":
    sys.exit(main())
