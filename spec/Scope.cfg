SPECIFICATION Spec
CONSTANTS
  GNames = {"g1", "g2"}
  MaxTok = 4
VIEW View
ACTION_CONSTRAINT Emit
INVARIANTS TypeOK Conservation AtMostOnce ReleasedNeverRuns AllGoneAllSettled
PROPERTIES OnlyAtDestruction NoReactivation MoveTransfers
CHECK_DEADLOCK FALSE
