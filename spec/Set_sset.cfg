SPECIFICATION Spec
CONSTANTS
  Caps = {3}
  Cmps = {"less", "greater"}
  Univ = {1, 2, 3, 4, 5}
  Kind = "sset"
  MaxXs = 2
  MaxCt = 3
VIEW View
ACTION_CONSTRAINT Emit
INVARIANTS TypeOK SortedUnique OracleLaws OrderLaws
PROPERTIES CapConst FullInsert InsertLaw EraseLaw Independence MultisetLaw ExtractReplace CopyMoveLaw EraseIfLaw
CHECK_DEADLOCK FALSE
