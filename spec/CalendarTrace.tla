-------------------------- MODULE CalendarTrace --------------------------
(* Trace validation for the civil calendar (C11): every event recorded by harness/calendar_driver    *)
(* from the real etl::chrono types (or std::chrono in the calibration build) is judged by the        *)
(* operators of CalendarOps.  Deviations are collected (DEV lines), never fatal.                     *)
(*                                                                                                  *)
(* Sweep events are run-length encoded by the driver (lossless, see calendar_driver.cpp):            *)
(*   sweep_begin{ylo,yhi,lo,hi}  run{y,m,d0,n0,len,wd0,L[,ln]} | day{...}  ...  sweep_end{hi}        *)
(* A `run` states: for k in 0..len-1, sys_days(n0+k) -> y/m/(d0+k) -> n0+k, ok(), weekday           *)
(* (wd0+k) mod 7, same through local_days.  It is accepted iff y/m/d0 is the civil date of n0        *)
(* (closed form proved against the day-by-day walker in Calendar.tla), the run stays inside the      *)
(* month, wd0 is the weekday of n0 and the run continues exactly where the previous event ended      *)
(* (so every day of [lo, hi] is covered once).                                                       *)
EXTENDS CalendarOps, Json, IOUtils, TLC

Tr == ndJsonDeserialize(IOEnv.TRACE)

VARIABLES l, nbad

B(b) == IF b THEN 1 ELSE 0

\* ---- sweep ------------------------------------------------------------------------------------
EndOf(ev) == IF ev.op = "run" THEN ev.n0 + ev.len - 1 ELSE IF ev.op = "day" THEN ev.n ELSE ev.lo - 1
Continues(i, first) ==
    /\ i > 1
    /\ Tr[i - 1].op \in {"run", "day", "sweep_begin"}
    /\ EndOf(Tr[i - 1]) + 1 = first

RunOK(i, ev) ==
    /\ ev.len >= 1
    /\ ValidDate(ev.y, ev.m, ev.d0)
    /\ ev.d0 + ev.len - 1 <= LastDay(ev.y, ev.m)
    /\ YearOk(ev.y)
    /\ DaysFromCivil(ev.y, ev.m, ev.d0) = ev.n0
    /\ CivilFromDays(ev.n0) = <<ev.y, ev.m, ev.d0>>
    /\ Weekday(ev.n0) = ev.wd0
    /\ ev.L = LastDay(ev.y, ev.m)
    /\ ("ln" \in DOMAIN ev => ev.ln = DaysFromCivil(ev.y, ev.m, LastDay(ev.y, ev.m)))
    /\ Continues(i, ev.n0)

DayOK(i, ev) ==
    LET c == CivilFromDays(ev.n) IN
    /\ <<ev.y, ev.m, ev.d>> = c
    /\ <<ev.y2, ev.m2, ev.d2>> = c
    /\ ev.ok = TRUE
    /\ ev.back = ev.n /\ ev.backl = ev.n
    /\ ev.wd = Weekday(ev.n) /\ ev.wdl = Weekday(ev.n) /\ ev.iso = WdIso(Weekday(ev.n)) /\ ev.wdok = TRUE
    /\ ev.L = LastDay(c[1], c[2])
    /\ Continues(i, ev.n)

YmwDayExp(n) == LET c == CivilFromDays(n) IN <<c[1], c[2], Weekday(n), ((c[3] - 1) \div 7) + 1, 1>>

\* ---- scalar arithmetic ------------------------------------------------------------------------
ScalarAdd(t, v, d) == IF t = "month" THEN MonthAdd(v, d) ELSE IF t = "wd" THEN WdAdd(v, d) ELSE v + d
ScalarIn(t, v) == IF t = "month" THEN v \in 1..12 ELSE IF t = "wd" THEN v \in 0..6 ELSE YearOk(v)

Compound == {"pluseq", "minuseq", "preinc", "postinc", "predec", "postdec"}
Step(s, d) == IF s \in {"plus", "rplus", "pluseq"} THEN d
              ELSE IF s \in {"minus", "minuseq"} THEN -d
              ELSE IF s \in {"preinc", "postinc"} THEN 1
              ELSE IF s \in {"predec", "postdec"} THEN -1 ELSE 0
ScalarNew(ev) == IF ev.s = "neg" THEN -ev.x[1] ELSE ScalarAdd(ev.t, ev.x[1], Step(ev.s, ev.x[2]))
ScalarRet(ev) == IF ev.s \in {"postinc", "postdec"} THEN ev.x[1] ELSE ScalarNew(ev)
ScalarPre(ev) == ScalarIn(ev.t, ev.x[1]) /\ ScalarIn(ev.t, ScalarNew(ev))
ScalarOK(ev) ==
    /\ ev.ret = <<ScalarRet(ev)>>
    /\ (ev.s \in Compound) = ("obj" \in DOMAIN ev)
    /\ ("obj" \in DOMAIN ev => ev.obj = <<ScalarNew(ev)>>)

DiffExp(ev) == IF ev.t = "month" THEN MonthDiff(ev.x[1], ev.x[2])
               ELSE IF ev.t = "wd" THEN WdDiff(ev.x[1], ev.x[2]) ELSE ev.x[1] - ev.x[2]

\* ---- composite types ---------------------------------------------------------------------------
\* x = <<y, m, extra..., delta>>
CompNewYm(ev) ==
    LET dl == Step(ev.s, ev.x[Len(ev.x)]) IN
    IF ev.u = "m" THEN AddMonths(ev.x[1], ev.x[2], dl) ELSE <<ev.x[1] + dl, ev.x[2]>>
CompPre(ev) == YearOk(ev.x[1]) /\ ev.x[2] \in 1..12 /\ YearOk(CompNewYm(ev)[1])
CompExp(ev) ==
    LET z == CompNewYm(ev) x == ev.x IN
    CASE ev.k = "ym"   -> <<z[1], z[2], B(YmOk(z[1], z[2]))>>
      [] ev.k = "ymd"  -> <<z[1], z[2], x[3], B(YmdOk(z[1], z[2], x[3]))>>
      [] ev.k = "ymdl" -> <<z[1], z[2], LastDay(z[1], z[2]), B(YmOk(z[1], z[2]))>>
      [] ev.k = "ymw"  -> <<z[1], z[2], x[3], x[4], B(YmwOk(z[1], z[2], x[3], x[4]))>>
      [] ev.k = "ymwl" -> <<z[1], z[2], x[3], B(YmOk(z[1], z[2]) /\ WdOk(x[3]))>>
CompOK(ev) ==
    /\ ev.ret = CompExp(ev)
    /\ ("obj" \in DOMAIN ev => ev.obj = CompExp(ev))
    /\ (ev.s \in Compound) = ("obj" \in DOMAIN ev)

\* ---- ok() intervals ----------------------------------------------------------------------------
IvExp(ev) ==
    CASE ev.op = "ymd_ok"  -> Runs(LAMBDA d : YmdOk(ev.y, ev.m, d), 0, 32)
      [] ev.op = "ym_ok"   -> Runs(LAMBDA m : YmOk(ev.y, m), 0, 13)
      [] ev.op = "ymdl_ok" -> Runs(LAMBDA m : YmOk(ev.y, m), 0, 13)
      [] ev.op = "year_ok" -> <<<<YearMin, YearMax>>>>
      [] ev.op = "day_ok"  -> Runs(LAMBDA d : DayOk(d), 0, 40)
      [] ev.op = "month_ok" -> Runs(LAMBDA m : MonthOk(m), 0, 20)
      [] ev.op = "md_ok"   -> Runs(LAMBDA d : MdOk(ev.m, d), 0, 32)
      [] ev.op = "mdl_ok"  -> Runs(LAMBDA m : MonthOk(m), 0, 13)
      [] ev.op = "wdl_ok"  -> Runs(LAMBDA w : WdOk(WdCtor(w)), 0, 8)
      [] ev.op = "mwd_ok"  -> Runs(LAMBDA i : MonthOk(ev.m) /\ WdiOk(ev.w, i), 0, 7)
      [] ev.op = "mwdl_ok" -> Runs(LAMBDA w : MonthOk(ev.m) /\ WdOk(WdCtor(w)), 0, 8)
      [] ev.op = "ymw_ok"  -> Runs(LAMBDA i : YmwOk(ev.y, ev.m, ev.w, i), 0, 7)
      [] ev.op = "ymwl_ok" -> Runs(LAMBDA w : YmOk(ev.y, ev.m) /\ WdOk(WdCtor(w)), 0, 8)
IvOps == {"ymd_ok", "ym_ok", "ymdl_ok", "year_ok", "day_ok", "month_ok", "md_ok", "mdl_ok", "wdl_ok", "mwd_ok",
          "mwdl_ok", "ymw_ok", "ymwl_ok"}

WdCtorExp(x) == LET c == WdCtor(x) IN <<c, WdIso(c), B(WdOk(c))>>
WdiExp(x) == <<x[1], x[2], B(WdiOk(x[1], x[2]))>>

\* ---- verdict -------------------------------------------------------------------------------------
Judge(i, ev) ==
    CASE ev.op = "sweep_begin" ->
            IF YearOk(ev.ylo) /\ YearOk(ev.yhi) /\ ev.lo = DaysFromCivil(ev.ylo, 1, 1) /\ ev.hi = DaysFromCivil(ev.yhi, 12, 31)
            THEN "ok" ELSE "harness-sweep"
      [] ev.op = "sweep_end" -> IF Continues(i, ev.hi + 1) THEN "ok" ELSE "sweep-coverage"
      [] ev.op = "run" -> IF RunOK(i, ev) THEN "ok" ELSE "civil-run"
      [] ev.op = "day" -> IF DayOK(i, ev) THEN "ok" ELSE "civil-day"
      [] ev.op = "ymw_day" -> IF ev.ret = YmwDayExp(ev.n) /\ ev.back = ev.n THEN "ok" ELSE "ymw-day"
      [] ev.op = "is_leap" -> IF ev.ret = IsLeap(ev.y) THEN "ok" ELSE "is-leap"
      [] ev.op \in IvOps -> IF ev.iv = IvExp(ev) THEN "ok" ELSE "ok-predicate"
      [] ev.op = "consts" -> IF ev.months = <<1, 2, 3, 4, 5, 6, 7, 8, 9, 10, 11, 12>> /\ ev.wds = <<0, 1, 2, 3, 4, 5, 6>>
                             THEN "ok" ELSE "constants"
      [] ev.op = "scalar" -> IF ~ScalarPre(ev) THEN "harness-pre" ELSE IF ScalarOK(ev) THEN "ok" ELSE "arith-" \o ev.t
      [] ev.op = "diff" -> IF ~(ScalarIn(ev.t, ev.x[1]) /\ ScalarIn(ev.t, ev.x[2])) THEN "harness-pre"
                           ELSE IF ev.ret = <<DiffExp(ev)>> THEN "ok" ELSE "diff-" \o ev.t
      [] ev.op = "wd_ctor" -> IF ev.ret = WdCtorExp(ev.x[1]) THEN "ok" ELSE "wd-ctor"
      [] ev.op = "wdi" -> IF ev.ret = WdiExp(ev.x) /\ ev.sub = WdiExp(ev.x) THEN "ok" ELSE "wd-indexed"
      [] ev.op = "comp" -> IF ~CompPre(ev) THEN "harness-pre" ELSE IF CompOK(ev) THEN "ok" ELSE "arith-" \o ev.k
      [] ev.op = "ym_diff" -> IF ev.ret = <<YmDiff(<<ev.x[1], ev.x[2]>>, <<ev.x[3], ev.x[4]>>)>> THEN "ok" ELSE "diff-ym"
      [] OTHER -> "harness-unknown-op"

Expected(ev) ==
    CASE ev.op = "scalar" -> ToJson([ret |-> <<ScalarRet(ev)>>, obj |-> <<ScalarNew(ev)>>])
      [] ev.op = "diff" -> ToJson(<<DiffExp(ev)>>)
      [] ev.op = "comp" -> ToJson(CompExp(ev))
      [] ev.op \in IvOps -> ToJson(IvExp(ev))
      [] ev.op = "day" -> ToJson(CivilFromDays(ev.n) \o <<Weekday(ev.n)>>)
      [] ev.op = "run" -> ToJson(CivilFromDays(ev.n0) \o <<Weekday(ev.n0), LastDay(ev.y, ev.m)>>)
      [] ev.op = "wd_ctor" -> ToJson(WdCtorExp(ev.x[1]))
      [] ev.op = "ymw_day" -> ToJson(YmwDayExp(ev.n))
      [] OTHER -> "-"

Init == l = 1 /\ nbad = 0

Next ==
    /\ l <= Len(Tr)
    /\ l' = l + 1
    /\ LET v == Judge(l, Tr[l]) IN
       IF v = "ok" THEN nbad' = nbad
       ELSE /\ nbad' = nbad + 1
            /\ PrintT(<<"DEV", l, v, Expected(Tr[l])>>)

Spec == Init /\ [][Next]_<<l, nbad>>
Consumed == TLCGet("stats").diameter - 1 = Len(Tr)
==========================================================================
