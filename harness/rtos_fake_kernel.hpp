// Executable FreeRTOS kernel double for the X14 harness (NOT part of tetl, NOT FreeRTOS).
// Include it BEFORE <etl/experimental/freertos/*.hpp> and do NOT define TETL_FREERTOS_USE_STUBS: the etl wrappers then
// bind to these functions.  Semantics = the non-blocking reading of the FreeRTOS API documentation (a task that would
// block simply gets the "timed out" answer; the tick argument is only recorded):
//   queue         bounded FIFO of `length` items of `itemSize` bytes copied by value
//   stream buffer bounded byte FIFO; send writes min(space, n) bytes, receive reads min(available, n) bytes
// Every kernel entry point appends one record {f, h, a, r} to the KERNEL CALL LOG (function, handle id, numeric
// arguments, returned value) so a trace shows exactly how a wrapper called the kernel.
// Robustness (the double must survive a faulty wrapper): handles are looked up in a registry and never freed, unknown /
// deleted / null handles are tolerated (the call is logged and answers 0), one call never copies more than
// io_bound() bytes through a user pointer, logged integers are clamped to +-10^6.
#pragma once

#include <cstddef>
#include <cstdint>
#include <cstring>
#include <deque>
#include <memory>
#include <string>
#include <unordered_map>
#include <vector>

// ---- projdefs.h / portmacro.h ------------------------------------------------------------------------------------
using BaseType_t  = long;
using UBaseType_t = unsigned long;
using TickType_t  = std::uint32_t;
#define pdFALSE        (static_cast<BaseType_t>(0))
#define pdTRUE         (static_cast<BaseType_t>(1))
#define pdPASS         (pdTRUE)
#define pdFAIL         (pdFALSE)
#define errQUEUE_EMPTY (static_cast<BaseType_t>(0))
#define errQUEUE_FULL  (static_cast<BaseType_t>(0))

struct QueueDefinition {
    long id            = 0;
    bool live          = false;
    unsigned long len  = 0; // uxQueueLength
    unsigned long isz  = 0; // uxItemSize
    std::deque<std::vector<unsigned char>> items;
};
using QueueHandle_t = QueueDefinition*;

struct StreamBufferDef_t {
    long id          = 0;
    bool live        = false;
    std::size_t size = 0;
    std::size_t trig = 1;
    std::deque<unsigned char> bytes;
};
using StreamBufferHandle_t = StreamBufferDef_t*;

namespace rtos_fake {
constexpr long WILD = 1000000;

struct KCall {
    char const* f;
    long h;
    std::vector<long> a;
    long r;
};

struct Kernel {
    std::vector<std::unique_ptr<QueueDefinition>> queues;
    std::vector<std::unique_ptr<StreamBufferDef_t>> streams;
    std::unordered_map<void const*, QueueDefinition*> qindex;       // every handle ever handed out (objects are never freed)
    std::unordered_map<void const*, StreamBufferDef_t*> sindex;
    std::vector<QueueDefinition*> qsession;                           // the handles of the current session
    std::vector<StreamBufferDef_t*> ssession;
    std::vector<KCall> log;
    long next_id            = 1;
    bool fail_create        = false; // "insufficient FreeRTOS heap": the next create returns NULL
    std::size_t io_bound    = 0;     // bytes one call may move through a user pointer (memory the harness owns)
    void const* user_base   = nullptr;
    void const* prio_expect = nullptr;
};

inline Kernel& k()
{
    static Kernel kern;
    return kern;
}

inline long clampl(unsigned long long v) { return v > (unsigned long long)WILD ? WILD : (long)v; }
inline long clamps(long long v) { return v > WILD ? WILD : (v < -WILD ? -WILD : (long)v); }

// a new script: handle ids restart at 1, whatever is still alive is forgotten (but never freed)
inline void begin_session()
{
    for (auto* q : k().qsession) { q->live = false; }
    for (auto* s : k().ssession) { s->live = false; }
    k().qsession.clear();
    k().ssession.clear();
    k().next_id     = 1;
    k().fail_create = false;
    k().log.clear();
}
inline void clear_log() { k().log.clear(); }
inline std::vector<KCall> const& log() { return k().log; }
inline void fail_next_create(bool b) { k().fail_create = b; }
inline void set_io_bound(std::size_t n) { k().io_bound = n; }
inline void set_user_base(void const* p) { k().user_base = p; }
inline void set_prio_expect(void const* p) { k().prio_expect = p; }
inline long live_handles()
{
    long n = 0;
    for (auto* q : k().qsession) { n += q->live ? 1 : 0; }
    for (auto* s : k().ssession) { n += s->live ? 1 : 0; }
    return n;
}

inline QueueDefinition* find(QueueHandle_t h)
{
    auto it = k().qindex.find(h);
    return it == k().qindex.end() ? nullptr : it->second;
}
inline StreamBufferDef_t* find(StreamBufferHandle_t h)
{
    auto it = k().sindex.find(h);
    return it == k().sindex.end() ? nullptr : it->second;
}
// 0 = NULL, -1 = not a handle of this kernel, -2 = deleted, else the id handed out in this session
template <class H> inline long id_of(H h)
{
    if (h == nullptr) { return 0; }
    auto* o = find(h);
    if (o == nullptr) { return -1; }
    return o->live ? o->id : -2;
}
template <class H> inline auto usable(H h) -> decltype(find(h))
{
    auto* o = find(h);
    return (o != nullptr && o->live) ? o : nullptr;
}
inline long ptr_off(void const* p)
{
    if (p == nullptr) { return -1; }
    if (k().user_base == nullptr) { return -2; }
    return clamps(static_cast<char const*>(p) - static_cast<char const*>(k().user_base));
}
inline long prio_flag(void const* p) { return p == nullptr ? 0 : (p == k().prio_expect ? 1 : 2); }
inline std::size_t bounded(std::size_t n) { return n < k().io_bound ? n : k().io_bound; }
inline void rec(char const* f, long h, std::vector<long> a, long r) { k().log.push_back(KCall {f, h, std::move(a), r}); }
} // namespace rtos_fake

// ---- queue.h -----------------------------------------------------------------------------------------------------
// xQueueCreate: "uxQueueLength The maximum number of items the queue can hold at any one time. uxItemSize The size, in
// bytes, required to hold each item."  Returns NULL when the memory cannot be allocated.
inline auto xQueueCreate(UBaseType_t uxQueueLength, UBaseType_t uxItemSize) -> QueueHandle_t
{
    using namespace rtos_fake;
    QueueHandle_t h = nullptr;
    if (!k().fail_create) {
        auto q  = std::make_unique<QueueDefinition>();
        q->id   = k().next_id++;
        q->live = true;
        q->len  = uxQueueLength;
        q->isz  = uxItemSize;
        h       = q.get();
        k().qindex[h] = h;
        k().qsession.push_back(h);
        k().queues.push_back(std::move(q));
    }
    k().fail_create = false;
    rec("xQueueCreate", 0, {clampl(uxQueueLength), clampl(uxItemSize)}, h ? h->id : 0);
    return h;
}

inline auto vQueueDelete(QueueHandle_t xQueue) -> void
{
    using namespace rtos_fake;
    long const id = id_of(xQueue);
    if (auto* q = usable(xQueue)) {
        q->live = false;
        q->items.clear();
    }
    rec("vQueueDelete", id, {}, 0);
}

// xQueueSend: the item is queued by copy; pdTRUE if posted, errQUEUE_FULL otherwise (after xTicksToWait, never waited here)
inline auto xQueueSend(QueueHandle_t xQueue, void const* pvItemToQueue, TickType_t xTicksToWait) -> BaseType_t
{
    using namespace rtos_fake;
    long const id = id_of(xQueue);
    BaseType_t r  = errQUEUE_FULL;
    if (auto* q = usable(xQueue)) {
        if (q->items.size() < q->len) {
            std::vector<unsigned char> item(q->isz < 64 ? q->isz : 64, 0);
            if (pvItemToQueue != nullptr) { std::memcpy(item.data(), pvItemToQueue, bounded(item.size())); }
            q->items.push_back(std::move(item));
            r = pdTRUE;
        }
    }
    rec("xQueueSend", id, {clampl(xTicksToWait)}, r);
    return r;
}

// xQueueReceive: the item is received by copy and removed; pdTRUE if received, pdFALSE (errQUEUE_EMPTY) otherwise
inline auto xQueueReceive(QueueHandle_t xQueue, void* pvBuffer, TickType_t xTicksToWait) -> BaseType_t
{
    using namespace rtos_fake;
    long const id = id_of(xQueue);
    BaseType_t r  = errQUEUE_EMPTY;
    if (auto* q = usable(xQueue)) {
        if (!q->items.empty()) {
            auto const& item = q->items.front();
            if (pvBuffer != nullptr) { std::memcpy(pvBuffer, item.data(), bounded(item.size())); }
            q->items.pop_front();
            r = pdTRUE;
        }
    }
    rec("xQueueReceive", id, {clampl(xTicksToWait)}, r);
    return r;
}

// xQueueReset: "Resets a queue to its original empty state."  Always returns pdPASS.
inline auto xQueueReset(QueueHandle_t xQueue) -> BaseType_t
{
    using namespace rtos_fake;
    long const id = id_of(xQueue);
    BaseType_t r  = pdFAIL;
    if (auto* q = usable(xQueue)) {
        q->items.clear();
        r = pdPASS;
    }
    rec("xQueueReset", id, {}, r);
    return r;
}

inline auto uxQueueMessagesWaiting(QueueHandle_t xQueue) -> UBaseType_t
{
    using namespace rtos_fake;
    long const id = id_of(xQueue);
    UBaseType_t r = 0;
    if (auto* q = usable(xQueue)) { r = q->items.size(); }
    rec("uxQueueMessagesWaiting", id, {}, clampl(r));
    return r;
}

// ---- stream_buffer.h ---------------------------------------------------------------------------------------------
// xStreamBufferCreate: "xBufferSizeBytes The total number of bytes the stream buffer will be able to hold at any one
// time. xTriggerLevelBytes ... It is valid to use a trigger level of zero, a trigger level of 1 is then used. It is not
// valid to specify a trigger level that is greater than the buffer size."  NULL if there is not enough heap memory.
[[nodiscard]] inline auto xStreamBufferCreate(std::size_t xBufferSizeBytes, std::size_t xTriggerLevelBytes)
    -> StreamBufferHandle_t
{
    using namespace rtos_fake;
    StreamBufferHandle_t h = nullptr;
    if (!k().fail_create && xTriggerLevelBytes <= xBufferSizeBytes) {
        auto s  = std::make_unique<StreamBufferDef_t>();
        s->id   = k().next_id++;
        s->live = true;
        s->size = xBufferSizeBytes;
        s->trig = xTriggerLevelBytes == 0 ? 1 : xTriggerLevelBytes;
        h       = s.get();
        k().sindex[h] = h;
        k().ssession.push_back(h);
        k().streams.push_back(std::move(s));
    }
    k().fail_create = false;
    rec("xStreamBufferCreate", 0, {clampl(xBufferSizeBytes), clampl(xTriggerLevelBytes)}, h ? h->id : 0);
    return h;
}

inline auto vStreamBufferDelete(StreamBufferHandle_t xStreamBuffer) -> void
{
    using namespace rtos_fake;
    long const id = id_of(xStreamBuffer);
    if (auto* s = usable(xStreamBuffer)) {
        s->live = false;
        s->bytes.clear();
    }
    rec("vStreamBufferDelete", id, {}, 0);
}

namespace rtos_fake {
inline std::size_t sb_send(StreamBufferHandle_t h, void const* data, std::size_t n)
{
    auto* s = usable(h);
    if (s == nullptr) { return 0; }
    std::size_t const space = s->size - s->bytes.size();
    std::size_t const cnt   = n < space ? n : space;
    auto const* p           = static_cast<unsigned char const*>(data);
    for (std::size_t i = 0; i < cnt; ++i) { s->bytes.push_back((p != nullptr && i < k().io_bound) ? p[i] : (unsigned char)0); }
    return cnt;
}
inline std::size_t sb_receive(StreamBufferHandle_t h, void* data, std::size_t n)
{
    auto* s = usable(h);
    if (s == nullptr) { return 0; }
    std::size_t const cnt = n < s->bytes.size() ? n : s->bytes.size();
    auto* p               = static_cast<unsigned char*>(data);
    for (std::size_t i = 0; i < cnt; ++i) {
        if (p != nullptr && i < k().io_bound) { p[i] = s->bytes.front(); }
        s->bytes.pop_front();
    }
    return cnt;
}
} // namespace rtos_fake

// xStreamBufferSend: "Returns the number of bytes written to the stream buffer.  If a task times out before it can write
// all xDataLengthBytes into the buffer it will still write as many bytes as possible."
[[nodiscard]] inline auto
xStreamBufferSend(StreamBufferHandle_t handle, void const* data, std::size_t size, TickType_t ticksToWait) -> std::size_t
{
    using namespace rtos_fake;
    long const id     = id_of(handle);
    std::size_t const r = sb_send(handle, data, size);
    rec("xStreamBufferSend", id, {ptr_off(data), clampl(size), clampl(ticksToWait)}, clampl(r));
    return r;
}

[[nodiscard]] inline auto
xStreamBufferSendFromISR(StreamBufferHandle_t handle, void const* data, std::size_t size, BaseType_t* prio) -> std::size_t
{
    using namespace rtos_fake;
    long const id     = id_of(handle);
    std::size_t const r = sb_send(handle, data, size);
    // *pxHigherPriorityTaskWoken is only ever SET (to pdTRUE) when a task is unblocked: there is no other task here
    rec("xStreamBufferSendFromISR", id, {ptr_off(data), clampl(size), prio_flag(prio)}, clampl(r));
    return r;
}

// xStreamBufferReceive: "Returns the number of bytes read from the stream buffer" - whatever is available up to the size
[[nodiscard]] inline auto
xStreamBufferReceive(StreamBufferHandle_t handle, void* data, std::size_t size, TickType_t ticks) -> std::size_t
{
    using namespace rtos_fake;
    long const id     = id_of(handle);
    std::size_t const r = sb_receive(handle, data, size);
    rec("xStreamBufferReceive", id, {ptr_off(data), clampl(size), clampl(ticks)}, clampl(r));
    return r;
}

[[nodiscard]] inline auto
xStreamBufferReceiveFromISR(StreamBufferHandle_t handle, void* data, std::size_t size, BaseType_t* prio) -> std::size_t
{
    using namespace rtos_fake;
    long const id     = id_of(handle);
    std::size_t const r = sb_receive(handle, data, size);
    rec("xStreamBufferReceiveFromISR", id, {ptr_off(data), clampl(size), prio_flag(prio)}, clampl(r));
    return r;
}

[[nodiscard]] inline auto xStreamBufferBytesAvailable(StreamBufferHandle_t handle) -> std::size_t
{
    using namespace rtos_fake;
    long const id = id_of(handle);
    std::size_t r = 0;
    if (auto* s = usable(handle)) { r = s->bytes.size(); }
    rec("xStreamBufferBytesAvailable", id, {}, clampl(r));
    return r;
}

[[nodiscard]] inline auto xStreamBufferSpacesAvailable(StreamBufferHandle_t handle) -> std::size_t
{
    using namespace rtos_fake;
    long const id = id_of(handle);
    std::size_t r = 0;
    if (auto* s = usable(handle)) { r = s->size - s->bytes.size(); }
    rec("xStreamBufferSpacesAvailable", id, {}, clampl(r));
    return r;
}

// xStreamBufferSetTriggerLevel: "pdTRUE if xTriggerLevel was less than or equal to the stream buffer's length then the
// trigger level will be updated and pdTRUE is returned. Otherwise pdFALSE is returned."  (0 is stored as 1.)
inline auto xStreamBufferSetTriggerLevel(StreamBufferHandle_t handle, std::size_t triggerLevel) -> BaseType_t
{
    using namespace rtos_fake;
    long const id = id_of(handle);
    BaseType_t r  = pdFALSE;
    if (auto* s = usable(handle)) {
        std::size_t const lvl = triggerLevel == 0 ? 1 : triggerLevel;
        if (lvl <= s->size) {
            s->trig = lvl;
            r       = pdTRUE;
        }
    }
    rec("xStreamBufferSetTriggerLevel", id, {clampl(triggerLevel)}, r);
    return r;
}

// xStreamBufferReset: "Resets a stream buffer to its initial, empty, state ... pdPASS if reset" (no task is ever blocked here)
inline auto xStreamBufferReset(StreamBufferHandle_t handle) -> BaseType_t
{
    using namespace rtos_fake;
    long const id = id_of(handle);
    BaseType_t r  = pdFAIL;
    if (auto* s = usable(handle)) {
        s->bytes.clear();
        r = pdPASS;
    }
    rec("xStreamBufferReset", id, {}, r);
    return r;
}

[[nodiscard]] inline auto xStreamBufferIsEmpty(StreamBufferHandle_t handle) -> BaseType_t
{
    using namespace rtos_fake;
    long const id = id_of(handle);
    BaseType_t r  = pdFALSE;
    if (auto* s = usable(handle)) { r = s->bytes.empty() ? pdTRUE : pdFALSE; }
    rec("xStreamBufferIsEmpty", id, {}, r);
    return r;
}

[[nodiscard]] inline auto xStreamBufferIsFull(StreamBufferHandle_t handle) -> BaseType_t
{
    using namespace rtos_fake;
    long const id = id_of(handle);
    BaseType_t r  = pdFALSE;
    if (auto* s = usable(handle)) { r = s->bytes.size() >= s->size ? pdTRUE : pdFALSE; }
    rec("xStreamBufferIsFull", id, {}, r);
    return r;
}
