"""C13 - compile-time evaluation and run-time execution give the same answer."""
from pipes import modes


def run(tier, rep):
    modes.pipeline(tier, rep)
    # "wrong": all modes agree, but on a value that differs from the exact definition.  The statement of C13 is about
    # agreement and constant-evaluability only; such results are the business of C16 / C18 / C14 and are kept as a note.
    # Exception: the byte-typed algorithm / container kernels (family "bytes") - there the definition is the element-wise
    # order the constant evaluation necessarily implements, so a wrong value is a run-time fast path gone astray.
    wrong = [d for d in rep.devs if d["kind"] == "wrong" and d.get("ev", {}).get("fam") != "bytes"]
    rep.devs = [d for d in rep.devs if not (d["kind"] == "wrong" and d.get("ev", {}).get("fam") != "bytes")]
    if wrong:
        by = {}
        for d in wrong:
            k = d.get("ev", {}).get("op", "?")
            by[k] = by.get(k, 0) + 1
        rep.notes.append({"agreeing_but_not_the_defined_value (see C16/C18)": dict(sorted(by.items()))})
    rep.assumptions += [
        "constant evaluation is that of g++ (the suite compiler); a call that initialises a constexpr object is evaluated by the compiler, "
        "a call through a volatile-laundered table index is evaluated at run time (-O0 and -O2)",
        "all 8-bit inputs for the unary bit utilities and character functions; boundary tables (zeros, +-0.0, denormals, +-inf, NaN, "
        "2^k +- 1, k + 1/2, limits) elsewhere; containers/algorithms as seeded kernels built inside constexpr functions",
        "a rejected constant evaluation counts only inside the documented domain (float calls with a NaN argument and lrint "
        "family calls out of range are exempt)",
        "floating-point results are compared as values (any NaN equals any NaN)",
    ]

