"""C01 - fixed-capacity vectors behave exactly like std::vector within capacity."""
from pipes import vector


def run(tier, rep):
    tv, st = vector.pipeline(tier, rep)
    # life-* deviations are the business of C03 (same traces, different monitor)
    # ... and default-initialisation into dirty storage / allocation monitoring the business of C02
    rep.devs = [d for d in rep.devs if not d["kind"].startswith("life") and not d["kind"].startswith("mem")
                and d.get("ev", {}).get("op") != "ctor_dinit"]
    rep.assumptions += ["element values are small integers; Tracked element type stands for every non-trivial T",
                        "capacities above 4 are reached by seeded random histories only",
                        "the TLA+ reading of std::vector is calibrated against libstdc++ on the same scripts"]
