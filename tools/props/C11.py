"""C11 - calendar conversions are a Gregorian bijection over the whole year range."""
from pipes import calendar


import os


def run(tier, rep):
    selftest = os.environ.get("VERIF_SELFTEST") == "1"     # mutation self-test: etl side only
    calendar.pipeline(tier, rep, calibrate=not selftest, walk=not selftest)
    if selftest:
        rep.notes.append("VERIF_SELFTEST=1: calibration and walker model checking skipped")
    rep.assumptions += [
        "day 0 = 1970-01-01 is a Thursday and the civil successor with the Gregorian leap rule define the calendar; "
        "the closed forms used by the judge are proved equal to that walker by TLC on the eras listed in the evidence",
        "quick tier sweeps years -800..800, both ends of the year range and three years around every 400-year era start; "
        "the thorough tier sweeps every sys_days of years -32767..32767",
        "arithmetic is driven on results that stay inside years -32767..32767 (outside, the standard leaves the value unspecified)",
        "the TLA+ reading of std::chrono is calibrated against libstdc++ on the identical inputs (zero deviations required)",
    ]
