------------------------------- MODULE Wide -------------------------------
(* Natural numbers beyond TLC's 32-bit integers: little-endian sequences of limbs base 2^15         *)
(* (limb products stay below 2^31).  Canonical form: no most-significant zero limb; zero is <<>>.    *)
(* A signed number is [neg |-> BOOLEAN, m |-> limbs] with neg = FALSE for zero.                      *)
(* Only what the integer<->text conversions need: multiply-by-small-and-add, divmod-by-small,        *)
(* comparison, subtraction, powers of two.                                                            *)
EXTENDS Integers, Sequences, FiniteSets

B15 == 32768

IsNat(m) == /\ \A i \in 1..Len(m) : m[i] \in 0..(B15 - 1)
            /\ (Len(m) > 0 => m[Len(m)] # 0)

\* drop most-significant zero limbs
RECURSIVE Trim(_)
Trim(m) == IF m = <<>> THEN <<>> ELSE IF m[Len(m)] = 0 THEN Trim(SubSeq(m, 1, Len(m) - 1)) ELSE m

\* small native integer (0 <= n < 2^31) as limbs
NatOfInt(n) == Trim(<<n % B15, (n \div B15) % B15, n \div (B15 * B15)>>)
\* limbs (at most two, or three with a small top limb) back to a native integer
IntOfNat(m) == IF Len(m) = 0 THEN 0
               ELSE IF Len(m) = 1 THEN m[1]
               ELSE IF Len(m) = 2 THEN m[1] + B15 * m[2]
               ELSE m[1] + B15 * m[2] + B15 * B15 * m[3]
FitsInt(m) == Len(m) <= 2 \/ (Len(m) = 3 /\ m[3] <= 1)

\* m * k + c   for 1 <= k < 2^15, 0 <= c < 2^15
RECURSIVE MulAdd(_, _, _)
MulAdd(m, k, c) ==
    IF m = <<>> THEN (IF c = 0 THEN <<>> ELSE <<c>>)
    ELSE LET t == Head(m) * k + c IN <<t % B15>> \o MulAdd(Tail(m), k, t \div B15)

\* m divided by k (1 <= k < 2^15): [q, r]; limbs are consumed from the most significant one
RECURSIVE DivAcc(_, _, _, _)
DivAcc(m, k, i, r) ==
    IF i = 0 THEN [q |-> <<>>, r |-> r]
    ELSE LET cur == r * B15 + m[i]
             rest == DivAcc(m, k, i - 1, cur % k)
         IN [q |-> Append(rest.q, cur \div k), r |-> rest.r]
DivMod(m, k) == LET d == DivAcc(m, k, Len(m), 0) IN [q |-> Trim(d.q), r |-> d.r]

\* comparison
NatLess(a, b) ==
    IF Len(a) # Len(b) THEN Len(a) < Len(b)
    ELSE LET D == {i \in 1..Len(a) : a[i] # b[i]} IN
         D # {} /\ LET t == CHOOSE i \in D : \A j \in D : j <= i IN a[t] < b[t]
NatLE(a, b) == a = b \/ NatLess(a, b)

\* a - b for a >= b
RECURSIVE SubAcc(_, _, _, _)
SubAcc(a, b, i, borrow) ==
    IF i > Len(a) THEN <<>>
    ELSE LET bi == IF i <= Len(b) THEN b[i] ELSE 0
             t == a[i] - bi - borrow
         IN <<IF t < 0 THEN t + B15 ELSE t>> \o SubAcc(a, b, i + 1, IF t < 0 THEN 1 ELSE 0)
NatSub(a, b) == Trim(SubAcc(a, b, 1, 0))

\* 2^k and 2^k - 1
Pow2(k) == [i \in 1..(k \div 15 + 1) |-> IF i = k \div 15 + 1 THEN 2 ^ (k % 15) ELSE 0]
Pow2m1(k) == Trim([i \in 1..(k \div 15 + 1) |-> IF i = k \div 15 + 1 THEN 2 ^ (k % 15) - 1 ELSE B15 - 1])

\* positional notation: digits most significant first
RECURSIVE DigitsLE(_, _)
DigitsLE(m, b) == IF m = <<>> THEN <<>> ELSE LET d == DivMod(m, b) IN <<d.r>> \o DigitsLE(d.q, b)
Reverse(s) == [i \in 1..Len(s) |-> s[Len(s) - i + 1]]
Digits(m, b) == Reverse(DigitsLE(m, b))

RECURSIVE ValAcc(_, _, _, _)
ValAcc(ds, b, i, acc) == IF i > Len(ds) THEN acc ELSE ValAcc(ds, b, i + 1, MulAdd(acc, b, ds[i]))
Value(ds, b) == ValAcc(ds, b, 1, <<>>)

\* signed numbers
Num(neg, m) == [neg |-> neg /\ m # <<>>, m |-> m]
NumOfInt(n) == IF n < 0 THEN Num(TRUE, NatOfInt(-n)) ELSE Num(FALSE, NatOfInt(n))
IsNum(v) == IsNat(v.m) /\ (v.m = <<>> => ~v.neg)
===========================================================================
