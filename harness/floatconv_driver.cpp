// C02: character -> floating point conversion on exact-size heap buffers (views WITHOUT terminator for the
// string_view API, exactly len+1 bytes for the C-string API). Each call runs in a forked child so that a sanitizer
// stop becomes outcome "trap". No oracle: spec/FloatConvTrace.tla (FloatConvOps!FcJudge) decides.
#include "common.hpp"

#include <etl/cstdlib.hpp>
#include <etl/string.hpp>
#include <etl/string_view.hpp>
#include <etl/strings.hpp>

#include <sys/wait.h>
#include <unistd.h>

using vh::json;

namespace {
struct Out {
    long end;
    int err;
};

Out call(std::string const& api, std::vector<int> const& text)
{
    size_t n = text.size();
    if (api == "to_fp_view_d" || api == "to_fp_view_f") {
        char* buf = new char[n ? n : 1];                      // exact size, no terminator
        for (size_t i = 0; i < n; ++i) { buf[i] = (char)text[i]; }
        Out o{};
        if (api == "to_fp_view_d") {
            auto r = etl::strings::to_floating_point<double>(etl::string_view(buf, n));
            o      = {r.end ? (long)(r.end - buf) : -1, r.error == etl::strings::to_floating_point_error::none ? 0 : 1};
        } else {
            auto r = etl::strings::to_floating_point<float>(etl::string_view(buf, n));
            o      = {r.end ? (long)(r.end - buf) : -1, r.error == etl::strings::to_floating_point_error::none ? 0 : 1};
        }
        delete[] buf;
        return o;
    }
    char* buf = new char[n + 1];                              // C string: exactly len + 1 bytes
    for (size_t i = 0; i < n; ++i) { buf[i] = (char)text[i]; }
    buf[n]           = 0;
    char const* last = nullptr;
    volatile double sink = 0;
    Out o{};
    if (api == "strtod") { sink = etl::strtod(buf, &last); }
    else if (api == "strtof") { sink = etl::strtof(buf, &last); }
    else if (api == "strtold") { sink = (double)etl::strtold(buf, &last); }
    else if (api == "atof") { sink = etl::atof(buf); last = buf; }
    else if (api == "stod") {
        etl::inplace_string<8> s(buf, n);
        size_t pos = 0;
        sink       = etl::stod(s, &pos);
        last       = buf + pos;
    }
    (void)sink;
    o = {last ? (long)(last - buf) : -1, 0};
    delete[] buf;
    return o;
}
} // namespace

int main(int argc, char** argv)
{
    if (argc < 2) { return 2; }
    static char const* const apis[] = {"to_fp_view_d", "to_fp_view_f", "strtod", "strtof", "strtold", "atof", "stod"};
    size_t const napi = sizeof apis / sizeof apis[0];
    auto inputs       = vh::read_ndjson(argv[1]);
    std::vector<std::vector<int>> texts;
    for (auto const& in : inputs) {
        std::vector<int> t;
        for (auto const& c : in["text"]) { t.push_back(c.get<int>()); }
        texts.push_back(t);
    }
    auto emit_ev = [&](size_t ti, size_t ai, json const* j, int st) {
        json ev;
        ev["op"] = apis[ai]; ev["api"] = apis[ai]; ev["inst"] = apis[ai];
        ev["text"] = inputs[ti]["text"];
        ev["len"]  = (long)texts[ti].size();
        if (j != nullptr) { ev["outcome"] = "returned"; ev["end"] = (*j)["end"]; ev["err"] = (*j)["err"]; }
        else { ev["outcome"] = "trap"; ev["end"] = 0; ev["err"] = 0; ev["status"] = st; }
        vh::emit(ev);
    };
    // One child works through all (text, api) calls from position `next` on and reports each result as soon as it
    // has it. If the child dies (sanitizer stop, signal) the call in flight is a trap and a new child resumes after it.
    size_t const total = texts.size() * napi;
    size_t next        = 0;
    long forks         = 0;
    while (next < total) {
        int fds[2];
        if (::pipe(fds) != 0) { return 2; }
        std::cout.flush();
        pid_t pid = ::fork();
        ++forks;
        if (pid == 0) {
            ::close(fds[0]);
            for (size_t k = next; k < total; ++k) {
                Out o         = call(apis[k % napi], texts[k / napi]);
                std::string s = json{{"end", o.end}, {"err", o.err}}.dump() + "\n";
                (void)!::write(fds[1], s.data(), s.size());
            }
            vh_exit(0);
        }
        ::close(fds[1]);
        std::FILE* f = ::fdopen(fds[0], "r");
        char line[256];
        while (f != nullptr && std::fgets(line, sizeof line, f) != nullptr) {
            json j = json::parse(line, nullptr, false);
            if (!j.is_object()) { break; }
            emit_ev(next / napi, next % napi, &j, 0);
            ++next;
        }
        if (f != nullptr) { std::fclose(f); }
        int st = 0;
        ::waitpid(pid, &st, 0);
        if (next < total) {
            emit_ev(next / napi, next % napi, nullptr, st);
            ++next;
        }
        if (forks > 20000) { return 2; }
    }
    std::fprintf(stderr, "SUMMARY floatconv calls=%zu forks=%ld\n", total, forks);
    return 0;
}
