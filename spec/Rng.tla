-------------------------------- MODULE Rng --------------------------------
(* Law checker and input exporter for the random number engines (extension X11).                          *)
(* MC role - TLC proves, exhaustively inside the stated widths:                                            *)
(*   mode "orbit": the 16-bit xorshift (7,9,8) AT ITS TRUE WIDTH: the orbit of 1 closes after exactly 65535   *)
(*                 steps (full period: the update permutes the non-zero states in ONE cycle, 0 is fixed),   *)
(*                 XorShiftInv is its inverse, no non-zero state maps to 0                                  *)
(*   mode "w16"  : every 16-bit word: integer form = bit form, explicit inverse, linearity on unit vectors       *)
(*   mode "xs"   : 8-bit xorshift for several triples: the update is a bijection (explicit inverse both      *)
(*                 ways), fixes exactly 0, and is linear over GF(2): f(x ^ y) = f(x) ^ f(y) for all pairs    *)
(*   mode "xo"   : xoshiro with 4-bit words (all 65536 states) for several (shift, rotation): XoPrev is the   *)
(*                 inverse both ways, only 0 maps to 0, f(s ^ e) = f(s) ^ f(e) for every state s and every    *)
(*                 unit vector e (=> f is linear), and limb arithmetic = bit arithmetic for the scramblers    *)
(*   ASSUME      : the 32/64-bit definitions reproduce the worked examples of Marsaglia's paper                *)
(* GEN role - exports (a) every state of the 16-bit orbit and (b) the seeds for the wide engines: boundary      *)
(*   words and the pre-images (computed with the inverse) of the outputs all-ones and 1.                        *)
EXTENDS RngOps, TLC, Json, Bitwise

CONSTANTS Modes,       \* which parts this TLC run covers (the pipeline runs them as concurrent TLC instances)
          Full         \* TRUE (thorough tier): more parameter sets, 16-bit linearity on every word instead of every 4th

\* triples checked on 8 bits / (shift, rotation) pairs checked on 4-bit words
XsTriples == IF Full THEN {<<7, 1, 2>>, <<3, 5, 4>>, <<1, 1, 1>>, <<5, 3, 1>>, <<2, 7, 7>>} ELSE {<<3, 5, 4>>, <<7, 1, 2>>}
XoParams == IF Full THEN {<<1, 3>>, <<3, 1>>, <<2, 2>>} ELSE {<<1, 3>>}

VARIABLES mode, a, b,
          tab      \* per-mode lookup table, computed once in Init (TLC re-evaluates constant definitions on every use)
vars == <<mode, a, b, tab>>
Unset == -1

Nat2Bits(x, w) == [i \in 1..w |-> (x \div 2^(i - 1)) % 2]
Bits2Nat(bs) == LimbVal(bs, 1, Len(bs))

XS16(x) == Bits2Nat(XorShift(Nat2Bits(x, 16), 7, 9, 8))
\* the same update on TLC integers (Bitwise module): used to walk the 65535-step orbit quickly; mode "w16" proves
\* XS16i = XS16 on every 16-bit word
XS16i(x) == LET x1 == x ^^ ((x * 128) % 65536)
                x2 == x1 ^^ (x1 \div 512)
            IN x2 ^^ ((x2 * 256) % 65536)

\* ---- seeds for the wide engines --------------------------------------------------------------------------------
W(eng) == 16 * WordLimbs(eng)
Pattern(w, p) == [i \in 1..w |-> IF p = "ones" THEN 1
                                 ELSE IF p = "top" THEN (IF i = w THEN 1 ELSE 0)
                                 ELSE IF p = "alt5" THEN i % 2             \* 0x5555...
                                 ELSE IF p = "altA" THEN (i + 1) % 2       \* 0xAAAA...
                                 ELSE IF p = "low" THEN (IF i = 1 THEN 1 ELSE 0)
                                 ELSE IF p = "two" THEN (IF i = 2 THEN 1 ELSE 0)
                                 ELSE IF p = "def" THEN (IF i <= 14 THEN (DefaultSeed \div 2^(i - 1)) % 2 ELSE 0)   \* 5489 < 2^13
                                 ELSE 0]
Patterns == {"zero", "low", "two", "ones", "top", "alt5", "altA", "def"}
Inv(eng, y) == LET t == Triple(eng) IN XorShiftInv(y, t[1], t[2], t[3])
SeedSet(eng) ==
    {LimbsOfBits(Pattern(W(eng), p), 16) : p \in Patterns}
    \cup (IF eng \in XsEngines
          THEN LET ones == Pattern(W(eng), "ones") one == Pattern(W(eng), "low") IN
               {LimbsOfBits(Inv(eng, ones), 16), LimbsOfBits(Inv(eng, Inv(eng, ones)), 16), LimbsOfBits(Inv(eng, one), 16)}
          ELSE {})
WideEngines == {"xs32", "xs64", "xop", "xopp", "xoss"}
P32(p) == LimbsOfBits(Pattern(32, p), 16)
XoStates == {P32("ones") \o P32("ones") \o P32("ones") \o P32("ones"),
             P32("alt5") \o P32("zero") \o P32("alt5") \o P32("altA"),
             P32("low") \o P32("two") \o P32("top") \o P32("ones"),
             P32("zero") \o P32("zero") \o P32("zero") \o P32("top"),
             P32("ones") \o P32("low") \o P32("top") \o P32("alt5"),
             P32("def") \o P32("zero") \o P32("def") \o P32("zero")}

\* ---- laws ------------------------------------------------------------------------------------------------------
OrbitLaws ==
    /\ a # 0
    /\ (XS16i(a) = 1 => b = 65534)                         \* the orbit of 1 closes after exactly 2^16 - 1 steps
    /\ b <= 65534

Unit16(k) == [i \in 1..16 |-> IF i = k THEN 1 ELSE 0]
Img16 == [k \in 1..16 |-> XorShift(Unit16(k), 7, 9, 8)]             \* the columns of the 16 x 16 matrix of the update
RECURSIVE XorImages(_, _, _, _)
XorImages(x, img, k, acc) == IF k > Len(x) THEN acc
                             ELSE XorImages(x, img, k + 1, IF x[k] = 1 THEN XorB(acc, img[k]) ELSE acc)
W16Laws ==
    b = Unset \/
    LET v == 256 * a + b x == Nat2Bits(v, 16) y == XorShift(x, 7, 9, 8) IN
    /\ Bits2Nat(y) = XS16i(v)                              \* integer form = bit-sequence form
    /\ XorShiftInv(y, 7, 9, 8) = x /\ XorShift(XorShiftInv(x, 7, 9, 8), 7, 9, 8) = x
    /\ (Bits2Nat(y) = 0) = (v = 0)
    \* linear over GF(2): the image of x is the XOR of the images of the unit vectors of its set bits
    /\ y = XorImages(x, tab, 1, Zero(16))
    /\ (Full \/ (a + b) % 16 = 0 =>
          \A k \in 1..16 : XorShift(XorB(x, Unit16(k)), 7, 9, 8) = XorB(y, tab[k]))
    /\ (b % 64 = 0 => \A k \in 1..15 : UnShl(x, k) = UnShlDecl(x, k) /\ UnShr(x, k) = UnShrDecl(x, k))

\* value table of the 8-bit update per triple (computed once), as integers
XsTab == [t \in XsTriples |-> [x \in 0..255 |-> Bits2Nat(XorShift(Nat2Bits(x, 8), t[1], t[2], t[3]))]]
XsLaws ==
    \A t \in XsTriples :
       IF b = Unset
       THEN LET x == Nat2Bits(a, 8) fx == XorShift(x, t[1], t[2], t[3]) IN
            /\ XorShiftInv(fx, t[1], t[2], t[3]) = x
            /\ XorShift(XorShiftInv(x, t[1], t[2], t[3]), t[1], t[2], t[3]) = x
            /\ (fx = Zero(8)) = (a = 0)
            /\ UnShl(XorB(x, Shl(x, t[1])), t[1]) = x /\ UnShr(XorB(x, Shr(x, t[2])), t[2]) = x
            /\ Cardinality({tab[t][v] : v \in 0..255}) = 256                 \* a permutation of the 256 words
       ELSE \* f(x ^ y) = f(x) ^ f(y) for every pair
            /\ tab[t][a ^^ b] = tab[t][a] ^^ tab[t][b]
            /\ Nat2Bits(a ^^ b, 8) = XorB(Nat2Bits(a, 8), Nat2Bits(b, 8))      \* integer xor = bitwise xor of the words

XoState == <<Nat2Bits(a % 16, 4), Nat2Bits(a \div 16, 4), Nat2Bits(b % 16, 4), Nat2Bits(b \div 16, 4)>>
Unit(k) == [j \in 1..4 |-> [i \in 1..4 |-> IF 4 * (j - 1) + i = k THEN 1 ELSE 0]]
XoImg == [p \in XoParams |-> [k \in 1..16 |-> XoNext(Unit(k), p[1], p[2])]]
RECURSIVE XoXorImages(_, _, _, _)
XoXorImages(x, img, k, acc) == IF k > Len(x) THEN acc
                               ELSE XoXorImages(x, img, k + 1, IF x[k] = 1 THEN XoXor(acc, img[k]) ELSE acc)
XoScramblerLaws(s) ==
    \* scramblers: limb arithmetic (base 4, two limbs) = bit arithmetic; "+" is commutative; rotation is a permutation
    /\ AddW(s[1], s[4], 2) = AddB(s[1], s[4]) /\ AddW(s[1], s[4], 2) = AddW(s[4], s[1], 2)
    /\ Bits2Nat(AddB(s[1], s[4])) = (Bits2Nat(s[1]) + Bits2Nat(s[4])) % 16
    /\ \A m \in {5, 9} : MulW(s[2], m, 2) = MulB(s[2], m) /\ Bits2Nat(MulB(s[2], m)) = (Bits2Nat(s[2]) * m) % 16
    /\ OutPlus(s, 2) = AddB(s[1], s[4])
    /\ OutPlusPlus(s, 3, 2) = AddB(RotL(AddB(s[1], s[4]), 3), s[1])
    /\ OutStarStar(s, 3, 2) = MulB(RotL(MulB(s[2], 5), 3), 9)
XoLaws ==
    b = Unset \/
    LET s == XoState IN
    /\ \A p \in XoParams :
          LET f == XoNext(s, p[1], p[2]) IN
          /\ XoPrev(f, p[1], p[2]) = s /\ XoNext(XoPrev(s, p[1], p[2]), p[1], p[2]) = s
          /\ (f = XoZero(4)) = (s = XoZero(4))
          \* linear over GF(2): f(s) is the XOR of the images of the unit vectors of the set bits of s, and
          \* (spot check of the additive form on every 16th state) f(s ^ e) = f(s) ^ f(e)
          /\ f = XoXorImages(s[1] \o s[2] \o s[3] \o s[4], tab[p], 1, XoZero(4))
          /\ (Full \/ (a + b) % 16 = 0 => \A k \in 1..16 : XoNext(XoXor(s, Unit(k)), p[1], p[2]) = XoXor(f, tab[p][k]))
    /\ (b % 16 = 0 => XoScramblerLaws(s))           \* they do not read s2: once per (s0, s1, s3)
    /\ \A r \in 0..4 : RotL(RotL(s[3], r), 4 - r) = s[3]
    \* words <-> limbs round trip, 8-bit word of two base-16 limbs
    /\ LET x8 == s[1] \o s[2] IN BitsOfLimbs(LimbsOfBits(x8, 4), 4) = x8 /\ LimbsOK(LimbsOfBits(x8, 4), 2, 4)
    /\ LeLimbs(LimbsOfBits(s[1] \o s[2], 4), LimbsOfBits(s[3] \o s[4], 4)) = (a <= b)

Laws == CASE mode = "orbit" -> OrbitLaws
          [] mode = "w16"   -> W16Laws
          [] mode = "xs"    -> XsLaws
          [] mode = "xo"    -> XoLaws
          [] OTHER          -> TRUE

InitM ==
        \/ mode = "orbit" /\ a = 1 /\ b = 0                                   \* a = state, b = steps taken
        \/ mode = "w16" /\ a \in 0..255 /\ b = Unset
        \/ mode = "xs" /\ a \in 0..255 /\ b = Unset
        \/ mode = "xo" /\ a \in 0..255 /\ b = Unset
        \/ mode = "seeds" /\ a \in {1} /\ b = Unset

Init == /\ mode \in Modes /\ InitM
        /\ tab = CASE mode = "w16" -> Img16 [] mode = "xs" -> XsTab [] mode = "xo" -> XoImg [] OTHER -> << >>

Next == \/ mode = "orbit" /\ XS16i(a) # 1 /\ a' = XS16i(a) /\ b' = b + 1 /\ UNCHANGED <<mode, tab>>
        \/ mode \in {"w16", "xs", "xo"} /\ b = Unset /\ b' \in 0..255 /\ UNCHANGED <<mode, a, tab>>

Spec == Init /\ [][Next]_vars

\* worked examples of the paper (Marsaglia 2003, section 4: xor32 with y = 2463534242, xor64 with x = 88172645463325252)
ASSUME KnownAnswers ==
    /\ StepE("xs32", <<36002, 37590>>).out = <<19811, 11039>>                               \* 723471715
    /\ StepE("xs64", <<31300, 52159, 16525, 313>>).out = <<5552, 64478, 2421, 31081>>       \* 8748534153485358512
    /\ \A e \in {"xs32", "xs64"} : LET t == Triple(e) IN
          /\ StepE(e, LimbsOfBits(Inv(e, AllOnes(W(e))), 16)).out = LimbsOfBits(AllOnes(W(e)), 16)
          /\ XorShift(Inv(e, Pattern(W(e), "def")), t[1], t[2], t[3]) = Pattern(W(e), "def")

\* ---- GEN ---------------------------------------------------------------------------------------------------------
EmitInv ==
    CASE mode = "orbit" -> PrintT(<<"GEN", ToJson([m |-> "xs16", seed |-> <<a>>])>>)
      [] mode = "seeds" -> /\ \A e \in WideEngines : \A sd \in SeedSet(e) : PrintT(<<"GEN", ToJson([m |-> e, seed |-> sd])>>)
                           \* whole xoshiro states (the driver writes them into the engine's object representation; the
                           \* constructor only reaches {seed,0,0,0}): every word at a boundary, a state whose next two "**"
                           \* outputs are 0 (s1 = 0 and s0 = s2), a state whose next "+" output is 0 (s3 = -s0 = all-ones, s0 = 1)
                           /\ \A st \in XoStates : PrintT(<<"GEN", ToJson([m |-> "state", seed |-> st])>>)
                           \* closed ranges [lo, lo + width] for uniform_int_distribution (precondition a <= b: width >= 0)
                           /\ \A lo \in (-2)..2 : \A width \in 0..7 :
                                 PrintT(<<"GEN", ToJson([m |-> "uid", a |-> lo, b |-> lo + width])>>)
      [] OTHER -> TRUE
=============================================================================
