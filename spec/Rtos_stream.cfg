SPECIFICATION Spec
CONSTANTS
  Kind = "stream"
  Caps = {1, 2, 3, 4}
  ItemSizes = {1}
  Vals = {0, 1}
  Ticks = {0, 5}
  MaxWrite = 3
  MaxRead = 4
  MaxHist = 5
VIEW View0
ACTION_CONSTRAINT Emit
INVARIANTS TypeOK Bounded Fifo Laws
CHECK_DEADLOCK FALSE
