------------------------- MODULE DynArrayTrace -------------------------
(* Trace validation for dynamic_array: each event [op, o, x, pre, post, live, blocks, badfree, obs] is judged from  *)
(* its own logged pre-state: contents of the target, the other object untouched (or, as a move source, valid), the   *)
(* resource law on the observed post-state, agreement of all observers.                                             *)
EXTENDS DynArrayOps, Json, IOUtils, TLC

Tr == ndJsonDeserialize(IOEnv.TRACE)
VARIABLES l, nbad, dirty

ObsOK(q, obj) ==
    ~obj.live \/ (q.size = Len(obj.els) /\ q.ksize = Len(obj.els) /\ q.kfwd = obj.els /\ q.data = obj.els /\ q.kdata = obj.els)

Judge(ev) ==
    IF ev.op = "reset" THEN <<>>
    ELSE IF ~Pre(ev.op, ev.o, ev.x, ev.pre) THEN <<"harness-pre">>
    ELSE (IF PostOK(ev.op, ev.o, ev.x, ev.pre, ev.post) THEN <<>> ELSE <<"post">>)
         \o (IF ev.live = LiveElems(ev.post) THEN <<>> ELSE <<"res-elements">>)       \* orphaned / doubly destroyed elements
         \o (IF ev.blocks = Blocks(ev.post) THEN <<>> ELSE <<"res-storage">>)         \* leaked / lost storage
         \o (IF ev.badfree = 0 THEN <<>> ELSE <<"res-badfree">>)                      \* deallocate of a foreign block / wrong size
         \o (IF ObsOK(ev.obs.a, ev.post.a) /\ ObsOK(ev.obs.b, ev.post.b) THEN <<>> ELSE <<"obs">>)

Expected(ev, v) ==
    IF v = "post" THEN ToJson(Tgt(ev.op, ev.o, ev.x, ev.pre))
    ELSE IF v = "res-elements" THEN ToJson(LiveElems(ev.post))
    ELSE IF v = "res-storage" THEN ToJson(Blocks(ev.post)) ELSE "-"

\* the counters of the harness are cumulative per script: after the first deviation of a script ({"op":"reset"} starts
\* one) its remaining events are passed over
Init == l = 1 /\ nbad = 0 /\ dirty = FALSE
Next ==
    /\ l <= Len(Tr)
    /\ l' = l + 1
    /\ IF Tr[l].op = "reset" THEN nbad' = nbad /\ dirty' = FALSE
       ELSE IF dirty THEN UNCHANGED <<nbad, dirty>>
       \* the process died inside a call of this script (tools/vlib.py turns the death into a trap event)
       ELSE IF Tr[l].op = "trap" THEN nbad' = nbad + 1 /\ dirty' = TRUE /\ PrintT(<<"DEV", l, "crash", "-">>)
       ELSE LET vs == Judge(Tr[l]) IN
            /\ nbad' = nbad + Len(vs)
            /\ dirty' = (Len(vs) > 0)
            /\ \A j \in 1..Len(vs) : PrintT(<<"DEV", l, vs[j], Expected(Tr[l], vs[j])>>)
Spec == Init /\ [][Next]_<<l, nbad, dirty>>
Consumed == TLCGet("stats").diameter - 1 = Len(Tr)
=========================================================================
