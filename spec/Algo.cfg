SPECIFICATION Spec
CONSTANTS
  MaxLen = 5
  MaxLen2 = 3
  MaxPair = 3
  MaxA2 = 4
  ExportLen = 5
INVARIANT Inv
CHECK_DEADLOCK FALSE
