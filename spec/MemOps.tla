----------------------------- MODULE MemOps -----------------------------
(* Exact semantics of the low-level memory helpers, constant-free, on INTEGER addresses.                     *)
(* All addresses are byte offsets from a base the harness guarantees to be a multiple of 128 (it logs       *)
(* base % 128, the validator insists on 0), so alignment arithmetic on offsets equals alignment arithmetic   *)
(* on the real addresses for every alignment <= 128.  A null pointer is -1.                                  *)
(*                                                                                                          *)
(*   align                [ptr.align]                                                                       *)
(*   assume_aligned / to_address / addressof     identity laws ([ptr.align]/6, [pointer.conversion],          *)
(*                                               [specialized.addressof])                                     *)
(*   pointer_int_pair     documentation comment of the class (LLVM's PointerIntPair): a (pointer, int) pair   *)
(*                        in one word; each component is recovered exactly, setters touch one component       *)
(*   small_ptr            documentation comment: stores ptr - BaseAddress in StorageType, get() = Base + value *)
(*   uninitialized_copy / _move / _fill, destroy / destroy_n / destroy_at, construct_at and the ranges::      *)
(*                        forms   [uninitialized.copy] [uninitialized.move] [uninitialized.fill]              *)
(*                        [specialized.destroy] [specialized.construct]  (life events: LifeOps)               *)
(*   monotonic_allocator  no documentation: judged by the allocator relation every allocate() must satisfy    *)
(*                        (aligned, inside the buffer, disjoint from everything handed out) plus progress:    *)
(*                        null only when the request does not fit behind the high-water mark                  *)
EXTENDS Naturals, Integers, Sequences, FiniteSets

NULL == -1
MovedFrom == -1          \* value the harness element type leaves in a moved-from object (= LifeOps!MOVED)

\* ---- size_t values that do not fit TLC's integers: [big |-> TRUE, v |-> k] stands for SIZE_MAX - k (k small) ----
Sz(v) == [big |-> FALSE, v |-> v]
SzGe(s, t) ==
    CASE s.big /\ t.big -> s.v <= t.v
      [] s.big /\ ~t.big -> TRUE
      [] ~s.big /\ t.big -> FALSE
      [] OTHER -> s.v >= t.v
SzSubSmall(s, k) == IF s.big THEN [big |-> TRUE, v |-> s.v + k] ELSE [big |-> FALSE, v |-> s.v - k]

IsPow2(a) == a \in {1, 2, 4, 8, 16, 32, 64, 128}

\* ---- align: [ptr.align] ---------------------------------------------------------------------------------
\* "Effects: If it is possible to fit size bytes of storage aligned by alignment into the buffer pointed to by ptr
\*  with length space, the function updates ptr to represent the first possible address of such storage and
\*  decreases space by the number of bytes used for alignment.  Otherwise, the function does nothing.
\*  Returns: A null pointer if the requested aligned buffer would not fit into the available space, otherwise the
\*  adjusted value of ptr."
Pad(al, off) == (al - (off % al)) % al
AlignPre(al, size, off, space) == IsPow2(al) /\ off >= 0
AlignFits(al, size, off, space) == SzGe(space, Sz(Pad(al, off))) /\ SzGe(SzSubSmall(space, Pad(al, off)), size)
AlignEff(al, size, off, space) ==
    IF AlignFits(al, size, off, space)
    THEN [ret |-> off + Pad(al, off), ptr |-> off + Pad(al, off), space |-> SzSubSmall(space, Pad(al, off))]
    ELSE [ret |-> NULL, ptr |-> off, space |-> space]

\* ---- pointer_int_pair --------------------------------------------------------------------------------------
\* state [p, i]: p = pointer value (element index, 0 = null pointer ... the harness maps), i = the small integer
\* low_*: the same setters on a pair whose spare low bit (IntBits < free bits: "allows the low bits to be used for
\* something else") was set through set_from_opaque_value: set_pointer / set_int must preserve it ("Preserve all low
\* bits", "Preserve all bits other than the ones we are updating"), set_ptr_and_int builds the word afresh
LowOps == {"low_set_pointer", "low_set_int", "low_set_ptr_and_int"}
PipOps == {"ctor", "ctor_ptr", "set_pointer", "set_int", "set_ptr_and_int", "from_opaque", "copy"} \cup LowOps
PipPre(op, x, s, bits) == op \in PipOps /\ x.i >= 0 /\ x.i < 2 ^ bits
PipEff(op, x, s) ==
    CASE op = "ctor" -> [p |-> x.p, i |-> x.i]
      [] op = "ctor_ptr" -> [p |-> x.p, i |-> 0]
      [] op \in {"set_pointer", "low_set_pointer"} -> [p |-> x.p, i |-> s.i]            \* "Preserve all low bits, just update the pointer"
      [] op \in {"set_int", "low_set_int"} -> [p |-> s.p, i |-> x.i]                \* "Preserve all bits other than the ones we are updating"
      [] op \in {"set_ptr_and_int", "low_set_ptr_and_int"} -> [p |-> x.p, i |-> x.i]
      [] op \in {"from_opaque", "copy"} -> s                     \* get_from_opaque_value(get_opaque_value()) is the same pair
\* is the stashed low bit still there afterwards?
PipLowKept(op) == op \in {"low_set_pointer", "low_set_int"}

\* ---- small_ptr -----------------------------------------------------------------------------------------------
\* addresses are plain integers here (the harness never dereferences the fabricated ones)
SpOps == {"ctor", "null", "pre_inc", "post_inc", "pre_dec", "post_dec", "minus", "conv", "kconv", "kget", "star", "arrow"}
\* inst = [base, bits, tsize]; s = the stored value (ptr - base) ; x = [a (address for ctor / minus)]
SpFits(inst, v) == v >= 0 /\ v < 2 ^ inst.bits
SpPre(op, x, s, inst) ==
    /\ op \in SpOps
    /\ (op = "ctor" => SpFits(inst, x.a - inst.base))
    /\ (op \in {"pre_inc", "post_inc"} => SpFits(inst, s + inst.tsize))
    /\ (op \in {"pre_dec", "post_dec"} => SpFits(inst, s - inst.tsize))
    /\ (op = "minus" => SpFits(inst, x.a - inst.base) /\ (x.a - inst.base - s) % inst.tsize = 0)
\* returns [s |-> new stored value, ret |-> address (or difference in elements for minus, compressed value for null)]
SpEff(op, x, s, inst) ==
    CASE op = "ctor" -> [s |-> x.a - inst.base, ret |-> x.a]                     \* ret = get()
      [] op = "null" -> [s |-> 0, ret |-> 0]                                      \* ret = compressed_value()
      [] op = "pre_inc" -> [s |-> s + inst.tsize, ret |-> inst.base + s + inst.tsize]
      [] op = "post_inc" -> [s |-> s + inst.tsize, ret |-> inst.base + s]
      [] op = "pre_dec" -> [s |-> s - inst.tsize, ret |-> inst.base + s - inst.tsize]
      [] op = "post_dec" -> [s |-> s - inst.tsize, ret |-> inst.base + s]
      [] op = "minus" -> [s |-> s, ret |-> (s - (x.a - inst.base)) \div inst.tsize]   \* this - other, in elements
      [] op \in {"conv", "kconv", "kget", "star", "arrow"} -> [s |-> s, ret |-> inst.base + s]

\* ---- uninitialized_* / destroy* / construct_at ---------------------------------------------------------------
\* src = sequence of the source region's live elements; the destination region starts dead; v = fill value;
\* p = first index of a destroyed suffix.  Result: [src, dst, ret]  (ret = offset of the returned iterator, 0 = void)
UnOps == {"uninit_copy", "uninit_move", "uninit_fill", "destroy", "destroy_n", "destroy_at", "construct_at",
          "r_destroy", "r_destroy_range", "r_destroy_at", "r_construct_at"}
UnPre(op, x) ==
    /\ op \in UnOps
    /\ (op \in {"destroy", "destroy_n", "r_destroy", "r_destroy_range"} => x.p \in 0..Len(x.src))
    /\ (op \in {"destroy_at", "r_destroy_at"} => Len(x.src) > 0)
Fill(n, v) == [i \in 1..n |-> v]
UnEff(op, x) ==
    LET n == Len(x.src) IN
    CASE op = "uninit_copy" -> [src |-> x.src, dst |-> x.src, ret |-> n]
      [] op = "uninit_move" -> [src |-> Fill(n, MovedFrom), dst |-> x.src, ret |-> n]
      [] op = "uninit_fill" -> [src |-> x.src, dst |-> Fill(x.n, x.v), ret |-> 0]
      [] op \in {"destroy", "r_destroy_range"} -> [src |-> SubSeq(x.src, 1, x.p), dst |-> <<>>, ret |-> IF op = "destroy" THEN 0 ELSE n]
      [] op = "destroy_n" -> [src |-> SubSeq(x.src, 1, x.p), dst |-> <<>>, ret |-> n]
      [] op = "r_destroy" -> [src |-> SubSeq(x.src, 1, x.p), dst |-> <<>>, ret |-> n]
      [] op \in {"destroy_at", "r_destroy_at"} -> [src |-> SubSeq(x.src, 1, n - 1), dst |-> <<>>, ret |-> 0]
      [] op \in {"construct_at", "r_construct_at"} -> [src |-> Append(x.src, x.v), dst |-> <<>>, ret |-> n]

\* ---- monotonic allocator ------------------------------------------------------------------------------------
\* buffer [boff, boff + bsize); hist = sequence of blocks [off, len] handed out so far (non-null results only);
\* request: n objects of size tsize / alignment talign (n as a Sz value: it may be astronomically large)
Max2(a, b) == IF a > b THEN a ELSE b
RECURSIVE HighWater(_, _, _)
HighWater(hist, i, acc) == IF i > Len(hist) THEN acc ELSE HighWater(hist, i + 1, Max2(acc, hist[i].off + hist[i].len))
Disjoint(o1, l1, o2, l2) == l1 = 0 \/ l2 = 0 \/ o1 + l1 <= o2 \/ o2 + l2 <= o1

\* bytes requested, or "does not fit any buffer" when n * tsize is not representable / astronomically large
ReqBytes(n, tsize) == IF n.big THEN Sz(0) ELSE Sz(n.v * tsize)
ReqHuge(n) == n.big

\* allocate(0): "the return value is unspecified" ([allocator.requirements]); if it is a pointer it is still the
\* allocator's own: aligned and not outside the buffer.  (Mem.tla issues a zero request only as the last of a history,
\* because what it costs is unspecified too.)
MonoSafe(ret, boff, bsize, hist, n, tsize, talign) ==
    \/ ret = NULL
    \/ /\ ~ReqHuge(n)                                         \* a request larger than the address space can never succeed
       /\ ret % talign = 0
       /\ ret >= boff /\ ret + n.v * tsize <= boff + bsize
       /\ \A k \in 1..Len(hist) : Disjoint(ret, n.v * tsize, hist[k].off, hist[k].len)

\* progress: giving up is only allowed when the request does not fit behind everything handed out so far
MonoProgress(ret, boff, bsize, hist, n, tsize, talign) ==
    ret = NULL =>
        \/ ReqHuge(n)
        \/ n.v = 0
        \/ LET hw == HighWater(hist, 1, boff) IN hw + Pad(talign, hw) + n.v * tsize > boff + bsize
=========================================================================
