// Conformance driver for the Networking-TS style buffer views (extension X13):
// etl::experimental::net::mutable_buffer / const_buffer / make_buffer.
//   netbuf_driver replay <mut|const> <scripts.ndjson>   replays the transitions exported by spec/NetBuf.tla
//   netbuf_driver sweep                                  own sweep: bigger ranges, huge advances, chains
// One ndjson event per call: {op, kind, L, n, esz, pre, post, ret, view, self, inst}.  A pointer is logged
// as its byte offset from the start of the caller's range (-1 = nullptr); `view` are the bytes readable
// through ret.data()/ret.size() (or [-1] when that range is not inside the harness' storage).
// No oracle, no comparison: spec/NetBufTrace.tla judges.
// -DVH_STD runs the same calls on libstdc++'s <experimental/buffer> (the Networking TS itself): calibration.
#include "common.hpp"

#include <array>
#include <cstring>
#include <type_traits>
#include <vector>

#ifdef VH_STD
    #include <experimental/buffer>
namespace net = std::experimental::net;
template <class T, std::size_t N> using arr_t = std::array<T, N>;
template <class T, std::size_t N> struct vec_t : std::vector<T> { };
    #define MAKE_BUFFER net::buffer
static char const* const INST = "std";
// libstdc++ 12 implements the TS draft without operator+= ; the reference is the TS wording itself:
// "b += n" has the effect of "b = b + n" ([buffer.mutable]/[buffer.arithmetic] use the same expressions)
template <class Base> struct with_adv : Base {
    using Base::Base;
    with_adv() = default;
    with_adv(Base const& b) : Base(b) { }
    with_adv& operator+=(std::size_t n)
    {
        Base::operator=(static_cast<Base const&>(*this) + n);
        return *this;
    }
};
using mbuf_t = with_adv<net::mutable_buffer>;
using cbuf_t = with_adv<net::const_buffer>;
#else
    #include <etl/array.hpp>
    #include <etl/experimental/net/buffer.hpp>
    #include <etl/vector.hpp>
namespace net = etl::experimental::net;
template <class T, std::size_t N> using arr_t = etl::array<T, N>;
template <class T, std::size_t N> using vec_t = etl::static_vector<T, N>;
    #define MAKE_BUFFER net::make_buffer
static char const* const INST = "etl";
using mbuf_t = net::mutable_buffer;
using cbuf_t = net::const_buffer;
#endif

namespace {
using vh::json;

// the caller's memory: GUARD bytes of slack on both sides so that a wrong view can be *read* safely
constexpr long WILD = 1000000;
constexpr int GUARD = 64;
constexpr int RANGE = 64;
unsigned char g_store[GUARD + RANGE + GUARD];
unsigned char* base() { return g_store + GUARD; }

void fill_store()
{
    for (int i = 0; i < (int)sizeof(g_store); ++i) { g_store[i] = (unsigned char)(10 + (i - GUARD)); }
}

template <class B> json desc_at(B const& b, unsigned char const* origin)
{
    json j;
    // a pointer far outside the harness' storage / an absurd size is logged as +-WILD (the trace carries 32-bit integers)
    long off = b.data() == nullptr ? -1L : (long)(static_cast<unsigned char const*>(b.data()) - origin);
    if (off > WILD) { off = WILD; }
    if (off < -WILD) { off = -WILD; }
    j["off"]  = off;
    j["size"] = (long)(b.size() > (std::size_t)WILD ? (std::size_t)WILD : b.size());
    return j;
}

template <class B> json view_at(B const& b, unsigned char const* lo, unsigned char const* hi)
{
    json v = json::array();
    if (b.size() == 0) { return v; }
    auto const* p = static_cast<unsigned char const*>(b.data());
    if (p == nullptr || p < lo || p > hi || b.size() > (std::size_t)(hi - p)) {
        v.push_back(-1);
        return v;
    }
    for (std::size_t i = 0; i < b.size(); ++i) { v.push_back((int)p[i]); }
    return v;
}

template <class B> json desc(B const& b) { return desc_at(b, base()); }
template <class B> json view(B const& b) { return view_at(b, g_store, g_store + sizeof(g_store)); }

// optional parts of the TS interface: detected, never assumed
template <class B> constexpr bool has_max = requires(B const& b, std::size_t n) { MAKE_BUFFER(b, n); };
template <class B> constexpr bool has_copy_factory = requires(B const& b) { MAKE_BUFFER(b); };
constexpr bool has_to_const = std::is_constructible_v<net::const_buffer, net::mutable_buffer const&>;

int g_unsupported = 0;
void unsupported(char const* what, char const* kind)
{
    std::fprintf(stderr, "UNSUPPORTED %s %s\n", kind, what);
    ++g_unsupported;
}

template <class B, class VoidPtr> struct Session {
    char const* kind;
    B b {};
    long L = 0;

    json ev(std::string const& op, long n, json pre)
    {
        json e;
        e["op"]   = op;
        e["kind"] = kind;
        e["L"]    = L;
        e["n"]    = n;
        e["esz"]  = 1;
        e["pre"]  = std::move(pre);
        e["inst"] = INST;
        return e;
    }

    // returns false when the call is not provided by the implementation (rest of the script is dropped)
    bool call(json const& c, bool quiet)
    {
        std::string const op = c["op"];
        long const n         = c.value("n", 0L);
        json pre             = desc(b);
        json e;
        if (op == "make") {
            L = c["L"];
            e = ev(op, n, pre);
            b = MAKE_BUFFER(static_cast<VoidPtr>(base()), (std::size_t)L);
            e["ret"]  = desc(b);
            e["view"] = view(b);
            e["self"] = true;
        } else if (op == "ctor_default") {
            L = c["L"];
            e = ev(op, n, pre);
            b = B {};
            e["ret"]  = desc(b);
            e["view"] = view(b);
            e["self"] = true;
        } else if (op == "adv") {
            e         = ev(op, n, pre);
            B& r      = (b += (std::size_t)n);
            e["self"] = (&r == &b);
            e["ret"]  = desc(r);
            e["view"] = view(r);
        } else if (op == "plus" || op == "rplus") {
            e         = ev(op, n, pre);
            B const r = op == "plus" ? b + (std::size_t)n : (std::size_t)n + b;
            e["self"] = true;
            e["ret"]  = desc(r);
            e["view"] = view(r);
        } else if (op == "max") {
            if constexpr (has_max<B>) {
                e         = ev(op, n, pre);
                B const r = MAKE_BUFFER(b, (std::size_t)n);
                e["self"] = true;
                e["ret"]  = desc(r);
                e["view"] = view(r);
            } else {
                unsupported("make_buffer(buffer, max_size)", kind);
                return false;
            }
        } else if (op == "copy") {
            if constexpr (has_copy_factory<B>) {
                e         = ev(op, n, pre);
                B const r = MAKE_BUFFER(b);
                e["self"] = true;
                e["ret"]  = desc(r);
                e["view"] = view(r);
            } else {
                unsupported("make_buffer(buffer)", kind);
                return false;
            }
        } else if (op == "to_const") {
            if constexpr (has_to_const || std::is_same_v<B, cbuf_t>) {
                e = ev(op, n, pre);
                net::const_buffer const r {b};
                e["self"] = true;
                e["ret"]  = desc(r);
                e["view"] = view(r);
            } else {
                unsupported("const_buffer(mutable_buffer)", kind);
                return false;
            }
        } else {
            std::fprintf(stderr, "netbuf_driver: unknown op %s\n", op.c_str());
            std::exit(2);
        }
        e["post"] = desc(b);
        if (c.contains("plan")) { e["plan"] = c["plan"]; }   // the pre-state the model is in after the same calls
        if (!quiet) { vh::emit(e); }
        return true;
    }
};

// ---- container factories: make_buffer(array<T,N>&) / make_buffer(static_vector<T,N>&) and the const forms ----
template <class T> void fill_elems(T* p, std::size_t n)
{
    // element k gets the object representation Cell(k*sizeof(T)) ...: the bytes 10, 11, 12, ... in memory order
    auto* raw = reinterpret_cast<unsigned char*>(p);
    for (std::size_t i = 0; i < n * sizeof(T); ++i) { raw[i] = (unsigned char)(10 + i); }
}

template <class Buf, class C> void emit_container(char const* op, char const* kind, C& c, long n, long esz, bool vec)
{
    Buf const r = MAKE_BUFFER(c);
    auto const* lo = reinterpret_cast<unsigned char const*>(c.data());
    json e;
    e["op"]   = op;
    e["kind"] = kind;
    e["L"]    = 0;
    e["n"]    = n;
    e["esz"]  = esz;
    e["pre"]  = json {{"off", -1}, {"size", 0}};
    e["post"] = json {{"off", -1}, {"size", 0}};
    e["ret"]  = desc_at(r, lo);
    // readable window: the container's own storage (capacity for the vector)
    std::size_t cap_bytes = c.size() * sizeof(*c.data());
    if constexpr (requires { c.capacity(); }) { cap_bytes = c.capacity() * sizeof(*c.data()); }
    (void)vec;
    e["view"] = (lo == nullptr && r.size() == 0) ? json::array() : view_at(r, lo, lo + cap_bytes);
    e["self"] = true;
    e["inst"] = INST;
    vh::emit(e);
}

template <class T, std::size_t N> void one_array()
{
    arr_t<T, N> a {};
    if constexpr (N > 0) { fill_elems(a.data(), N); }
    emit_container<net::mutable_buffer>("make_array", "mut", a, (long)N, (long)sizeof(T), false);
    arr_t<T, N> const& ca = a;
    emit_container<net::const_buffer>("make_array", "const", ca, (long)N, (long)sizeof(T), false);
}

template <class T, std::size_t Cap> void one_vec(std::size_t n)
{
    vec_t<T, Cap> v;
#ifdef VH_STD
    v.reserve(Cap);
#endif
    for (std::size_t i = 0; i < n; ++i) { v.push_back(T {}); }
    if (n > 0) { fill_elems(v.data(), n); }
    emit_container<net::mutable_buffer>("make_vec", "mut", v, (long)n, (long)sizeof(T), true);
    vec_t<T, Cap> const& cv = v;
    emit_container<net::const_buffer>("make_vec", "const", cv, (long)n, (long)sizeof(T), true);
}

template <class T, std::size_t... Ns> void arrays(std::index_sequence<Ns...>) { (one_array<T, Ns>(), ...); }

void containers(long n, long esz, bool vec)
{
    auto bad = [&] {
        std::fprintf(stderr, "netbuf_driver: container size %ld x %ld not instantiated\n", n, esz);
        std::exit(2);
    };
    if (vec) {
        if (n > 6) { bad(); }
        if (esz == 1) { one_vec<unsigned char, 6>((std::size_t)n); }
        else if (esz == 2) { one_vec<unsigned short, 6>((std::size_t)n); }
        else if (esz == 4) { one_vec<unsigned int, 6>((std::size_t)n); }
        else { bad(); }
        return;
    }
    auto pick = [&]<class T>(T) {
        switch (n) {
        case 0: one_array<T, 0>(); break;
        case 1: one_array<T, 1>(); break;
        case 2: one_array<T, 2>(); break;
        case 3: one_array<T, 3>(); break;
        case 4: one_array<T, 4>(); break;
        case 5: one_array<T, 5>(); break;
        case 6: one_array<T, 6>(); break;
        default: bad();
        }
    };
    if (esz == 1) { pick((unsigned char)0); }
    else if (esz == 2) { pick((unsigned short)0); }
    else if (esz == 4) { pick((unsigned int)0); }
    else { bad(); }
}

template <class B, class VoidPtr> int replay(char const* kind, std::string const& path)
{
    auto lines = vh::read_ndjson(path);
    Session<B, VoidPtr> s {kind};
    bool dead = false;
    long scripts = 0, dropped = 0;
    for (auto const& c : lines) {
        if (c.contains("reset")) {
            s    = Session<B, VoidPtr> {kind};
            dead = false;
            ++scripts;
            continue;
        }
        if (dead) { continue; }
        std::string const op = c["op"];
        if (op == "make_array" || op == "make_vec") {
            // both kinds are produced from one script line; only the "mut" replay emits them
            if (std::string(kind) == "mut") { containers(c["n"], c["esz"], op == "make_vec"); }
            continue;
        }
        if (!s.call(c, c.contains("quiet"))) {
            dead = true;
            ++dropped;
        }
    }
    std::fprintf(stderr, "SUMMARY kind=%s scripts=%ld dropped=%ld\n", kind, scripts, dropped);
    return 0;
}

// own sweep: longer ranges, advances far beyond the size (SIZE_MAX), chains of advances, operator+ on temporaries
template <class B, class VoidPtr> void sweep(char const* kind)
{
    vh::Rng rng(vh::env_seed() + (kind[0] == 'm' ? 0 : 77));
    std::size_t const huge[] = {(std::size_t)-1, (std::size_t)-2, (std::size_t)1 << 31, (std::size_t)1 << 32, 1000000007ull};
    for (long L : {0L, 1L, 7L, 8L, 31L, 32L, 63L, 64L}) {
        for (int rep = 0; rep < 6; ++rep) {
            Session<B, VoidPtr> s {kind};
            json mk;
            mk["op"] = "make";
            mk["L"]  = L;
            s.call(mk, false);
            for (int step = 0; step < 12; ++step) {
                json c;
                long const pick = rng.range(0, 9);
                c["op"]         = pick < 5 ? "adv" : (pick < 7 ? "plus" : (pick < 9 ? "rplus" : "copy"));
                c["n"]          = rng.coin(25) ? rng.range(L, L + 70) : rng.range(0, L / 3 + 2);
                if (c["op"] == "copy" && !has_copy_factory<B>) { continue; }
                s.call(c, false);
            }
            // size_t arguments that do not fit the trace's 32-bit integers are logged clamped to 2^30 (any n >= size
            // behaves alike in the model); executed with the real huge value
            for (std::size_t h : huge) {
                json pre   = desc(s.b);
                B const r  = rep % 2 ? s.b + h : h + s.b;
                json e     = s.ev(rep % 2 ? "plus" : "rplus", (long)1 << 30, pre);
                e["self"]  = true;
                e["ret"]   = desc(r);
                e["view"]  = view(r);
                e["post"]  = desc(s.b);
                vh::emit(e);
            }
            {
                json pre  = desc(s.b);
                json e    = s.ev("adv", (long)1 << 30, pre);
                B& r      = (s.b += huge[rep % 5]);
                e["self"] = (&r == &s.b);
                e["ret"]  = desc(r);
                e["view"] = view(r);
                e["post"] = desc(s.b);
                vh::emit(e);
            }
        }
    }
}

} // namespace

int main(int argc, char** argv)
{
    fill_store();
    std::string const mode = argc > 1 ? argv[1] : "";
    if (mode == "replay" && argc == 4) {
        std::string const kind = argv[2];
        if (kind == "mut") { return replay<mbuf_t, void*>("mut", argv[3]); }
        if (kind == "const") { return replay<cbuf_t, void const*>("const", argv[3]); }
    }
    if (mode == "sweep") {
        sweep<mbuf_t, void*>("mut");
        sweep<cbuf_t, void const*>("const");
        return 0;
    }
    std::fprintf(stderr, "usage: netbuf_driver replay <mut|const> <scripts> | sweep\n");
    return 2;
}
