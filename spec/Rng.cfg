SPECIFICATION Spec
INVARIANTS Laws EmitInv
CHECK_DEADLOCK FALSE
