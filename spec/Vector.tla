----------------------------- MODULE Vector -----------------------------
(* State machine of two fixed-capacity vector objects a, b of one capacity.  TLC                   *)
(*   - checks the invariants / action properties below (MC role), and                              *)
(*   - exports every transition (GEN role: ACTION_CONSTRAINT Emit prints last' as JSON; the         *)
(*     VIEW hides `last` from the fingerprint), which tools/planner turns into scripts that are      *)
(*     replayed through the real templates.                                                          *)
(* Kind selects the API surface: "sv" static_vector, "ipv" inplace_vector, "stack" etl::stack.       *)
EXTENDS VectorOps, TLC, Json

CONSTANTS Caps, Vals, Kind, MaxXs, Mode
\* Mode = "valid": only calls inside the documented preconditions (C01/C03).
\* Mode = "contract": additionally every reachable state offers the calls that VIOLATE a documented
\*   precondition, at and beyond the boundary (C05); they are exported with bad = TRUE and do not
\*   change the state (the contract-checked build must stop them in the assertion handler).

VARIABLES cap, obj, mv, last
\* obj \in [{"a","b"} -> Seq(Vals)], mv \in SUBSET {"a","b"} : objects in moved-from state
vars == <<cap, obj, mv, last>>
View == <<cap, obj, mv>>

Objs == {"a", "b"}
Other(o) == IF o = "a" THEN "b" ELSE "a"

SeqsUpTo(n) == UNION {[1..k -> Vals] : k \in 0..n}

\* byte patterns the storage holds before a default-initialisation (C02: "default-initialised as well as
\* value-initialised objects")
FillBytes == {0, 165, 255}

X0 == [v |-> 0, p |-> 0, q |-> 0, n |-> 0, xs |-> <<>>, src |-> "a"]
C(op, x) == [op |-> op, x |-> x]

\* calls offered on a live object o (arguments at and around every boundary that is still valid)
CallsSV(o) ==
    LET n == Len(obj[o]) IN
    {C(op, [X0 EXCEPT !.v = v]) : op \in PushOps, v \in Vals}
    \cup {C("pop_back", X0), C("clear", X0), C("ctor_default", X0), C("erase_if_odd", X0), C("front", X0), C("back", X0)}
    \cup {C("at", [X0 EXCEPT !.p = p]) : p \in 0..(n - 1)}
    \cup {C(op, [X0 EXCEPT !.p = p, !.v = v]) : op \in InsertOneOps, p \in 0..n, v \in Vals}
    \cup {C("insert_fill", [X0 EXCEPT !.p = p, !.n = k, !.v = v]) : p \in 0..n, k \in 0..(cap - n), v \in Vals}
    \cup {C("insert_range", [X0 EXCEPT !.p = p, !.xs = xs]) : p \in 0..n, xs \in SeqsUpTo(Min2(MaxXs, cap - n))}
    \cup {C("insert_self", [X0 EXCEPT !.p = p, !.q = q]) : p \in 0..n, q \in 0..(n - 1)}
    \cup {C("erase_pos", [X0 EXCEPT !.p = p]) : p \in 0..(n - 1)}
    \cup {C("erase_range", [X0 EXCEPT !.p = p, !.q = q]) : p \in 0..n, q \in 0..n}
    \cup {C("resize", [X0 EXCEPT !.n = k]) : k \in 0..cap}
    \cup {C("ctor_dinit", [X0 EXCEPT !.n = fill]) : fill \in FillBytes}
    \cup {C(op, [X0 EXCEPT !.n = k, !.v = v]) : op \in {"resize_val", "assign_fill", "ctor_fill"}, k \in 0..cap, v \in Vals}
    \cup {C("ctor_n", [X0 EXCEPT !.n = k]) : k \in 0..cap}
    \cup {C(op, [X0 EXCEPT !.xs = xs]) : op \in {"assign_range", "ctor_range"}, xs \in SeqsUpTo(Min2(MaxXs, cap))}
    \cup {C("erase_val", [X0 EXCEPT !.v = v]) : v \in Vals}
    \cup {C(op, [X0 EXCEPT !.src = s]) : op \in {"swap", "fswap", "copy_assign"}, s \in Objs \ mv}
    \cup {C(op, [X0 EXCEPT !.src = Other(o)]) : op \in {"move_assign", "ctor_copy", "ctor_move"}}

CallsIPV(o) ==
    {C(op, [X0 EXCEPT !.v = v]) : op \in TryOps \cup UncheckedOps, v \in Vals}
    \cup {C("pop_back", X0), C("clear", X0), C("ctor_default", X0), C("front", X0), C("back", X0)}
    \cup {C("at", [X0 EXCEPT !.p = p]) : p \in 0..(Len(obj[o]) - 1)}
    \cup {C("ctor_dinit", [X0 EXCEPT !.n = fill]) : fill \in FillBytes}
    \cup {C(op, [X0 EXCEPT !.src = Other(o)]) : op \in {"ctor_copy", "ctor_move"}}

CallsStack(o) ==
    {C(op, [X0 EXCEPT !.v = v]) : op \in PushOps, v \in Vals}
    \cup {C("pop_back", X0), C("ctor_default", X0), C("back", X0)}
    \cup {C(op, [X0 EXCEPT !.xs = xs]) : op \in {"ctor_range"}, xs \in SeqsUpTo(Min2(MaxXs, cap))}
    \cup {C(op, [X0 EXCEPT !.src = s]) : op \in {"swap", "fswap"}, s \in Objs \ mv}
    \cup {C(op, [X0 EXCEPT !.src = Other(o)]) : op \in {"ctor_copy", "ctor_move"}}
    \* etl::stack declares its copy/move constructors and therefore has no assignment operators: not drivable

\* ---- calls that violate a documented precondition (argument at the boundary, one and two beyond) ----
Beyond(k) == {k + 1, k + 2}
BadSV(o) ==
    LET n == Len(obj[o]) IN
    {C(op, [X0 EXCEPT !.v = v]) : op \in PushOps, v \in {1}}
    \cup {C("pop_back", X0), C("front", X0), C("back", X0)}
    \cup {C("at", [X0 EXCEPT !.p = p]) : p \in {n} \cup Beyond(n)}
    \cup {C(op, [X0 EXCEPT !.p = p, !.v = 1]) : op \in InsertOneOps, p \in 0..(n + 2)}
    \cup {C("insert_fill", [X0 EXCEPT !.p = p, !.n = k, !.v = 1]) : p \in 0..(n + 2), k \in 0..(cap - n + 2)}
    \cup {C("insert_range", [X0 EXCEPT !.p = p, !.xs = xs]) : p \in 0..(n + 1), xs \in {[i \in 1..k |-> 1] : k \in 0..(cap - n + 2)}}
    \cup {C("erase_pos", [X0 EXCEPT !.p = p]) : p \in {n} \cup Beyond(n)}
    \cup {C("erase_range", [X0 EXCEPT !.p = p, !.q = q]) : p \in 0..(n + 2), q \in 0..(n + 2)}
    \cup {C("resize", [X0 EXCEPT !.n = k]) : k \in Beyond(cap)}
    \cup {C(op, [X0 EXCEPT !.n = k, !.v = 1]) : op \in {"resize_val", "assign_fill", "ctor_fill"}, k \in Beyond(cap)}
    \cup {C("ctor_n", [X0 EXCEPT !.n = k]) : k \in Beyond(cap)}
    \cup {C(op, [X0 EXCEPT !.xs = [i \in 1..k |-> 1]]) : op \in {"assign_range", "ctor_range"}, k \in Beyond(cap)}
BadIPV(o) ==
    LET n == Len(obj[o]) IN
    {C(op, [X0 EXCEPT !.v = 1]) : op \in UncheckedOps}
    \cup {C("pop_back", X0), C("front", X0), C("back", X0)}
    \cup {C("at", [X0 EXCEPT !.p = p]) : p \in {n} \cup Beyond(n)}
BadStack(o) == {C(op, [X0 EXCEPT !.v = 1]) : op \in PushOps} \cup {C("pop_back", X0), C("back", X0)}
BadCalls(o) == IF Kind = "sv" THEN BadSV(o) ELSE IF Kind = "ipv" THEN BadIPV(o) ELSE BadStack(o)

Calls(o) == IF Kind = "sv" THEN CallsSV(o) ELSE IF Kind = "ipv" THEN CallsIPV(o) ELSE CallsStack(o)

\* operations a moved-from object must still accept (C03: assignable, destructible)
RevivingOps == {"clear", "assign_fill", "assign_range", "copy_assign", "move_assign", "ctor_default", "ctor_dinit",
                "ctor_n", "ctor_fill", "ctor_range", "ctor_copy", "ctor_move"}

Init ==
    /\ cap \in Caps
    /\ obj = [o \in Objs |-> <<>>]
    /\ mv = {}
    /\ last = [op |-> "init", o |-> "a", x |-> X0, pre |-> obj, post |-> obj, ret |-> 0, cap |-> cap,
               premv |-> {}, postmv |-> {}, bad |-> FALSE]

Step(o, c) ==
    /\ (o \in mv => c.op \in RevivingOps)
    /\ (c.op \in TwoObjOps => c.x.src \notin mv)
    /\ Pre(c.op, o, c.x, obj, cap)
    /\ LET ef == Eff(c.op, o, c.x, obj, cap)
           m2 == IF c.op \in MoveSrcOps THEN (mv \ {o}) \cup {c.x.src} ELSE mv \ {o}
           st2 == IF c.op \in MoveSrcOps THEN [ef.st EXCEPT ![c.x.src] = <<>>] ELSE ef.st
       IN /\ obj' = st2
          /\ mv' = m2
          /\ last' = [op |-> c.op, o |-> o, x |-> c.x, pre |-> obj, post |-> st2, ret |-> ef.ret,
                      cap |-> cap, premv |-> mv, postmv |-> m2, bad |-> FALSE]
    /\ cap' = cap

\* a call outside the documented domain: the contract-checked build has to stop it; abstractly nothing
\* happens to the state (the process is gone)
BadStep(o, c) ==
    /\ Mode = "contract"
    /\ o = "a" /\ Len(obj["b"]) <= 1      \* the other object only witnesses that it stays untouched
    /\ mv = {}
    /\ ~Pre(c.op, o, c.x, obj, cap)
    /\ UNCHANGED <<cap, obj, mv>>
    /\ last' = [op |-> c.op, o |-> o, x |-> c.x, pre |-> obj, post |-> obj, ret |-> 0, cap |-> cap,
                premv |-> mv, postmv |-> mv, bad |-> TRUE]

Next == \/ \E o \in Objs : \E c \in Calls(o) : Step(o, c)
        \/ \E o \in Objs : \E c \in BadCalls(o) : BadStep(o, c)

Spec == Init /\ [][Next]_vars

\* GEN: one JSON line per transition
Emit == PrintT(<<"GEN", ToJson(last')>>)

\* ---- what TLC proves about the model (MC role) ----------------------------------------------
TypeOK == /\ cap \in Caps
          /\ \A o \in Objs : obj[o] \in Seq(Vals \cup {DefaultVal})
          /\ mv \subseteq Objs

CapInv == \A o \in Objs : Len(obj[o]) <= cap

\* capacity is a constant of the object
CapConst == [][cap' = cap]_vars

\* a copy is independent of its source: an operation on o never changes the other object unless it
\* is named as a swap partner or as a moved-from source
\* contract model: valid and violating argument sets partition what is offered
ContractPartition == [][last'.bad = ~Pre(last'.op, last'.o, last'.x, obj, cap)]_vars

CopyIndependence ==
    [][\A o \in Objs :
          (last'.o # o /\ ~(last'.op \in {"swap", "fswap"} \cup MoveSrcOps /\ last'.x.src = o))
              => obj'[o] = obj[o]]_vars

\* copy construction / assignment leave the source untouched and make the two objects equal
CopyMakesEqual ==
    [][last'.op \in {"copy_assign", "ctor_copy"} =>
          obj'[last'.o] = obj[last'.x.src] /\ obj'[last'.x.src] = obj[last'.x.src]]_vars

\* try_* on a full vector: null and unchanged
TryOnFull ==
    [][(last'.op \in TryOps /\ Len(obj[last'.o]) = cap) => (last'.ret = -1 /\ obj' = obj)]_vars

\* the six relational operators are a strict weak (here: total) order consistent with ==
OrderLaws ==
    LET a == obj["a"] b == obj["b"] IN
    /\ (LexLess(a, b) \/ LexLess(b, a) \/ a = b)
    /\ ~(LexLess(a, b) /\ LexLess(b, a))
    /\ (a = b => ~LexLess(a, b))
=========================================================================
