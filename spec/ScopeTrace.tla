---------------------------- MODULE ScopeTrace ----------------------------
(* Trace validation for scope guards.  Whether a guard is active is not observable, so the validator        *)
(* carries the model state `ms` along each script ({"op":"reset"}, {"op":"begin","names":[..]} start one) and        *)
(* compares what IS observable of every call: the sequence of exit functions invoked, the number of live     *)
(* exit-function objects per id, and the copy / move constructions of exit-function objects.                 *)
(* After the first deviation of a script the rest of that script is passed over.                            *)
EXTENDS ScopeOps, Json, IOUtils, TLC

Tr == ndJsonDeserialize(IOEnv.TRACE)

VARIABLES l, nbad, dirty, ms

St0(ev) == [g |-> [n \in {ev.names[i] : i \in 1..Len(ev.names)} |-> Dead]]

\* kinds: functor (guard owns a counting function object), fptr (plain function pointer: no object life to count),
\* fref (guard holds an lvalue reference to a function object the harness owns)
Judge(ev, s) ==
    IF ~Pre(ev.op, ev.g, ev.x, s) THEN <<"harness-pre">>
    ELSE LET ef == Eff(ev.op, ev.g, ev.x, s) IN
         (IF ev.inv = ef.inv THEN <<>> ELSE <<"invoked">>)
         \o (IF ev.kind # "functor" \/ ev.fl = FLive(ef.st, Len(ev.fl)) THEN <<>> ELSE <<"flive">>)
         \o (IF ev.kind = "functor" THEN (IF ev.cp = ef.cp /\ ev.mv = ef.mv THEN <<>> ELSE <<"fcopy">>)
             \* a guard that holds its exit function by reference never copies or moves the function object
             ELSE IF ev.kind = "fref" THEN (IF ev.cp = 0 /\ ev.mv = 0 THEN <<>> ELSE <<"fcopy">>)
             ELSE <<>>)

Expected(ev, s) == LET ef == Eff(ev.op, ev.g, ev.x, s) IN
                   ToJson([inv |-> ef.inv, fl |-> FLive(ef.st, Len(ev.fl)), cp |-> ef.cp, mv |-> ef.mv])

Init == l = 1 /\ nbad = 0 /\ dirty = FALSE /\ ms = [g |-> [n \in {} |-> Dead]]

Next ==
    /\ l <= Len(Tr)
    /\ l' = l + 1
    /\ IF Tr[l].op = "reset" THEN nbad' = nbad /\ dirty' = FALSE /\ ms' = ms          \* script boundary marker
       ELSE IF Tr[l].op = "begin" THEN nbad' = nbad /\ dirty' = FALSE /\ ms' = St0(Tr[l])  \* names of the guard slots
       ELSE IF dirty THEN UNCHANGED <<nbad, dirty, ms>>
       \* the process died inside a call of this script (tools/vlib.py turns the death into a trap event)
       ELSE IF Tr[l].op = "trap" THEN nbad' = nbad + 1 /\ dirty' = TRUE /\ ms' = ms /\ PrintT(<<"DEV", l, "crash", "-">>)
       ELSE LET vs == Judge(Tr[l], ms) IN
            /\ nbad' = nbad + Len(vs)
            /\ dirty' = (Len(vs) > 0)
            /\ ms' = IF Len(vs) > 0 /\ vs[1] = "harness-pre" THEN ms ELSE Eff(Tr[l].op, Tr[l].g, Tr[l].x, ms).st
            /\ \A j \in 1..Len(vs) : PrintT(<<"DEV", l, vs[j], IF vs[j] = "harness-pre" THEN "-" ELSE Expected(Tr[l], ms)>>)

Spec == Init /\ [][Next]_<<l, nbad, dirty, ms>>
Consumed == TLCGet("stats").diameter - 1 = Len(Tr)
===========================================================================
