------------------------------- MODULE Set -------------------------------
(* State machine of two ordered-set objects a, b of one capacity and one comparator kind.  TLC       *)
(*   - checks the invariants / action properties below (MC role), and                                *)
(*   - exports every transition (GEN role: ACTION_CONSTRAINT Emit prints last' as JSON; the VIEW     *)
(*     hides `last` from the fingerprint); tools/pipes/set.py turns them into scripts that are         *)
(*     replayed through the real templates.                                                            *)
(* Kind selects the API surface: "sset" static_set, "fset" flat_set, "fmset" flat_multiset.            *)
(*                                                                                                     *)
(* The two objects interact only through swap.  To keep the export proportional to what is being       *)
(* asked, the full operation surface of an object is offered while the OTHER object is empty; next to   *)
(* a non-empty object only range construction from an ascending sequence (which builds every pair of    *)
(* sets in one call) and the swaps are offered.                                                          *)
(* Constructors are offered on an empty object only (they discard the previous value anyway).           *)
EXTENDS SetOps, TLC, Json

CONSTANTS Caps, Cmps, Univ, Kind, MaxXs, MaxCt

VARIABLES cap, cmp, obj, mv, last
\* mv \subseteq {"a","b"}: objects in moved-from state (their contents are modelled as emptied; the real
\* contents are "valid but unspecified" and judged with that relation by SetTrace)
vars == <<cap, cmp, obj, mv, last>>
View == <<cap, cmp, obj, mv>>

Objs == {"a", "b"}
Other(o) == IF o = "a" THEN "b" ELSE "a"
Min2(a, b) == IF a < b THEN a ELSE b

SeqsUpTo(n) == UNION {[1..k -> Univ] : k \in 0..n}
KeySets == {S \in SUBSET Univ : Cardinality(S) <= cap}
AscSeqs == {SeqOf(cmp, S) : S \in KeySets}                                     \* sorted_unique inputs
WeakSeqs == {q \in SeqsUpTo(cap) : WeakAsc(cmp, q)}                            \* sorted_equivalent inputs

X0 == [v |-> 0, p |-> 0, q |-> 0, xs |-> <<>>, src |-> "a"]
C(op, x) == [op |-> op, x |-> x]

Flat == Kind = "fset"

FullSurface(o) ==
    LET n == Len(obj[o]) IN
    {C(op, [X0 EXCEPT !.v = v]) : op \in InsOps, v \in Univ}
    \cup (IF Flat THEN {C(op, [X0 EXCEPT !.p = p, !.v = v]) : op \in HintOps, p \in 0..n, v \in Univ} ELSE {})
    \cup {C("insert_range", [X0 EXCEPT !.xs = xs]) : xs \in SeqsUpTo(MaxXs)}
    \cup {C("erase_key", [X0 EXCEPT !.v = v]) : v \in Univ}
    \cup {C(op, [X0 EXCEPT !.p = p]) : op \in (IF Flat THEN ErasePosOps ELSE {"erase_pos"}), p \in 0..(n - 1)}
    \cup {C("erase_range", [X0 EXCEPT !.p = p, !.q = q]) : p \in 0..n, q \in 0..n}
    \cup {C("clear", X0)}
    \cup (IF Flat THEN {C("erase_if_odd", X0)} \cup {C("erase_if_eq", [X0 EXCEPT !.v = v]) : v \in Univ} ELSE {})
    \cup {C(op, [X0 EXCEPT !.src = s]) : op \in SwapOps, s \in Objs}
    \cup (IF Flat THEN {C("extract", X0)} \cup {C(op, [X0 EXCEPT !.xs = xs]) : op \in {"replace", "insert_su_range"}, xs \in AscSeqs}
          ELSE {})
    \cup (IF n = 0
          THEN {C("ctor_default", X0)}
               \cup {C("ctor_range", [X0 EXCEPT !.xs = xs]) : xs \in SeqsUpTo(Min2(MaxCt, cap))}
               \cup (IF Flat
                     THEN {C("ctor_cont", [X0 EXCEPT !.xs = xs]) : xs \in SeqsUpTo(Min2(MaxCt, cap))}
                          \cup {C(op, [X0 EXCEPT !.xs = xs]) : op \in {"ctor_su_cont", "ctor_su_range"}, xs \in AscSeqs}
                     ELSE {})
          ELSE {})

LightSurface(o) ==
    (IF Len(obj[o]) = 0 THEN {C("ctor_range", [X0 EXCEPT !.xs = xs]) : xs \in AscSeqs} ELSE {})
    \cup {C(op, [X0 EXCEPT !.src = Other(o)]) : op \in SwapOps}

\* whole-object copy and move between the two objects: from every pair of values
\* (construction discards the old value: offered on an empty target, from every source value)
CopyMove(o) ==
    {C(op, [X0 EXCEPT !.src = Other(o)]) : op \in {"copy_assign", "move_assign"}}
    \cup (IF Len(obj[o]) = 0 THEN {C(op, [X0 EXCEPT !.src = Other(o)]) : op \in {"ctor_copy", "ctor_move"}} ELSE {})

\* what a moved-from object is asked to accept (the other object is then the freshly moved-to one)
Revive(o) ==
    {C("clear", X0), C("ctor_default", X0)}
    \cup {C(op, [X0 EXCEPT !.src = Other(o)]) : op \in {"copy_assign", "move_assign", "ctor_copy"}}
    \cup (IF Kind = "sset" THEN {C("insert_copy", [X0 EXCEPT !.v = v]) : v \in Univ} ELSE {})

\* flat_multiset has constructors only: object a is constructed, b is a copy / move target and source
MultiSurface(o) ==
    (IF o = "a" /\ Len(obj.a) = 0 /\ Len(obj.b) = 0
     THEN {C("ms_ctor_default", X0)}
          \cup {C("ms_ctor_cont", [X0 EXCEPT !.xs = xs]) : xs \in SeqsUpTo(Min2(MaxCt, cap))}
          \cup {C("ms_ctor_sorted", [X0 EXCEPT !.xs = xs]) : xs \in WeakSeqs}
     ELSE {})
    \cup {C(op, [X0 EXCEPT !.src = Other(o)]) : op \in CopyOps \cup MoveOps}

Calls(o) ==
    IF o \in mv THEN (IF Kind = "fmset" THEN {C(op, [X0 EXCEPT !.src = Other(o)]) : op \in {"copy_assign", "move_assign"}}
                                             \cup {C("ms_ctor_default", X0)}
                      ELSE Revive(o))
    ELSE IF mv # {} THEN {}
    ELSE IF Kind = "fmset" THEN MultiSurface(o)
    ELSE (IF obj[Other(o)] = <<>> THEN FullSurface(o) ELSE LightSurface(o)) \cup CopyMove(o)

Init ==
    /\ cap \in Caps
    /\ cmp \in Cmps
    /\ obj = [a |-> <<>>, b |-> <<>>]
    /\ mv = {}
    /\ last = [op |-> "init", o |-> "a", x |-> X0, pre |-> obj, post |-> obj, ret |-> [i |-> 0, n |-> 0],
               out |-> <<>>, cap |-> cap, cmp |-> cmp, kind |-> Kind, premv |-> {}, postmv |-> {}]

Step(o, c) ==
    /\ Pre(c.op, o, c.x, obj, cap, cmp, Kind, mv)
    /\ LET ef == Eff(c.op, o, c.x, obj, cap, cmp)
           m2 == MvAfter(c.op, o, c.x, mv)
           \* moved-from source modelled as emptied; insert into a moved-from object leaves the placeholder
           st2 == IF c.op \in MoveOps THEN [ef.st EXCEPT ![c.x.src] = <<>>]
                  ELSE IF o \in mv /\ c.op = "insert_copy" THEN obj ELSE ef.st
       IN /\ obj' = st2
          /\ mv' = m2
          /\ last' = [op |-> c.op, o |-> o, x |-> c.x, pre |-> obj, post |-> st2, ret |-> ef.ret,
                      out |-> ef.out, cap |-> cap, cmp |-> cmp, kind |-> Kind, premv |-> mv, postmv |-> m2]
    /\ UNCHANGED <<cap, cmp>>

Next == \E o \in Objs : \E c \in Calls(o) : Step(o, c)

Spec == Init /\ [][Next]_vars

\* GEN: one JSON line per transition
Emit == PrintT(<<"GEN", ToJson(last')>>)

\* ---- what TLC proves about the model (MC role) ----------------------------------------------------
TypeOK == /\ cap \in Caps /\ cmp \in Cmps /\ mv \subseteq Objs
          /\ \A o \in {"a", "b"} : obj[o] \in Seq(Univ)

\* "sets stay sorted and unique" (weakly sorted for the multiset), never above capacity.  Every key set
\* of at most cap elements is reachable (AllReachable below), so invariance over the reachable states
\* is the inductive step under every action of the bounded model.
SortedUnique == StateOK(Kind, cmp, cap, obj)

\* the oracle is coherent: declarative and operational definitions agree on every reachable value
OracleLaws ==
    \A o \in {"a", "b"} :
        LET e == obj[o] IN
        /\ (Kind # "fmset") => (SeqOf(cmp, Elems(e)) = e /\ SortRec(cmp, Elems(e)) = e)
        /\ SortBag(cmp, e) = e /\ SortBag(cmp, Rev(e)) = e /\ SortedPerm(cmp, Rev(e), e)
        /\ \A k \in Univ :
              /\ LB(cmp, e, k) = LBop(cmp, e, k)
              /\ UB(cmp, e, k) = UBop(cmp, e, k)
              /\ UB(cmp, e, k) - LB(cmp, e, k) = Occ(e, k)
              /\ (Kind # "fmset") => FindIdx(cmp, e, k) = (IF Has(cmp, e, k) THEN LB(cmp, e, k) ELSE Len(e))

CapConst == [][cap' = cap /\ cmp' = cmp]_vars

\* inserting a new key into a full set: failure, nothing changes
FullInsert ==
    [][(last'.op \in InsOps /\ last'.o \notin mv /\ FullNew(obj[last'.o], cap, last'.x.v)) => (last'.ret.n = 0 /\ obj' = obj)]_vars

\* (iterator, inserted): inserted <=> the key was absent; afterwards the key is present at the returned offset
InsertLaw ==
    [][(last'.op \in InsOps /\ last'.o \notin mv /\ ~FullNew(obj[last'.o], cap, last'.x.v)) =>
          /\ (last'.ret.n = 1) <=> (last'.x.v \notin Elems(obj[last'.o]))
          /\ obj'[last'.o][last'.ret.i + 1] = last'.x.v
          /\ Elems(obj'[last'.o]) = Elems(obj[last'.o]) \cup {last'.x.v}]_vars

EraseLaw ==
    [][last'.op = "erase_key" =>
          /\ Elems(obj'[last'.o]) = Elems(obj[last'.o]) \ {last'.x.v}
          /\ last'.ret.n = Len(obj[last'.o]) - Len(obj'[last'.o])]_vars

\* an operation on one object never changes the other, unless it is the swap partner
Independence ==
    [][\A o \in {"a", "b"} : (last'.o # o /\ ~(last'.op \in SwapOps \cup MoveOps /\ last'.x.src = o)) => obj'[o] = obj[o]]_vars

\* copies are equal to and independent of their source: the source is untouched by the copy, and (Independence)
\* no later operation on one of them shows in the other; a move transfers the value
CopyMoveLaw ==
    [][/\ last'.op \in CopyOps => (obj'[last'.o] = obj[last'.x.src] /\ obj'[last'.x.src] = obj[last'.x.src])
       /\ last'.op \in MoveOps => (obj'[last'.o] = obj[last'.x.src] /\ last'.x.src \in mv' /\ last'.o \notin mv')]_vars

\* erase_if removes exactly the keys satisfying the predicate and returns how many
EraseIfLaw ==
    [][last'.op \in EraseIfOps =>
          /\ Elems(obj'[last'.o]) = {v \in Elems(obj[last'.o]) : ~EraseIfPred(last'.op, last'.x, v)}
          /\ last'.ret.n = Len(obj[last'.o]) - Len(obj'[last'.o])]_vars

\* the relational operators form a strict total order on iteration sequences consistent with ==
OrderLaws ==
    LET a == obj.a b == obj.b IN
    /\ (LexLess(a, b) \/ LexLess(b, a) \/ a = b)
    /\ ~(LexLess(a, b) /\ LexLess(b, a))
    /\ (a = b => ~LexLess(a, b))

\* flat_multiset(container): weakly ascending, same elements
MultisetLaw ==
    [][last'.op = "ms_ctor_cont" => SortedPerm(cmp, last'.x.xs, obj'[last'.o])]_vars

\* extract hands out exactly the old contents and leaves the set empty; replace installs the container
ExtractReplace ==
    [][/\ last'.op = "extract" => (last'.out = obj[last'.o] /\ obj'[last'.o] = <<>>)
       /\ last'.op = "replace" => obj'[last'.o] = last'.x.xs]_vars
=========================================================================
