SPECIFICATION Spec
CONSTANTS
  MaxLenAll = 5
  MaxLenFew = 3
INVARIANTS Laws EmitInv
CHECK_DEADLOCK FALSE
