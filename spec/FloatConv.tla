---------------------------- MODULE FloatConv ----------------------------
(* Enumerates every text up to MaxLen over an alphabet of digits, point, sign, space, exponent letter and a letter      *)
(* that is never part of a number, and exports it (GEN). MC role: the domain is what it claims to be.                    *)
EXTENDS FloatConvOps, TLC, Json
CONSTANTS MaxLen
Alphabet == {32, 48, 49, 57, 46, 45, 43, 101, 120}   \* ' ' '0' '1' '9' '.' '-' '+' 'e' 'x'
VARIABLE text
Texts == UNION {[1..k -> Alphabet] : k \in 0..MaxLen}
Init == text \in Texts
Next == UNCHANGED text
Spec == Init /\ [][Next]_text
EmitInv == PrintT(<<"GEN", ToJson([text |-> text, len |-> Len(text)])>>)
TypeOK == Len(text) <= MaxLen /\ \A i \in 1..Len(text) : text[i] \in Alphabet
==========================================================================
