--------------------------- MODULE AlgoTrace ---------------------------
(* Trace validation for the algorithm family.  Every event recorded from the real templates         *)
(*   [op, inst, a, b, m, v, c, oa, ob, od, oc, r, p, cz] (+ optional flags sm, hang)                  *)
(* is judged by Post / PredOK of AlgoOps (kinds "post", "pred-range", "canary", "selfmove"; "stable-doc" for an *)
(* algorithm whose own documentation promises stability).  Deviations are printed as DEV lines, not   *)
(* fatal ("hang" / "crash": the call did not return within the watchdog's CPU budget / raised a     *)
(* fault signal; the driver abandons that group and goes on).  Independently the                     *)
(* validator checks that the driver covered the input domain of AlgoDom exactly: events              *)
(* of one (op, inst) group are contiguous, every input lies in the domain,    *)
(* keys strictly increase (no input twice) and the group has DomSize(op) events - otherwise a         *)
(* "harness-*" deviation, which tools/vlib.py turns into a model failure, never a verdict.            *)
EXTENDS AlgoDom, Json, IOUtils, TLC

Tr == ndJsonDeserialize(IOEnv.TRACE)

VARIABLES l, nbad, gs, done
\* gs = index of the first event of the current (op, inst) group, done = groups already closed

DocStableOps == {"bubble_sort"}    \* "The order of equal elements is guaranteed to be preserved."

Out(ev) == [oa |-> ev.oa, ob |-> ev.ob, od |-> ev.od, oc |-> ev.oc, r |-> ev.r]

\* a trace that starts with a "#replay" marker re-executes single recorded cases (check.py --replay):
\* the events are judged as always, the coverage bookkeeping is switched off
Replay == Tr[1].op = "#replay"

Judge(ev) ==
    IF ev.op \in {"#end", "#replay"} THEN "ok"
    \* written by tools/pipes/algo.py when the driver process itself died inside a group (a call damaged the
    \* process beyond the driver's own fault containment): the group is abandoned like one that ended in a hang
    ELSE IF ev.op = "#died" THEN "crash"
    ELSE IF ev.op \notin AllOps THEN "harness-op"
    ELSE IF ~InDom(ev.op, ev) THEN "harness-domain"
    ELSE IF "hang" \in DOMAIN ev THEN (IF ev.hang = 2 THEN "crash" ELSE "hang")   \* the call did not return / faulted
    \* the element type's move assignment is self-hostile (x = move(x) leaves x moved-from, as a real handle
    \* type would) and the driver flags such a call; no std algorithm self-move-assigns (calibrated)
    ELSE IF "sm" \in DOMAIN ev THEN "selfmove"
    ELSE IF ~Post(ev.op, ev, Out(ev)) THEN "post"
    ELSE IF ~PredOK(ev, ev.p) THEN "pred-range"
    ELSE IF ev.cz # 1 THEN "canary"
    ELSE IF ev.op \in DocStableOps /\ ~StableSorted(ev.oa, ev.a, ev.c) THEN "stable-doc"
    ELSE "ok"

Expected(ev) == IF ev.op \in AllOps /\ InDom(ev.op, ev) THEN ToJson(Ref(ev.op, ev)) ELSE "-"

\* coverage bookkeeping: does event l continue the current group?
SameGroup == l > 1 /\ Tr[l].op = Tr[l - 1].op /\ Tr[l].inst = Tr[l - 1].inst
GroupVerdict ==
    IF Replay THEN "ok"
    ELSE IF SameGroup
    THEN IF Tr[l].op = "#end" \/ KeyLess(KeyOf(Tr[l - 1]), KeyOf(Tr[l])) THEN "ok" ELSE "harness-order"
    ELSE IF l > 1 /\ Tr[l].op # "#died" /\ Tr[l - 1].op \in AllOps /\ "hang" \notin DOMAIN Tr[l - 1] /\ l - gs # DomSize(Tr[l - 1].op)
         THEN "harness-coverage"               \* (a group that ended in a hang is abandoned, not miscounted)
    ELSE IF <<Tr[l].op, Tr[l].inst>> \in done THEN "harness-regroup"
    ELSE "ok"

Init == l = 1 /\ nbad = 0 /\ gs = 1 /\ done = {}

Next ==
    /\ l <= Len(Tr)
    /\ l' = l + 1
    /\ IF SameGroup THEN UNCHANGED <<gs, done>>
       ELSE gs' = l /\ done' = IF l > 1 THEN done \cup {<<Tr[l - 1].op, Tr[l - 1].inst>>} ELSE done
    /\ LET v == Judge(Tr[l])
           g == GroupVerdict
           e == IF l = Len(Tr) /\ Tr[l].op # "#end" THEN "harness-noend" ELSE "ok" IN
       /\ nbad' = nbad + (IF v = "ok" THEN 0 ELSE 1) + (IF g = "ok" THEN 0 ELSE 1) + (IF e = "ok" THEN 0 ELSE 1)
       /\ (v = "ok" \/ PrintT(<<"DEV", l, v, Expected(Tr[l])>>))
       /\ (g = "ok" \/ PrintT(<<"DEV", l, g, ToJson([op |-> Tr[l - 1].op, inst |-> Tr[l - 1].inst, cnt |-> l - gs])>>))
       /\ (e = "ok" \/ PrintT(<<"DEV", l, e, "-">>))

Spec == Init /\ [][Next]_<<l, nbad, gs, done>>
Consumed == TLCGet("stats").diameter - 1 = Len(Tr)
==========================================================================
