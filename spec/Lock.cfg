SPECIFICATION Spec
CONSTANTS
  NM = 2
  Names = {"a", "b"}
  Durs = {7}
VIEW View
ACTION_CONSTRAINT Emit
INVARIANTS TypeOK WellFormed Ownership HeldDerivable NothingLeftLocked
PROPERTIES CallBalance UnlockByOwner SilentDtor MoveTransfers SwapLaw ErrorsInert ObserversPure
CHECK_DEADLOCK FALSE
