SPECIFICATION Spec
CONSTANTS
  Caps = {0, 1, 2, 3}
  Alphabet = {0, 97, 200}
  MaxXs = 3
VIEW View
ACTION_CONSTRAINT Emit
INVARIANTS TypeOK CapInv CStrInv Laws EmitQ
PROPERTIES CapConst Independence FamilyLaws
CHECK_DEADLOCK FALSE
