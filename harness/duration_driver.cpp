// Conformance driver for chrono::duration / chrono::time_point arithmetic (property C12).
// Reads the inputs exported by spec/Duration.tla ({fam, i, j, c, [c2|k], ok:[...]}: period indices into the
// table below, counts as wide integers {s, m:[limbs base 2^15]}, and the list of (operation,
// representation) combinations TLC SELECTED because their exact result is representable and the
// arithmetic the standard prescribes does not overflow), executes exactly those on the real templates and
// prints one ndjson event per call.  No oracle, no expected values, no comparison in here;
// spec/DurationTrace.tla judges the events with the operators of spec/DurationOps.tla.
//
// One binary handles one left/source period index: -DVH_PI=<1..10> (keeps the number of template
// instantiations per translation unit small).  -DVH_STD builds the same calls on libstdc++ (calibration).
// -DVP_HAVE_<X>: compile probes for operations whose body may not instantiate (tools/pipes/duration.py).
#include "common.hpp"

#include <cmath>
#include <cstdarg>
#include <set>
#include <string>
#include <type_traits>
#include <utility>

#ifdef VH_STD
    #include <chrono>
    #include <ratio>
namespace ch  = std::chrono;
namespace lib = std;
#else
    #include <etl/chrono.hpp>
    #include <etl/ratio.hpp>
    #include <etl/type_traits.hpp>
namespace ch  = etl::chrono;
namespace lib = etl;
#endif

#ifndef VH_PI
    #define VH_PI 4
#endif

using vh::json;
using i128 = __int128;

namespace {

#include "duration_periods.hpp"

// pairs of periods whose common_type does not even instantiate (measured by compile probes)
#ifdef VP_PAIRS_HEADER
    #include VP_PAIRS_HEADER
#else
template <int I, int J>
inline constexpr bool vp_pair_ok = true;
#endif

struct I64 {
    using type                   = std::int64_t;
    static constexpr char const* name = "i64";
};
struct I32 {
    using type                   = std::int32_t;
    static constexpr char const* name = "i32";
};
struct F64 {
    using type                   = double;
    static constexpr char const* name = "f64";
};

using Clock = ch::system_clock;

// ---- output ---------------------------------------------------------------------------------------
std::string g_out;
std::set<std::string> g_unsupported;
void flush_out()
{
    std::fwrite(g_out.data(), 1, g_out.size(), stdout);
    std::fflush(stdout);
    g_out.clear();
}
void line(std::string const& s)
{
    g_out += s;
    g_out.push_back('\n');
    if (g_out.size() > (1u << 20)) { flush_out(); }
}
void unsupported(std::string const& what)
{
    if (g_unsupported.insert(what).second) { std::fprintf(stderr, "UNSUPPORTED %s\n", what.c_str()); }
}

std::string wide(i128 v)
{
    if (v == 0) { return R"({"s":0,"m":[]})"; }
    bool neg = v < 0;
    unsigned __int128 u = neg ? (unsigned __int128)(-(v + 1)) + 1 : (unsigned __int128)v;
    std::string s = neg ? R"({"s":-1,"m":[)" : R"({"s":1,"m":[)";
    bool first    = true;
    while (u != 0) {
        if (!first) { s += ","; }
        s += std::to_string((unsigned)(u & 0x7FFF));
        u >>= 15;
        first = false;
    }
    return s + "]}";
}
i128 unwide(json const& j)
{
    i128 v = 0;
    auto const& m = j["m"];
    for (size_t k = m.size(); k-- > 0;) { v = (v << 15) + (i128)m[k].get<long>(); }
    return j["s"].get<int>() < 0 ? -v : v;
}

// a value: integers exactly; a double as w / 2^e with the smallest e >= 0 (e = -1: not such a number)
template <typename T>
std::string val(T x)
{
    if constexpr (std::is_floating_point_v<T>) {
        if (!std::isfinite(x)) { return R"({"w":{"s":0,"m":[]},"e":-1})"; }
        double y = x;
        for (int e = 0; e <= 60; ++e) {
            if (std::fabs(y) >= 9.2e18) { break; }
            if (y == std::floor(y)) { return R"({"w":)" + wide((i128)(long long)y) + R"(,"e":)" + std::to_string(e) + "}"; }
            y *= 2.0;
        }
        return R"({"w":{"s":0,"m":[]},"e":-1})";
    } else {
        return R"({"w":)" + wide((i128)x) + R"(,"e":0})";
    }
}

std::string head(char const* op, char const* on) { return std::string(R"({"op":")") + op + R"(","on":")" + on + "\""; }
std::string kv(char const* k, std::string const& v) { return std::string(",\"") + k + "\":" + v; }
std::string ks(char const* k, char const* v) { return std::string(",\"") + k + "\":\"" + v + "\""; }
std::string ki(char const* k, long v) { return std::string(",\"") + k + "\":" + std::to_string(v); }

// event formatting lives outside the templates (keeps the per-instantiation code small)
void emit_unary(char const* op, char const* on, int i, int j, char const* rf, char const* rt, i128 c, int ce, std::string const& ret)
{
    line(head(op, on) + ki("i", i) + ki("j", j) + ks("rf", rf) + ks("rt", rt) + kv("c", wide(c)) + ki("ce", ce) + kv("ret", ret) + "}");
}
void emit_binary(char const* on, char const* sp, int i, int j, char const* r1, char const* r2, i128 c1, i128 c2, std::string const& rest)
{
    line(head("bin", on) + ks("s", sp) + ki("i", i) + ki("j", j) + ks("r1", r1) + ks("r2", r2) + kv("c", wide(c1)) + kv("c2", wide(c2)) + rest + "}");
}
void emit_member(char const* on, char const* sp, int i, char const* r, i128 c, long k, std::string const& rest)
{
    line(head("member", on) + ks("s", sp) + ki("i", i) + ks("r", r) + kv("c", wide(c)) + ki("k", k) + rest + "}");
}

// floor / ceil / round (need common_type<To, From>)
// the source count is c / 2^ce; ce > 0 (a fractional count) is only ever selected for a floating-point source
template <typename T>
T count_of(i128 c, int ce)
{
    if constexpr (std::is_floating_point_v<T>) {
        return static_cast<T>(c) / static_cast<T>(1 << ce);
    } else {
        if (ce != 0) {
            std::fprintf(stderr, "fractional count selected for an integer representation\n");
            std::exit(2);
        }
        return static_cast<T>(c);
    }
}

template <int I, int J, typename RF, typename RT>
void rounding(std::string const& op, i128 c, int ce)
{
    using From = ch::duration<typename RF::type, P<I>>;
    using To   = ch::duration<typename RT::type, P<J>>;
    auto const d  = From{count_of<typename RF::type>(c, ce)};
    auto const tp = ch::time_point<Clock, From>{d};
    constexpr bool with_tp = std::is_same_v<RF, I64> and std::is_same_v<RT, I64>;
    auto ev = [&](char const* on, std::string const& ret) {
        emit_unary(op.c_str(), on, I, J, RF::name, RT::name, c, ce, ret);
    };
    if (op == "floor") {
        ev("dur", val(ch::floor<To>(d).count()));
        if constexpr (with_tp) { ev("tp", val(ch::floor<To>(tp).time_since_epoch().count())); }
    } else if (op == "ceil") {
        ev("dur", val(ch::ceil<To>(d).count()));
        if constexpr (with_tp) { ev("tp", val(ch::ceil<To>(tp).time_since_epoch().count())); }
    } else if (op == "round") {
        if constexpr (std::is_integral_v<typename RT::type>) {
            ev("dur", val(ch::round<To>(d).count()));
            if constexpr (with_tp) { ev("tp", val(ch::round<To>(tp).time_since_epoch().count())); }
        }
    }
}

// ---- one duration -> another period / representation ------------------------------------------------
template <int I, int J, typename RF, typename RT>
void unary(std::string const& op, i128 c, int ce)
{
    using From = ch::duration<typename RF::type, P<I>>;
    using To   = ch::duration<typename RT::type, P<J>>;
    auto const d  = From{count_of<typename RF::type>(c, ce)};
    auto const tp = ch::time_point<Clock, From>{d};
    // the time_point spellings forward to the duration ones: driven for the int64 -> int64 combination only
    constexpr bool with_tp = std::is_same_v<RF, I64> and std::is_same_v<RT, I64>;
    auto ev = [&](char const* on, std::string const& ret) {
        emit_unary(op.c_str(), on, I, J, RF::name, RT::name, c, ce, ret);
    };
    if (op == "cast") {
        ev("dur", val(ch::duration_cast<To>(d).count()));
#if defined(VH_STD) || defined(VP_HAVE_TP_CAST)
        if constexpr (with_tp) { ev("tp", val(ch::time_point_cast<To>(tp).time_since_epoch().count())); }
#else
        unsupported("time_point_cast (does not compile: returns ToDuration instead of time_point)");
#endif
    } else if (op == "floor" or op == "ceil" or op == "round") {
        if constexpr (vp_pair_ok<I, J>) {
            rounding<I, J, RF, RT>(op, c, ce);
        } else {
            unsupported("floor/ceil/round and every two-duration operator between periods " + std::to_string(I) + " and " + std::to_string(J)
                        + " (their common_type does not instantiate: etl::lcm overflows)");
        }
    } else if (op == "conv") {
        if constexpr (std::is_convertible_v<From, To>) {
            To t = d;
            ev("dur", val(t.count()));
#if defined(VH_STD) || defined(VP_HAVE_TP_CONV)
            if constexpr (with_tp) {
                ch::time_point<Clock, To> t2 = tp;
                ev("tp", val(t2.time_since_epoch().count()));
            }
#else
            unsupported("time_point converting constructor (does not compile: calls time_since_epch())");
#endif
        } else {
            unsupported(std::string("conv selected by the model but not convertible: ") + std::to_string(I) + "->" + std::to_string(J) + " "
                        + RF::name + "->" + RT::name);
            line(head("conv_missing", "dur") + ki("i", I) + ki("j", J) + ks("rf", RF::name) + ks("rt", RT::name) + "}");
        }
    }
}

// ---- two durations -----------------------------------------------------------------------------------
template <typename A, typename B>
std::string cmpvec(A const& a, B const& b)
{
    return std::string("[") + (a == b ? "1" : "0") + "," + (a != b ? "1" : "0") + "," + (a < b ? "1" : "0") + "," + (a <= b ? "1" : "0")
         + "," + (a > b ? "1" : "0") + "," + (a >= b ? "1" : "0") + "]";
}

template <int I, int J, typename R1, typename R2>
void binary_impl(std::string const& s, i128 c1, i128 c2);

template <int I, int J, typename R1, typename R2>
void binary(std::string const& s, i128 c1, i128 c2)
{
    if constexpr (vp_pair_ok<I, J>) {
        binary_impl<I, J, R1, R2>(s, c1, c2);
    } else {
        unsupported("floor/ceil/round and every two-duration operator between periods " + std::to_string(I) + " and " + std::to_string(J)
                    + " (their common_type does not instantiate: etl::lcm overflows)");
    }
}

template <int I, int J, typename R1, typename R2>
void binary_impl(std::string const& s, i128 c1, i128 c2)
{
    using D1 = ch::duration<typename R1::type, P<I>>;
    using D2 = ch::duration<typename R2::type, P<J>>;
    using CD = lib::common_type_t<D1, D2>;
    using T1 = ch::time_point<Clock, D1>;
    using T2 = ch::time_point<Clock, D2>;
    auto const a = D1{static_cast<typename R1::type>(c1)};
    auto const b = D2{static_cast<typename R2::type>(c2)};
    auto const ta = T1{a};
    auto const tb = T2{b};
    constexpr bool with_tp = std::is_same_v<R1, I64> and std::is_same_v<R2, I64>;
    auto ev = [&](char const* on, char const* sp, std::string const& rest) {
        if (on[0] == 't' and not with_tp) { return; }
        emit_binary(on, sp, I, J, R1::name, R2::name, c1, c2, rest);
    };
    if (s == "plus") {
        ev("dur", "plus", kv("ret", val((a + b).count())));
        // the operators must exist with the RESULT TYPE of [time.point.nonmember]: in etl `sys_days + days` would otherwise
        // resolve through the implicit sys_days -> weekday conversion (outside C12, and it overflows near 2^31)
        if constexpr (with_tp and requires {
                          requires std::is_same_v<decltype(ta + b), ch::time_point<Clock, CD>>;
                          requires std::is_same_v<decltype(a + tb), ch::time_point<Clock, CD>>;
                      }) {
            ev("tp", "plus", kv("ret", val((ta + b).time_since_epoch().count())));
            ev("tp", "rplus", kv("ret", val((a + tb).time_since_epoch().count())));
        } else if constexpr (with_tp) {
            unsupported("time_point + duration, duration + time_point (no such operators)");
        }
    } else if (s == "minus") {
        ev("dur", "minus", kv("ret", val((a - b).count())));
        if constexpr (with_tp and requires { requires std::is_same_v<decltype(ta - b), ch::time_point<Clock, CD>>; }) {
            ev("tp", "minus", kv("ret", val((ta - b).time_since_epoch().count())));
        } else if constexpr (with_tp) {
            unsupported("time_point - duration (no such operator)");
        }
        if constexpr (with_tp and requires { requires std::is_same_v<decltype(ta - tb), CD>; }) {
            ev("tp", "diff", kv("ret", val((ta - tb).count())));
        } else if constexpr (with_tp) {
            unsupported("time_point - time_point (no such operator)");
        }
    } else if (s == "mod") {
        if constexpr (std::is_integral_v<typename CD::rep>) { ev("dur", "mod", kv("ret", val((a % b).count())) + kv("q", val(a / b))); }
    } else if (s == "div") {
        ev("dur", "div", kv("ret", val(a / b)));
    } else if (s == "cmp") {
        ev("dur", "cmp", kv("ret", cmpvec(a, b)));
        if constexpr (with_tp) { ev("tp", "cmp", kv("ret", cmpvec(ta, tb))); }
    } else if (s == "common") {
        ev("dur", "common", kv("ret", "[" + val(CD(a).count()) + "," + val(CD(b).count()) + "]") + kv("pn", wide((i128)CD::period::num))
                                + kv("pd", wide((i128)CD::period::den)) + ks("cr", std::is_same_v<typename CD::rep, double> ? "f64"
                                                                                   : sizeof(typename CD::rep) == 8          ? "i64"
                                                                                                                             : "i32"));
    }
}

// ---- one duration and a scalar ---------------------------------------------------------------------------
template <int I, typename R>
void member(std::string const& s, i128 c, long k)
{
    using T  = typename R::type;
    using D  = ch::duration<T, P<I>>;
    using TP = ch::time_point<Clock, D>;
    auto const d0 = D{static_cast<T>(c)};
    auto const kk = static_cast<T>(k);
    auto ev = [&](char const* on, std::string const& rest) {
        if (on[0] == 't' and not std::is_same_v<R, I64>) { return; }
        emit_member(on, s.c_str(), I, R::name, c, k, rest);
    };
    auto mut = [&](auto f) { // f mutates an object and returns the value of the expression
        D o       = d0;
        auto rv   = f(o);
        ev("dur", kv("ret", rv) + kv("obj", val(o.count())));
    };
    constexpr bool with_tp = std::is_same_v<R, I64>;
    auto mut_tp = [&](auto f) {
        if (not with_tp) { return; }
        TP o    = TP{d0};
        auto rv = f(o);
        ev("tp", kv("ret", rv) + kv("obj", val(o.time_since_epoch().count())));
    };
    if (s == "neg") {
        ev("dur", kv("ret", val((-d0).count())));
    } else if (s == "pos") {
        ev("dur", kv("ret", val((+d0).count())));
    } else if (s == "count") {
        ev("dur", kv("ret", val(d0.count())));
        ev("tp", kv("ret", val(TP{d0}.time_since_epoch().count())));
    } else if (s == "zero") {
        ev("dur", kv("ret", val(D::zero().count())));
        ev("tp", kv("ret", val(TP{}.time_since_epoch().count())));
    } else if (s == "abs") {
        ev("dur", kv("ret", val(ch::abs(d0).count())));
    } else if (s == "preinc") {
        mut([](D& o) { return val((++o).count()); });
        if constexpr (requires(TP t) { ++t; }) { mut_tp([](TP& o) { return val((++o).time_since_epoch().count()); }); }
    } else if (s == "postinc") {
        mut([](D& o) { return val((o++).count()); });
        if constexpr (requires(TP t) { t++; }) { mut_tp([](TP& o) { return val((o++).time_since_epoch().count()); }); }
    } else if (s == "predec") {
        mut([](D& o) { return val((--o).count()); });
        if constexpr (requires(TP t) { --t; }) { mut_tp([](TP& o) { return val((--o).time_since_epoch().count()); }); }
    } else if (s == "postdec") {
        mut([](D& o) { return val((o--).count()); });
        if constexpr (requires(TP t) { t--; }) { mut_tp([](TP& o) { return val((o--).time_since_epoch().count()); }); }
    } else if (s == "pluseq") {
        mut([&](D& o) { return val((o += D{kk}).count()); });
        mut_tp([&](TP& o) { return val((o += D{kk}).time_since_epoch().count()); });
    } else if (s == "minuseq") {
        mut([&](D& o) { return val((o -= D{kk}).count()); });
        mut_tp([&](TP& o) { return val((o -= D{kk}).time_since_epoch().count()); });
    } else if (s == "muleq") {
        mut([&](D& o) { return val((o *= kk).count()); });
    } else if (s == "diveq") {
        mut([&](D& o) { return val((o /= kk).count()); });
    } else if (s == "modeq") {
        if constexpr (std::is_integral_v<T>) { mut([&](D& o) { return val((o %= kk).count()); }); }
    } else if (s == "modeq_d") {
        if constexpr (std::is_integral_v<T>) { mut([&](D& o) { return val((o %= D{kk}).count()); }); }
    } else if (s == "mul") {
        if constexpr (requires { d0 * kk; }) {
            ev("dur", kv("ret", val((d0 * kk).count())));
        } else {
            unsupported("duration * rep (no such operator)");
        }
    } else if (s == "rmul") {
        if constexpr (requires { kk * d0; }) {
            ev("dur", kv("ret", val((kk * d0).count())));
        } else {
            unsupported("rep * duration (no such operator)");
        }
    } else if (s == "divs") {
        if constexpr (requires { d0 / kk; }) {
            ev("dur", kv("ret", val((d0 / kk).count())));
        } else {
            unsupported("duration / rep (no such operator)");
        }
    } else if (s == "mods") {
        if constexpr (std::is_integral_v<T>) {
            if constexpr (requires { d0 % kk; }) {
                ev("dur", kv("ret", val((d0 % kk).count())));
            } else {
                unsupported("duration % rep (no such operator)");
            }
        }
    }
}

// ---- static facts ----------------------------------------------------------------------------------------
template <typename D>
void typedef_event(char const* name)
{
    line(head("typedef", "dur") + ks("name", name) + kv("num", wide((i128)D::period::num)) + kv("den", wide((i128)D::period::den))
         + ki("bits", (long)sizeof(typename D::rep) * 8) + kv("sint", (std::is_integral_v<typename D::rep> and std::is_signed_v<typename D::rep>) ? "true" : "false") + "}");
}

template <int I, int J, typename RF, typename RT>
void conv_ok()
{
    using From = ch::duration<typename RF::type, P<I>>;
    using To   = ch::duration<typename RT::type, P<J>>;
    line(head("conv_ok", "dur") + ki("i", I) + ki("j", J) + ks("rf", RF::name) + ks("rt", RT::name)
         + kv("ret", std::is_convertible_v<From, To> ? "true" : "false") + "}");
}

// a limit value as m * 2^x: integers exactly (x = 0), a double with odd mantissa m
template <typename T>
std::string lim(T v)
{
    if constexpr (std::is_floating_point_v<T>) {
        if (v == 0) { return R"({"m":{"s":0,"m":[]},"x":0})"; }
        if (!std::isfinite(v)) { return R"({"m":{"s":0,"m":[]},"x":-99999})"; }
        int e    = 0;
        double f = std::frexp(static_cast<double>(v), &e); // v = f * 2^e, 0.5 <= |f| < 1
        auto m   = static_cast<long long>(std::ldexp(f, 53));
        e -= 53;
        while (m % 2 == 0) {
            m /= 2;
            ++e;
        }
        return R"({"m":)" + wide((i128)m) + R"(,"x":)" + std::to_string(e) + "}";
    } else {
        return R"({"m":)" + wide((i128)v) + R"(,"x":0})";
    }
}

// duration::zero()/min()/max() and time_point::min()/max()
template <int I, typename R>
void limits()
{
    using T  = typename R::type;
    using D  = ch::duration<T, P<I>>;
    using TP = ch::time_point<Clock, D>;
    auto b = [](bool x) { return x ? "1" : "0"; };
    std::string nm;
    if constexpr (std::is_floating_point_v<T>) { nm = kv("nm", (-D::max()).count() == D::min().count() ? "true" : "false"); }
    line(head("limits", "dur") + ki("i", I) + ks("r", R::name) + kv("zero", lim(D::zero().count())) + kv("min", lim(D::min().count()))
         + kv("max", lim(D::max().count()))
         + kv("rel", std::string("[") + b(D::min() <= D::zero()) + "," + b(D::zero() <= D::max()) + "," + b(D::min() < D::max()) + "]") + nm + "}");
    std::string nmt;
    if constexpr (std::is_floating_point_v<T>) {
        nmt = kv("nm", (-TP::max().time_since_epoch()).count() == TP::min().time_since_epoch().count() ? "true" : "false");
    }
    line(head("limits", "tp") + ki("i", I) + ks("r", R::name) + kv("zero", lim(TP{}.time_since_epoch().count()))
         + kv("min", lim(TP::min().time_since_epoch().count())) + kv("max", lim(TP::max().time_since_epoch().count()))
         + kv("rel", std::string("[") + b(TP::min() <= TP{}) + "," + b(TP{} <= TP::max()) + "," + b(TP::min() < TP::max()) + "]") + nmt + "}");
}

template <int I, int J>
void statics_pair()
{
    conv_ok<I, J, I64, I64>();
    conv_ok<I, J, F64, F64>();
    conv_ok<I, J, I64, F64>();
    conv_ok<I, J, F64, I64>();
    conv_ok<I, J, I32, I32>();
    conv_ok<I, J, I32, I64>();
}

template <int I, int... Js>
void statics(std::integer_sequence<int, Js...>)
{
    line(head("period", "dur") + ki("i", I) + kv("num", wide((i128)P<I>::num)) + kv("den", wide((i128)P<I>::den)) + "}");
    (statics_pair<I, Js + 1>(), ...);
    limits<I, I64>();
    limits<I, I32>();
    limits<I, F64>();
    typedef_event<ch::nanoseconds>("nanoseconds");
    typedef_event<ch::microseconds>("microseconds");
    typedef_event<ch::milliseconds>("milliseconds");
    typedef_event<ch::seconds>("seconds");
    typedef_event<ch::minutes>("minutes");
    typedef_event<ch::hours>("hours");
    typedef_event<ch::days>("days");
    typedef_event<ch::weeks>("weeks");
    typedef_event<ch::months>("months");
    typedef_event<ch::years>("years");
}

// ---- dispatch: runtime (j, reps) -> compile-time --------------------------------------------------------
template <int I, int J>
void unary_j(std::string const& op, std::string const& rf, std::string const& rt, i128 c, int ce)
{
    if (rf == "i64" and rt == "i64") { return unary<I, J, I64, I64>(op, c, ce); }
    if (rf == "f64" and rt == "f64") { return unary<I, J, F64, F64>(op, c, ce); }
    if (rf == "i64" and rt == "f64") { return unary<I, J, I64, F64>(op, c, ce); }
    if (rf == "f64" and rt == "i64") { return unary<I, J, F64, I64>(op, c, ce); }
    if (rf == "i32" and rt == "i32") { return unary<I, J, I32, I32>(op, c, ce); }
    if (rf == "i32" and rt == "i64") { return unary<I, J, I32, I64>(op, c, ce); }
    std::fprintf(stderr, "unknown rep combination %s %s\n", rf.c_str(), rt.c_str());
    std::exit(2);
}
template <int I, int J>
void binary_j(std::string const& s, std::string const& r1, std::string const& r2, i128 c1, i128 c2)
{
    if (r1 == "i64" and r2 == "i64") { return binary<I, J, I64, I64>(s, c1, c2); }
    if (r1 == "f64" and r2 == "f64") { return binary<I, J, F64, F64>(s, c1, c2); }
    if (r1 == "i64" and r2 == "f64") { return binary<I, J, I64, F64>(s, c1, c2); }
    if (r1 == "i32" and r2 == "i64") { return binary<I, J, I32, I64>(s, c1, c2); }
    if (r1 == "i32" and r2 == "i32") { return binary<I, J, I32, I32>(s, c1, c2); }
    std::fprintf(stderr, "unknown rep combination %s %s\n", r1.c_str(), r2.c_str());
    std::exit(2);
}

// the numbered (operation, representations) tables, exported by TLC with the "static" input
std::vector<std::vector<std::string>> g_utable, g_btable, g_mtable;
void load_table(json const& j, std::vector<std::vector<std::string>>& t)
{
    t.clear();
    for (auto const& row : j) {
        std::vector<std::string> r;
        for (auto const& e : row) { r.push_back(e.get<std::string>()); }
        t.push_back(r);
    }
}
std::vector<std::string> const& row_of(std::vector<std::vector<std::string>> const& t, json const& n)
{
    size_t k = n.get<size_t>();
    if (k < 1 or k > t.size()) {
        std::fprintf(stderr, "combination number %zu outside the table (static input missing?)\n", k);
        std::exit(2);
    }
    return t[k - 1];
}

template <int I, int... Js>
void dispatch(json const& in, std::integer_sequence<int, Js...> seq)
{
    std::string fam = in["fam"];
    if (fam == "static") {
        load_table(in["utable"], g_utable);
        load_table(in["btable"], g_btable);
        load_table(in["mtable"], g_mtable);
        return statics<I>(seq);
    }
    if (in["i"].get<int>() != I) {
        std::fprintf(stderr, "input for period index %d given to the driver built for %d\n", in["i"].get<int>(), I);
        std::exit(2);
    }
    i128 c = unwide(in["c"]);
    if (fam == "u") {
        int j  = in["j"];
        int ce = in["ce"];
        for (auto const& n : in["ok"]) {
            auto const& t  = row_of(g_utable, n);
            std::string op = t[0], rf = t[1], rt = t[2];
            ((j == Js + 1 ? unary_j<I, Js + 1>(op, rf, rt, c, ce) : void()), ...);
        }
    } else if (fam == "b") {
        int j   = in["j"];
        i128 c2 = unwide(in["c2"]);
        for (auto const& n : in["ok"]) {
            auto const& t = row_of(g_btable, n);
            std::string s = t[0], r1 = t[1], r2 = t[2];
            ((j == Js + 1 ? binary_j<I, Js + 1>(s, r1, r2, c, c2) : void()), ...);
        }
    } else if (fam == "m") {
        long k = in["k"];
        for (auto const& n : in["ok"]) {
            auto const& t = row_of(g_mtable, n);
            std::string s = t[0], r = t[1];
            if (r == "i64") {
                member<I, I64>(s, c, k);
            } else if (r == "i32") {
                member<I, I32>(s, c, k);
            } else {
                member<I, F64>(s, c, k);
            }
        }
    } else {
        std::fprintf(stderr, "unknown family %s\n", fam.c_str());
        std::exit(2);
    }
}

} // namespace

int main(int argc, char** argv)
{
    if (argc < 2) {
        std::fprintf(stderr, "usage: duration_driver <inputs.ndjson>   (built for period index %d)\n", VH_PI);
        return 2;
    }
    bool const flush_each = std::getenv("VH_DOMAIN_ONLY") != nullptr; // sanitizer runs: a stop loses no completed call
    for (auto const& in : vh::read_ndjson(argv[1])) {
        dispatch<VH_PI>(in, std::make_integer_sequence<int, NP>{});
        if (flush_each) { flush_out(); }
    }
    flush_out();
    return 0;
}
