----------------------------- MODULE MemTrace -----------------------------
(* Trace validation for the memory helpers: every event (the case exported by Mem.tla echoed back plus what the  *)
(* real template did) is judged by the operators of MemOps / LifeOps.  Several deviation kinds per event.          *)
EXTENDS MemOps, LifeOps, Json, IOUtils, TLC

Tr == ndJsonDeserialize(IOEnv.TRACE)

VARIABLES l, nbad

\* uninitialized_* / destroy*: region 1 = source range, region 2 = destination range (both start dead beyond src)
UnLife(ev, ef) ==
    LET owners0 == <<[r |-> 1, els |-> ev.x.src], [r |-> 2, els |-> <<>>]>>
        owners1 == <<[r |-> 1, els |-> ef.src], [r |-> 2, els |-> ef.dst]>>
        f0 == InitCells(owners0, ev.life.ext)
        run == LRun(f0, ev.life.evs, 1)
    IN IF run.bad # 0 THEN <<"life-protocol">>
       ELSE IF ~FinalOK(run.f, owners1, {ev.life.extend[j] : j \in 1..Len(ev.life.extend)}) THEN <<"life-final">>
       ELSE <<>>

JudgeAlign(ev) ==
    IF ev.basemod # 0 \/ ~AlignPre(ev.al, ev.size, ev.off, ev.space) THEN <<"harness-pre">>
    ELSE LET ef == AlignEff(ev.al, ev.size, ev.off, ev.space) IN
         (IF ev.ret = ef.ret THEN <<>> ELSE <<"align-ret">>)
         \o (IF ev.ptr = ef.ptr THEN <<>> ELSE <<"align-ptr">>)
         \o (IF ev.space_after = ef.space THEN <<>> ELSE <<"align-space">>)

JudgeIdent(ev) ==
    IF ev.basemod # 0 THEN <<"harness-pre">> ELSE IF ev.ret = ev.off THEN <<>> ELSE <<"identity">>

JudgePip(ev) ==
    IF ~PipPre(ev.op, ev.x, ev.s, ev.bits) THEN <<"harness-pre">>
    ELSE LET ef == PipEff(ev.op, ev.x, ev.s) IN
         (IF ev.post = ef THEN <<>> ELSE <<"pip-post">>)
         \o (IF ev.obs.rt = ev.post THEN <<>> ELSE <<"pip-opaque">>)
         \o (IF PipLowKept(ev.op) \/ (ev.obs.eq_same /\ ~ev.obs.ne_same /\ ~ev.obs.eq_other /\ ev.obs.ne_other) THEN <<>> ELSE <<"pip-eq">>)
         \o (IF ev.op \in LowOps /\ ev.obs.low_kept # PipLowKept(ev.op) THEN <<"pip-lowbits">> ELSE <<>>)
         \o (IF ev.obs.size_ok THEN <<>> ELSE <<"pip-size">>)

JudgeSp(ev) ==
    IF ~SpFits(ev.si, ev.s) \/ ~SpPre(ev.op, ev.x, ev.s, ev.si) THEN <<"harness-pre">>
    ELSE LET ef == SpEff(ev.op, ev.x, ev.s, ev.si) IN
         (IF ev.post = ef.s THEN <<>> ELSE <<"sptr-post">>) \o (IF ev.ret = ef.ret THEN <<>> ELSE <<"sptr-ret">>)

JudgeUn(ev) ==
    IF ~UnPre(ev.op, ev.x) THEN <<"harness-pre">>
    ELSE LET ef == UnEff(ev.op, ev.x) IN
         (IF ev.ret = ef.ret THEN <<>> ELSE <<"uninit-ret">>)
         \o UnLife(ev, ef)
         \o (IF ev.live_delta = 0 THEN <<>> ELSE <<"life-balance">>)

JudgeMono(ev) ==
    IF ev.basemod # 0 \/ ev.sizeof # ev.t.tsize \/ ev.alignof # ev.t.talign THEN <<"harness-pre">>
    ELSE (IF MonoSafe(ev.ret, ev.boff, ev.bsize, ev.hist, ev.n, ev.t.tsize, ev.t.talign) THEN <<>> ELSE <<"mono-safety">>)
         \o (IF MonoProgress(ev.ret, ev.boff, ev.bsize, ev.hist, ev.n, ev.t.tsize, ev.t.talign) THEN <<>> ELSE <<"mono-progress">>)

Judge(ev) ==
    IF "f" \notin DOMAIN ev THEN (IF ev.op = "trap" THEN <<"crash">> ELSE <<>>)    \* trap event (the process died) / case boundary
    ELSE
    CASE ev.f = "align" -> JudgeAlign(ev)
      [] ev.f = "ident" -> JudgeIdent(ev)
      [] ev.f = "pip" -> JudgePip(ev)
      [] ev.f = "sptr" -> JudgeSp(ev)
      [] ev.f = "uninit" -> JudgeUn(ev)
      [] ev.f = "mono" -> JudgeMono(ev)
      [] OTHER -> <<"harness-family">>

Expected(ev, v) ==
    CASE v \in {"align-ret", "align-ptr", "align-space"} -> ToJson(AlignEff(ev.al, ev.size, ev.off, ev.space))
      [] v = "pip-post" -> ToJson(PipEff(ev.op, ev.x, ev.s))
      [] v \in {"sptr-post", "sptr-ret"} -> ToJson(SpEff(ev.op, ev.x, ev.s, ev.si))
      [] v \in {"uninit-ret", "life-final"} -> ToJson(UnEff(ev.op, ev.x))
      [] OTHER -> "-"

Init == l = 1 /\ nbad = 0

Next ==
    /\ l <= Len(Tr)
    /\ l' = l + 1
    /\ LET vs == Judge(Tr[l]) IN
       /\ nbad' = nbad + Len(vs)
       /\ \A j \in 1..Len(vs) : PrintT(<<"DEV", l, vs[j], Expected(Tr[l], vs[j])>>)

Spec == Init /\ [][Next]_<<l, nbad>>
Consumed == TLCGet("stats").diameter - 1 = Len(Tr)
===========================================================================
