---------------------------- MODULE RtosTrace ----------------------------
(* Trace validation for the FreeRTOS wrappers (extension X14): every event recorded by harness/rtos_driver.cpp    *)
(*   {op, kind, mode, cap, isz, trig, x, ticks, n, prio, data, pre, post, ret, out, kcalls, live [, plan]}          *)
(* is judged by RtosOps.  Deviations are printed as <<"DEV", line, kind, expected>>; the whole trace is examined.    *)
(* The model pre-state of a call is `plan` (script replay: the state the model reaches by the same calls) or, for    *)
(* the driver's own random sessions, the state `st` this spec has followed since the session's {"op":"session"}.     *)
(* mode "stub": the wrappers run over the repository's no-op stubs and are judged against that constant kernel.      *)
EXTENDS RtosOps, Json, IOUtils, TLC

Tr == ndJsonDeserialize(IOEnv.TRACE)

VARIABLES l, nbad, st

IsObs(o) == DOMAIN o = {"n", "sp"} /\ o.n \in Int /\ o.sp \in Int
IsState(kind, s) ==
    /\ DOMAIN s = (IF kind = "queue" THEN {"ph", "cap", "isz", "items"} ELSE {"ph", "cap", "trig", "bytes"})
    /\ s.ph \in {"none", "live", "null", "dead"}

WellFormed(ev) ==
    /\ {"op", "kind", "mode", "cap", "isz", "trig", "x", "ticks", "n", "prio", "data", "pre", "post", "ret", "out",
        "kcalls", "live"} \subseteq DOMAIN ev
    /\ ev.kind \in {"queue", "stream"} /\ ev.mode \in {"fake", "stub"}
    /\ ev.op \in OpsOf(ev.kind)
    /\ IsObs(ev.pre) /\ IsObs(ev.post)
    /\ ev.ret \in Int /\ ev.live \in Int
    /\ ev.cap >= 0 /\ ev.n >= 0 /\ ev.ticks >= 0 /\ ev.prio \in {0, 1} /\ ev.n <= 64 /\ Len(ev.data) <= 64
    /\ ("plan" \in DOMAIN ev => IsState(ev.kind, ev.plan))
    /\ (ev.mode = "stub" => "plan" \in DOMAIN ev)

Args(ev) == [cap |-> ev.cap, isz |-> ev.isz, trig |-> ev.trig, x |-> ev.x, ticks |-> ev.ticks, n |-> ev.n,
             prio |-> ev.prio, data |-> ev.data]

\* the model state the call starts from
Pre(ev, s) == IF "plan" \in DOMAIN ev THEN ev.plan ELSE s

\* The harness builds every pre-state through the wrapper only.  A pre-state whose observable part (message / byte
\* counters read through the wrapper) differs from the state the model reaches by the same calls is a deviation of an
\* earlier call (or of the counters themselves).
PreOK(ev, P) == ev.pre = Obs(ev.kind, P)

Exp(ev, P) == Call(ev.kind, ev.op, P, Args(ev))

JudgeFake(ev, P) ==
    IF ~Enabled(ev.kind, ev.op, P.ph) THEN "harness-malformed"
    ELSE IF ev.op \in {"ctor", "ctor_fail"} /\ (ev.cap < 1 \/ (ev.kind = "stream" /\ ev.trig > ev.cap)) THEN "harness-malformed"
    ELSE IF ~PreOK(ev, P) THEN "pre-state"
    ELSE LET E == Exp(ev, P) IN
         IF ev.kcalls # E.kc THEN "kcalls"                        \* how the wrapper called the kernel
         ELSE IF ev.ret # E.ret THEN "ret"                          \* the converted result
         ELSE IF ev.out # E.out THEN "out"                          \* the value handed back / the caller's bytes
         ELSE IF ev.post # Obs(ev.kind, E.post) THEN "post"
         ELSE IF ev.live # Live(E.post) THEN "leak"                \* kernel handles alive after the call
         ELSE "ok"

JudgeStub(ev, P) ==
    IF ~Enabled(ev.kind, ev.op, P.ph) THEN "harness-malformed"
    ELSE IF ev.ret # StubRet(ev.kind, ev.op, P) THEN "ret"
    ELSE IF ev.out # StubOut(ev.kind, ev.op, P, Args(ev)) THEN "out"
    ELSE "ok"

Judge(ev, s) ==
    IF ev.op = "session" THEN "ok"
    ELSE IF ~WellFormed(ev) THEN "harness-malformed"
    ELSE IF ev.mode = "stub" THEN JudgeStub(ev, Pre(ev, s))
    ELSE JudgeFake(ev, Pre(ev, s))

Expected(ev, s) ==
    IF ~WellFormed(ev) \/ ~Enabled(ev.kind, ev.op, Pre(ev, s).ph) THEN "-"
    ELSE IF ev.mode = "stub"
         THEN ToJson([ret |-> StubRet(ev.kind, ev.op, Pre(ev, s)), out |-> StubOut(ev.kind, ev.op, Pre(ev, s), Args(ev))])
    ELSE IF ~PreOK(ev, Pre(ev, s)) THEN ToJson([pre |-> Obs(ev.kind, Pre(ev, s))])
    ELSE LET E == Exp(ev, Pre(ev, s)) IN
         ToJson([ret |-> E.ret, out |-> E.out, kcalls |-> E.kc, post |-> Obs(ev.kind, E.post), live |-> Live(E.post)])

\* the model state after the event (sessions without plan)
After(ev, s) ==
    IF ev.op = "session" THEN NoneOf(ev.kind)
    ELSE IF WellFormed(ev) /\ ev.mode = "fake" /\ Enabled(ev.kind, ev.op, Pre(ev, s).ph) THEN Exp(ev, Pre(ev, s)).post
    ELSE s

Init == l = 1 /\ nbad = 0 /\ st = QNone

Next ==
    /\ l <= Len(Tr)
    /\ l' = l + 1
    /\ st' = After(Tr[l], st)
    /\ LET v == Judge(Tr[l], st) IN
       IF v = "ok" THEN nbad' = nbad
       ELSE /\ nbad' = nbad + 1
            /\ PrintT(<<"DEV", l, v, Expected(Tr[l], st)>>)

Spec == Init /\ [][Next]_<<l, nbad, st>>
Consumed == TLCGet("stats").diameter - 1 = Len(Tr)
=============================================================================
