// Compile probes for the array module (X03).
#include <etl/array.hpp>

#if PROBE == 1
// structured bindings: "auto& [x, y] = arr" decomposes an array<T, 2> into its two elements ([dcl.struct.bind]
// through std::tuple_size / std::tuple_element / get<I>)
int probe()
{
    etl::array<int, 2> a{1, 2};
    auto& [x, y] = a;
    x            = 5;
    return a[0] + y;
}
#endif
int main() { return probe() == 7 ? 0 : 1; }
