----------------------------- MODULE FloatTrace -----------------------------
(* Trace validation for the Float module (C16): every event                                                  *)
(*   [op, p ("f" binary32 / "d" binary64 / "l" x87 extended, exact set only), md ("rt" run time / "ct" constant evaluation), x, (y, z, w), r, c]   *)
(* recorded from the real functions is judged by the operators of FloatOps:                                   *)
(*   exact set        r must equal the value defined on the triples (NaN: any NaN)                            *)
(*   approximate set  Annex-F special values as equalities, otherwise  UlpLE(r, c, Tol[f])  where c is the    *)
(*                    recorded result of libm for the same input                                              *)
(* Deviations are collected (DEV lines), not fatal.  Kinds: exact, special, class (NaN where a number is       *)
(* required or vice versa), tol, crash (the call died), not-constant (constant evaluation rejected).           *)
EXTENDS FloatOps, Json, IOUtils, TLC

Tr == ndJsonDeserialize(IOEnv.TRACE)

VARIABLES l, nbad

FmtOf(ev) == IF ev.p = "f" THEN F32 ELSE F64
Val(ev, a) == IF ev.p = "f" THEN V(a[1], a[2], 0, a[3]) ELSE V(a[1], a[2], a[3], a[4])
AsJson(ev, v) == IF ev.p = "f" THEN ToJson(<<v.s, v.e, v.l>>) ELSE ToJson(<<v.s, v.e, v.h, v.l>>)

(* Tolerances in units in the last place (powers of two), per function and precision [f: binary32, d: binary64]; *)
(* the maxima measured on every run are recorded in evidence/C16.json (tools/pipes/float.py).                    *)
T(a, b) == [f |-> a, d |-> b]
\* Tol[fn] = 4 x the largest distance in the connected bulk of the error distribution measured on the pinned tree
\* (run-time and constant-evaluation paths together), rounded up to a power of two; see DESIGN.md (C16).
Tol == [
    sqrt |-> T(2048, 8388608), cbrt |-> T(64, 64), exp |-> T(64, 1024), exp2 |-> T(64, 64),
    expm1 |-> T(64, 64), log |-> T(64, 64), log2 |-> T(64, 64), log10 |-> T(64, 64),
    log1p |-> T(16384, 16384), sin |-> T(16384, 16384), cos |-> T(16384, 16384), tan |-> T(16384, 16384),
    asin |-> T(64, 64), acos |-> T(64, 64), atan |-> T(64, 64), sinh |-> T(4096, 4096),
    cosh |-> T(64, 1024), tanh |-> T(64, 64), asinh |-> T(4096, 16384), acosh |-> T(64, 64),
    atanh |-> T(1024, 4096), erf |-> T(16384, 16384), tgamma |-> T(4096, 16384), lgamma |-> T(4096, 16384),
    pow |-> T(1024, 4096), atan2 |-> T(256, 256), hypot |-> T(4096, 33554432), hypot3 |-> T(4096, 33554432),
    lerp |-> T(4, 4), midpoint |-> T(1, 1)
]
ApproxUnary == {"sqrt", "cbrt", "exp", "exp2", "expm1", "log", "log2", "log10", "log1p", "sin", "cos", "tan", "asin",
                "acos", "atan", "sinh", "cosh", "tanh", "asinh", "acosh", "atanh", "erf", "tgamma", "lgamma"}
ApproxBinary == {"pow", "atan2", "hypot", "midpoint"}
ApproxTernary == {"lerp", "hypot3"}
ComplexFns == {"c_abs", "c_arg", "c_norm", "c_conj", "c_cos", "c_cosh", "c_sin", "c_sinh", "c_tan", "c_tanh", "c_log",
               "c_log10", "c_polar", "c_add", "c_sub", "c_mul", "c_div",
               "c_add_self", "c_sub_self", "c_mul_self", "c_div_self", "c_addeq_self", "c_subeq_self", "c_muleq_self", "c_diveq_self"}
\* both operands are the same object (binary operator) / the right-hand side is *this (compound assignment)
SelfOp == [c_add_self |-> "add", c_addeq_self |-> "add", c_sub_self |-> "sub", c_subeq_self |-> "sub",
           c_mul_self |-> "mul", c_muleq_self |-> "mul", c_div_self |-> "div", c_diveq_self |-> "div"]
CTol == T(16384, 1048576)

TolOf(ev, fn) == IF ev.p = "f" THEN Tol[fn].f ELSE Tol[fn].d

Special(f, ev) ==
    LET fn == ev.op x == Val(ev, ev.x) IN
    CASE fn \in ApproxUnary -> SpecialUnary(f, fn, x)
      [] fn = "pow" -> SpecialPow(f, x, Val(ev, ev.y))
      [] fn = "atan2" -> SpecialAtan2(f, x, Val(ev, ev.y))
      [] fn = "hypot" -> SpecialHypot(f, x, Val(ev, ev.y))
      [] fn = "midpoint" -> SpecialMidpoint(f, x, Val(ev, ev.y))
      [] fn = "hypot3" -> SpecialHypot3(f, x, Val(ev, ev.y), Val(ev, ev.z))
      [] fn = "lerp" -> SpecialLerp(f, x, Val(ev, ev.y), Val(ev, ev.z))

\* verdict of the approximate relation for one result component
ApproxVerdict(f, r, c, tol) ==
    IF IsNaN(f, c) THEN (IF IsNaN(f, r) THEN "ok" ELSE "class")
    ELSE IF IsNaN(f, r) THEN "class"
    ELSE IF UlpLE(f, r, c, tol) THEN "ok"
    ELSE IF IsInf(f, r) # IsInf(f, c) THEN "class" ELSE "tol"

\* complex results: a component is compared only if it is not a cancellation victim, i.e. its libm value is within
\* 2^-12 of the larger component in magnitude (componentwise relative error is meaningless below that)
Dominant(f, a, b) == (IsZero(a) /\ IsZero(b)) \/ (~IsZero(a) /\ a.e + 12 >= b.e)

\* A call the compiler refused to evaluate as a constant expression ("nc") is a deviation only inside the domain
\* where the function has a finite value (C++ rejects overflow and NaN-producing operations in constant expressions,
\* so pole / overflow / domain errors legitimately do not constant-evaluate).  c is libm's run-time result.
NcInDomain(ev) ==
    LET f == FmtOf(ev) fn == ev.op x == Val(ev, ev.x) IN
    IF fn \in ExactUnaryInt THEN TRUE
    ELSE IF fn \in ExactUnaryLong THEN LongInRange(f, LongRounded(f, fn, x))
    ELSE IF fn \in ExactUnaryFp \cup ExactBinary THEN IsFinite(f, Val(ev, ev.c))
    ELSE IsNormal(f, Val(ev, ev.c)) \/ (IsZero(Val(ev, ev.c)) /\ IsZero(x))     \* approximate set: no underflow either

\* long double (x87 extended): [s, e, j, f1, f2, f3]; the integer bit j must be canonical (1 iff e # 0)
LVal(a) == NV(a[1], a[2], <<a[4], a[5], a[6]>>)
LCanon(a) == a[3] = (IF a[2] = 0 THEN 0 ELSE 1)
LJson(v) == ToJson(<<v.s, v.e, IF v.e = 0 THEN 0 ELSE 1, v.m[1], v.m[2], v.m[3]>>)
JudgeL(ev) ==
    LET fn == ev.op x == LVal(ev.x) IN
    IF ~LCanon(ev.x) THEN "harness-noncanonical-input"
    ELSE CASE fn \in ExactUnaryFp -> IF LCanon(ev.r) /\ NSame(F80, LVal(ev.r), NUnaryFp(F80, fn, x)) THEN "ok" ELSE "exact"
           [] fn \in ExactUnaryInt -> IF ev.r = NUnaryInt(F80, fn, x) THEN "ok" ELSE "exact"
           [] fn \in {"copysign", "fmin", "fmax", "nextafter"} ->
                 IF ~LCanon(ev.y) THEN "harness-noncanonical-input"
                 ELSE IF LCanon(ev.r) /\ NBinaryOK(F80, fn, x, LVal(ev.y), LVal(ev.r)) THEN "ok" ELSE "exact"
           [] OTHER -> "harness-unknown-function"
ExpectedL(ev) ==
    LET fn == ev.op x == LVal(ev.x) IN
    CASE fn \in ExactUnaryFp -> LJson(NUnaryFp(F80, fn, x))
      [] fn \in ExactUnaryInt -> ToJson(NUnaryInt(F80, fn, x))
      [] fn \in {"copysign", "fmin", "fmax", "nextafter"} -> LJson(NBinaryExpected(F80, fn, x, LVal(ev.y)))
      [] OTHER -> "-"

Judge(ev) ==
    IF "crash" \in DOMAIN ev THEN "crash"
    ELSE IF ev.p = "l" THEN JudgeL(ev)
    ELSE IF "nc" \in DOMAIN ev THEN (IF NcInDomain(ev) THEN "not-constant" ELSE "ok")
    ELSE
    LET f == FmtOf(ev) fn == ev.op x == Val(ev, ev.x) IN
    CASE fn \in ExactUnaryFp -> IF Same(f, Val(ev, ev.r), UnaryFp(f, fn, x)) THEN "ok" ELSE "exact"
      [] fn \in ExactUnaryInt -> IF ev.r = UnaryInt(f, fn, x) THEN "ok" ELSE "exact"
      [] fn \in ExactUnaryLong ->
            LET v == LongRounded(f, fn, x) IN
            IF ~LongInRange(f, v) THEN "ok"                            \* unspecified result
            ELSE IF ev.r[5] = 1 /\ V(ev.r[1], ev.r[2], ev.r[3], ev.r[4]) = AsLong(f, v) THEN "ok" ELSE "exact"
      [] fn \in ExactBinary ->
            LET y == Val(ev, ev.y) r == Val(ev, ev.r) IN
            IF BinaryJudged(f, fn, x, y) THEN (IF BinaryOK(f, fn, x, y, r) THEN "ok" ELSE "exact")
            ELSE (IF BinaryWeakOK(f, fn, x, y, r) THEN "ok" ELSE "exact")
      [] fn \in ApproxUnary \cup ApproxBinary \cup ApproxTernary ->
            LET r == Val(ev, ev.r) c == Val(ev, ev.c) req == Special(f, ev) IN
            IF req.k # "none" THEN (IF SpecialOK(f, req, r) THEN "ok" ELSE "special")
            ELSE ApproxVerdict(f, r, c, TolOf(ev, fn))
      [] fn \in ComplexFns ->
            LET r == Val(ev, ev.r) c == Val(ev, ev.c) tol == IF ev.p = "f" THEN CTol.f ELSE CTol.d IN
            IF fn \in DOMAIN SelfOp /\ IsSmallInt(f, x) /\ IsSmallInt(f, Val(ev, ev.y))
               /\ ~(SelfOp[fn] = "div" /\ IsZero(x) /\ IsZero(Val(ev, ev.y))) THEN
                \* z op z with small-integer components has an exact value: 2z, 0, z*z, 1
                LET want == ComplexSelf(f, SelfOp[fn], x, Val(ev, ev.y)) IN
                IF NumSame(f, r, want[1]) /\ NumSame(f, Val(ev, ev.r2), want[2]) THEN "ok" ELSE "exact"
            ELSE IF "r2" \in DOMAIN ev THEN
                LET r2 == Val(ev, ev.r2) c2 == Val(ev, ev.c2)
                    v1 == IF IsNaN(f, c) \/ IsNaN(f, c2) \/ Dominant(f, c, c2) THEN ApproxVerdict(f, r, c, tol) ELSE "ok"
                    v2 == IF IsNaN(f, c) \/ IsNaN(f, c2) \/ Dominant(f, c2, c) THEN ApproxVerdict(f, r2, c2, tol) ELSE "ok"
                IN IF v1 # "ok" THEN v1 ELSE v2
            ELSE ApproxVerdict(f, r, c, tol)
      [] OTHER -> "harness-unknown-function"

Expected(ev) ==
    IF "crash" \in DOMAIN ev \/ "nc" \in DOMAIN ev THEN "-"
    ELSE IF ev.p = "l" THEN ExpectedL(ev)
    ELSE
    LET f == FmtOf(ev) fn == ev.op x == Val(ev, ev.x) IN
    CASE fn \in ExactUnaryFp -> AsJson(ev, UnaryFp(f, fn, x))
      [] fn \in ExactUnaryInt -> ToJson(UnaryInt(f, fn, x))
      [] fn \in ExactUnaryLong -> LET w == AsLong(f, LongRounded(f, fn, x)) IN ToJson(<<w.s, w.e, w.h, w.l, 1>>)
      [] fn \in ExactBinary -> IF BinaryJudged(f, fn, x, Val(ev, ev.y)) THEN AsJson(ev, BinaryExpected(f, fn, x, Val(ev, ev.y))) ELSE "-"
      [] fn \in ApproxUnary \cup ApproxBinary \cup ApproxTernary ->
            LET req == Special(f, ev) IN
            IF req.k = "nan" THEN "\"nan\"" ELSE IF req.k \in {"val", "num"} THEN AsJson(ev, req.v) ELSE "-"
      [] OTHER -> "-"

Init == l = 1 /\ nbad = 0

Next ==
    /\ l <= Len(Tr)
    /\ l' = l + 1
    /\ LET v == Judge(Tr[l]) IN
       IF v = "ok" THEN nbad' = nbad
       ELSE /\ nbad' = nbad + 1
            /\ PrintT(<<"DEV", l, v, Expected(Tr[l])>>)

Spec == Init /\ [][Next]_<<l, nbad>>
Consumed == TLCGet("stats").diameter - 1 = Len(Tr)
=============================================================================
