// Minimal iterator wrappers for the algorithm driver (NOT part of tetl).
// Each wrapper offers exactly the operations of its category (plus base() for the harness), so an
// algorithm that needs more than the standard allows for that category does not compile with it.
// The category tags come from the library under test (etl:: or, with -DVH_STD, std::).
#pragma once
#include <cstddef>
#include <type_traits>
#include <utility>

namespace vw {
#ifdef VH_STD
using input_tag  = std::input_iterator_tag;
using output_tag = std::output_iterator_tag;
using fwd_tag    = std::forward_iterator_tag;
using bidi_tag   = std::bidirectional_iterator_tag;
using ra_tag     = std::random_access_iterator_tag;
#else
using input_tag  = etl::input_iterator_tag;
using output_tag = etl::output_iterator_tag;
using fwd_tag    = etl::forward_iterator_tag;
using bidi_tag   = etl::bidirectional_iterator_tag;
using ra_tag     = etl::random_access_iterator_tag;
#endif

#define VW_COMMON(NAME, TAG)                                                                                           \
    using iterator_category = TAG;                                                                                     \
    using value_type        = std::remove_cv_t<T>;                                                                     \
    using difference_type   = std::ptrdiff_t;                                                                          \
    using pointer           = T*;                                                                                      \
    using reference         = T&;                                                                                      \
    T* p                    = nullptr;                                                                                 \
    NAME()                  = default;                                                                                 \
    explicit NAME(T* q) : p(q) { }                                                                                     \
    T* base() const { return p; }                                                                                      \
    reference operator*() const { return *p; }                                                                         \
    pointer operator->() const { return p; }                                                                           \
    NAME& operator++()                                                                                                 \
    {                                                                                                                  \
        ++p;                                                                                                           \
        return *this;                                                                                                  \
    }                                                                                                                  \
    NAME operator++(int)                                                                                               \
    {                                                                                                                  \
        NAME t(*this);                                                                                                 \
        ++p;                                                                                                           \
        return t;                                                                                                      \
    }                                                                                                                  \
    friend bool operator==(NAME const& a, NAME const& b) { return a.p == b.p; }                                        \
    friend bool operator!=(NAME const& a, NAME const& b) { return a.p != b.p; }

#define VW_BIDI(NAME)                                                                                                  \
    NAME& operator--()                                                                                                 \
    {                                                                                                                  \
        --p;                                                                                                           \
        return *this;                                                                                                  \
    }                                                                                                                  \
    NAME operator--(int)                                                                                               \
    {                                                                                                                  \
        NAME t(*this);                                                                                                 \
        --p;                                                                                                           \
        return t;                                                                                                      \
    }

template <typename T>
struct in_it {
    VW_COMMON(in_it, input_tag)
};
template <typename T>
struct fwd_it {
    VW_COMMON(fwd_it, fwd_tag)
};
template <typename T>
struct bidi_it {
    VW_COMMON(bidi_it, bidi_tag)
    VW_BIDI(bidi_it)
};
template <typename T>
struct ra_it {
    VW_COMMON(ra_it, ra_tag)
    VW_BIDI(ra_it)
    ra_it& operator+=(difference_type n)
    {
        p += n;
        return *this;
    }
    ra_it& operator-=(difference_type n)
    {
        p -= n;
        return *this;
    }
    friend ra_it operator+(ra_it a, difference_type n) { return ra_it(a.p + n); }
    friend ra_it operator+(difference_type n, ra_it a) { return ra_it(a.p + n); }
    friend ra_it operator-(ra_it a, difference_type n) { return ra_it(a.p - n); }
    friend difference_type operator-(ra_it const& a, ra_it const& b) { return a.p - b.p; }
    reference operator[](difference_type n) const { return p[n]; }
    friend bool operator<(ra_it const& a, ra_it const& b) { return a.p < b.p; }
    friend bool operator>(ra_it const& a, ra_it const& b) { return a.p > b.p; }
    friend bool operator<=(ra_it const& a, ra_it const& b) { return a.p <= b.p; }
    friend bool operator>=(ra_it const& a, ra_it const& b) { return a.p >= b.p; }
};

// write-only, single pass: *it = v; ++it; it++ - nothing else (no read, no comparison)
template <typename T>
struct out_it {
    using iterator_category = output_tag;
    using value_type        = void;
    using difference_type   = std::ptrdiff_t;
    using pointer           = void;
    using reference         = void;
    struct proxy {
        T* p;
        proxy const& operator=(T const& v) const
        {
            *p = v;
            return *this;
        }
        proxy const& operator=(T&& v) const
        {
            *p = std::move(v);
            return *this;
        }
    };
    T* p = nullptr;
    out_it() = default;
    explicit out_it(T* q) : p(q) { }
    T* base() const { return p; }
    proxy operator*() const { return proxy{p}; }
    out_it& operator++()
    {
        ++p;
        return *this;
    }
    out_it operator++(int)
    {
        out_it t(*this);
        ++p;
        return t;
    }
};

template <typename T>
T* base(T* p)
{
    return p;
}
template <typename It>
auto base(It const& it) -> decltype(it.base())
{
    return it.base();
}
// the library's reverse_iterator over pointers as an iterator category of its own ("rev"): the driver
// specialises is_rev and provides vh_mirror(p) (position p of the reversed view -> base pointer)
template <typename It>
struct is_rev : std::false_type { };

template <typename It, typename T>
It mk(T* p)
{
    if constexpr (std::is_pointer_v<It>) {
        return p;
    } else if constexpr (is_rev<It>::value) {
        return It(vh_mirror(p));
    } else {
        return It(p);
    }
}

// iterator policies: rd = read-only input range, rw = mutable range, out = destination
struct P_ptr {
    static constexpr char const* name = "ptr";
    template <typename T>
    using rdm = T*; // input range whose elements the callee may modify (for_each)
    template <typename T>
    using rd = T const*;
    template <typename T>
    using rw = T*;
    template <typename T>
    using out = T*;
    template <typename T>
    using rd2 = T const*;
};
struct P_ra {
    static constexpr char const* name = "ra";
    template <typename T>
    using rdm = ra_it<T>; // input range whose elements the callee may modify (for_each)
    template <typename T>
    using rd = ra_it<T const>;
    template <typename T>
    using rw = ra_it<T>;
    template <typename T>
    using out = ra_it<T>;
    template <typename T>
    using rd2 = ra_it<T const>;
};
struct P_bidi {
    static constexpr char const* name = "bidi";
    template <typename T>
    using rdm = bidi_it<T>; // input range whose elements the callee may modify (for_each)
    template <typename T>
    using rd = bidi_it<T const>;
    template <typename T>
    using rw = bidi_it<T>;
    template <typename T>
    using out = bidi_it<T>;
    template <typename T>
    using rd2 = bidi_it<T const>;
};
struct P_fwd {
    static constexpr char const* name = "fwd";
    template <typename T>
    using rdm = fwd_it<T>; // input range whose elements the callee may modify (for_each)
    template <typename T>
    using rd = fwd_it<T const>;
    template <typename T>
    using rw = fwd_it<T>;
    template <typename T>
    using out = fwd_it<T>;
    template <typename T>
    using rd2 = fwd_it<T const>;
};
// input iterators for what is read, output iterator for what is written; rd2 is the forward
// iterator used where the standard asks for one in a second range (find_first_of)
struct P_io {
    static constexpr char const* name = "io";
    template <typename T>
    using rdm = in_it<T>; // input range whose elements the callee may modify (for_each)
    template <typename T>
    using rd = in_it<T const>;
    template <typename T>
    using out = out_it<T>;
    template <typename T>
    using rd2 = fwd_it<T const>;
};
} // namespace vw
