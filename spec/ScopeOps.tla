---------------------------- MODULE ScopeOps ----------------------------
(* Meaning of a scope guard (scope_exit), constant-free, transcribed from the Library Fundamentals TS v3  *)
(* [scopeguard.exit] and from the documentation comment of etl::scope_exit:                               *)
(*   a guard is *active* after construction from an exit function; release() makes it inactive; the move   *)
(*   constructor takes over the source's activity and makes the source inactive; the destructor calls      *)
(*   the exit function iff the guard is active; an inactive guard can never become active again.           *)
(* State:  st.g : name |-> [live, active, f]    (f = id of the exit function the guard carries)            *)
(* `active` is NOT observable through the API: the trace validator carries the model state along.          *)
(* A call is observed as  inv = the sequence of exit-function ids invoked during the call,                 *)
(* fl = per id the number of live copies of the exit function object, cp / mv = copy / move constructions   *)
(* of exit function objects during the call.                                                              *)
EXTENDS Naturals, Integers, Sequences, FiniteSets

Dead == [live |-> FALSE, active |-> FALSE, f |-> 0]
G(a, f) == [live |-> TRUE, active |-> a, f |-> f]

Names(st) == DOMAIN st.g
MakeOps == {"make_lv", "make_rv", "make_guide"}
AllOps == MakeOps \cup {"release", "move_ctor", "dtor", "block"}

\* x = [f, f2, r1, r2, src]
Pre(op, g, x, st) ==
    /\ op \in AllOps
    /\ (op # "block" => g \in Names(st))
    /\ (op \in MakeOps => ~st.g[g].live /\ x.f >= 1)
    /\ (op \in {"release", "dtor"} => st.g[g].live)
    /\ (op = "move_ctor" => ~st.g[g].live /\ x.src \in Names(st) /\ x.src # g /\ st.g[x.src].live)
    /\ (op = "block" => x.f >= 1 /\ x.f2 >= 1)

R(st, inv, cp, mv) == [st |-> st, inv |-> inv, cp |-> cp, mv |-> mv]
Set(st, n, v) == [st EXCEPT !.g[n] = v]

Eff(op, g, x, st) ==
    CASE op = "make_lv" -> R(Set(st, g, G(TRUE, x.f)), <<>>, 1, 0)         \* an lvalue exit function is copied, never moved from
      [] op \in {"make_rv", "make_guide"} -> R(Set(st, g, G(TRUE, x.f)), <<>>, 0, 1)
      [] op = "release" -> R(Set(st, g, G(FALSE, st.g[g].f)), <<>>, 0, 0)
      [] op = "move_ctor" ->
            R(Set(Set(st, g, G(st.g[x.src].active, st.g[x.src].f)), x.src, G(FALSE, st.g[x.src].f)), <<>>, 0, 1)
      [] op = "dtor" -> R(Set(st, g, Dead), IF st.g[g].active THEN <<st.g[g].f>> ELSE <<>>, 0, 0)
      \* { scope_exit e1{F(f)}; scope_exit e2{F(f2)}; if (r1) e1.release(); if (r2) e2.release(); }
      \* automatic objects are destroyed in reverse order of construction
      [] op = "block" -> R(st, (IF x.r2 THEN <<>> ELSE <<x.f2>>) \o (IF x.r1 THEN <<>> ELSE <<x.f>>), 0, 2)

\* live exit-function objects per id: one inside every live guard (a moved-from guard still holds its object)
FLive(st, nf) == [i \in 1..nf |-> Cardinality({n \in Names(st) : st.g[n].live /\ st.g[n].f = i})]
=========================================================================
