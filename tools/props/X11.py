"""X11 (extension) - random engines follow the published xorshift / xoshiro128 algorithms and [rand.req.eng];
distributions keep the relations the standard fixes."""
from pipes import rng


def run(tier, rep):
    rng.pipeline(tier, rep)
    rep.assumptions += [
        "an engine's state is read from its object representation (static_assert: trivially copyable, size = state words)",
        "xorshift16: every one of its 65535 non-zero states (exported orbit); 32/64-bit xorshift and xoshiro128: histories of "
        "1000 (quick) / 5000 (thorough) calls from boundary seeds, the pre-images of the outputs all-ones and 1 and seeded "
        "random seeds; TLC laws on 8-bit (xorshift) and 4-bit-word (xoshiro) models + the 16-bit generator at true width",
        "xoshiro engines are only constructible from one 32-bit word (state {seed,0,0,0}): other states are reached by running",
        "distributions: relations only (closed/half-open range, reachability of every value of ranges up to 64 values with "
        ">= 200 draws per value, determinism, parameter round trips); no statistical quality; IntType in {short, int, "
        "unsigned short}, RealType in {float, double}; uniform_real x < b only demanded for a = 0 (LWG 2524 rounding)",
        "engines in the all-zero state (outside the generators' domain) are stepped but not used as a source for distributions",
        "reference for calibration: C transcriptions of Marsaglia's / Blackman-Vigna's public code and libstdc++ 12 <random>",
    ]
