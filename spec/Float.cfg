SPECIFICATION Spec
CONSTANTS
  Mode = "f32"
  Tier = "quick"
INVARIANTS ToyLaws Toy3Laws Laws32 EmitInv
CHECK_DEADLOCK FALSE
