// Array driver (extension module X03; NOT part of tetl).
// Replays the call scripts exported by TLC from spec/Array.tla on etl::array<T, N> (default build) or
// std::array<T, N> (-DVH_STD: calibration build), N in 0..4, T = int or the lifetime-tracked element type.
// One self-contained ndjson event per (non-quiet) call: {op, o, x, elem, n, pre, post, ret, obs, srcafter?, life?, inst}.
// No oracle, no comparison: spec/ArrayTrace.tla judges.
//
// usage: array_driver replay <int|trk> <N> <script.ndjson>
#include "common.hpp"

#include <memory>
#include <new>
#include <string>
#include <tuple>
#include <type_traits>
#include <utility>
#include <vector>

#ifndef VH_STD
    #include <etl/array.hpp>
    #include <etl/utility.hpp>
namespace lib = etl;
static char const* const IMPL = "etl";
template <typename A>
inline constexpr std::size_t tsize_v = etl::tuple_size<A>::value;
#else
    #include <array>
namespace lib = std;
static char const* const IMPL = "std";
template <typename A>
inline constexpr std::size_t tsize_v = std::tuple_size<A>::value;
#endif

#ifndef ARRAY_HAVE_SB
    #define ARRAY_HAVE_SB 1
#endif

namespace {
using vh::json;
using vh::Tracked;

template <typename T, std::size_t N>
struct Runner {
    using Arr                     = lib::array<T, N>;
    static constexpr bool tracked = vh::is_tracked<T>;
    static constexpr int SLACK    = 4; // elements of zeroed room around each object: a wrong bound reads garbage, not other memory
    struct alignas(alignof(Arr) > alignof(T) ? alignof(Arr) : alignof(T)) Box {
        unsigned char pad0[SLACK * sizeof(T)];
        unsigned char obj[sizeof(Arr) + (N == 0 ? sizeof(T) : 0)];
        unsigned char pad1[SLACK * sizeof(T)];
    };
    Box box[2];
    Arr* ob[2];
    std::string elem, inst;
    long nev = 0, nskip = 0;
    bool broken = false, quiet = false;
    bool mark = std::getenv("VH_MARK") != nullptr;
    json ext_vals = json::array(), ext_end = json::array();

    explicit Runner(std::string e) : elem(std::move(e))
    {
        inst = std::string(IMPL) + "_" + elem + "_" + std::to_string(N);
        std::memset(static_cast<void*>(box), 0, sizeof box);
        for (int i = 0; i < 2; ++i) { ob[i] = new (box[i].obj) Arr(); }
    }
    ~Runner()
    {
        for (int i = 0; i < 2; ++i) { ob[i]->~Arr(); }
    }
    void reset()
    {
        for (int i = 0; i < 2; ++i) {
            ob[i]->~Arr();
            ob[i] = new (box[i].obj) Arr(); // value-initialised: all elements T()
        }
    }
    static int oi(std::string const& o) { return o == "a" ? 0 : 1; }

    // ---- plain projection of the contents (through data(), bounded by N) ----
    static json contents(Arr const& a)
    {
        json r = json::array();
        if constexpr (N > 0) {
            T const* p = a.data();
            for (std::size_t i = 0; i < N; ++i) { r.push_back(vh::val_of(p[i])); }
        }
        return r;
    }
    json state() const { return json{{"a", contents(*ob[0])}, {"b", contents(*ob[1])}}; }

    // ---- every observer of the class, const and non-const forms ----
    template <typename It>
    static json walk(It first, It last)
    {
        json r = json::array();
        for (std::size_t k = 0; first != last && k < N + 2; ++first, ++k) { r.push_back(vh::val_of(*first)); }
        return r;
    }
    template <std::size_t... I>
    static json gets(Arr& a, std::index_sequence<I...>)
    {
        json r = json::array();
        (r.push_back(vh::val_of(lib::get<I>(a))), ...);
        return r;
    }
    template <std::size_t... I>
    static json kgets(Arr const& a, std::index_sequence<I...>)
    {
        json r = json::array();
        (r.push_back(vh::val_of(lib::get<I>(a))), ...);
        return r;
    }
    template <std::size_t... I>
    static json kgrv(Arr const& a, std::index_sequence<I...>)
    {
        json r = json::array();
        (r.push_back(vh::val_of(static_cast<T const&&>(lib::get<I>(static_cast<Arr const&&>(a))))), ...);
        return r;
    }
    static json bindings(Arr const& a)
    {
        json r = json::array();
#if ARRAY_HAVE_SB
        if constexpr (N == 1) {
            auto const& [e0] = a;
            r = {vh::val_of(e0)};
        } else if constexpr (N == 2) {
            auto const& [e0, e1] = a;
            r = {vh::val_of(e0), vh::val_of(e1)};
        } else if constexpr (N == 3) {
            auto const& [e0, e1, e2] = a;
            r = {vh::val_of(e0), vh::val_of(e1), vh::val_of(e2)};
        } else if constexpr (N == 4) {
            auto const& [e0, e1, e2, e3] = a;
            r = {vh::val_of(e0), vh::val_of(e1), vh::val_of(e2), vh::val_of(e3)};
        }
#endif
        return r;
    }
    static json observe(Arr& a)
    {
        Arr const& k = a;
        json q;
        q["fwd"]  = walk(a.begin(), a.end());
        q["cfwd"] = walk(a.cbegin(), a.cend());
        q["kfwd"] = walk(k.begin(), k.end());
        q["rev"]  = walk(a.rbegin(), a.rend());
        q["crev"] = walk(a.crbegin(), a.crend());
        q["krev"] = walk(k.rbegin(), k.rend());
        json idx = json::array(), kidx = json::array(), data = json::array(), kdata = json::array();
        if constexpr (N > 0) {
            for (std::size_t i = 0; i < N; ++i) {
                idx.push_back(vh::val_of(a[i]));
                kidx.push_back(vh::val_of(k[i]));
                data.push_back(vh::val_of(a.data()[i]));
                kdata.push_back(vh::val_of(k.data()[i]));
            }
            q["front"]  = vh::val_of(a.front());
            q["kfront"] = vh::val_of(k.front());
            q["back"]   = vh::val_of(a.back());
            q["kback"]  = vh::val_of(k.back());
            q["data_is_begin"] = (static_cast<void const*>(a.data()) == static_cast<void const*>(std::addressof(a.front())))
                              && (static_cast<void const*>(k.data()) == static_cast<void const*>(std::addressof(k.front())));
        } else {
            q["front"] = q["kfront"] = q["back"] = q["kback"] = 0;
            q["data_is_begin"]                                = true;
        }
        q["idx"]   = idx;
        q["kidx"]  = kidx;
        q["data"]  = data;
        q["kdata"] = kdata;
        q["gets"]  = gets(a, std::make_index_sequence<N>{});
        q["kgets"] = kgets(k, std::make_index_sequence<N>{});
        q["kgrv"]  = kgrv(k, std::make_index_sequence<N>{});
#if ARRAY_HAVE_SB
        q["sb"] = bindings(k);
#endif
        q["size"]     = (long)k.size();
        q["max_size"] = (long)k.max_size();
        q["empty"]    = k.empty();
        q["tsize"]    = (long)tsize_v<Arr>;
        q["dist"]     = (long)(a.end() - a.begin());
        q["rdist"]    = (long)(a.rend() - a.rbegin());
        return q;
    }
    static json compare(Arr const& x, Arr const& y)
    {
        return json::array({x == y, x != y, x < y, x <= y, x > y, x >= y});
    }
    json observers()
    {
        json o;
        o["a"]      = observe(*ob[0]);
        o["b"]      = observe(*ob[1]);
        o["cmp_ab"] = compare(*ob[0], *ob[1]);
        o["cmp_ba"] = compare(*ob[1], *ob[0]);
        o["cmp_aa"] = compare(*ob[0], *ob[0]);
        return o;
    }

    // ---- construction helpers ----
    template <std::size_t K, std::size_t... I>
    static Arr make_k(std::vector<int> const& xs, std::index_sequence<I...>)
    {
        return Arr{T(xs[I])...}; // aggregate initialisation with K <= N initialisers
    }
    // aggregate-initialise from the first k values of xs (k <= N chosen at run time)
    template <std::size_t K = 0>
    static Arr make(std::vector<int> const& xs)
    {
        if constexpr (K > N) {
            return Arr{};
        } else {
            if (xs.size() == K) { return make_k<K>(xs, std::make_index_sequence<K>{}); }
            return make<K + 1>(xs);
        }
    }
    template <typename Fn, std::size_t I = 0>
    static void with_index(std::size_t i, Fn&& fn)
    {
        if constexpr (I < N) {
            if (i == I) {
                fn(std::integral_constant<std::size_t, I>{});
            } else {
                with_index<Fn, I + 1>(i, std::forward<Fn>(fn));
            }
        }
    }

    std::vector<vh::Region> regions() const
    {
        std::vector<vh::Region> rs;
        if constexpr (N > 0) {
            for (int i = 0; i < 2; ++i) { rs.push_back({reinterpret_cast<char const*>(ob[i]->data()), sizeof(T), N, i + 1}); }
        }
        return rs;
    }
    // life window helpers (Tracked only): harness-owned objects that are alive when the call starts
    void open(std::initializer_list<T const*> ext, T const* arr_ext = nullptr, std::size_t n_ext = 0)
    {
        if constexpr (tracked) {
            auto& L = vh::life();
            L.begin_window(regions());
            ext_vals = json::array();
            for (auto* p : ext) {
                L.declare_ext(p);
                ext_vals.push_back({{"c", L.cell(p)}, {"v", p->v}});
            }
            for (std::size_t i = 0; i < n_ext; ++i) {
                L.declare_ext(arr_ext + i);
                ext_vals.push_back({{"c", L.cell(arr_ext + i)}, {"v", arr_ext[i].v}});
            }
        }
    }
    void close()
    {
        if constexpr (tracked) {
            auto& L = vh::life();
            L.end_window();
            ext_end = json::array();
            for (auto c : L.ext_live_at_start) { ext_end.push_back(c); }
        }
    }

    bool apply(std::string const& op, int o, json const& x, long& ret, json& srcafter)
    {
        Arr& a     = *ob[o];
        Arr& other = *ob[1 - o];
        std::size_t i = (std::size_t)x.value("i", 0);
        int v         = x.value("v", 0);
        std::vector<int> xs = x.value("xs", std::vector<int>{});
        ret = 0;
        if (op == "assign" || op == "assign_partial") {
            Arr tmp = make(xs);
            if constexpr (N > 0) { open({}, tmp.data(), N); } else { open({}); }
            a = tmp;
            close();
            return true;
        }
        if (op == "to_array" || op == "to_array_rv") {
            if constexpr (N > 0) {
                T src[N];
                for (std::size_t k = 0; k < N; ++k) { src[k] = T(xs[k]); }
                open({}, src, N);
                if (op == "to_array") { a = lib::to_array(src); } else { a = lib::to_array(std::move(src)); }
                close();
                srcafter = json::array();
                for (std::size_t k = 0; k < N; ++k) { srcafter.push_back(vh::val_of(src[k])); }
                return true;
            }
            return false;
        }
        if (op == "fill") {
            T val(v);
            open({&val});
            a.fill(val);
            close();
            return true;
        }
        if (op == "swap") { open({}); a.swap(other); close(); return true; }
        if (op == "fswap") {
            open({});
            using std::swap;
            swap(a, other);
            close();
            return true;
        }
        if (op == "copy_assign") { open({}); a = other; close(); return true; }
        if (op == "copy_ctor") {
            open({});
            a.~Arr();
            ob[o] = new (box[o].obj) Arr(other);
            close();
            return true;
        }
        if (op == "get_rv") {
            if constexpr (N > 0) {
                open({});
                with_index(i, [&](auto ic) {
                    T t = lib::get<decltype(ic)::value>(std::move(a));
                    ret = vh::val_of(t);
                });
                close();
                return true;
            }
            return false;
        }
        // writes through the individual access paths (copy assignment from an lvalue value)
        if constexpr (N > 0) {
            T val(v);
            bool done = true;
            open({&val});
            if (op == "set_index") { a[i] = val; }
            else if (op == "set_front") { a.front() = val; }
            else if (op == "set_back") { a.back() = val; }
            else if (op == "set_data") { a.data()[i] = val; }
            else if (op == "set_iter") { *(a.begin() + (std::ptrdiff_t)i) = val; }
            else if (op == "set_riter") { *(a.rbegin() + (std::ptrdiff_t)i) = val; }
            else if (op == "set_get") { with_index(i, [&](auto ic) { lib::get<decltype(ic)::value>(a) = val; }); }
#if ARRAY_HAVE_SB
            else if (op == "set_sb") {
                if constexpr (N == 1) { auto& [e0] = a; e0 = val; }
                else if constexpr (N == 2) { auto& [e0, e1] = a; (i == 0 ? e0 : e1) = val; }
                else if constexpr (N == 3) { auto& [e0, e1, e2] = a; (i == 0 ? e0 : i == 1 ? e1 : e2) = val; }
                else if constexpr (N == 4) { auto& [e0, e1, e2, e3] = a; (i == 0 ? e0 : i == 1 ? e1 : i == 2 ? e2 : e3) = val; }
            }
#endif
            else { done = false; }
            close();
            return done;
        }
        return false;
    }

    void step(json const& ln)
    {
        std::string op = ln["op"].get<std::string>();
        std::string o  = ln["o"].get<std::string>();
        json ev;
        ev["op"]   = op;
        ev["o"]    = o;
        ev["x"]    = ln["x"];
        ev["elem"] = elem;
        ev["n"]    = (long)N;
        if (!quiet) { ev["pre"] = state(); }
        long ret = 0;
        json srcafter;
        bool known = apply(op, oi(o), ln["x"], ret, srcafter);
        if (!known) {
            std::fprintf(stderr, "UNSUPPORTED %s %s\n", IMPL, op.c_str());
            ++nskip;
            broken = true;
            return;
        }
        if (quiet) { return; }
        ev["post"] = state();
        ev["ret"]  = ret;
        ev["obs"]  = observers();
        if (!srcafter.is_null()) { ev["srcafter"] = srcafter; }
        if constexpr (tracked) {
            json l;
            l["evs"]    = vh::life().events;
            l["ext"]    = ext_vals;
            l["extend"] = ext_end;
            ev["life"]  = l;
        }
        ev["inst"] = inst;
        vh::emit(ev);
        ++nev;
    }

    void replay(std::vector<json> const& script)
    {
        for (auto const& ln : script) {
            if (ln.contains("reset")) {
                reset();
                broken = false;
                if (mark) { vh::emit(json{{"op", "reset"}}); } // script boundary marker (resilient replay)
                continue;
            }
            if (broken) { continue; }
            // path-prefix calls only establish the pre-state (the event is judged from the pre-state it logs itself)
            quiet = ln.value("quiet", 0) != 0;
            step(ln);
            quiet = false;
        }
    }
};

template <typename T, std::size_t N>
int run(std::string const& elem, char const* script)
{
    long before = vh::live_count();
    long nev, nskip;
    {
        Runner<T, N> r(elem);
        r.replay(vh::read_ndjson(script));
        nev   = r.nev;
        nskip = r.nskip;
    }
    std::fprintf(stderr, "SUMMARY impl=%s elem=%s n=%zu events=%ld unsupported=%ld live_delta=%ld\n", IMPL, elem.c_str(), N, nev,
        nskip, vh::live_count() - before);
    return 0;
}

template <typename T>
int dispatch(std::string const& elem, int n, char const* script)
{
    switch (n) {
    case 0: return run<T, 0>(elem, script);
    case 1: return run<T, 1>(elem, script);
    case 2: return run<T, 2>(elem, script);
    case 3: return run<T, 3>(elem, script);
    case 4: return run<T, 4>(elem, script);
    default: return 2;
    }
}
} // namespace

int main(int argc, char** argv)
{
    if (argc < 5 || std::string(argv[1]) != "replay") {
        std::fprintf(stderr, "usage: array_driver replay <int|trk> <N> <script>\n");
        return 2;
    }
    std::string elem = argv[2];
    int n            = std::atoi(argv[3]);
    if (elem == "int") { return dispatch<int>(elem, n, argv[4]); }
    if (elem == "trk") { return dispatch<Tracked>(elem, n, argv[4]); }
    return 2;
}
