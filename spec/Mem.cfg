SPECIFICATION Spec
CONSTANTS
  Family = "align"
  Aligns = {1, 2, 4, 8, 16, 64}
  Offs = {0, 1, 2, 3, 4, 5, 7, 8, 9, 15, 16, 17, 63, 64}
  Sizes = {0, 1, 3, 4, 8, 9, 16}
  Spaces = {0, 1, 2, 3, 4, 5, 6, 7, 8, 9, 10, 11, 12, 15, 16, 17, 24, 64, 65}
  BigVs = {0, 8}
  SpElems = {0, 1, 2, 127, 16383}
  UnVals = {0, 1, 2}
  UnMax = 3
  MonoOffs = {0, 3}
  MonoSizes = {0, 7, 33}
  MonoReqs = {0, 1, 3}
  MonoBig = {0, 2}
  MonoLen = 3
INVARIANTS AlignLaws PipLaws SpLaws UnLaws MonoLaws EmitInv
CHECK_DEADLOCK FALSE
