SPECIFICATION Spec
CONSTANTS
  MaxLen = 6
  MaxAdv = 8
  MaxMax = 8
  ElemSizes = {1, 2, 4}
VIEW View0
ACTION_CONSTRAINT Emit
INVARIANTS TypeOK InRange Laws
CHECK_DEADLOCK FALSE
