---------------------------- MODULE ArrayTrace ----------------------------
(* Trace validation for etl::array / std::array: every event recorded from the real template                 *)
(* ([op, o, x, elem, pre, post, ret, obs, srcafter] + life events for the Tracked element type) is judged        *)
(* from its own logged pre-state by the operators of ArrayOps / LifeOps.  Several deviation kinds per event.     *)
EXTENDS ArrayOps, LifeOps, Json, IOUtils, TLC

Tr == ndJsonDeserialize(IOEnv.TRACE)

VARIABLES l, nbad

\* an array never creates or destroys its elements after construction: all 2N element cells live before and after
LifeVerdict(ev) ==
    LET owners0 == <<[r |-> 1, els |-> ev.pre.a], [r |-> 2, els |-> ev.pre.b]>>
        owners1 == <<[r |-> 1, els |-> ev.post.a], [r |-> 2, els |-> ev.post.b]>>
        f0 == InitCells(owners0, ev.life.ext)
        run == LRun(f0, ev.life.evs, 1)
    IN IF run.bad # 0 THEN <<"life-protocol">>
       ELSE IF ~FinalOK(run.f, owners1, {ev.life.extend[j] : j \in 1..Len(ev.life.extend)}) THEN <<"life-final">>
       ELSE <<>>

Judge(ev) ==
    IF ev.op = "reset" THEN <<>>
    ELSE IF ev.op = "trap" THEN <<"crash">>        \* the process died inside a call (tools/vlib.py writes the trap event)
    ELSE IF ~Pre(ev.op, ev.o, ev.x, ev.pre) THEN <<"harness-pre">>
    ELSE LET ef == Eff(ev.op, ev.o, ev.x, ev.pre, ev.elem) IN
         (IF ev.post = ef.st THEN <<>> ELSE <<"post">>)
         \o (IF ev.ret = ef.ret THEN <<>> ELSE <<"ret">>)
         \o (IF "srcafter" \in DOMAIN ev /\ ev.srcafter # SrcAfter(ev.op, ev.x, ev.elem) THEN <<"source">> ELSE <<>>)
         \o ObsBad(ev.obs, ev.post)
         \o (IF "life" \in DOMAIN ev THEN LifeVerdict(ev) ELSE <<>>)

Expected(ev, v) == IF v \in {"post", "ret"} THEN ToJson(Eff(ev.op, ev.o, ev.x, ev.pre, ev.elem)) ELSE "-"

Init == l = 1 /\ nbad = 0

Next ==
    /\ l <= Len(Tr)
    /\ l' = l + 1
    /\ LET vs == Judge(Tr[l]) IN
       /\ nbad' = nbad + Len(vs)
       /\ \A j \in 1..Len(vs) : PrintT(<<"DEV", l, vs[j], Expected(Tr[l], vs[j])>>)

Spec == Init /\ [][Next]_<<l, nbad>>
Consumed == TLCGet("stats").diameter - 1 = Len(Tr)
===========================================================================
