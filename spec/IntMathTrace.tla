--------------------------- MODULE IntMathTrace ---------------------------
(* Trace validation for property C14: every event recorded from the real etl functions (one call or  *)
(* one small group of calls on the same argument) is judged by the operators of IntMathOps.  A        *)
(* deviation is printed as <<"DEV", line, kind, expected>> where kind lists the deviating functions   *)
(* ("+popcount+bit_floor"); the whole trace is always examined.                                       *)
EXTENDS IntMathOps, Json, IOUtils, TLC

Tr == ndJsonDeserialize(IOEnv.TRACE)

VARIABLES l, nbad

Judge(ev) == IF ~WellFormed(ev) THEN "harness-malformed"
             ELSE LET b == Bad(ev) IN IF b = "" THEN "ok" ELSE b

Expected(ev) == IF WellFormed(ev) THEN ToJson(ExpectedRec(ev)) ELSE "-"

Init == l = 1 /\ nbad = 0

Next ==
    /\ l <= Len(Tr)
    /\ l' = l + 1
    /\ LET v == Judge(Tr[l]) IN
       IF v = "ok" THEN nbad' = nbad
       ELSE /\ nbad' = nbad + 1
            /\ PrintT(<<"DEV", l, v, Expected(Tr[l])>>)

Spec == Init /\ [][Next]_<<l, nbad>>
Consumed == TLCGet("stats").diameter - 1 = Len(Tr)
=============================================================================
