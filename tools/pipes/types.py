"""Type-trait pipeline (spec/TypesOps.tla, LimitsOps.tla, RatioOps.tla, Types.tla, TypesTrace.tla,
tools/gen_types.py, harness/types_main.cpp + types_support.hpp).  Serves C15.

MC+GEN: TLC enumerates the type zoo, the ordered pairs, the numeric_limits types and the ratio grid of spec/Types.tla,
checks the algebra laws on each item and exports it together with the list of traits whose precondition holds and the
*predicted* result terms of the transformation traits.
GEN->C++: tools/gen_types.py spells, from the same term, the C++ type and its JSON; the generated translation units
(under build/types/, never committed) evaluate every trait at compile time and print one event per (trait, type).
A row whose evaluation does not compile is an observation too: the compiler diagnostics name the row, the row is
replaced by an {ill:true} event and the TU is compiled again (the spec then says whether that trait had to be valid).
TV: TypesTrace.tla recomputes every event from the term.  The same rows with X = std are the calibration (zero
deviations required, otherwise ModelFailure: a disagreement between the algebra and libstdc++ is an error of the algebra)."""
import json
import os
import re
import subprocess
import time
import vlib
import gen_types

CHUNKS = {"quick": 8, "thorough": 16}
STD = "c++23"      # is_scoped_enum is C++23; tetl itself requires C++20 and the traits do not depend on the dialect
MAX_ROUNDS = 60


def model(tier, rep, tag="types"):
    r = vlib.tlc_mc("Types.tla", "Types.cfg", "%s_mc_%s" % (tag, tier), workers=2 if tier == "quick" else 4,
                    constants={"Thorough": "TRUE" if tier == "thorough" else "FALSE"}, heap="2g", timeout=2400)
    rep.add_mc("Types", r)
    gen = r["gen"]
    if not gen:
        raise vlib.ModelFailure("Types.tla exported nothing")
    kinds = {}
    for g in gen:
        kinds[g["g"]] = kinds.get(g["g"], 0) + 1
    names = set()
    for g in gen:
        if g["g"] in ("type", "pair"):
            names |= set(g["val"]) | set(x["tr"] for x in g["tr"]) | set(g.get("has", []))
        elif g["g"] == "limits":
            names |= set(g["val"]) | set(g["limbs"])
    rep.cov["modules"]["Types"].update({"items": kinds, "trait_names": len(names)})
    rep.cov["exhaustive"] = True
    return gen


class HeadersIllFormed(Exception):
    """#include of the library headers + the generated declarations does not compile (no row is involved)."""


def compile_chunk(impl, decls, path, rows, out):
    """Compile one generated TU; rows that do not compile are replaced by `ill` rows (found from the diagnostics) and the
    TU is compiled again.  Returns the set of ill row indices."""
    cmd = ["g++", "-std=" + STD, "-O0", "-w", "-ftemplate-backtrace-limit=0", "-I" + vlib.HARNESS]
    if impl == "std":
        cmd += ["-DVH_STD"]
    else:
        cmd += ["-I" + os.path.join(vlib.REPO, "include")]
    cmd += ['-DVH_DECLS="%s"' % decls, '-DVH_ROWS="%s"' % path, os.path.join(vlib.HARNESS, "types_main.cpp"), "-o", out]
    pat = re.compile(re.escape(os.path.basename(path)) + r":(\d+):")
    ill = set()
    t0 = time.time()
    for rnd in range(MAX_ROUNDS):
        gen_types.write_rows(rows, ill, path)
        try:
            p = subprocess.run(cmd, capture_output=True, text=True, timeout=900)
        except subprocess.TimeoutExpired:
            raise vlib.ModelFailure("compile timeout: " + " ".join(cmd))
        if p.returncode == 0:
            vlib.log("[build] %s %.1fs, %d round(s), %d ill row(s)" % (os.path.basename(out), time.time() - t0, rnd + 1, len(ill)))
            return ill
        new = set(int(m.group(1)) - 1 for m in pat.finditer(p.stderr)) - ill
        new = set(i for i in new if 0 <= i < len(rows))
        if not new:
            # the diagnostics do not name a row: locate the first failing row by bisection over prefixes
            def fails(n):
                gen_types.write_rows(rows, ill, path, upto=n)
                try:
                    return subprocess.run(cmd, capture_output=True, text=True, timeout=900).returncode != 0
                except subprocess.TimeoutExpired:
                    raise vlib.ModelFailure("compile timeout: " + " ".join(cmd))
            if fails(0):
                # not even the empty table compiles: the headers themselves are ill-formed for this translation unit
                errs = [l for l in p.stderr.splitlines() if "error" in l]
                raise HeadersIllFormed((errs[0] if errs else p.stderr[-300:])[:400])
            lo, hi = 0, len(rows)       # prefix lo compiles, prefix hi fails
            while hi - lo > 1:
                mid = (lo + hi) // 2
                if fails(mid):
                    hi = mid
                else:
                    lo = mid
            new = {hi - 1}
            vlib.log("[build] %s: row %d located by bisection: %s" % (os.path.basename(out), hi - 1, rows[hi - 1][0][:120]))
        ill |= new
    raise vlib.ModelFailure("more than %d compile rounds for %s" % (MAX_ROUNDS, path))


def build_and_run(gen, tier, impl, tag="types", k=None):
    """-> (trace paths, number of ill rows)"""
    from concurrent.futures import ThreadPoolExecutor
    d = vlib.workdir(tag, "%s_%s" % (impl, tier))
    g = gen_types.generate(gen, d, k or CHUNKS[tier])

    def one(i):
        path, rows = g["chunks"][i]
        out = os.path.join(d, "bin_%d" % i)
        tp = os.path.join(d, "trace_%d.ndjson" % i)
        try:
            ill = compile_chunk(impl, g["decls"], path, rows, out)
        except HeadersIllFormed as e:
            # an observation like a row that does not compile (cf. the "trap" events of vlib): the translation unit that only
            # includes the headers and declares the zoo is ill-formed; TypesTrace.tla judges it
            with open(tp, "w") as f:
                f.write(json.dumps({"op": "translation_unit", "trait": "translation_unit", "ill": True, "diag": str(e)}) + "\n")
            vlib.log("[build] %s: headers ill-formed: %s" % (os.path.basename(out), str(e)[:200]))
            return tp, len(rows)
        vlib.run([out], tp, timeout=600)
        return tp, len(ill)
    with ThreadPoolExecutor(max_workers=min(vlib.NCPU, 8)) as ex:
        res = list(ex.map(one, range(len(g["chunks"]))))
    return [r[0] for r in res], sum(r[1] for r in res), g


def validate(paths, tier, impl, tag="types"):
    return vlib.tv_parallel("TypesTrace.tla", "TypesTrace.cfg", paths, "%s_tv_%s_%s" % (tag, impl, tier), par=4, heap="1g")


def pipeline(tier, rep, calibrate=True):
    from concurrent.futures import ThreadPoolExecutor
    gen = model(tier, rep)
    with ThreadPoolExecutor(max_workers=2) as ex:
        fs = ex.submit(build_and_run, gen, tier, "std") if calibrate else None
        fe = ex.submit(build_and_run, gen, tier, "etl")
        std = fs.result() if fs else None
        etl = fe.result()
    m = rep.cov["modules"]["Types"]
    m.update({"types_spelled": etl[2]["types"], "rows": etl[2]["rows"], "translation_units": len(etl[2]["chunks"])})
    if calibrate:
        ctv = validate(std[0], tier, "std")
        if ctv["deviations"]:
            dv = ctv["deviations"][0]
            raise vlib.ModelFailure("calibration: libstdc++ deviates from TypesOps (%d deviations; algebra/projection error): %s %s expected %s"
                                    % (len(ctv["deviations"]), dv["kind"], json.dumps(dv.get("ev"))[:900], json.dumps(dv.get("expected"))[:300]))
        m["calibration_events_std"] = ctv["events"]
        m["calibration_ill_rows_std"] = std[1]
    tv = validate(etl[0], tier, "etl")
    rep.add_tv("Types", tv, len(etl[0]))
    m["ill_rows_etl"] = etl[1]
    types = [g for g in gen if g["g"] == "type"]
    rep.sample({"module": "Types", "item": {"g": "type", "t": types[len(types) // 2]["t"], "traits": len(types[len(types) // 2]["val"])}})
    return tv


def _strip_cv(t):
    return t["t"] if t.get("k") == "cv" else t


def item_of_event(ev):
    """Rebuild the exported item of one recorded event (for --replay)."""
    tr = ev["trait"]
    if "a" in ev:
        return {"g": "bigcmp", "a": ev["a"], "b": ev["b"]} if "b" in ev else {"g": "big1", "a": ev["a"]}
    if "bs" in ev:
        return {"g": "logic", "op": tr, "bs": ev["bs"]}
    if tr == "ratio":
        return {"g": "ratio1", "n": ev["n"], "d": ev["d"], "num": ev.get("xnum", 0), "den": ev.get("xden", 1)}
    if tr.startswith("ratio_"):
        if "xnum" in ev or tr in ("ratio_add", "ratio_subtract", "ratio_multiply", "ratio_divide"):
            return {"g": "ratio2", "op": tr, "n1": ev["n1"], "d1": ev["d1"], "n2": ev["n2"], "d2": ev["d2"],
                    "num": ev.get("xnum", 0), "den": ev.get("xden", 1)}
        return {"g": "ratiocmp", "n1": ev["n1"], "d1": ev["d1"], "n2": ev["n2"], "d2": ev["d2"]}
    if tr.startswith("nl:"):
        isf = _strip_cv(ev["t"]).get("k") == "float"
        limb = "limbs" in ev or tr in ("nl:min", "nl:max", "nl:lowest", "nl:epsilon", "nl:denorm_min", "nl:infinity", "nl:round_error")
        nan = tr in ("nl:quiet_NaN", "nl:signaling_NaN")
        return {"g": "limits", "t": ev["t"], "rt": _strip_cv(ev["t"]), "val": [] if (limb or nan) else [tr],
                "limbs": [tr] if limb else [], "nan": isf, "only_nan": nan}
    if "u" in ev:
        if "res" in ev or tr in ("common_type", "conditional_true", "conditional_false"):
            return {"g": "pair", "t": ev["t"], "u": ev["u"], "val": [], "tr": [{"tr": tr, "res": ev.get("res", ev["t"])}]}
        return {"g": "pair", "t": ev["t"], "u": ev["u"], "val": [tr], "tr": []}
    if "has" in ev:
        return {"g": "type", "t": ev["t"], "val": [], "tr": [], "has": [tr]}
    if "res" in ev:
        return {"g": "type", "t": ev["t"], "val": [], "tr": [{"tr": tr, "res": ev["res"]}], "has": []}
    return {"g": "type", "t": ev["t"], "val": [tr], "tr": [], "has": []}


def replay(rec):
    """check.py --replay: re-evaluate the trait of a recorded deviation on the current tree and judge it again.
    Returns the deviations (empty list = the recorded case conforms now)."""
    ev = rec["event"]
    rep = vlib.Report("C15", "quick")
    gen = model("quick", rep, tag="types_replay")
    if ev.get("trait") == "translation_unit":
        # one harmless row; the recorded observation is "the headers do not compile"
        items = [g for g in gen if g["g"] in ("class", "enum")] + [{"g": "ratio1", "n": 1, "d": 1, "num": 1, "den": 1}]
        paths, _, _ = build_and_run(items, "quick", "etl", tag="types_replay", k=1)
        first = json.loads(open(paths[0]).readline())
        if first.get("trait") != "translation_unit":
            return []
        return vlib.tlc_tv("TypesTrace.tla", "TypesTrace.cfg", paths[0], "types_tv_replay", heap="1g")["deviations"]
    items = [g for g in gen if g["g"] in ("class", "enum")] + [item_of_event(ev)]
    paths, _, _ = build_and_run(items, "quick", "etl", tag="types_replay", k=1)
    first = json.loads(open(paths[0]).readline())
    if first.get("trait") == "translation_unit":
        return vlib.tlc_tv("TypesTrace.tla", "TypesTrace.cfg", paths[0], "types_tv_replay", heap="1g")["deviations"]
    keys = ("trait", "t", "u", "n", "d", "n1", "d1", "n2", "d2", "bs", "a", "b")
    sel = [l for l in open(paths[0]) if all(json.loads(l).get(k) == ev.get(k) for k in keys)]
    if not sel:
        raise vlib.ModelFailure("replay: the observation %s can no longer be made" % ev.get("trait"))
    one = os.path.join(os.path.dirname(paths[0]), "replay_one.ndjson")
    with open(one, "w") as f:
        f.write(sel[0])
    r = vlib.tlc_tv("TypesTrace.tla", "TypesTrace.cfg", one, "types_tv_replay", heap="1g")
    return r["deviations"]
