"""Algorithm family pipeline (spec/AlgoOps.tla, AlgoDom.tla, Algo.tla, AlgoTrace.tla,
harness/algo_driver.cpp, harness/iter_wrappers.hpp).  Serves C06.

  1. TLC model-checks Algo.tla (Post(op, x, Ref(op, x)) and uniqueness of the returned value on the whole
     bounded domain, |Dom| = DomSize) and exports the shared input domain (key sequences) + the domain size
     of every algorithm.
  2. compile probes decide which (algorithm, iterator category) instantiations the working tree can
     drive; the driver is built for tetl and, with -DVH_STD, for libstdc++ (calibration).
  3. the drivers replay the exported domain through every algorithm / category; AlgoTrace.tla judges every
     event and checks exact coverage of the domain per (algorithm, category) group.
Python only orchestrates: it never compares results."""
import json
import os
import threading
from concurrent.futures import ThreadPoolExecutor

import vlib

CONSTS = {"quick": {"MaxLen": 5, "MaxLen2": 3, "MaxPair": 4, "MaxA2": 4},
          "thorough": {"MaxLen": 6, "MaxLen2": 3, "MaxPair": 5, "MaxA2": 5}}
NFILES = {"quick": 7, "thorough": 14}

# (algorithm, category) instantiations the standard requires but the tree may not compile:
# probed on every run; enabled in the driver (-DVH_OK_<fn>_<policy>) as soon as they compile
SUSPECTS = [("search_n", "P_fwd"), ("search_n", "P_ra"), ("inplace_merge", "P_bidi"), ("unique_copy", "P_io"),
            ("stable_partition", "P_bidi"), ("shift_right", "P_fwd")]


def model(tier, rep, out):
    c = {k: str(v) for k, v in CONSTS[tier].items()}
    r = vlib.tlc_mc("Algo.tla", "Algo.cfg", "algo_mc_" + tier, workers=6, constants=c, heap="6g", timeout=2400)
    out["mc"] = r


def probe(fn, pol):
    try:
        vlib.build("algo_driver.cpp", "algo_probe_%s_%s" % (fn, pol), opt="-O0",
                   flags=["-fsyntax-only", "-DVH_PROBE_FN=run_" + fn, "-DVH_PROBE_POL=" + pol])
        return True
    except vlib.ModelFailure:
        return False


def build_drivers(out):
    with ThreadPoolExecutor(max_workers=len(SUSPECTS) + 1) as ex:
        std = ex.submit(vlib.build, "algo_driver.cpp", "algo_std", ["-DVH_STD"], "c++20", "-O1", 900, False)
        ok = list(ex.map(lambda s: probe(*s), SUSPECTS))
        flags = ["-DVH_OK_%s_%s" % s for s, k in zip(SUSPECTS, ok) if k]
        etl = vlib.build("algo_driver.cpp", "algo_etl", flags=flags)
        out["bins"] = {"etl": etl, "std": std.result()}
        out["probe"] = {"%s/%s" % (s[0], s[1][2:]): k for s, k in zip(SUSPECTS, ok)}


def listing(binp):
    import subprocess
    p = subprocess.run([binp, "list"], capture_output=True, text=True, timeout=60)
    if p.returncode != 0:
        raise vlib.ModelFailure("algo driver list failed")
    res = {}
    for line in p.stdout.splitlines():
        w = line.split()
        res[w[0]] = {"cats": [c for c in w[1:] if not c.startswith("!")], "unsupported": [c[1:] for c in w[1:] if c.startswith("!")]}
    return res


def partition(ops, weight, k):
    bins = [[0, []] for _ in range(k)]
    for op in sorted(ops, key=lambda o: -weight[o]):
        b = min(bins, key=lambda b: b[0])
        b[0] += weight[op]
        b[1].append(op)
    return [b[1] for b in bins if b[1]]


def execute(impl, binp, domain, parts, tier):
    d = vlib.workdir("traces")
    tasks = []
    outs = []
    for i, ops in enumerate(parts):
        tp = os.path.join(d, "algo_%s_%s_%d.ndjson" % (impl, tier, i))
        tasks.append(([binp, "run", domain, ",".join(ops)], tp))
        outs.append(tp)
    res = vlib.run_parallel(tasks)
    groups = {}
    unsupported = set()
    for _, err in res:
        for line in err.splitlines():
            w = line.split()
            if w and w[0] == "GROUP":
                groups[(w[1], w[2])] = int(w[3])
            elif w and w[0] == "UNSUPPORTED":
                unsupported.add("%s/%s" % (w[1], w[2]))
    return outs, groups, sorted(unsupported)


def pipeline(tier, rep, calibrate=True):
    out = {}
    errs = []

    def guarded(fn, *a):
        try:
            fn(*a)
        except Exception as e:  # noqa: BLE001 - re-raised in the main thread
            errs.append(e)
    th = [threading.Thread(target=guarded, args=(model, tier, rep, out)), threading.Thread(target=guarded, args=(build_drivers, out))]
    for t in th:
        t.start()
    th[1].join()
    if errs:
        th[0].join()
        raise errs[0]
    # the key sequences are a function of the constants: TLC exports them within seconds, but the
    # theorems take longer - the replay starts as soon as the export is there, the verdict of the model
    # check is awaited before anything is reported
    th[0].join()
    if errs:
        raise errs[0]
    mc = out["mc"]
    rep.add_mc("Algo", mc)
    seqs = [g for g in mc["gen"] if g["kind"] == "seq"]
    sizes = {g["op"]: g["size"] for g in mc["gen"] if g["kind"] == "op"}
    domain = os.path.join(vlib.workdir("scripts"), "algo_domain_%s.ndjson" % tier)
    with open(domain, "w") as f:
        f.write(json.dumps(dict(kind="cfg", **CONSTS[tier])) + "\n")
        for g in seqs:
            f.write(json.dumps(g) + "\n")
    lst = {impl: listing(out["bins"][impl]) for impl in ("etl", "std")}
    for impl in ("etl", "std"):
        if set(lst[impl]) != set(sizes):
            raise vlib.ModelFailure("algo driver (%s) and Algo.tla disagree on the set of algorithms: %s"
                                    % (impl, sorted(set(lst[impl]) ^ set(sizes))))
    nfiles = NFILES[tier]
    res = {}

    def one(impl):
        weight = {op: sizes[op] * len(lst[impl][op]["cats"]) for op in sizes}
        parts = partition(list(sizes), weight, nfiles)
        traces, groups, unsup = execute(impl, out["bins"][impl], domain, parts, tier)
        for op in sizes:
            for cat in lst[impl][op]["cats"]:
                if (op, cat) not in groups:
                    raise vlib.ModelFailure("algo driver (%s) did not run group %s/%s" % (impl, op, cat))
        tv = vlib.tv_parallel("AlgoTrace.tla", "AlgoTrace_%s.cfg" % tier, traces, "algo_tv_%s_%s" % (impl, tier), par=nfiles,
                              heap="3g" if tier == "quick" else "4g")
        res[impl] = (tv, groups, unsup)
    impls = ["etl", "std"] if calibrate else ["etl"]
    with ThreadPoolExecutor(max_workers=2) as ex:
        list(ex.map(one, impls))
    tv, groups, unsup = res["etl"]
    rep.add_tv("Algo", tv, len(groups))
    mod = rep.cov["modules"]["Algo"]
    mod.update({"algorithms": len(sizes), "groups_algorithm_x_iterator_category": len(groups),
                "domain_inputs_per_category": sum(sizes.values()), "constants": CONSTS[tier],
                "not_drivable": unsup, "compile_probes": out["probe"]})
    rep.cov["exhaustive"] = True
    rep.sample({"module": "Algo", "domain_sizes": dict(sorted(sizes.items())[:8])})
    if calibrate:
        ctv = res["std"][0]
        if ctv["deviations"]:
            d = ctv["deviations"][0]
            raise vlib.ModelFailure("calibration: libstdc++ deviates from the Algo spec (spec/projection error): %s %s"
                                    % (d["kind"], json.dumps(d.get("ev"))[:600]))
        mod["calibration_events_std"] = ctv["events"]
    return tv, groups
