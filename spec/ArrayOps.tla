---------------------------- MODULE ArrayOps ----------------------------
(* Meaning of a fixed-size array (std::array, [array]) as a value sequence of fixed length N, constant-free. *)
(* State  s = [a |-> Seq, b |-> Seq]  (two arrays of one type, Len = N).  A call is (op, o, x, elem):        *)
(*   o the target object, x = [i, v, xs] (0-based index, value, sequence), elem = "int" | "trk" (an element    *)
(*   type whose moved-from value is MovedFrom).  Every access path of the class is an operation of its own, so     *)
(*   that "writes through path P land in element i" is stated per path:                                        *)
(*   operator[], front(), back(), data(), get<I>(), begin()+i, rbegin()+i, structured binding.                  *)
(* Observers (all const forms, iteration in both directions, the six relational operators, sizes) are          *)
(* judged by ObsOK on the post-state of every event.                                                           *)
EXTENDS Naturals, Integers, Sequences, FiniteSets

MovedFrom == -1   \* value the harness element type leaves in a moved-from object (LifeOps!MOVED)
Other(o) == IF o = "a" THEN "b" ELSE "a"
Fill(n, v) == [i \in 1..n |-> v]
Rev(s) == [i \in 1..Len(s) |-> s[Len(s) + 1 - i]]
Min2(a, b) == IF a < b THEN a ELSE b

\* [alg.lex.comparison], declaratively
LexLess(s, t) ==
    \E k \in 0..Min2(Len(s), Len(t)) :
        /\ \A i \in 1..k : s[i] = t[i]
        /\ \/ k = Len(s) /\ k < Len(t)
           \/ k < Len(s) /\ k < Len(t) /\ s[k + 1] < t[k + 1]

IndexSetOps == {"set_index", "set_data", "set_get", "set_iter", "set_sb"}   \* element i
SetOps == IndexSetOps \cup {"set_front", "set_back", "set_riter"}
AssignOps == {"assign", "assign_partial", "to_array", "to_array_rv"}
TwoObjOps == {"swap", "fswap", "copy_ctor", "copy_assign"}
AllOps == SetOps \cup AssignOps \cup TwoObjOps \cup {"fill", "get_rv"}

N(s) == Len(s.a)

Pre(op, o, x, s) ==
    /\ op \in AllOps /\ o \in {"a", "b"} /\ Len(s.a) = Len(s.b)
    /\ (op \in IndexSetOps \cup {"set_riter", "get_rv"} => x.i \in 0..(N(s) - 1))
    /\ (op \in {"set_front", "set_back"} => N(s) > 0)
    /\ (op \in {"assign", "to_array", "to_array_rv"} => Len(x.xs) = N(s))
    /\ (op \in {"to_array", "to_array_rv"} => N(s) > 0)          \* there is no built-in array of zero length
    /\ (op = "assign_partial" => Len(x.xs) < N(s))

\* index (1-based) a write through the given path must land in
Target(op, x, n) ==
    CASE op \in IndexSetOps -> x.i + 1
      [] op = "set_front" -> 1
      [] op = "set_back" -> n
      [] op = "set_riter" -> n - x.i            \* *(rbegin() + i)

R(s, ret) == [st |-> s, ret |-> ret]

Eff(op, o, x, s, elem) ==
    LET e == s[o] n == N(s) IN
    CASE op \in SetOps -> R([s EXCEPT ![o][Target(op, x, n)] = x.v], 0)
      [] op \in {"assign", "to_array", "to_array_rv"} -> R([s EXCEPT ![o] = x.xs], 0)
      \* aggregate initialisation with fewer initialisers: the remaining elements are value-initialised
      [] op = "assign_partial" -> R([s EXCEPT ![o] = x.xs \o Fill(n - Len(x.xs), 0)], 0)
      [] op = "fill" -> R([s EXCEPT ![o] = Fill(n, x.v)], 0)
      [] op \in {"swap", "fswap"} -> R([s EXCEPT ![o] = s[Other(o)], ![Other(o)] = s[o]], 0)
      [] op \in {"copy_ctor", "copy_assign"} -> R([s EXCEPT ![o] = s[Other(o)]], 0)
      \* T t = get<I>(std::move(arr)): an rvalue reference to element I; the element is moved from
      [] op = "get_rv" -> R(IF elem = "trk" THEN [s EXCEPT ![o][x.i + 1] = MovedFrom] ELSE s, e[x.i + 1])

\* what the built-in source array of to_array looks like afterwards: to_array(T(&)[N]) copies,
\* to_array(T(&&)[N]) moves every element
SrcAfter(op, x, elem) == IF op = "to_array_rv" /\ elem = "trk" THEN Fill(Len(x.xs), MovedFrom) ELSE x.xs

\* ---- observers --------------------------------------------------------------------------------------
B2I(b) == IF b THEN 1 ELSE 0
\* q = observations of one object: every sequence-valued observer must show exactly the element sequence
\* ("sb" = structured binding; absent from the event when the instantiation cannot be decomposed: reported as not drivable)
SeqObs == {"fwd", "cfwd", "kfwd", "idx", "kidx", "data", "kdata", "gets", "kgets", "kgrv", "sb"}
RevObs == {"rev", "crev", "krev"}
ObjObsBad(q, e) ==
    LET n == Len(e) IN
    (IF \A f \in SeqObs \cap DOMAIN q : q[f] = e THEN <<>> ELSE <<"obs-seq">>)
    \o (IF \A f \in RevObs : q[f] = Rev(e) THEN <<>> ELSE <<"obs-rev">>)
    \o (IF q.size = n /\ q.max_size = n /\ q.empty = (n = 0) /\ q.tsize = n /\ q.dist = n /\ q.rdist = n
           /\ q.data_is_begin THEN <<>> ELSE <<"obs-size">>)
    \o (IF n = 0 \/ (q.front = e[1] /\ q.kfront = e[1] /\ q.back = e[n] /\ q.kback = e[n]) THEN <<>> ELSE <<"obs-ends">>)

\* c = <<a==b, a!=b, a<b, a<=b, a>b, a>=b>>
CmpOK(c, a, b) ==
    /\ c[1] = (a = b) /\ c[2] = (a # b)
    /\ c[3] = LexLess(a, b) /\ c[4] = ~LexLess(b, a)
    /\ c[5] = LexLess(b, a) /\ c[6] = ~LexLess(a, b)

ObsBad(obs, s) ==
    ObjObsBad(obs.a, s.a) \o ObjObsBad(obs.b, s.b)
    \o (IF CmpOK(obs.cmp_ab, s.a, s.b) /\ CmpOK(obs.cmp_ba, s.b, s.a) /\ CmpOK(obs.cmp_aa, s.a, s.a) THEN <<>> ELSE <<"obs-cmp">>)
=========================================================================
