-------------------------- MODULE CallableTrace --------------------------
(* Trace validation for C20.  Three families of events (field fam):                                    *)
(*   "ipf"  histories of two inplace_function objects: [op, o, x, pre, post, ret, calls, handler, obs]   *)
(*          (+ life events of non-trivial captures: each wrapper's storage is one cell)                   *)
(*   "form" one call through a wrapper / INVOKE form: [form, x, calls, ret]                               *)
(*   "tup"  pair / tuple operation: [k, ty, ty2, op, x, calls, ret]                                       *)
(* judged by the operators of CallableOps / LifeOps.  Deviations are collected, not fatal.               *)
EXTENDS CallableOps, LifeOps, Json, IOUtils, TLC

Tr == ndJsonDeserialize(IOEnv.TRACE)

VARIABLES l, nbad

Cell(o) == (IF o = "f" THEN 1 ELSE IF o = "g" THEN 2 ELSE 3) * 1000 + 1
LifeRun(ev) ==
    LRun(InitCells(<<[r |-> 1, els |-> IpfEls(ev.pre.f)], [r |-> 2, els |-> IpfEls(ev.pre.g)], [r |-> 3, els |-> IpfEls(ev.pre.h)]>>,
                   ev.life.ext), ev.life.evs, 1)
\* "valid but unspecified" still means valid: a wrapper that reports non-empty must hold a LIVE target. A wrapper whose
\* projection says "holds a non-trivial capture" while the lifetime events of this very call destroyed that capture
\* (and did not construct a new one there) is non-empty with a dead capture.
DeadCapture(ev) ==
    LET run == LifeRun(ev) IN
    run.bad = 0 /\ \E o \in {"f", "g", "h"} :
        ev.post[o].e = 1 /\ NonTrivialT(ev.post[o].t) /\ Get(run.f, Cell(o)) = DEAD

LifeVerdict(ev) ==
    LET owners0 == <<[r |-> 1, els |-> IpfEls(ev.pre.f)], [r |-> 2, els |-> IpfEls(ev.pre.g)], [r |-> 3, els |-> IpfEls(ev.pre.h)]>>
        owners1 == <<[r |-> 1, els |-> IpfEls(ev.post.f)], [r |-> 2, els |-> IpfEls(ev.post.g)], [r |-> 3, els |-> IpfEls(ev.post.h)]>>
        f0 == InitCells(owners0, ev.life.ext)
        run == LRun(f0, ev.life.evs, 1)
    IN IF run.bad # 0 THEN "life-protocol"
       ELSE IF ~FinalOK(run.f, owners1, {ev.life.extend[j] : j \in 1..Len(ev.life.extend)}) THEN "life-final"
       ELSE "ok"

JudgeIpf(ev) ==
    IF ~IpfPre(ev.op, ev.o, ev.x, ev.pre) THEN "harness-pre"
    \* the projected state (bool + probe call) is not a wrapper state at all: e.g. bool says "not empty" but a call
    \* reaches no target, or the capture reads a value no history stored - an observation about the implementation
    ELSE IF ~(LegalW(ev.pre.f) /\ LegalW(ev.pre.g) /\ LegalW(ev.pre.h)) THEN "state"
    ELSE IF "life" \in DOMAIN ev /\ DeadCapture(ev) THEN "state"
    ELSE IF ~IpfPost(ev.op, ev.o, ev.x, ev.pre, ev.post, ev.ret, ev.calls, ev.handler) THEN
            (IF ev.op = "call" THEN "call" ELSE "post")
    ELSE IF ~IpfObsOK(ev.obs, ev.post) THEN "obs"
    ELSE "ok"

\* the lifetime verdict is reported independently of the behavioural one (a call can break both; C03 keeps life-*)
JudgeLife(ev) ==
    IF ev.fam = "ipf" /\ "life" \in DOMAIN ev /\ IpfPre(ev.op, ev.o, ev.x, ev.pre) THEN LifeVerdict(ev) ELSE "ok"

Judge(ev) ==
    CASE ev.fam = "ipf" -> JudgeIpf(ev)
      [] ev.fam = "form" ->
            IF ~FormPre(ev.form, ev.x) THEN "harness-pre"
            ELSE IF ~FormOK(ev.form, ev.x, ev.calls, ev.ret) THEN "call" ELSE "ok"
      [] ev.fam = "tup" ->
            IF ~TupPre(ev.k, ev.ty, ev.ty2, ev.op, ev.x) THEN "harness-pre"
            ELSE IF ~TupOK(ev.k, ev.ty, ev.ty2, ev.op, ev.x, ev.calls, ev.ret) THEN "tuple" ELSE "ok"
      [] OTHER -> "harness-family"

Expected(ev) ==
    CASE ev.fam = "ipf" -> IF IpfPre(ev.op, ev.o, ev.x, ev.pre) THEN ToJson(IpfEff(ev.op, ev.o, ev.x, ev.pre)) ELSE "-"
      [] ev.fam = "form" -> IF FormPre(ev.form, ev.x) THEN ToJson(FormExpect(ev.form, ev.x)) ELSE "-"
      [] ev.fam = "tup" -> IF TupPre(ev.k, ev.ty, ev.ty2, ev.op, ev.x) THEN ToJson(TupExpect(ev.k, ev.ty, ev.ty2, ev.op, ev.x)) ELSE "-"
      [] OTHER -> "-"

Init == l = 1 /\ nbad = 0

Next ==
    /\ l <= Len(Tr)
    /\ l' = l + 1
    /\ LET v == Judge(Tr[l]) lf == JudgeLife(Tr[l]) IN
       /\ nbad' = nbad + (IF v = "ok" THEN 0 ELSE 1) + (IF lf = "ok" THEN 0 ELSE 1)
       /\ (v # "ok" => PrintT(<<"DEV", l, v, Expected(Tr[l])>>))
       /\ (lf # "ok" => PrintT(<<"DEV", l, lf, "-">>))

Spec == Init /\ [][Next]_<<l, nbad>>
Consumed == TLCGet("stats").diameter - 1 = Len(Tr)
==========================================================================
