"""X13 (extension) - experimental/net buffer views behave like the Networking TS mutable_buffer / const_buffer."""
from pipes import netbuf


def run(tier, rep):
    netbuf.pipeline(tier, rep)
    rep.assumptions += [
        "a pointer is observed as its byte offset from the caller's range (nullptr = -1); contents through an "
        "unsigned char read of [data(), data()+size())",
        "caller ranges of 0..6 bytes x advance 0..8 x max size 0..8 exhaustively (TLC export); ranges up to 64 bytes, "
        "advances up to SIZE_MAX and chains of 12 calls by a seeded sweep (huge size_t arguments are logged as 2^30)",
        "container factories: element sizes 1/2/4, array<T,0..6>, static_vector<T,6> with 0..6 elements; the pointer "
        "of an EMPTY container view is not judged",
        "the TLA+ reading of the TS is calibrated against libstdc++ 12 <experimental/buffer> (operator+= is not in that "
        "draft: the reference is b = b + n)",
    ]
