// Conformance driver for the bit / integer utilities (property C14).
// Calls the real etl functions on (a) the 8-bit input domain exported by spec/IntMath.tla (replay8) and
// (b) its own sweeps: 16-bit values (sweep16) and 32/64-bit boundary + seeded random values (wide), and
// prints one self-contained ndjson event per call (or per small group of calls on the same argument).
// The events are judged by spec/IntMathTrace.tla.  This file contains no oracle and no comparison: it
// deliberately calls on the whole grid (also outside a function's documented domain as long as the
// call is physically executable) and leaves the domain decision to the specification.
// Built with -DVH_STD the identical calls go to libstdc++ <bit>/<numeric>/<utility>, glibc htons/htonl
// and, where the standard library has nothing (C++26 saturation arithmetic, the etl-only helpers), to a
// trivially correct __int128 reference: the calibration build.
//
// Value encoding: 8/16-bit values as plain integers (mathematical value); 32/64-bit values as the
// little-endian array of the 16-bit limbs of their two's complement pattern.
#include "common.hpp"

#include <arpa/inet.h>
#include <bit>
#include <csetjmp>
#include <csignal>
#include <cstdlib>
#include <numeric>
#include <pthread.h>
#include <sys/time.h>
#include <type_traits>
#include <unistd.h>
#include <utility>

#ifndef VH_STD
    #include <etl/bit.hpp>
    #include <etl/cmath.hpp>
    #include <etl/experimental/net/byte_order.hpp>
    #include <etl/numeric.hpp>
    #include <etl/utility.hpp>
#endif

namespace {

using i128 = __int128;

// ---- the implementation under test -------------------------------------------------------------
namespace impl {
#ifndef VH_STD
template <class T> constexpr int popcount(T x) { return etl::popcount(x); }
template <class T> constexpr int countl_zero(T x) { return etl::countl_zero(x); }
template <class T> constexpr int countl_one(T x) { return etl::countl_one(x); }
template <class T> constexpr int countr_zero(T x) { return etl::countr_zero(x); }
template <class T> constexpr int countr_one(T x) { return etl::countr_one(x); }
template <class T> constexpr int bit_width(T x) { return etl::bit_width(x); }
template <class T> constexpr T bit_ceil(T x) { return etl::bit_ceil(x); }
template <class T> constexpr T bit_floor(T x) { return etl::bit_floor(x); }
template <class T> constexpr bool has_single_bit(T x) { return etl::has_single_bit(x); }
template <class T> constexpr T byteswap(T x) { return etl::byteswap(x); }
template <class T> constexpr T rotl(T x, int s) { return etl::rotl(x, s); }
template <class T> constexpr T rotr(T x, int s) { return etl::rotr(x, s); }
template <class T> T set_bit(T x, T p) { return etl::set_bit(x, p); }
template <class T> T set_bit(T x, T p, bool v) { return etl::set_bit(x, p, v); }
template <class T> T reset_bit(T x, T p) { return etl::reset_bit(x, p); }
template <class T> T flip_bit(T x, T p) { return etl::flip_bit(x, p); }
template <class T> bool test_bit(T x, T p) { return etl::test_bit(x, p); }
template <size_t P, class T> T set_bit_t(T x) { return etl::set_bit<P>(x); }
template <size_t P, class T> T set_bit_t(T x, bool v) { return etl::set_bit<P>(x, v); }
template <size_t P, class T> T reset_bit_t(T x) { return etl::reset_bit<P>(x); }
template <size_t P, class T> T flip_bit_t(T x) { return etl::flip_bit<P>(x); }
template <size_t P, class T> bool test_bit_t(T x) { return etl::test_bit<P>(x); }
template <class T> T add_sat(T x, T y) { return etl::add_sat(x, y); }
template <class T> T div_sat(T x, T y) { return etl::div_sat(x, y); }
template <class To, class From> To saturate_cast(From x) { return etl::saturate_cast<To>(x); }
template <class T> T midpoint(T x, T y) { return etl::midpoint(x, y); }
template <class M, class N> auto gcd(M m, N n) { return etl::gcd(m, n); }
template <class M, class N> auto lcm(M m, N n) { return etl::lcm(m, n); }
template <class T> T abs(T x) { return etl::abs(x); }        // overload resolution: <cmath>/<cstdlib> abs(int|long|long long) or the template
template <class T> T abs_t(T x) { return etl::abs<T>(x); }   // always the template of etl/_numeric/abs.hpp
template <class T> void idiv(T x, T y, T& q, T& r)
{
    auto res = etl::idiv(x, y);
    q        = res.quot;
    r        = res.rem;
}
template <class T> T ipow(T b, T e) { return etl::ipow(b, e); }
template <auto B> auto ipow_t(decltype(B) e) { return etl::ipow<B>(e); }
template <class T> T ilog2(T x) { return etl::ilog2(x); }
template <class T, class U> bool cmp_equal(T t, U u) { return etl::cmp_equal(t, u); }
template <class T, class U> bool cmp_not_equal(T t, U u) { return etl::cmp_not_equal(t, u); }
template <class T, class U> bool cmp_less(T t, U u) { return etl::cmp_less(t, u); }
template <class T, class U> bool cmp_less_equal(T t, U u) { return etl::cmp_less_equal(t, u); }
template <class T, class U> bool cmp_greater(T t, U u) { return etl::cmp_greater(t, u); }
template <class T, class U> bool cmp_greater_equal(T t, U u) { return etl::cmp_greater_equal(t, u); }
template <class R, class T> bool in_range(T t) { return etl::in_range<R>(t); }
template <class T> T hton(T x) { return etl::experimental::net::hton(x); }
template <class T> T ntoh(T x) { return etl::experimental::net::ntoh(x); }
#else
template <class T> T clamp128(i128 v)
{
    i128 const lo = std::numeric_limits<T>::min();
    i128 const hi = std::numeric_limits<T>::max();
    return T(v < lo ? lo : (v > hi ? hi : v));
}
template <class T> constexpr int popcount(T x) { return std::popcount(x); }
template <class T> constexpr int countl_zero(T x) { return std::countl_zero(x); }
template <class T> constexpr int countl_one(T x) { return std::countl_one(x); }
template <class T> constexpr int countr_zero(T x) { return std::countr_zero(x); }
template <class T> constexpr int countr_one(T x) { return std::countr_one(x); }
template <class T> constexpr int bit_width(T x) { return int(std::bit_width(x)); }
template <class T> constexpr T bit_ceil(T x) { return std::bit_ceil(x); }
template <class T> constexpr T bit_floor(T x) { return std::bit_floor(x); }
template <class T> constexpr bool has_single_bit(T x) { return std::has_single_bit(x); }
template <class T> constexpr T byteswap(T x) { return std::byteswap(x); }
template <class T> constexpr T rotl(T x, int s) { return std::rotl(x, s); }
template <class T> constexpr T rotr(T x, int s) { return std::rotr(x, s); }
// etl-only helpers: the definition itself
template <class T> T set_bit(T x, T p) { return T(x | T(T(1) << p)); }
template <class T> T set_bit(T x, T p, bool v) { return T(T(x & T(~T(T(1) << p))) | T(T(v) << p)); }
template <class T> T reset_bit(T x, T p) { return T(x & T(~T(T(1) << p))); }
template <class T> T flip_bit(T x, T p) { return T(x ^ T(T(1) << p)); }
template <class T> bool test_bit(T x, T p) { return ((x >> p) & 1U) != 0; }
template <size_t P, class T> T set_bit_t(T x) { return set_bit<T>(x, T(P)); }
template <size_t P, class T> T set_bit_t(T x, bool v) { return set_bit<T>(x, T(P), v); }
template <size_t P, class T> T reset_bit_t(T x) { return reset_bit<T>(x, T(P)); }
template <size_t P, class T> T flip_bit_t(T x) { return flip_bit<T>(x, T(P)); }
template <size_t P, class T> bool test_bit_t(T x) { return test_bit<T>(x, T(P)); }
template <class T> T add_sat(T x, T y) { return clamp128<T>(i128(x) + i128(y)); }
template <class T> T div_sat(T x, T y) { return clamp128<T>(i128(x) / i128(y)); }
template <class To, class From> To saturate_cast(From x) { return clamp128<To>(i128(x)); }
template <class T> T midpoint(T x, T y) { return std::midpoint(x, y); }
template <class M, class N> auto gcd(M m, N n) { return std::gcd(m, n); }
template <class M, class N> auto lcm(M m, N n) { return std::lcm(m, n); }
template <class T> T abs(T x) { return T(x < 0 ? -i128(x) : i128(x)); }
template <class T> T abs_t(T x) { return abs<T>(x); }
template <class T> void idiv(T x, T y, T& q, T& r)
{
    if constexpr (std::is_same_v<T, int> or std::is_same_v<T, long> or std::is_same_v<T, long long>) {
        auto res = std::div(x, y);
        q        = res.quot;
        r        = res.rem;
    } else {
        q = T(i128(x) / i128(y));
        r = T(i128(x) % i128(y));
    }
}
template <class T> T ipow(T b, T e)
{
    i128 r = 1;
    for (i128 i = 0; i < i128(e); ++i) { r = i128((unsigned __int128)r * (unsigned __int128)i128(b)); }
    return T(r);
}
template <auto B> auto ipow_t(decltype(B) e) { return ipow<decltype(B)>(B, e); }
template <class T> T ilog2(T x)
{
    int r = 0;
    for (i128 v = x; v > 1; v /= 2) { ++r; }
    return T(r);
}
template <class T, class U> bool cmp_equal(T t, U u) { return std::cmp_equal(t, u); }
template <class T, class U> bool cmp_not_equal(T t, U u) { return std::cmp_not_equal(t, u); }
template <class T, class U> bool cmp_less(T t, U u) { return std::cmp_less(t, u); }
template <class T, class U> bool cmp_less_equal(T t, U u) { return std::cmp_less_equal(t, u); }
template <class T, class U> bool cmp_greater(T t, U u) { return std::cmp_greater(t, u); }
template <class T, class U> bool cmp_greater_equal(T t, U u) { return std::cmp_greater_equal(t, u); }
template <class R, class T> bool in_range(T t) { return std::in_range<R>(t); }
template <class T> T hton(T x)
{
    if constexpr (sizeof(T) == 2) {
        return htons(x);
    } else if constexpr (sizeof(T) == 4) {
        return htonl(x);
    } else {
        return x;
    }
}
template <class T> T ntoh(T x)
{
    if constexpr (sizeof(T) == 2) {
        return ntohs(x);
    } else if constexpr (sizeof(T) == 4) {
        return ntohl(x);
    } else {
        return x;
    }
}
#endif
} // namespace impl

// ---- output ----------------------------------------------------------------------------------------
std::string g_out;
long g_events = 0;
long g_flushes = 0;

void flush_out()
{
    ++g_flushes;
    if (!g_out.empty()) {
        size_t off = 0;
        while (off < g_out.size()) {
            ssize_t n = ::write(1, g_out.data() + off, g_out.size() - off);
            if (n <= 0) { _exit(4); }
            off += size_t(n);
        }
        g_out.clear();
    }
}

template <class T> constexpr int W = int(sizeof(T) * 8);
template <class T> constexpr int S = std::is_signed_v<T> ? 1 : 0;

template <class T> char const* tname()
{
    if constexpr (std::is_same_v<T, unsigned long long>) { return "ull"; }
    if constexpr (std::is_same_v<T, long long>) { return "ll"; }
    if constexpr (std::is_same_v<T, uint8_t>) { return "u8"; }
    if constexpr (std::is_same_v<T, int8_t>) { return "i8"; }
    if constexpr (std::is_same_v<T, uint16_t>) { return "u16"; }
    if constexpr (std::is_same_v<T, int16_t>) { return "i16"; }
    if constexpr (std::is_same_v<T, uint32_t>) { return "u32"; }
    if constexpr (std::is_same_v<T, int32_t>) { return "i32"; }
    if constexpr (std::is_same_v<T, uint64_t>) { return "u64"; }
    if constexpr (std::is_same_v<T, int64_t>) { return "i64"; }
    return "?";
}

template <class T> struct Tag { };

struct Ev {
    explicit Ev(char const* op)
    {
        g_out += "{\"op\":\"";
        g_out += op;
        g_out += '"';
    }
    void key(char const* k)
    {
        g_out += ",\"";
        g_out += k;
        g_out += "\":";
    }
    template <class T> void raw(T v)
    {
        static_assert(std::is_integral_v<T>);
        if constexpr (sizeof(T) <= 2) {
            g_out += std::to_string(int(v));
        } else {
            using U = std::make_unsigned_t<T>;
            U u     = U(v);
            g_out += '[';
            for (size_t k = 0; k < sizeof(T) / 2; ++k) {
                if (k) { g_out += ','; }
                g_out += std::to_string(unsigned((u >> (16 * k)) & 0xFFFFu));
            }
            g_out += ']';
        }
    }
    template <class T> Ev& type(Tag<T>)
    {
        num("w", W<T>);
        num("s", S<T>);
        return *this;
    }
    template <class T> Ev& type2(Tag<T>)
    {
        num("w2", W<T>);
        num("s2", S<T>);
        return *this;
    }
    template <class T> Ev& rtype(Tag<T>)
    {
        num("rw", W<T>);
        num("rs", S<T>);
        return *this;
    }
    template <class T> Ev& val(char const* k, T v)
    {
        key(k);
        raw(v);
        return *this;
    }
    Ev& num(char const* k, long v)
    {
        key(k);
        g_out += std::to_string(v);
        return *this;
    }
    Ev& flag(char const* k, bool v)
    {
        key(k);
        g_out += v ? "true" : "false";
        return *this;
    }
    Ev& str(char const* k, char const* v)
    {
        key(k);
        g_out += '"';
        g_out += v;
        g_out += '"';
        return *this;
    }
    void end()
    {
        g_out += "}\n";
        ++g_events;
        if (g_out.size() > (1u << 20)) { flush_out(); }
    }
};

// ---- trap guard: a call that raises SIGFPE (division) or overflows the stack (runaway recursion; the
// work runs on a thread with a small stack, the handlers on an alternate stack) is recorded as
// "trap", not fatal.  Build with -fno-optimize-sibling-calls so that runaway recursion cannot turn
// into an endless loop.
sigjmp_buf g_jb;
volatile sig_atomic_t g_armed = 0;
long g_traps                  = 0;
// VH_DOMAIN_ONLY (sanitizer runs, property C02): only calls inside the documented domain of a function are made
// (the predicates of namespace dom below select the inputs, they judge nothing), every event is produced inside a
// guarded region, and a stop by a sanitizer (ASAN_OPTIONS/UBSAN_OPTIONS abort_on_error=1 -> SIGABRT), a signal or the
// watchdog becomes one {"op":"crash"} event instead of the end of the run.
bool g_domain_only = false;
bool g_in_event    = false;

void on_fatal(int sig)
{
    flush_out();
    std::fprintf(stderr, "FATAL signal %d after %ld events\n", sig, g_events);
    _exit(3);
}
void on_trap(int sig)
{
    if (g_armed) { siglongjmp(g_jb, sig); }
    on_fatal(sig);
}
// (guarded regions nest: the outer jump buffer is restored on the way out)
template <class F> bool guarded(F&& f)
{
    sigjmp_buf saved;
    std::memcpy(&saved, &g_jb, sizeof(sigjmp_buf));
    sig_atomic_t const was = g_armed;
    bool ok                = false;
    g_armed                = 1;
    if (sigsetjmp(g_jb, 0) == 0) {
        f();
        ok = true;
    } else {
        ++g_traps;
    }
    std::memcpy(&g_jb, &saved, sizeof(sigjmp_buf));
    g_armed = was;
    return ok;
}
// the same with a watchdog: a call that burns a full second of CPU time without returning is recorded as a trap as well
// (CPU time of this process, not wall-clock time: a loaded machine must not look like a hanging call)
inline void cpu_timer(long ms)
{
    struct itimerval tv {};
    tv.it_value.tv_sec  = ms / 1000;
    tv.it_value.tv_usec = (ms % 1000) * 1000;
    setitimer(ITIMER_VIRTUAL, &tv, nullptr);
}
template <class F> bool guarded_timed(F&& f)
{
    cpu_timer(1000);
    bool const ok = guarded(f);
    cpu_timer(0);
    return ok;
}

// one event (or small group of events) produced inside a guarded region; see g_domain_only
template <class T, class F> void contained(char const* op, T x, F&& f)
{
    size_t mark        = g_out.size();
    long const n0      = g_events;
    long const flushes = g_flushes;
    g_in_event         = true;
    bool const ok      = guarded_timed(f);
    g_in_event         = false;
    if (!ok) {
        if (g_flushes != flushes) { mark = 0; } // the buffer was written out at an event boundary in between
        g_out.resize(mark < g_out.size() ? mark : g_out.size());
        if (g_flushes == flushes) { g_events = n0; }
        Ev e("crash");
        e.type(Tag<T>{}).val("x", x).str("of", op).str("inst", tname<T>()).end();
        flush_out();
    }
}
#define VH_CONTAIN(op, x, call)                                   \
    if (g_domain_only and not g_in_event) {                       \
        contained(op, x, [&] { call; });                          \
        return;                                                   \
    }

// documented domains (input selection under VH_DOMAIN_ONLY; the same conditions as Exp(ev).dom in IntMathOps.tla)
namespace dom {
using u128 = unsigned __int128;
template <class T> u128 mag(T v)
{
    i128 const w = i128(v);
    return w < 0 ? u128(-w) : u128(w);
}
template <class R> u128 umax() { return u128(std::numeric_limits<R>::max()); }
inline u128 gcd128(u128 a, u128 b)
{
    while (b != 0) {
        u128 const t = a % b;
        a            = b;
        b            = t;
    }
    return a;
}
template <class R, class M, class N> bool gcd_ok(M m, N n) { return mag(m) <= umax<R>() and mag(n) <= umax<R>(); }
template <class R, class M, class N> bool lcm_ok(M m, N n)
{
    if (not gcd_ok<R>(m, n)) { return false; }
    if (m == 0 or n == 0) { return true; }
    u128 const q = mag(m) / gcd128(mag(m), mag(n));
    return q <= umax<R>() / mag(n);
}
template <class T> bool div_ok(T x, T y)
{
    if (y == 0) { return false; }
    if constexpr (std::is_signed_v<T>) {
        if (x == std::numeric_limits<T>::min() and y == T(-1)) { return false; }
    }
    return true;
}
template <class T> bool abs_ok(T x)
{
    if constexpr (std::is_signed_v<T>) { return x != std::numeric_limits<T>::min(); }
    return true;
}
template <class T> bool ilog2_ok(T x) { return x >= T(1); }
template <class T> bool ipow_ok(T b, T e)
{
    if (e < 0) { return false; }
    i128 const lo = std::numeric_limits<T>::min(), hi = std::numeric_limits<T>::max();
    if (b == 0 or b == 1 or i128(b) == -1) { return true; }
    i128 r = 1;
    for (i128 i = 0; i < i128(e); ++i) {
        if (mag(r) > (u128(1) << 64) / mag(b)) { return false; } // the product would leave every 64-bit type
        r *= i128(b);
        if (r > hi or r < lo) { return false; }
    }
    return true;
}
} // namespace dom
// under VH_DOMAIN_ONLY a call outside the documented domain is not made
inline bool allowed(bool in_domain) { return in_domain or not g_domain_only; }

// ---- groups of calls ----------------------------------------------------------------------------------
template <class T> bool ceil_callable(T x) { return x <= T(T(1) << (W<T> - 1)); }

template <class T> void ev_bits(T x)
{
    VH_CONTAIN("bits", x, ev_bits<T>(x))
    static_assert(std::is_unsigned_v<T>);
    Ev e("bits");
    e.type(Tag<T>{}).val("x", x);
    e.num("popcount", impl::popcount(x)).num("clz", impl::countl_zero(x)).num("clo", impl::countl_one(x));
    e.num("ctz", impl::countr_zero(x)).num("cto", impl::countr_one(x)).num("width", impl::bit_width(x));
    e.flag("single", impl::has_single_bit(x)).val("floor", impl::bit_floor(x));
    // bit_ceil has a precondition (result representable); the call is undefined outside it
    if (ceil_callable(x)) { e.val("ceil", impl::bit_ceil(x)); }
    e.str("inst", tname<T>()).end();
}

// the same group evaluated by the compiler (is_constant_evaluated() selects the portable fallbacks in etl).
// If a function is not a constant expression on one of these in-domain arguments the tables do not compile: the
// pipeline then rebuilds with -DVH_NO_CE (run-time calls only) and records that fact as a crash event.
struct BitsCE {
    int popcount, clz, clo, ctz, cto, width;
    bool single;
    unsigned long long floor, ceil, bswap, rotl3, rotr5;
};
template <class T> constexpr BitsCE bits_ce(T x)
{
    BitsCE r {};
    r.popcount = impl::popcount(x);
    r.clz      = impl::countl_zero(x);
    r.clo      = impl::countl_one(x);
    r.ctz      = impl::countr_zero(x);
    r.cto      = impl::countr_one(x);
    r.width    = impl::bit_width(x);
    r.single   = impl::has_single_bit(x);
    r.floor    = impl::bit_floor(x);
    r.ceil     = x <= T(T(1) << (sizeof(T) * 8 - 1)) ? impl::bit_ceil(x) : T(0);
    r.bswap    = impl::byteswap(x);
    r.rotl3    = impl::rotl(x, 3);
    r.rotr5    = impl::rotr(x, -5);
    return r;
}
template <class T> void emit_bits_ce(T x, BitsCE const& r)
{
    {
        Ev e("bits");
        e.type(Tag<T>{}).val("x", x);
        e.num("popcount", r.popcount).num("clz", r.clz).num("clo", r.clo).num("ctz", r.ctz).num("cto", r.cto).num("width", r.width);
        e.flag("single", r.single).val("floor", T(r.floor));
        if (x <= T(T(1) << (sizeof(T) * 8 - 1))) { e.val("ceil", T(r.ceil)); }
        e.str("form", "constexpr").str("inst", tname<T>()).end();
    }
    {
        Ev e("bswap");
        e.type(Tag<T>{}).val("x", x).val("ret", T(r.bswap)).str("form", "constexpr").str("inst", tname<T>()).end();
    }
    {
        Ev e("rot");
        e.type(Tag<T>{}).val("x", x).num("n", 3).val("rotl", T(r.rotl3)).val("rotr", impl::rotr(x, 3));
        e.str("form", "constexpr").str("inst", tname<T>()).end();
    }
    {
        Ev e("rot");
        e.type(Tag<T>{}).val("x", x).num("n", -5).val("rotl", impl::rotl(x, -5)).val("rotr", T(r.rotr5));
        e.str("form", "constexpr").str("inst", tname<T>()).end();
    }
}
template <class T, size_t N> struct CETable {
    T x[N];
    BitsCE r[N];
};
constexpr auto make_ce8()
{
    CETable<uint8_t, 256> t {};
    for (unsigned i = 0; i < 256; ++i) {
        t.x[i] = uint8_t(i);
        t.r[i] = bits_ce<uint8_t>(uint8_t(i));
    }
    return t;
}
template <class T> constexpr auto make_ce_wide()
{
    constexpr size_t N = sizeof(T) * 8 * 3 + 6;
    CETable<T, N> t {};
    size_t k = 0;
    for (unsigned b = 0; b < sizeof(T) * 8; ++b) {
        T const one = T(T(1) << b);
        t.x[k++]    = one;
        t.x[k++]    = T(one - 1);
        t.x[k++]    = T(~one);
    }
    t.x[k++] = T(0);
    t.x[k++] = T(~T(0));
    t.x[k++] = T(0x1234);
    t.x[k++] = T(0xF0A5C3E1u);
    t.x[k++] = T(0x8001u);
    t.x[k++] = T(T(0x9ABCDEF0u) * T(0x10001u) + 5u);
    for (size_t i = 0; i < N; ++i) { t.r[i] = bits_ce<T>(t.x[i]); }
    return t;
}
template <class Tab> void emit_ce_table(Tab const& t)
{
    for (size_t i = 0; i < sizeof(t.x) / sizeof(t.x[0]); ++i) { emit_bits_ce(t.x[i], t.r[i]); }
}

template <class T> void ev_bswap(T x)
{
    VH_CONTAIN("bswap", x, ev_bswap<T>(x))
    Ev e("bswap");
    e.type(Tag<T>{}).val("x", x).val("ret", impl::byteswap(x)).str("inst", tname<T>()).end();
}

template <class T> void ev_rot(T x, int n)
{
    VH_CONTAIN("rot", x, ev_rot<T>(x, n))
    Ev e("rot");
    e.type(Tag<T>{}).val("x", x).num("n", n).val("rotl", impl::rotl(x, n)).val("rotr", impl::rotr(x, n));
    e.str("inst", tname<T>()).end();
}

template <class T, size_t... I> void tpl_bitpos(Ev& e, T x, unsigned p, std::index_sequence<I...>)
{
    T set{}, reset{}, flip{}, v0{}, v1{};
    bool test = false;
    ((p == I ? (set = impl::set_bit_t<I>(x), reset = impl::reset_bit_t<I>(x), flip = impl::flip_bit_t<I>(x),
                test = impl::test_bit_t<I>(x), v0 = impl::set_bit_t<I>(x, false), v1 = impl::set_bit_t<I>(x, true), 0)
             : 0),
     ...);
    e.val("set", set).val("reset", reset).val("flip", flip).flag("test", test).val("setv0", v0).val("setv1", v1);
}

template <class T> void ev_bitpos(T x, unsigned p, bool tpl)
{
    VH_CONTAIN("bitpos", x, ev_bitpos<T>(x, p, tpl))
    Ev e("bitpos");
    e.type(Tag<T>{}).val("x", x).num("p", p);
    if (tpl) {
        tpl_bitpos(e, x, p, std::make_index_sequence<sizeof(T) * 8>{});
    } else {
        e.val("set", impl::set_bit(x, T(p))).val("reset", impl::reset_bit(x, T(p))).val("flip", impl::flip_bit(x, T(p)));
        e.flag("test", impl::test_bit(x, T(p))).val("setv0", impl::set_bit(x, T(p), false));
        e.val("setv1", impl::set_bit(x, T(p), true));
    }
    e.str("form", tpl ? "tpl" : "rt").str("inst", tname<T>()).end();
}

template <class T> void ev_hton(T x)
{
    VH_CONTAIN("hton", x, ev_hton<T>(x))
    Ev e("hton");
    e.type(Tag<T>{}).val("x", x).flag("le", std::endian::native == std::endian::little);
    e.val("hton", impl::hton(x)).val("ntoh", impl::ntoh(x)).str("inst", tname<T>()).end();
}

template <class T> void ev_ilog2(T x)
{
    if (not allowed(dom::ilog2_ok(x))) { return; }
    VH_CONTAIN("ilog2", x, ev_ilog2<T>(x))
    Ev e("ilog2");
    e.type(Tag<T>{}).val("x", x).val("ret", impl::ilog2(x)).str("inst", tname<T>()).end();
}

template <class T> void ev_abs(T x)
{
    if (not allowed(dom::abs_ok(x))) { return; }
    VH_CONTAIN("abs", x, ev_abs<T>(x))
    {
        Ev e("abs");
        e.type(Tag<T>{}).val("x", x).val("ret", impl::abs(x)).str("inst", tname<T>()).end();
    }
    {
        Ev e("abs");
        e.type(Tag<T>{}).val("x", x).val("ret", impl::abs_t(x)).str("form", "template").str("inst", tname<T>()).end();
    }
}

template <class To, class From> void put_cast(Ev& e, From x, bool first)
{
    if (!first) { g_out += ','; }
    g_out += '[';
    g_out += std::to_string(W<To>);
    g_out += ',';
    g_out += std::to_string(S<To>);
    g_out += ',';
    e.raw(impl::saturate_cast<To>(x));
    g_out += impl::in_range<To>(x) ? ",true]" : ",false]";
}

// saturate_cast and in_range of one value to every target type, as one grouped event
template <class From> void ev_cast_all(From x)
{
    VH_CONTAIN("casts", x, ev_cast_all<From>(x))
    Ev e("casts");
    e.type(Tag<From>{}).val("x", x);
    e.key("to");
    g_out += '[';
    put_cast<uint8_t>(e, x, true);
    put_cast<int8_t>(e, x, false);
    put_cast<uint16_t>(e, x, false);
    put_cast<int16_t>(e, x, false);
    put_cast<uint32_t>(e, x, false);
    put_cast<int32_t>(e, x, false);
    put_cast<uint64_t>(e, x, false);
    put_cast<int64_t>(e, x, false);
    if constexpr (sizeof(From) == 8) {
        put_cast<unsigned long long>(e, x, false);
        put_cast<long long>(e, x, false);
    }
    g_out += ']';
    e.str("inst", tname<From>()).end();
}

template <class T> void ev_bin1(char const* op, T x, T y, T r, bool trapped = false)
{
    Ev e(op);
    e.type(Tag<T>{}).val("x", x).val("y", y).val("ret", trapped ? T(0) : r);
    if (trapped) { e.flag("trap", true); }
    e.str("inst", tname<T>()).end();
}

template <class T> void ev_ipow(T x, T y)
{
    if (not allowed(dom::ipow_ok(x, y))) { return; }
    VH_CONTAIN("ipow", x, ev_ipow<T>(x, y))
    T r{};
    bool ok = guarded_timed([&] { r = impl::ipow(x, y); });
    ev_bin1<T>("ipow", x, y, r, !ok);
}
template <auto B> void ev_ipow_t(decltype(B) y)
{
    if (not allowed(dom::ipow_ok(decltype(B)(B), y))) { return; }
    VH_CONTAIN("ipow", decltype(B)(B), ev_ipow_t<B>(y))
    using T = decltype(B);
    Ev e("ipow");
    T r{};
    bool ok = guarded_timed([&] { r = T(impl::ipow_t<B>(y)); });
    e.type(Tag<T>{}).val("x", T(B)).val("y", y).val("ret", ok ? r : T(0));
    if (!ok) { e.flag("trap", true); }
    e.str("form", "tpl").str("inst", tname<T>()).end();
}
template <class T, class U> void put_cmp(T t, U u)
{
    bool r[6] = {impl::cmp_equal(t, u), impl::cmp_not_equal(t, u), impl::cmp_less(t, u),
                 impl::cmp_less_equal(t, u), impl::cmp_greater(t, u), impl::cmp_greater_equal(t, u)};
    g_out += '[';
    for (int i = 0; i < 6; ++i) {
        if (i) { g_out += ','; }
        g_out += r[i] ? "true" : "false";
    }
    g_out += ']';
}
// every single-type binary function on one pair, as one grouped event "bin"
template <class T> void binary_all(T x, T y, bool with_ipow)
{
    VH_CONTAIN("bin", x, binary_all<T>(x, y, with_ipow))
    std::string traps;
    auto trap = [&](char const* n) {
        if (!traps.empty()) { traps += ','; }
        traps += '"';
        traps += n;
        traps += '"';
    };
    Ev e("bin");
    e.type(Tag<T>{}).val("x", x).val("y", y);
    e.val("add_sat", impl::add_sat(x, y));
    {
        T r{};
        bool ok = true;
        if (allowed(y != 0)) { ok = guarded([&] { r = impl::div_sat(x, y); }); }
        e.val("div_sat", ok ? r : T(0));
        if (!ok) { trap("div_sat"); }
    }
    e.val("midpoint", impl::midpoint(x, y));
    {
        using R = decltype(impl::gcd(x, y));
        static_assert(std::is_same_v<R, T>);
        R r{};
        bool ok = true;
        if (allowed(dom::gcd_ok<R>(x, y))) { ok = guarded([&] { r = impl::gcd(x, y); }); }
        e.val("gcd", ok ? r : R(0));
        if (!ok) { trap("gcd"); }
    }
    {
        using R = decltype(impl::lcm(x, y));
        static_assert(std::is_same_v<R, T>);
        R r{};
        bool ok = true;
        if (allowed(dom::lcm_ok<R>(x, y))) { ok = guarded([&] { r = impl::lcm(x, y); }); }
        e.val("lcm", ok ? r : R(0));
        if (!ok) { trap("lcm"); }
    }
    {
        T q{}, r{};
        bool ok = true;
        if (allowed(dom::div_ok(x, y))) { ok = guarded([&] { impl::idiv(x, y, q, r); }); }
        e.key("idiv");
        g_out += '[';
        e.raw(ok ? q : T(0));
        g_out += ',';
        e.raw(ok ? r : T(0));
        g_out += ']';
        if (!ok) { trap("idiv"); }
    }
    e.key("cmp");
    put_cmp(x, y);
    if (with_ipow) {
        T r{};
        bool ok = true;
        if (allowed(dom::ipow_ok(x, y))) { ok = guarded_timed([&] { r = impl::ipow(x, y); }); }
        e.val("ipow", ok ? r : T(0));
        if (!ok) { trap("ipow"); }
    }
    if (!traps.empty()) {
        e.key("traps");
        g_out += '[';
        g_out += traps;
        g_out += ']';
    }
    e.str("inst", tname<T>()).end();
}

// the mixed-type functions on one pair, as one grouped event "mix"
template <class M, class N> void mixed_pair(M m, N n)
{
    VH_CONTAIN("mix", m, (mixed_pair<M, N>(m, n)))
    using R = decltype(impl::gcd(m, n));
    static_assert(std::is_same_v<R, decltype(impl::lcm(m, n))>);
    std::string traps;
    Ev e("mix");
    e.type(Tag<M>{}).type2(Tag<N>{}).rtype(Tag<R>{}).val("x", m).val("y", n);
    e.key("cmp");
    put_cmp(m, n);
    {
        R r{};
        bool ok = true;
        if (allowed(dom::gcd_ok<R>(m, n))) { ok = guarded([&] { r = impl::gcd(m, n); }); }
        e.val("gcd", ok ? r : R(0));
        if (!ok) { traps += "\"gcd\""; }
    }
    {
        R r{};
        bool ok = true;
        if (allowed(dom::lcm_ok<R>(m, n))) { ok = guarded([&] { r = impl::lcm(m, n); }); }
        e.val("lcm", ok ? r : R(0));
        if (!ok) {
            if (!traps.empty()) { traps += ','; }
            traps += "\"lcm\"";
        }
    }
    if (!traps.empty()) {
        e.key("traps");
        g_out += '[';
        g_out += traps;
        g_out += ']';
    }
    e.end();
}

template <class T> void unary_all(T x)
{
    if constexpr (std::is_unsigned_v<T>) { ev_bits<T>(x); }
    ev_bswap<T>(x);
    ev_ilog2<T>(x);
    ev_abs<T>(x);
    ev_cast_all<T>(x);
    if constexpr (sizeof(T) <= 4 and not std::is_same_v<T, int16_t> and not std::is_same_v<T, int32_t>) { ev_hton<T>(x); }
}

// ---- mode replay8: the domain exported by spec/IntMath.tla ------------------------------------------
int replay8(std::string const& path)
{
    auto lines = vh::read_ndjson(path);
    for (auto const& j : lines) {
        auto const m = j.at("m").get<std::string>();
        int const a  = j.at("a").get<int>();
        if (m == "un") {
            if (a == 0) {
#ifndef VH_NO_CE
                static constexpr auto ce8 = make_ce8();
                emit_ce_table(ce8);
#endif
            }
            unary_all<uint8_t>(uint8_t(a));
            unary_all<int8_t>(int8_t(uint8_t(a)));
            for (unsigned p = 0; p < 8; ++p) {
                ev_bitpos<uint8_t>(uint8_t(a), p, false);
                ev_bitpos<uint8_t>(uint8_t(a), p, true);
            }
        } else if (m == "pair") {
            int const b = j.at("b").get<int>();
            auto const ua = uint8_t(a), ub = uint8_t(b);
            auto const ia = int8_t(ua), ib = int8_t(ub);
            binary_all<uint8_t>(ua, ub, true);
            binary_all<int8_t>(ia, ib, true);
            mixed_pair<uint8_t, int8_t>(ua, ib);
            mixed_pair<int8_t, uint8_t>(ia, ub);
        } else if (m == "rot") {
            ev_rot<uint8_t>(uint8_t(a), j.at("b").get<int>());
        } else {
            std::fprintf(stderr, "unknown mode %s\n", m.c_str());
            return 2;
        }
    }
    return 0;
}

// ---- mode sweep16 -----------------------------------------------------------------------------------------
// boundary grid of 16-bit patterns (as signed: 0, 1, 2, 3, 7, 127, 128, 255, 256, max-1, max, min, min+1, -256, -2, -1)
unsigned const G16[] = {0, 1, 2, 3, 7, 0x7F, 0x80, 0xFF, 0x100, 0x7FFE, 0x7FFF, 0x8000, 0x8001, 0xFF00, 0xFFFE, 0xFFFF};
int const SMALL_EXP[] = {0, 1, 2, 3, 4, 5, 7, 8, 14, 15, 16, 17};

int sweep16(bool thorough, unsigned part, unsigned nparts, uint64_t seed)
{
    vh::Rng rng(seed + 77);
    // x values of this part: every value (thorough) or the grid, the bit patterns, a stride sample and seeded
    // random values (quick)
    std::vector<unsigned> xs;
    if (thorough) {
        for (unsigned x = 0; x < 65536; ++x) {
            if (x % nparts == part) { xs.push_back(x); }
        }
    } else {
        std::vector<unsigned> all;
        for (unsigned g : G16) { all.push_back(g); }
        for (unsigned b = 0; b < 16; ++b) {
            all.push_back((1u << b) & 0xFFFF);
            all.push_back(((1u << b) - 1) & 0xFFFF);
            all.push_back(((1u << b) + 1) & 0xFFFF);
            all.push_back((~(1u << b)) & 0xFFFF);
        }
        for (unsigned x = 5; x < 65536; x += 1021) { all.push_back(x); }
        for (int k = 0; k < 60; ++k) { all.push_back(unsigned(rng.next() & 0xFFFF)); }
        for (size_t k = 0; k < all.size(); ++k) {
            if (k % nparts == part) { xs.push_back(all[k]); }
        }
    }
    // the bit functions see every 16-bit value in both tiers
    for (unsigned x = 0; x < 65536; ++x) {
        if (x % nparts != part) { continue; }
        ev_bits<uint16_t>(uint16_t(x));
    }
    size_t k = 0;
    for (unsigned x : xs) {
        ++k;
        auto const u = uint16_t(x);
        auto const i = int16_t(u);
        ev_bswap<uint16_t>(u);
        ev_hton<uint16_t>(u);
        ev_bswap<int16_t>(i);
        ev_ilog2<uint16_t>(u);
        ev_ilog2<int16_t>(i);
        ev_abs<uint16_t>(u);
        ev_abs<int16_t>(i);
        ev_cast_all<uint16_t>(u);
        ev_cast_all<int16_t>(i);
        int const counts[] = {-130, -33, -17, -16, -15, -1, 0, 1, 7, 8, 15, 16, 17, 31, 32, 130};
        unsigned const poss[] = {0u, 1u, 7u, 8u, 14u, 15u};
        for (size_t c = 0; c < 4; ++c) { ev_rot<uint16_t>(u, counts[(k * 4 + c) % 16]); }
        ev_bitpos<uint16_t>(u, poss[k % 6], false);
        ev_bitpos<uint16_t>(u, poss[(k + 3) % 6], true);
        for (size_t gi = 0; gi < 16; ++gi) {
            // thorough: every value against the 6 outermost grid points (0, 1, max, min, -2, -1); quick: the sample against all 16
            if (thorough and not(gi < 2 or gi == 10 or gi == 11 or gi >= 14)) { continue; }
            unsigned const g = G16[gi];
            auto const ug = uint16_t(g);
            auto const ig = int16_t(ug);
            binary_all<uint16_t>(u, ug, false);
            binary_all<uint16_t>(ug, u, false);
            binary_all<int16_t>(i, ig, false);
            binary_all<int16_t>(ig, i, false);
            mixed_pair<uint16_t, int16_t>(u, ig);
            mixed_pair<int16_t, uint16_t>(i, ug);
            if (!thorough) {
                mixed_pair<uint16_t, int16_t>(ug, i);
                mixed_pair<int16_t, uint16_t>(ig, u);
            }
        }
        for (unsigned g : {0u, 1u, 6u, 0x7Fu, 0x80u, 0xFFu}) {
            if (thorough and (g + k) % 3 != 0) { continue; }
            mixed_pair<uint8_t, int16_t>(uint8_t(g), i);
            mixed_pair<int16_t, uint8_t>(i, uint8_t(g));
            mixed_pair<int8_t, uint16_t>(int8_t(uint8_t(g)), u);
            mixed_pair<uint16_t, int8_t>(u, int8_t(uint8_t(g)));
        }
        for (size_t ei = 0; ei < 12; ++ei) {
            if (thorough and (ei + k) % 2 == 0) { continue; }
            ev_ipow<uint16_t>(u, uint16_t(SMALL_EXP[ei]));
            ev_ipow<int16_t>(i, int16_t(SMALL_EXP[ei]));
        }
    }
    // rotation: a sample of words with every count in [-130, 130]; every bit position; ipow<Base>
    if (part == 0) {
#ifndef VH_NO_CE
        static constexpr auto ce16 = make_ce_wide<uint16_t>();
        emit_ce_table(ce16);
#endif
        for (unsigned x : {0x0001u, 0x8000u, 0x8001u, 0x1234u, 0xF0A5u, 0xFFFEu, 0x7FFFu, 0xFFFFu, 0u}) {
            for (int n = -130; n <= 130; ++n) { ev_rot<uint16_t>(uint16_t(x), n); }
            for (unsigned p = 0; p < 16; ++p) {
                ev_bitpos<uint16_t>(uint16_t(x), p, false);
                ev_bitpos<uint16_t>(uint16_t(x), p, true);
            }
        }
        for (int e = -2; e <= 20; ++e) {
            ev_ipow_t<int16_t(2)>(int16_t(e));
            ev_ipow_t<int16_t(-3)>(int16_t(e));
            ev_ipow_t<int8_t(2)>(int8_t(e));
            ev_ipow_t<int8_t(-2)>(int8_t(e));
            if (e >= 0) {
                ev_ipow_t<uint16_t(2)>(uint16_t(e));
                ev_ipow_t<uint8_t(2)>(uint8_t(e));
                ev_ipow_t<uint8_t(3)>(uint8_t(e));
            }
        }
    }
    return 0;
}

// ---- mode wide: 32/64-bit types ---------------------------------------------------------------------------
template <class T> std::vector<T> wide_values(vh::Rng& rng, int nrand, int bitstep)
{
    using U = std::make_unsigned_t<T>;
    std::vector<T> v;
    for (int b = 0; b < W<T>; ++b) {
        U const one = U(U(1) << b);
        v.push_back(T(one));            // every single bit
        v.push_back(T(U(one - 1)));     // all ones below the bit
        v.push_back(T(U(one + 1)));     // +1 neighbour
        if (b % bitstep == 0 or b >= W<T> - 2 or b == W<T> / 2 or b == W<T> / 2 - 1 or b == 15 or b == 16) {
            v.push_back(T(U(~one)));            // a single zero
            v.push_back(T(U(U(0) - one)));      // all ones from the bit upwards (-2^b)
            v.push_back(T(U(one | (one >> 1))));
        }
    }
    T const lim[] = {std::numeric_limits<T>::min(), std::numeric_limits<T>::max(), T(std::numeric_limits<T>::min() + 1),
                     T(std::numeric_limits<T>::max() - 1), T(0), T(1), T(2), T(3), T(U(0) - 1), T(U(0) - 2), T(10), T(100), T(255), T(256)};
    for (T x : lim) { v.push_back(x); }
    for (int k = 0; k < nrand; ++k) {
        U r = U(rng.next());
        switch (k % 4) {
        case 0: break;
        case 1: r = U(r >> (rng.next() % W<T>)); break;         // random number of leading zeros
        case 2: r = U(r << (rng.next() % W<T>)); break;         // random number of trailing zeros
        default: r = U(~U(r >> (rng.next() % W<T>))); break;    // random number of leading ones
        }
        v.push_back(T(r));
    }
    return v;
}

template <class T> std::vector<T> wide_boundary(bool small)
{
    using U = std::make_unsigned_t<T>;
    std::vector<T> v = {T(0), T(1), T(2), T(U(0) - 1), T(U(0) - 2), std::numeric_limits<T>::min(), std::numeric_limits<T>::max(),
                        T(std::numeric_limits<T>::min() + 1), T(6), T(65536), T(U(1) << (W<T> - 2)), T((U(1) << (W<T> / 2)) - 1),
                        T(U(0) - 6)};
    if (!small) {
        for (T x : {T(3), T(std::numeric_limits<T>::max() - 1), T(10), T(255), T(256), T(32767), T(32768), T(65535),
                    T(U(1) << (W<T> / 2)), T(U(3) << (W<T> - 3)), T(U(0) - 65536)}) {
            v.push_back(x);
        }
    }
    return v;
}

// level: 0 = light (the long long twins of the 64-bit types in the quick tier), 1 = quick, 2 = thorough
template <class T> void wide_type(int level, uint64_t seed)
{
    using U = std::make_unsigned_t<T>;
    vh::Rng rng(seed * 1000 + W<T> * 2 + S<T>);
    bool const thorough = level == 2;
    int const nrand     = thorough ? 1200 : (level == 1 ? 40 : 16);
    auto const vals     = wide_values<T>(rng, nrand, thorough ? 1 : (level == 1 ? 8 : 32));
    auto const bnd      = wide_boundary<T>(!thorough);
    int const counts[]  = {-130, -65, -64, -63, -33, -32, -31, -1, 0, 1, 13, 31, 32, 33, 63, 64, 65, 130};
    unsigned const poss[] = {0u, 1u, 15u, 16u, 31u, unsigned(W<T> - 1), unsigned(W<T> / 2)};
    T const ys[]        = {T(0), T(1), T(U(0) - 1), std::numeric_limits<T>::min(), std::numeric_limits<T>::max(), T(2), T(3)};
    size_t step         = level == 0 ? 4 : 1;
    for (size_t k = 0; k < vals.size(); k += step) {
        T const x = vals[k];
        if constexpr (std::is_unsigned_v<T>) { ev_bits<T>(x); }
        ev_bswap<T>(x);
        ev_ilog2<T>(x);
        ev_abs<T>(x);
        if constexpr (std::is_same_v<T, uint32_t>) { ev_hton<T>(x); }
        if (thorough or k % 3 == 0) { ev_cast_all<T>(x); }
        if constexpr (std::is_unsigned_v<T>) {
            if (thorough) {
                for (int n : counts) { ev_rot<T>(x, n); }
                for (unsigned p : poss) {
                    ev_bitpos<T>(x, p, false);
                    ev_bitpos<T>(x, p, true);
                }
            } else {
                for (size_t c = 0; c < 3; ++c) { ev_rot<T>(x, counts[(k * 3 + c) % 18]); }
                ev_bitpos<T>(x, poss[k % 7], false);
                ev_bitpos<T>(x, poss[(k + 3) % 7], true);
            }
        }
        // binary: every value against boundaries (all seven in both orders when thorough), and another value
        if (thorough) {
            for (T y : ys) {
                binary_all<T>(x, y, false);
                binary_all<T>(y, x, false);
            }
        } else if (k % 2 == 0) {
            binary_all<T>(x, ys[(k / 2) % 7], false);
        } else {
            binary_all<T>(ys[(k / 2) % 7], x, false);
        }
        if (thorough or k % 3 == 1) { binary_all<T>(x, vals[(k * 7 + 3) % vals.size()], false); }
    }
    if constexpr (std::is_unsigned_v<T>) {
#ifndef VH_NO_CE
        static constexpr auto cew = make_ce_wide<T>();
        emit_ce_table(cew);
#endif
        if (level > 0) {
            for (T x : {T(1), T(U(1) << (W<T> - 1)), T(0x12345678u), T(U(0) - 2), T(U(0x9ABCDEF0u) * U(0x10001u) + 5u)}) {
                for (int n = -130; n <= 130; n += (thorough ? 1 : 3)) { ev_rot<T>(x, n); }
                for (unsigned p = 0; p < unsigned(W<T>); p += (thorough ? 1 : 3)) {
                    ev_bitpos<T>(x, p, false);
                    ev_bitpos<T>(x, p, true);
                }
            }
        }
    }
    // boundary x boundary
    if (level > 0) {
        for (T x : bnd) {
            for (T y : bnd) { binary_all<T>(x, y, false); }
        }
    }
    // structured and random pairs
    int const npairs = thorough ? 3000 : (level == 1 ? 180 : 48);
    int const half   = W<T> / 2;
    for (int k = 0; k < npairs; ++k) {
        U a = U(rng.next()), b = U(rng.next());
        switch (k % 6) {
        case 0: break;                                                     // two arbitrary words
        case 1:                                                            // both below 2^(w/2): products representable
            a = U(a >> (half + rng.next() % half));
            b = U(b >> (half + rng.next() % half));
            break;
        case 2: {                                                          // common factor near 2^(w/2): m*n overflows, lcm fits
            U const g = U((U(1) << (half - 1 - rng.next() % 3)) + U(rng.next() % 1000));
            a         = U(g * U(1 + rng.next() % 11));
            b         = U(g * U(1 + rng.next() % 11));
            break;
        }
        case 3: {                                                          // small common factor
            U const g = U(1 + rng.next() % 5000);
            a         = U(g * U(rng.next() % 60000));
            b         = U(g * U(rng.next() % 60000));
            break;
        }
        case 4:                                                            // neighbours
            b = U(a + U(rng.next() % 5) - 2);
            break;
        default:                                                           // one large, one small
            b = U(rng.next() % 100);
            break;
        }
        T x = T(a), y = T(b);
        if constexpr (std::is_signed_v<T>) {
            if (k % 6 != 0 and k % 6 != 4) {
                if (rng.coin()) { x = T(U(0) - U(x)); }
                if (rng.coin()) { y = T(U(0) - U(y)); }
            }
        }
        binary_all<T>(x, y, false);
    }
    // powers: boundary bases and small bases against exponents around every interesting size
    // (a negative exponent converted to an unsigned type would make the loop of ipow run "forever")
    std::vector<T> bases = bnd;
    for (int b = -12; b <= 12; ++b) { bases.push_back(T(b)); }
    int const exps[] = {-1, 0, 1, 2, 3, 5, 8, 15, 16, 20, 21, 31, 32, 33, 40, 62, 63, 64, 65};
    for (T b : bases) {
        if (thorough) {
            for (int e = std::is_signed_v<T> ? -1 : 0; e <= 66; ++e) { ev_ipow<T>(b, T(e)); }
        } else if (level > 0) {
            for (int e : exps) {
                if (e >= 0 or std::is_signed_v<T>) { ev_ipow<T>(b, T(e)); }
            }
        }
    }
}

template <class A, class B> void mixed_pair_type(bool thorough)
{
    auto va = wide_boundary<A>(!thorough);
    auto vb = wide_boundary<B>(!thorough);
    if (!thorough) {
        va.resize(8);
        vb.resize(8);
    }
    for (A x : va) {
        for (B y : vb) { mixed_pair<A, B>(x, y); }
    }
}
template <class A, class... Bs> void mixed_row(bool thorough) { (mixed_pair_type<A, Bs>(thorough), ...); }
template <class... Ts> void mixed_all(bool thorough) { (mixed_row<Ts, Ts...>(thorough), ...); }

int wide(bool thorough, std::string const& which, uint64_t seed)
{
    int const level = thorough ? 2 : 1;
    if (which == "u32") { wide_type<uint32_t>(level, seed); }
    else if (which == "i32") { wide_type<int32_t>(level, seed); }
    else if (which == "u64") { wide_type<uint64_t>(level, seed); }
    else if (which == "i64") { wide_type<int64_t>(level, seed); }
    else if (which == "ull") { wide_type<unsigned long long>(thorough ? 1 : 0, seed); }
    else if (which == "ll") { wide_type<long long>(thorough ? 1 : 0, seed); }
    else if (which == "mixed") {
        mixed_all<uint8_t, int8_t, uint16_t, int16_t, uint32_t, int32_t, uint64_t, int64_t>(thorough);
        for (int e = -2; e <= 66; ++e) {
            ev_ipow_t<2>(e);
            ev_ipow_t<3>(e);
            ev_ipow_t<-2>(e);
            ev_ipow_t<10>(e);
            ev_ipow_t<int64_t(2)>(int64_t(e));
            ev_ipow_t<int64_t(-10)>(int64_t(e));
            if (e >= 0) {
                ev_ipow_t<2U>(unsigned(e));
                ev_ipow_t<7U>(unsigned(e));
                ev_ipow_t<uint64_t(2)>(uint64_t(e));
                ev_ipow_t<uint64_t(3)>(uint64_t(e));
            }
        }
    } else {
        std::fprintf(stderr, "unknown wide type %s\n", which.c_str());
        return 2;
    }
    return 0;
}

// ---- mode rerun: execute again the call(s) behind one recorded event (tools/check.py --replay) ---------
template <class F> bool with_type(int w, int s, F&& f)
{
    if (w == 8 and s == 0) { f(Tag<uint8_t>{}); }
    else if (w == 8) { f(Tag<int8_t>{}); }
    else if (w == 16 and s == 0) { f(Tag<uint16_t>{}); }
    else if (w == 16) { f(Tag<int16_t>{}); }
    else if (w == 32 and s == 0) { f(Tag<uint32_t>{}); }
    else if (w == 32) { f(Tag<int32_t>{}); }
    else if (w == 64 and s == 0) { f(Tag<uint64_t>{}); }
    else if (w == 64) { f(Tag<int64_t>{}); }
    else { return false; }
    return true;
}
template <class T> T decode(vh::json const& v)
{
    if (v.is_array()) {
        uint64_t u = 0;
        for (size_t k = 0; k < v.size(); ++k) { u |= uint64_t(v[k].get<unsigned>()) << (16 * k); }
        return T(u);
    }
    return T(v.get<long>());
}

int rerun(std::string const& path)
{
    auto lines = vh::read_ndjson(path);
    int rc     = 0;
    for (auto const& j : lines) {
        auto const op = j.at("op").get<std::string>();
        int const w = j.at("w").get<int>(), s = j.at("s").get<int>();
        bool const tpl = j.value("form", std::string()) == "tpl";
        bool ok        = with_type(w, s, [&]<class T>(Tag<T>) {
            T const x = decode<T>(j.at("x"));
            if (op == "bin") {
                binary_all<T>(x, decode<T>(j.at("y")), j.contains("ipow"));
            } else if (op == "mix") {
                with_type(j.at("w2").get<int>(), j.at("s2").get<int>(), [&]<class U>(Tag<U>) { mixed_pair<T, U>(x, decode<U>(j.at("y"))); });
            } else if (op == "casts") {
                ev_cast_all<T>(x);
            } else if (op == "abs") {
                ev_abs<T>(x);
            } else if (op == "ilog2") {
                ev_ilog2<T>(x);
            } else if (op == "bswap") {
                ev_bswap<T>(x);
            } else if (op == "ipow") {
                ev_ipow<T>(x, decode<T>(j.at("y"))); // (a recorded ipow<Base>(e) is re-run through ipow(base, e))
            } else if (op == "hton") {
                if constexpr (std::is_same_v<T, uint8_t> or std::is_same_v<T, int8_t> or std::is_same_v<T, uint16_t>
                              or std::is_same_v<T, uint32_t>) {
                    ev_hton<T>(x);
                }
            } else if constexpr (std::is_unsigned_v<T>) {
                if (op == "bits") {
                    ev_bits<T>(x);
                } else if (op == "rot") {
                    ev_rot<T>(x, j.at("n").get<int>());
                } else if (op == "bitpos") {
                    ev_bitpos<T>(x, j.at("p").get<unsigned>(), tpl);
                }
            }
        });
        if (!ok) { rc = 2; }
    }
    return rc;
}

struct Args {
    int argc;
    char** argv;
    int rc;
};

void* work(void* p)
{
    static char altstack[1 << 16];
    stack_t ss {};
    ss.ss_sp   = altstack;
    ss.ss_size = sizeof(altstack);
    if (not g_domain_only) { sigaltstack(&ss, nullptr); } // (a sanitizer run time installs and owns its own alternate stack)
    sigset_t alrm;
    sigemptyset(&alrm);
    sigaddset(&alrm, SIGVTALRM);
    pthread_sigmask(SIG_UNBLOCK, &alrm, nullptr);
    struct sigaction sa {};
    sa.sa_handler = on_trap;
    sa.sa_flags   = SA_NODEFER | SA_ONSTACK;
    sigaction(SIGFPE, &sa, nullptr);
    sigaction(SIGSEGV, &sa, nullptr);
    sigaction(SIGVTALRM, &sa, nullptr);
    if (g_domain_only) {
        sigaction(SIGABRT, &sa, nullptr); // a sanitizer report ends in abort(): inside a guarded region it is a crash event
        sigaction(SIGBUS, &sa, nullptr);
        sigaction(SIGILL, &sa, nullptr);
    }
    if (not g_domain_only) {
        for (int s : {SIGABRT, SIGILL, SIGBUS}) { std::signal(s, on_fatal); }
    }

    auto& a                = *static_cast<Args*>(p);
    int const argc         = a.argc;
    char** const argv      = a.argv;
    std::string const mode = argc > 1 ? argv[1] : "";
    uint64_t const seed    = vh::env_seed();
    int rc                 = 2;
    if (mode == "replay8" and argc > 2) {
        rc = replay8(argv[2]);
    } else if (mode == "sweep16" and argc > 4) {
        rc = sweep16(std::string(argv[2]) == "thorough", unsigned(std::atoi(argv[3])), unsigned(std::atoi(argv[4])), seed);
    } else if (mode == "wide" and argc > 3) {
        rc = wide(std::string(argv[2]) == "thorough", argv[3], seed);
    } else if (mode == "rerun" and argc > 2) {
        rc = rerun(argv[2]);
    } else {
        std::fprintf(stderr, "usage: intmath_driver replay8 <gen.ndjson> | sweep16 <tier> <part> <nparts> | wide <tier> <type|mixed> | rerun <event.ndjson>\n");
    }
    flush_out();
    std::fprintf(stderr, "SUMMARY mode=%s events=%ld traps=%ld\n", mode.c_str(), g_events, g_traps);
    a.rc = rc;
    return nullptr;
}

} // namespace

int main(int argc, char** argv)
{
    Args a {argc, argv, 2};
    // SIGVTALRM (watchdog) must reach the worker thread, whose jump buffer the handler uses: block it here
    sigset_t alrm;
    sigemptyset(&alrm);
    sigaddset(&alrm, SIGVTALRM);
    pthread_sigmask(SIG_BLOCK, &alrm, nullptr);
    pthread_attr_t at;
    pthread_attr_init(&at);
    g_domain_only = std::getenv("VH_DOMAIN_ONLY") != nullptr;
    // small stack: runaway recursion is found quickly; instrumented (sanitizer) builds need room for their red zones
    pthread_attr_setstacksize(&at, g_domain_only ? (size_t(1) << 24) : (size_t(1) << 18));
    pthread_t th;
    if (pthread_create(&th, &at, work, &a) != 0) { return 2; }
    pthread_join(th, nullptr);
    return a.rc;
}
