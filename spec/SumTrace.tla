---------------------------- MODULE SumTrace ----------------------------
(* Trace validation for the sum types: every event recorded from the real templates                 *)
(* ([kind, alts, op, o, x, pre, post, ret, obs] + optional life events) is judged by the operators   *)
(* of SumOps / LifeOps.  Deviations are collected (printed as DEV lines), not fatal.                 *)
EXTENDS SumOps, LifeOps, Json, IOUtils, TLC

Tr == ndJsonDeserialize(IOEnv.TRACE)

VARIABLES l, nbad

\* each object's storage is one cell (region 1 = a, region 2 = b) that is alive exactly while the active
\* alternative is the non-trivial type: constructed once when it becomes active, destroyed once when it stops
LifeVerdict(ev) ==
    LET owners0 == <<[r |-> 1, els |-> Els(ev.alts, ev.pre.a)], [r |-> 2, els |-> Els(ev.alts, ev.pre.b)]>>
        owners1 == <<[r |-> 1, els |-> Els(ev.alts, ev.post.a)], [r |-> 2, els |-> Els(ev.alts, ev.post.b)]>>
        f0 == InitCells(owners0, ev.life.ext)
        run == LRun(f0, ev.life.evs, 1)
        own == (IF ev.o = "a" THEN 1 ELSE 2) * 1000 + 1
    IN IF run.bad # 0 THEN "life-protocol"
       \* aliasing assignment: the contained object is assigned to, never destroyed / re-constructed
       ELSE IF ev.op \in SelfOps /\ \E i \in 1..Len(ev.life.evs) :
                    ev.life.evs[i].c = own /\ ev.life.evs[i].k \in {"ctor", "cctor", "mctor", "dtor"} THEN "life-reconstruct"
       ELSE IF ~FinalOK(run.f, owners1, {ev.life.extend[j] : j \in 1..Len(ev.life.extend)}) THEN "life-final"
       ELSE "ok"

Judge(ev) ==
    IF ev.op = "reset" THEN "ok"
    ELSE IF ~Pre(ev.kind, ev.alts, ev.op, ev.o, ev.x, ev.pre) THEN "harness-pre"
    ELSE IF ~Post(ev.kind, ev.alts, ev.op, ev.o, ev.x, ev.pre, ev.post, ev.ret) THEN "post"
    ELSE IF ~ObsOK(ev.kind, ev.alts, ev.obs, ev.post) THEN "obs"
    ELSE "ok"

\* the lifetime verdict is reported independently of the behavioural one (a call can break both; C03 keeps life-*)
JudgeLife(ev) ==
    IF ev.op # "reset" /\ "life" \in DOMAIN ev /\ Pre(ev.kind, ev.alts, ev.op, ev.o, ev.x, ev.pre) THEN LifeVerdict(ev) ELSE "ok"

Expected(ev) ==
    IF ev.op # "reset" /\ Pre(ev.kind, ev.alts, ev.op, ev.o, ev.x, ev.pre)
    THEN ToJson(Eff(ev.kind, ev.alts, ev.op, ev.o, ev.x, ev.pre)) ELSE "-"

Init == l = 1 /\ nbad = 0

Next ==
    /\ l <= Len(Tr)
    /\ l' = l + 1
    /\ LET v == Judge(Tr[l]) lf == JudgeLife(Tr[l]) IN
       /\ nbad' = nbad + (IF v = "ok" THEN 0 ELSE 1) + (IF lf = "ok" THEN 0 ELSE 1)
       /\ (v # "ok" => PrintT(<<"DEV", l, v, Expected(Tr[l])>>))
       /\ (lf # "ok" => PrintT(<<"DEV", l, lf, "-">>))

Spec == Init /\ [][Next]_<<l, nbad>>
Consumed == TLCGet("stats").diameter - 1 = Len(Tr)
==========================================================================
