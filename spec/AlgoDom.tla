---------------------------- MODULE AlgoDom ----------------------------
(* The bounded input domain of every algorithm (shared by Algo.tla, which enumerates it, proves    *)
(* the model theorems on it and exports the sequences, and by AlgoTrace.tla, which checks that a   *)
(* recorded execution covered exactly this domain: every event inside, strictly increasing keys     *)
(* (= pairwise distinct inputs), count = DomSize).                                                  *)
(*   a : every key sequence up to MaxLen over the alphabet 0..2 (tags = position), restricted per   *)
(*       algorithm (sorted / partitioned precondition, fixed length for min/max/clamp, MaxA2 when    *)
(*       combined with a needle, MaxPair when combined with an equally long second range)           *)
(*   b : none / every needle up to MaxLen2 / every sequence of the same length / sorted needles     *)
(*   m : middle / count / shift, every value in [-1, n+1] that the standard's precondition admits  *)
(*   v : value key,  c : predicate / comparator code incl. 0 = overload without one                 *)
EXTENDS AlgoOps, FiniteSetsExt

CONSTANTS MaxLen, MaxLen2, MaxPair, MaxA2

Keys == 0..2
CodeSeqs(n, base) == {[i \in 1..n |-> ks[i] * 16 + base + i] : ks \in [1..n -> Keys]}
SeqsA(n) == CodeSeqs(n, 0)
SeqsB(n) == CodeSeqs(n, 8)
AllA == UNION {SeqsA(n) : n \in 0..MaxLen}
IsSeq(s, base, maxlen) == Len(s) <= maxlen /\ \A i \in 1..Len(s) : Tag(s[i]) = base + i /\ Key(s[i]) \in Keys

UnaryOps == {"find_if", "find_if_not", "all_of", "any_of", "none_of", "count_if", "copy_if", "remove_if",
             "remove_copy_if", "partition", "stable_partition", "partition_copy", "is_partitioned",
             "partition_point", "replace_if"}
BoundOps == {"lower_bound", "upper_bound", "equal_range", "binary_search"}
CmpOps == BoundOps \cup SetOps \cup SortOps \cup StableSortOps \cup
          {"includes", "min_element", "max_element", "minmax_element", "min", "max", "minmax", "clamp",
           "is_sorted", "is_sorted_until", "inplace_merge", "partial_sort", "nth_element", "lexicographical_compare"}
NeedleOps == {"mismatch4", "equal4", "search", "search_s", "find_end", "find_first_of", "is_permutation4", "lexicographical_compare"}
PairOps == {"mismatch3", "equal3", "is_permutation3", "swap_ranges", "transform2", "inner_product", "transform_reduce2"}
BinPredOps == {"adjacent_find", "mismatch3", "mismatch4", "equal3", "equal4", "search", "search_s", "search_n", "find_end", "find_first_of"}
EquivOps == {"unique", "unique_copy"}
ValOps == {"find", "count", "remove", "remove_copy", "replace", "fill", "fill_n", "search_n", "iota", "accumulate",
           "inner_product", "transform_reduce1", "transform_reduce2"} \cup BoundOps

Cs(op) ==
    CASE op \in UnaryOps \cup CmpOps -> 0..3
      [] op \in BinPredOps -> {0, 1, 4, 5}       \* 1: an asymmetric predicate exposes the argument order
      [] op \in EquivOps -> {0, 4, 5}            \* unique requires an equivalence relation
      [] op \in {"accumulate", "inner_product", "transform_reduce2", "partial_sum", "adjacent_difference"} -> {0, 1}
      [] op = "reduce" -> {0, 1, 2}              \* the three overloads
      [] OTHER -> {0}

A1ok(op, c, s) ==
    CASE op \in BoundOps \cup SetOps \cup {"includes"} -> IsSeq(s, 0, MaxLen) /\ SortedD(s, c)
      [] op = "partition_point" -> IsSeq(s, 0, MaxLen) /\ PartitionedD(s, c)
      [] op \in PairOps -> IsSeq(s, 0, MaxPair)
      [] op \in NeedleOps \cup {"search_n"} -> IsSeq(s, 0, MaxA2)
      [] op \in {"min", "max", "minmax", "iter_swap"} -> IsSeq(s, 0, 2) /\ Len(s) = 2
      [] op \in AdaptorOps -> IsSeq(s, 0, MaxLen) /\ \A i \in 1..Len(s) : Key(s[i]) = i % 3   \* one sequence per length
      [] op = "clamp" -> IsSeq(s, 0, 3) /\ Len(s) = 3 /\ ~Lt(c, s[3], s[2])      \* Preconditions: !(hi < lo)
      [] OTHER -> IsSeq(s, 0, MaxLen)
A1max(op) == IF op \in PairOps THEN MaxPair ELSE IF op \in NeedleOps \cup {"search_n"} THEN MaxA2 ELSE MaxLen
A1set(op, c) == {s \in UNION {SeqsA(n) : n \in 0..A1max(op)} : A1ok(op, c, s)}

A2ok(op, c, s, t) ==
    CASE op \in PairOps -> IsSeq(t, 8, MaxPair) /\ Len(t) = Len(s)
      [] op \in NeedleOps -> IsSeq(t, 8, MaxLen2)
      [] op \in SetOps \cup {"includes"} -> IsSeq(t, 8, MaxLen2) /\ SortedD(t, c)
      [] OTHER -> t = <<>>
A2set(op, c, s) ==
    CASE op \in PairOps -> SeqsB(Len(s))
      [] op \in NeedleOps -> UNION {SeqsB(n) : n \in 0..MaxLen2}
      [] op \in SetOps \cup {"includes"} -> {t \in UNION {SeqsB(n) : n \in 0..MaxLen2} : SortedD(t, c)}
      [] OTHER -> {<<>>}

MSet(op, s, c) ==
    LET n == Len(s) IN
    CASE op \in {"copy_n", "fill_n", "generate_n"} -> (-1)..n
      [] op \in {"for_each_n", "rotate", "rotate_copy", "partial_sort", "nth_element"} -> 0..n
      [] op \in {"shift_left", "shift_right"} -> 0..(n + 1)          \* Preconditions: n >= 0
      [] op = "search_n" -> (-1)..(n + 1)
      [] op \in {"replace", "replace_if"} -> Keys                    \* key of the new value
      [] op = "rit_cmp" -> {i * 8 + j : i \in 0..n, j \in 0..n}                 \* every pair of positions
      [] op \in {"rit_nav", "iter_nav", "iter_nav_ra"} -> {i * 16 + k + 8 : i \in 0..n, k \in (0 - n)..n}
      [] op = "iter_nav_fwd" -> {i * 16 + k + 8 : i \in 0..n, k \in 0..n}
      [] op = "inplace_merge" -> {k \in 0..n : SortedD(Take(s, k), c) /\ SortedD(Drop(s, k), c)}
      [] OTHER -> {0}
VSet(op, c) ==
    IF op = "reduce" THEN (IF c = 0 THEN {0} ELSE Keys)
    ELSE IF op \in {"inner_product", "transform_reduce2"} THEN {1}     \* one initial value is enough, the pair domain is large
    ELSE IF op \in ValOps THEN Keys ELSE {0}

InDom(op, x) ==
    /\ x.c \in Cs(op) /\ A1ok(op, x.c, x.a) /\ A2ok(op, x.c, x.a, x.b)
    /\ x.m \in MSet(op, x.a, x.c) /\ x.v \in VSet(op, x.c)

DomC(op, c) ==
    UNION {UNION {{[a |-> s, b |-> t, m |-> k, v |-> w, c |-> c] : k \in MSet(op, s, c), w \in VSet(op, c)}
                  : t \in A2set(op, c, s)} : s \in A1set(op, c)}

SumOver(S, F(_)) == FoldSet(LAMBDA e, acc : acc + F(e), 0, S)
DomSizeC(op, c) ==
    SumOver(A1set(op, c), LAMBDA s : Cardinality(A2set(op, c, s)) * Cardinality(MSet(op, s, c)) * Cardinality(VSet(op, c)))
DomSize(op) == SumOver(Cs(op), LAMBDA c : DomSizeC(op, c))

\* total order in which a driver has to enumerate (strictly increasing = no input twice)
KeyOf(x) == <<x.c, Len(x.a)>> \o x.a \o <<Len(x.b)>> \o x.b \o <<x.m, x.v>>
KeyLess(s, t) ==
    \E k \in 1..Min2(Len(s), Len(t)) : s[k] < t[k] /\ \A i \in 1..(k - 1) : s[i] = t[i]
=========================================================================
