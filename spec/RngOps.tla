------------------------------ MODULE RngOps ------------------------------
(* Meaning of the random number engines and of what the C++ standard fixes about the distributions    *)
(* (extension X11).  Written from the published reference algorithms, not from the etl sources:        *)
(*   - G. Marsaglia, "Xorshift RNGs", J. Stat. Soft. 8(14), 2003: x ^= x << a; x ^= x >> b; x ^= x << c   *)
(*     with the triples (13,17,5) for 32 bits, (13,7,17) for 64 bits; (7,9,8) is the 16-bit triple of   *)
(*     the generator etl documents for xorshift16.                                                      *)
(*   - D. Blackman, S. Vigna, "Scrambled linear pseudorandom number generators", 2018 (xoshiro128+,      *)
(*     xoshiro128++, xoshiro128**, public-domain reference code at prng.di.unimi.it).                    *)
(*   - [rand.req.urng] / [rand.req.eng] / [rand.dist.*] of the C++ standard for min/max/seed/discard/     *)
(*     operator== and for the distributions (relations only, never values).                             *)
(*                                                                                                     *)
(* A w-bit word is a sequence of 0/1 of length w, index 1 = LEAST significant bit.  In traces a word     *)
(* travels as the little-endian array of its 16-bit limbs (TLC integers are 32-bit).                     *)
EXTENDS Integers, Sequences, FiniteSets, TLC

\* ---- words ---------------------------------------------------------------------------------------------
Zero(w) == [i \in 1..w |-> 0]
AllOnes(w) == [i \in 1..w |-> 1]
XorB(a, b) == [i \in DOMAIN a |-> (a[i] + b[i]) % 2]
Shl(b, k) == [i \in DOMAIN b |-> IF i - k >= 1 THEN b[i - k] ELSE 0]          \* b << k (k >= 0)
Shr(b, k) == [i \in DOMAIN b |-> IF i + k <= Len(b) THEN b[i + k] ELSE 0]     \* b >> k, zero filling
RotL(b, k) == LET w == Len(b) IN [i \in 1..w |-> b[((i - 1 - k) % w) + 1]]    \* (b << k) | (b >> (w - k))

\* limbs: little-endian digits in base 2^lb
RECURSIVE LimbVal(_, _, _)
LimbVal(b, lo, n) == IF n = 0 THEN 0 ELSE b[lo] + 2 * LimbVal(b, lo + 1, n - 1)
LimbsOfBits(b, lb) == [k \in 1..(Len(b) \div lb) |-> LimbVal(b, (k - 1) * lb + 1, lb)]
BitsOfLimbs(l, lb) == [i \in 1..(Len(l) * lb) |-> (l[((i - 1) \div lb) + 1] \div 2^((i - 1) % lb)) % 2]
LimbsOK(l, n, lb) == Len(l) = n /\ \A k \in 1..n : l[k] \in 0..(2^lb - 1)

\* a + b mod 2^w and a * m mod 2^w (m a small constant) on limbs, schoolbook with carry
RECURSIVE AddL(_, _, _, _, _)
AddL(a, b, k, c, lb) == IF k > Len(a) THEN << >>
                        ELSE LET s == a[k] + b[k] + c IN <<s % 2^lb>> \o AddL(a, b, k + 1, s \div 2^lb, lb)
RECURSIVE MulL(_, _, _, _, _)
MulL(a, m, k, c, lb) == IF k > Len(a) THEN << >>
                        ELSE LET s == a[k] * m + c IN <<s % 2^lb>> \o MulL(a, m, k + 1, s \div 2^lb, lb)
AddW(a, b, lb) == BitsOfLimbs(AddL(LimbsOfBits(a, lb), LimbsOfBits(b, lb), 1, 0, lb), lb)
MulW(a, m, lb) == BitsOfLimbs(MulL(LimbsOfBits(a, lb), m, 1, 0, lb), lb)

\* the same two operations bit by bit (ripple carry / shift-and-add): second, independent definitions that
\* Rng.tla proves equal to the limb versions on a reduced width
RECURSIVE AddBits(_, _, _, _)
AddBits(a, b, i, c) == IF i > Len(a) THEN << >>
                       ELSE LET s == a[i] + b[i] + c IN <<s % 2>> \o AddBits(a, b, i + 1, s \div 2)
AddB(a, b) == AddBits(a, b, 1, 0)
RECURSIVE MulB(_, _)
MulB(a, m) == IF m = 0 THEN Zero(Len(a))
              ELSE LET h == MulB(Shl(a, 1), m \div 2) IN IF m % 2 = 1 THEN AddB(h, a) ELSE h

\* unsigned comparison of limb arrays (most significant limb last)
RECURSIVE LeL(_, _, _)
LeL(a, b, k) == IF k = 0 THEN TRUE ELSE IF a[k] # b[k] THEN a[k] < b[k] ELSE LeL(a, b, k - 1)
LeLimbs(a, b) == LeL(a, b, Len(a))
LtLimbs(a, b) == LeLimbs(a, b) /\ a # b

\* ---- Marsaglia xorshift ------------------------------------------------------------------------------------
XorShift(x, a, b, c) == LET x1 == XorB(x, Shl(x, a))
                            x2 == XorB(x1, Shr(x1, b))
                        IN XorB(x2, Shl(x2, c))

\* y = x ^ (x << k), i.e. y = (1 + S^k) x over GF(2) with S the shift.  (1 + S^k)^(2^m) = 1 + S^(k 2^m) = 1 as soon as
\* k 2^m >= w, hence (1 + S^k)^(-1) = (1 + S^k)(1 + S^2k)(1 + S^4k)... : repeated "x ^= x << k; k *= 2" (likewise for >>)
RECURSIVE UnShl(_, _), UnShr(_, _)
UnShl(y, k) == IF k >= Len(y) THEN y ELSE UnShl(XorB(y, Shl(y, k)), 2 * k)
UnShr(y, k) == IF k >= Len(y) THEN y ELSE UnShr(XorB(y, Shr(y, k)), 2 * k)
\* declarative reading of the same inverse: bit i of x is the parity of y[i], y[i-k], y[i-2k], ...
UnShlDecl(y, k) == [i \in DOMAIN y |-> Cardinality({j \in 0..((i - 1) \div k) : y[i - j * k] = 1}) % 2]
UnShrDecl(y, k) == [i \in DOMAIN y |-> Cardinality({j \in 0..((Len(y) - i) \div k) : y[i + j * k] = 1}) % 2]
XorShiftInv(y, a, b, c) == UnShl(UnShr(UnShl(y, c), b), a)

\* ---- xoshiro128 (Blackman / Vigna); state s = <<s0, s1, s2, s3>>, shift A = 9, rotation R = 11 ------------------
\*   t = s1 << A;  s2 ^= s0;  s3 ^= s1;  s1 ^= s2;  s0 ^= s3;  s2 ^= t;  s3 = rotl(s3, R)
XoNext(s, A, R) ==
    LET t   == Shl(s[2], A)
        s2a == XorB(s[3], s[1])
        s3a == XorB(s[4], s[2])
        s1a == XorB(s[2], s2a)
        s0a == XorB(s[1], s3a)
    IN <<s0a, s1a, XorB(s2a, t), RotL(s3a, R)>>

\* inverse of the state update (exists: the update is an invertible linear map)
XoPrev(u, A, R) ==
    LET w   == Len(u[1])
        s3a == RotL(u[4], w - (R % w))
        s0  == XorB(u[1], s3a)
        \* u1 = s1 ^ s2a and u2 = s2a ^ (s1 << A)   =>   s1 ^ (s1 << A) = u1 ^ u2
        s1  == UnShl(XorB(u[2], u[3]), A)
        s2a == XorB(u[2], s1)
    IN <<s0, s1, XorB(s2a, s0), XorB(s3a, s1)>>

XoXor(s, t) == [k \in 1..4 |-> XorB(s[k], t[k])]
XoZero(w) == [k \in 1..4 |-> Zero(w)]

\* output scramblers (rp = 7 for the real generators): "+", "++", "**"
OutPlus(s, lb) == AddW(s[1], s[4], lb)
OutPlusPlus(s, rp, lb) == AddW(RotL(AddW(s[1], s[4], lb), rp), s[1], lb)
OutStarStar(s, rp, lb) == MulW(RotL(MulW(s[2], 5, lb), rp), 9, lb)

\* ---- the engines of the library at their true width (limb size 16) -------------------------------------------
\* eng: "xs16" | "xs32" | "xs64" | "xop" | "xopp" | "xoss";  an engine state in a trace is a flat limb array:
\* xorshift: the limbs of the one word; xoshiro: the limbs of s0, s1, s2, s3 in this order (2 limbs each)
XsEngines == {"xs16", "xs32", "xs64"}
XoEngines == {"xop", "xopp", "xoss"}
Engines == XsEngines \cup XoEngines
WordLimbs(eng) == CASE eng = "xs16" -> 1 [] eng = "xs64" -> 4 [] OTHER -> 2     \* limbs of result_type
StateLimbs(eng) == IF eng \in XoEngines THEN 8 ELSE WordLimbs(eng)
Triple(eng) == CASE eng = "xs16" -> <<7, 9, 8>> [] eng = "xs32" -> <<13, 17, 5>> [] eng = "xs64" -> <<13, 7, 17>>

XoWords(st) == [k \in 1..4 |-> BitsOfLimbs(SubSeq(st, 2 * k - 1, 2 * k), 16)]
XoFlat(s) == LimbsOfBits(s[1], 16) \o LimbsOfBits(s[2], 16) \o LimbsOfBits(s[3], 16) \o LimbsOfBits(s[4], 16)

\* one call of operator(): [out |-> limbs of the returned value, post |-> limbs of the new state]
StepE(eng, st) ==
    IF eng \in XsEngines
    THEN LET t == Triple(eng)
             \* TLCEval: make the lazily represented function value concrete once (TLC would otherwise re-evaluate the
             \* whole chain of steps for every element that is read later, e.g. in DiscardE or when printing)
             y == TLCEval(LimbsOfBits(XorShift(BitsOfLimbs(st, 16), t[1], t[2], t[3]), 16))
         IN [out |-> y, post |-> y]                              \* xorshift returns its new state
    ELSE LET s == XoWords(st)
             o == CASE eng = "xop"  -> OutPlus(s, 16)
                    [] eng = "xopp" -> OutPlusPlus(s, 7, 16)
                    [] eng = "xoss" -> OutStarStar(s, 7, 16)
         IN [out |-> TLCEval(LimbsOfBits(o, 16)), post |-> TLCEval(XoFlat(XoNext(s, 9, 11)))]

\* [rand.req.eng] discard(z): "advances e's state e_i to e_(i+z) by any means equivalent to z consecutive calls e()"
RECURSIVE DiscardE(_, _, _)
DiscardE(eng, st, z) == IF z = 0 THEN st ELSE DiscardE(eng, TLCEval(StepE(eng, st).post), z - 1)

\* E(s): the engines store the seed in (the first word of) the state, every other word is zero
DefaultSeed == 5489
SeedLimbs(eng, v) == [k \in 1..WordLimbs(eng) |-> IF k = 1 THEN v % 65536 ELSE IF k = 2 THEN v \div 65536 ELSE 0]   \* 0 <= v < 2^31
CtorE(eng, seed) == IF eng \in XoEngines THEN seed \o [k \in 1..6 |-> 0] ELSE seed

\* ---- distributions: floating-point values travel as the limbs of an order-preserving 64-bit key ------------------
\* key(x) = bits(double(x)) with the sign bit flipped (x >= 0) or all bits flipped (x < 0): key is strictly
\* monotone on the non-NaN doubles and NaNs lie above +infinity / below -infinity
InCO(k, lo, hi) == LeLimbs(lo, k) /\ LtLimbs(k, hi)                         \* lo <= x < hi
=============================================================================
