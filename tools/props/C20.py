"""C20 - pair, tuple and callable wrappers forward values and calls faithfully."""
from pipes import callable as cpipe


def run(tier, rep):
    tv, st = cpipe.pipeline(tier, rep)
    # life-* deviations (captures inside inplace_function) are the business of C03: counted, not judged here
    life = [d for d in rep.devs if d["kind"].startswith("life")]
    if life:
        rep.notes.append({"life_deviations_left_to_C03": len(life),
                          "first": {"kind": life[0]["kind"], "op": life[0].get("ev", {}).get("op"), "x": life[0].get("ev", {}).get("x")}})
    rep.devs = [d for d in rep.devs if not d["kind"].startswith("life")]
    rep.assumptions += [
        "values are small integers {0,1,2}; five instrumented targets (function pointer, 4-byte and capacity-filling functors with trivially and non-trivially copyable captures) stand for all callables",
        "value categories are observed by the callee: perfect-forwarding call operators with all four ref-qualifiers; by-value parameters and free functions cannot observe a category (0)",
        "the state of an inplace_function is projected through its public interface: bool and a probe call that logs which target it reaches",
        "inplace_function is calibrated against std::function in the shared subset (no cross-capacity constructors), function_ref has no libstdc++ counterpart: both otherwise against the property text",
        "members that are declared but do not instantiate are found by compile probes and listed as not drivable",
        "the TLA+ reading of std::pair/tuple/invoke/bind_front/not_fn/reference_wrapper is calibrated against libstdc++ (-std=c++23)",
    ]

