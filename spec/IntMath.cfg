SPECIFICATION Spec
CONSTANTS
  MaxPat = 255
  RotMax = 130
  ZStride = 1
INVARIANTS Laws EmitInv
CHECK_DEADLOCK FALSE
