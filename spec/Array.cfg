SPECIFICATION Spec
CONSTANTS
  NLen = 2
  Vals = {0, 1, 2}
VIEW View
ACTION_CONSTRAINT Emit
INVARIANTS TypeOK FixedLength LexDefsAgree OrderLaws RevInvolution
PROPERTIES Independence SwapLaw SingleWrite
CHECK_DEADLOCK FALSE
