--------------------------- MODULE NetBufTrace ---------------------------
(* Trace validation for the Networking-TS buffer views (extension X13): every event recorded from     *)
(* etl::experimental::net ({op, kind, L, n, esz, pre, post, ret, view, self}) is judged by NetBufOps.   *)
(* Deviations are printed as <<"DEV", line, kind, expected>>; the whole trace is always examined.       *)
EXTENDS NetBufOps, Json, IOUtils, TLC

Tr == ndJsonDeserialize(IOEnv.TRACE)

VARIABLES l, nbad

IsBuf(b) == DOMAIN b = {"off", "size"} /\ b.off \in Int /\ b.size \in Int
WellFormed(ev) ==
    /\ {"op", "kind", "L", "n", "esz", "pre", "post", "ret", "view", "self"} \subseteq DOMAIN ev
    /\ ev.op \in AllOps /\ ev.kind \in {"mut", "const"}
    /\ IsBuf(ev.pre) /\ IsBuf(ev.post) /\ IsBuf(ev.ret)
    /\ ev.L >= 0 /\ ev.n >= 0 /\ ev.esz >= 1

\* The harness builds every pre-state through the API only (make / default construction followed by calls the
\* model knows).  A pre-state the model cannot be in - or, for a replayed edge, one that differs from the state the
\* model reaches by the same calls (`plan`) - is therefore a deviation of an earlier call of the implementation.
PreOK(ev) == /\ (ev.pre = Null \/ (ev.pre.off >= 0 /\ ev.pre.size >= 0 /\ ev.pre.off + ev.pre.size <= ev.L))
             /\ ("plan" \in DOMAIN ev => ev.pre = ev.plan)

Lax(ev) == ev.op \in {"make_array", "make_vec"}
ExpPost(ev) == Eff(ev.op, ev.pre, ev.L, ev.n)
ExpRet(ev) == IF ev.op \in Mutators THEN ExpPost(ev) ELSE Ret(ev.op, ev.pre, ev.L, ev.n, ev.esz)

Judge(ev) ==
    IF ev.op = "reset" THEN "ok"
    ELSE IF ~WellFormed(ev) THEN "harness-malformed"
    ELSE IF ~PreOK(ev) THEN "pre-state"
    ELSE IF ~SameBuf(ev.post, ExpPost(ev), FALSE) THEN "post"
    ELSE IF ~SameBuf(ev.ret, ExpRet(ev), Lax(ev)) THEN "ret"
    ELSE IF ev.op = "adv" /\ ev.self # TRUE THEN "ret-self"            \* operator+= returns *this
    ELSE IF ev.view # View(ExpRet(ev)) THEN "view"                      \* bytes readable through data()/size()
    ELSE "ok"

Expected(ev) == IF WellFormed(ev) /\ ~PreOK(ev) /\ "plan" \in DOMAIN ev THEN ToJson([pre |-> ev.plan])
                ELSE IF WellFormed(ev) /\ PreOK(ev)
                THEN ToJson([post |-> ExpPost(ev), ret |-> ExpRet(ev), view |-> View(ExpRet(ev))]) ELSE "-"

Init == l = 1 /\ nbad = 0

Next ==
    /\ l <= Len(Tr)
    /\ l' = l + 1
    /\ LET v == Judge(Tr[l]) IN
       IF v = "ok" THEN nbad' = nbad
       ELSE /\ nbad' = nbad + 1
            /\ PrintT(<<"DEV", l, v, Expected(Tr[l])>>)

Spec == Init /\ [][Next]_<<l, nbad>>
Consumed == TLCGet("stats").diameter - 1 = Len(Tr)
=============================================================================
