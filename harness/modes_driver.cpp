// Modes driver (C13): every call is evaluated twice in this translation unit -
//   "ct": by the COMPILER (the call initialises a constexpr object; whether it is a constant expression at all is
//         detected with SFINAE per call or per table, so a rejected call costs an "nc" mark, not the build), and
//   "rt": at run time through arguments the optimiser cannot see (the index into the input table is laundered through
//         a volatile), where is_constant_evaluated() is false and the builtin paths are taken.
// The unit is built at -O0 and at -O2 (tools/pipes/modes.py); the pipeline zips the two outputs into one event per call
// with the observations ct / rt0 / rt2, and spec/ModesTrace.tla judges agreement (and correctness where a definition
// exists).  No oracle and no comparison here.
//
//   families (-DVH_FAM=n): bit sat str ctype+conv kernel+chrono flt(3) bytes
// Output: one line per call  {"fam","fn",(w|ty|p),"a":[[..],..],"ct":[..] | "nc":1,"rt":[..]}   results and
// arguments are arrays of integers (floats as [s,e,m] / [s,e,mhi,mlo], wide integers as 16-bit limbs, little endian).
// -DVH_STD: the same calls on libstdc++/glibc (calibration of the definitions and of this harness).
#include <array>
#include <bit>
#include <cmath>
#include <cstdint>
#include <cstdio>
#include <cstring>
#include <limits>
#include <string>
#include <type_traits>
#include <utility>

#ifndef VH_STD
    #include <etl/algorithm.hpp>
    #include <etl/array.hpp>
    #include <etl/bit.hpp>
    #include <etl/cctype.hpp>
    #include <etl/charconv.hpp>
    #include <etl/chrono.hpp>
    #include <etl/cmath.hpp>
    #include <etl/cstring.hpp>
    #include <etl/numeric.hpp>
    #include <etl/string.hpp>
    #include <etl/vector.hpp>
namespace impl = etl;
    #define VH_IMPL "etl"
#else
    #include <algorithm>
    #include <vector>
    #include <cctype>
    #include <charconv>
    #include <chrono>
    #include <numeric>
namespace impl = std;
    #define VH_IMPL "std"
#endif

#include "float_ct_inputs.hpp"
#include "modes_inputs.hpp" // generated from the inputs exported by spec/Modes.tla (tools/pipes/modes.py)

// functions the implementation may lack (measured by compile probes in tools/pipes/modes.py, reported as not drivable)
#ifndef VH_HAVE_sub_sat
    #define VH_HAVE_sub_sat 1
#endif
#ifndef VH_HAVE_mul_sat
    #define VH_HAVE_mul_sat 1
#endif
#ifndef VH_HAVE_div_sat
    #define VH_HAVE_div_sat 1
#endif

#ifndef VH_FAM
    #define VH_FAM 0 // which family this translation unit contains (compile time is dominated by constant evaluation)
#endif

namespace {

std::string g_out;
size_t g_n = 0;

template <class T>
inline T launder(T v)
{
    volatile T x = v;
    return x;
}

// result / argument value: a short sequence of integers
template <int K>
struct Seq {
    int n = 0;
    long v[K] {};
    constexpr void push(long x) { v[n++] = x; }
};
using R1  = Seq<1>;
using R5  = Seq<5>;
using R32 = Seq<32>;

template <int K>
void put_seq(Seq<K> const& s)
{
    g_out += '[';
    for (int i = 0; i < s.n; ++i) {
        if (i) { g_out += ','; }
        g_out += std::to_string(s.v[i]);
    }
    g_out += ']';
}

// ---- projections ----------------------------------------------------------------------------------------
constexpr auto fp_seq(float v) -> R5
{
    auto b = std::bit_cast<std::uint32_t>(v);
    R5 r;
    r.push(b >> 31);
    r.push((b >> 23) & 0xFF);
    r.push(b & 0x7FFFFF);
    return r;
}
constexpr auto fp_seq(double v) -> R5
{
    auto b = std::bit_cast<std::uint64_t>(v);
    R5 r;
    r.push((long)(b >> 63));
    r.push((long)((b >> 52) & 0x7FF));
    r.push((long)((b >> 26) & 0x3FFFFFF));
    r.push((long)(b & 0x3FFFFFF));
    return r;
}
template <class L>
constexpr auto long_seq(L v) -> R5 // the double of v + "conversion exact" (lossless for every in-range lrint result)
{
    double d   = (double)v;
    bool exact = d >= -9223372036854775808.0 && d < 9223372036854775808.0 && (L)d == v;
    R5 r       = fp_seq(d);
    r.push(exact ? 1 : 0);
    return r;
}
constexpr auto res_seq(float v) -> R5 { return fp_seq(v); }
constexpr auto res_seq(double v) -> R5 { return fp_seq(v); }
constexpr auto res_seq(bool v) -> R5
{
    R5 r;
    r.push(v ? 1 : 0);
    return r;
}
constexpr auto res_seq(int v) -> R5
{
    R5 r;
    r.push(v);
    return r;
}
constexpr auto res_seq(long v) -> R5 { return long_seq(v); }
constexpr auto res_seq(long long v) -> R5 { return long_seq(v); }

template <class U>
constexpr auto limbs(U v) -> R5 // unsigned value as 16-bit limbs (one limb up to 16 bit)
{
    R5 r;
    if constexpr (sizeof(U) <= 2) {
        r.push((long)v);
    } else {
        for (unsigned i = 0; i < sizeof(U) / 2; ++i) { r.push((long)((v >> (16 * i)) & 0xFFFF)); }
    }
    return r;
}

// ---- "is this call a constant expression?" ------------------------------------------------------------------
template <class K, int = (K {}(), 0)>
constexpr bool is_ce(int)
{
    return true;
}
template <class K>
constexpr bool is_ce(long)
{
    return false;
}

// An Op provides:  static constexpr size_t N;  static void head(std::string&)  (the "fam","fn",.. part);
//                  static void args(std::string&, size_t i);  static constexpr auto eval(size_t i) -> Seq<..>;
//                  static constexpr bool has_ct (false: not declared constexpr by the library and by the standard)
template <class Op, std::size_t I>
struct CallAt {
    constexpr auto operator()() const { return Op::eval(I); }
};
template <class Op>
struct TableOf {
    constexpr auto operator()() const
    {
        std::array<decltype(Op::eval(0)), Op::N> t {};
        for (std::size_t i = 0; i < Op::N; ++i) { t[i] = Op::eval(i); }
        return t;
    }
};

template <class Op>
void line_begin(std::size_t i)
{
    if (g_out.size() > (1u << 20)) {
        std::fwrite(g_out.data(), 1, g_out.size(), stdout);
        g_out.clear();
    }
    g_out += '{';
    Op::head(g_out);
    g_out += ",\"a\":[";
    Op::args(g_out, i);
    g_out += ']';
}
template <class Op>
void line_end(std::size_t i)
{
    g_out += ",\"rt\":";
    put_seq(Op::eval(launder(i)));
    g_out += "}\n";
    ++g_n;
}

// per-call constant evaluation (one instantiation per input: used where single inputs are expected to be rejected)
template <class Op, std::size_t I>
void one_call()
{
    using K = CallAt<Op, I>;
    if constexpr (is_ce<K>(0)) {
        constexpr auto r = K {}();
        line_begin<Op>(I);
        g_out += ",\"ct\":";
        put_seq(r);
        line_end<Op>(I);
    } else {
#ifndef VH_STD
        line_begin<Op>(I);
        g_out += ",\"nc\":1";
        line_end<Op>(I);
#endif
    }
}
template <class Op, std::size_t... I>
void each_call(std::index_sequence<I...>)
{
    (one_call<Op, I>(), ...);
}
template <class Op>
void run_per_call()
{
    each_call<Op>(std::make_index_sequence<Op::N> {});
}

// per-table constant evaluation (one probe per function: a rejected table is reported once, with every call marked)
template <class Op>
void run_table()
{
    using K = TableOf<Op>;
    if constexpr (!Op::has_ct) {
        for (std::size_t i = 0; i < Op::N; ++i) {
            line_begin<Op>(i);
            line_end<Op>(i);
        }
    } else if constexpr (is_ce<K>(0)) {
        static constexpr auto t = K {}();
        for (std::size_t i = 0; i < Op::N; ++i) {
            line_begin<Op>(i);
            g_out += ",\"ct\":";
            put_seq(t[i]);
            line_end<Op>(i);
        }
    } else {
#ifndef VH_STD
        for (std::size_t i = 0; i < Op::N; ++i) {
            line_begin<Op>(i);
            g_out += ",\"nc\":1";
            line_end<Op>(i);
        }
#endif
    }
}

void arg1(std::string& o, long v)
{
    o += '[';
    o += std::to_string(v);
    o += ']';
}
// =================================================================================================================
// family: bit  (popcount, countl_zero, ..., byteswap, rotl/rotr, bit_cast)
// =================================================================================================================
#if VH_FAM == 0
template <class U>
constexpr auto bit_inputs()
{
    struct T {
        std::array<U, 320> v {};
        std::size_t n = 0;
        constexpr void add(U x) { v[n++] = x; }
    } t;
    constexpr int W = sizeof(U) * 8;
    if constexpr (W == 8) {
        for (int x : MI_U8) { t.add((U)x); }
    } else {
        t.add(0);
        t.add((U) ~U(0));
        for (int k = 0; k < W; ++k) {
            U p = (U)(U(1) << k);
            t.add(p);
            t.add((U)(p - 1));
            t.add((U)(p + 1));
            t.add((U) ~p);
        }
        t.add((U)0x5555555555555555ull);
        t.add((U)0xAAAAAAAAAAAAAAAAull);
        t.add((U)0x00FF00FF00FF00FFull);
        t.add((U)0x0123456789ABCDEFull);
        t.add((U)0xFEDCBA9876543210ull);
        t.add((U)0x8000000000000001ull);
    }
    return t;
}
template <class U>
inline constexpr auto BIN = bit_inputs<U>();

    #define BIT_OP(NAME, EXPR)                                                                                                         \
        template <class U>                                                                                                             \
        struct Bit_##NAME {                                                                                                            \
            static constexpr std::size_t N   = BIN<U>.n;                                                                               \
            static constexpr bool has_ct     = true;                                                                                   \
            static void head(std::string& o) { o += "\"fam\":\"bit\",\"fn\":\"" #NAME "\",\"w\":" + std::to_string(sizeof(U) * 8); } \
            static void args(std::string& o, std::size_t i) { put_seq(limbs(BIN<U>.v[i])); }                                           \
            static constexpr auto eval(std::size_t i)                                                                                  \
            {                                                                                                                          \
                U x = BIN<U>.v[i];                                                                                                     \
                return EXPR;                                                                                                           \
            }                                                                                                                          \
        };
BIT_OP(popcount, res_seq(impl::popcount(x)))
BIT_OP(countl_zero, res_seq(impl::countl_zero(x)))
BIT_OP(countr_zero, res_seq(impl::countr_zero(x)))
BIT_OP(countl_one, res_seq(impl::countl_one(x)))
BIT_OP(countr_one, res_seq(impl::countr_one(x)))
BIT_OP(bit_width, res_seq((int)impl::bit_width(x)))
BIT_OP(has_single_bit, res_seq(impl::has_single_bit(x)))
BIT_OP(byteswap, limbs(impl::byteswap(x)))

// rotations: value x shift
template <class U, bool Left>
struct Bit_rot {
    static constexpr int SH[]        = {0, 1, 3, 7, 8, 15, 16, 31, 33, 63, 64, 65};
    static constexpr std::size_t NV  = sizeof(U) == 1 ? 32 : 24;
    static constexpr std::size_t N   = NV * 12;
    static constexpr bool has_ct     = true;
    static constexpr U val(std::size_t i) { return BIN<U>.v[(i / 12) * (BIN<U>.n / NV)]; }
    static void head(std::string& o)
    {
        o += std::string("\"fam\":\"bit\",\"fn\":\"") + (Left ? "rotl" : "rotr") + "\",\"w\":" + std::to_string(sizeof(U) * 8);
    }
    static void args(std::string& o, std::size_t i)
    {
        put_seq(limbs(val(i)));
        o += ',';
        arg1(o, SH[i % 12]);
    }
    static constexpr auto eval(std::size_t i)
    {
        if constexpr (Left) {
            return limbs(impl::rotl(val(i), SH[i % 12]));
        } else {
            return limbs(impl::rotr(val(i), SH[i % 12]));
        }
    }
};

// bit_cast between binary32 and its object representation
struct Cast_f2u {
    static constexpr std::size_t N = ct_in<float>.n;
    static constexpr bool has_ct   = true;
    static void head(std::string& o) { o += "\"fam\":\"bitcast\",\"fn\":\"f32_to_u32\""; }
    static void args(std::string& o, std::size_t i) { put_seq(fp_seq(ct_in<float>.v[i])); }
    static constexpr auto eval(std::size_t i) { return limbs(impl::bit_cast<std::uint32_t>(ct_in<float>.v[i])); }
};
struct Cast_u2f {
    static constexpr std::size_t N = ct_in<float>.n;
    static constexpr bool has_ct   = true;
    static constexpr std::uint32_t in(std::size_t i) { return std::bit_cast<std::uint32_t>(ct_in<float>.v[i]); }
    static void head(std::string& o) { o += "\"fam\":\"bitcast\",\"fn\":\"u32_to_f32\""; }
    static void args(std::string& o, std::size_t i) { put_seq(limbs(in(i))); }
    static constexpr auto eval(std::size_t i) { return fp_seq(impl::bit_cast<float>(in(i))); }
};

template <class U>
void run_bits_of()
{
    run_table<Bit_popcount<U>>();
    run_table<Bit_countl_zero<U>>();
    run_table<Bit_countr_zero<U>>();
    run_table<Bit_countl_one<U>>();
    run_table<Bit_countr_one<U>>();
    run_table<Bit_bit_width<U>>();
    run_table<Bit_has_single_bit<U>>();
    if constexpr (sizeof(U) > 1) { run_table<Bit_byteswap<U>>(); }
    run_table<Bit_rot<U, true>>();
    run_table<Bit_rot<U, false>>();
}
void run_family()
{
    run_bits_of<std::uint8_t>();
    run_bits_of<std::uint16_t>();
    run_bits_of<std::uint32_t>();
    run_bits_of<std::uint64_t>();
    run_table<Cast_f2u>();
    run_table<Cast_u2f>();
}
#endif

// =================================================================================================================
// family: sat  (add_sat, sub_sat, mul_sat, div_sat)            etl only: C++26 in the standard library
// =================================================================================================================
#if VH_FAM == 1
template <class I>
constexpr auto sat_inputs()
{
    struct T {
        std::array<I, 256> v {};
        std::size_t n = 0;
        constexpr void add(I x) { v[n++] = x; }
    } t;
    if constexpr (sizeof(I) == 1) {
#ifdef VH_THOROUGH
        for (int x : MI_U8) { t.add((I)x); } // every 8-bit value: all 65536 pairs
#else
        for (int x : MI_B8) { t.add((I)x); } // boundary values, reinterpreted for unsigned char (two's complement)
#endif
    } else {
        using L = std::numeric_limits<I>;
        long const c[] = {0, 1, 2, -1, -2, 100, 255, 256, 257, -255, -256, 181, 182, -181, 16383, 16384};
        for (long x : c) { t.add((I)x); }
        t.add(L::min());
        t.add((I)(L::min() + 1));
        t.add(L::max());
        t.add((I)(L::max() - 1));
    }
    return t;
}
template <class I>
inline constexpr auto SIN = sat_inputs<I>();

template <class I, int Which>
struct Sat {
    static constexpr std::size_t M  = SIN<I>.n;
    static constexpr std::size_t N  = M * M;
    static constexpr bool has_ct    = true;
    static constexpr I xa(std::size_t i) { return SIN<I>.v[i / M]; }
    static constexpr I xb(std::size_t i)
    {
        I b = SIN<I>.v[i % M];
        return (Which == 3 && b == 0) ? (I)1 : b; // div_sat: y != 0 is a precondition
    }
    static void head(std::string& o)
    {
        char const* nm[] = {"add_sat", "sub_sat", "mul_sat", "div_sat"};
        o += std::string("\"fam\":\"sat\",\"fn\":\"") + nm[Which] + "\",\"ty\":[" + (std::is_signed_v<I> ? "1," : "0,")
           + std::to_string(sizeof(I) * 8) + "]";
    }
    static void args(std::string& o, std::size_t i)
    {
        arg1(o, (long)xa(i));
        o += ',';
        arg1(o, (long)xb(i));
    }
    static constexpr auto eval(std::size_t i)
    {
        I a = xa(i), b = xb(i);
        if constexpr (Which == 0) {
            return res_seq((int)impl::add_sat(a, b));
        }
    #if VH_HAVE_sub_sat
        else if constexpr (Which == 1) {
            return res_seq((int)impl::sub_sat(a, b));
        }
    #endif
    #if VH_HAVE_mul_sat
        else if constexpr (Which == 2) {
            return res_seq((int)impl::mul_sat(a, b));
        }
    #endif
    #if VH_HAVE_div_sat
        else if constexpr (Which == 3) {
            return res_seq((int)impl::div_sat(a, b));
        }
    #endif
        else {
            return R5 {};
        }
    }
};
    #ifndef VH_STD
template <class I>
void run_sat_of()
{
    run_table<Sat<I, 0>>();
        #if VH_HAVE_sub_sat
    run_table<Sat<I, 1>>();
        #endif
        #if VH_HAVE_mul_sat
    run_table<Sat<I, 2>>();
        #endif
        #if VH_HAVE_div_sat
    run_table<Sat<I, 3>>();
        #endif
}
    #endif
void run_family()
{
    #ifndef VH_STD
    run_sat_of<signed char>();
    run_sat_of<unsigned char>();
    run_sat_of<short>();
    run_sat_of<unsigned short>();
    #endif
}
#endif

// =================================================================================================================
// family: str  (strlen strcmp strncmp strchr strrchr memchr)
// =================================================================================================================
#if VH_FAM == 2
constexpr std::size_t NS = sizeof(MI_STR) / sizeof(MI_STR[0]);
constexpr auto str_seq(std::size_t k)
{
    Seq<4> s;
    for (int j = 0; j < MI_STR[k].n; ++j) { s.push((unsigned char)MI_STR[k].c[j]); }
    return s;
}
constexpr int sgn(int v) { return v < 0 ? -1 : v > 0 ? 1 : 0; }
constexpr int CH[]          = {97, 98, 200, 0, 97 + 256};
constexpr std::size_t CNT[] = {0, 1, 2, 4};

struct Str_strlen {
    static constexpr std::size_t N = NS;
    static constexpr bool has_ct   = true;
    static void head(std::string& o) { o += "\"fam\":\"str\",\"fn\":\"strlen\""; }
    static void args(std::string& o, std::size_t i) { put_seq(str_seq(i)); }
    static constexpr auto eval(std::size_t i) { return res_seq((int)impl::strlen(MI_STR[i].c)); }
};
template <bool WithN>
struct Str_cmp {
    static constexpr std::size_t N = NS * NS * (WithN ? 4 : 1);
    static constexpr bool has_ct   = true;
    static constexpr std::size_t ia(std::size_t i) { return (i / (WithN ? 4 : 1)) / NS; }
    static constexpr std::size_t ib(std::size_t i) { return (i / (WithN ? 4 : 1)) % NS; }
    static void head(std::string& o) { o += WithN ? "\"fam\":\"str\",\"fn\":\"strncmp\"" : "\"fam\":\"str\",\"fn\":\"strcmp\""; }
    static void args(std::string& o, std::size_t i)
    {
        put_seq(str_seq(ia(i)));
        o += ',';
        put_seq(str_seq(ib(i)));
        if (WithN) {
            o += ',';
            arg1(o, (long)CNT[i % 4]);
        }
    }
    static constexpr auto eval(std::size_t i)
    {
        if constexpr (WithN) {
            return res_seq(sgn(impl::strncmp(MI_STR[ia(i)].c, MI_STR[ib(i)].c, CNT[i % 4])));
        } else {
            return res_seq(sgn(impl::strcmp(MI_STR[ia(i)].c, MI_STR[ib(i)].c)));
        }
    }
};
template <bool Reverse>
struct Str_chr {
    static constexpr std::size_t N = NS * 5;
    static constexpr bool has_ct   = true;
    static void head(std::string& o) { o += Reverse ? "\"fam\":\"str\",\"fn\":\"strrchr\"" : "\"fam\":\"str\",\"fn\":\"strchr\""; }
    static void args(std::string& o, std::size_t i)
    {
        put_seq(str_seq(i / 5));
        o += ',';
        arg1(o, CH[i % 5]);
    }
    static constexpr auto eval(std::size_t i)
    {
        char const* s = MI_STR[i / 5].c;
        char const* p = nullptr;
        if constexpr (Reverse) {
            p = impl::strrchr(s, CH[i % 5]);
        } else {
            p = impl::strchr(s, CH[i % 5]);
        }
        return res_seq(p == nullptr ? -1 : (int)(p - s));
    }
};
struct Str_memchr { // not constexpr in the library nor in the standard: run time -O0 against -O2 only
    static constexpr std::size_t N = NS * 5 * 4;
    static constexpr bool has_ct   = false;
    static void head(std::string& o) { o += "\"fam\":\"str\",\"fn\":\"memchr\""; }
    static void args(std::string& o, std::size_t i)
    {
        put_seq(str_seq(i / 20));
        o += ',';
        arg1(o, CH[(i / 4) % 5]);
        o += ',';
        arg1(o, (long)CNT[i % 4]);
    }
    static auto eval(std::size_t i)
    {
        char const* s = MI_STR[i / 20].c;
        auto const* p = static_cast<char const*>(impl::memchr(static_cast<void const*>(s), CH[(i / 4) % 5], CNT[i % 4]));
        return res_seq(p == nullptr ? -1 : (int)(p - s));
    }
};
void run_family()
{
    run_table<Str_strlen>();
    run_table<Str_cmp<false>>();
    run_table<Str_cmp<true>>();
    run_table<Str_chr<false>>();
    run_table<Str_chr<true>>();
    run_table<Str_memchr>();
}
#endif

// =================================================================================================================
// family: ctype + integer <-> text conversion                      (agreement only)
// =================================================================================================================
#if VH_FAM == 3
    #define CT_OP(NAME)                                                                                                                \
        struct Ct_##NAME {                                                                                                             \
            static constexpr std::size_t N = 257;                                                                                      \
            static constexpr bool has_ct   = true;                                                                                     \
            static void head(std::string& o) { o += "\"fam\":\"ctype\",\"fn\":\"" #NAME "\""; }                                        \
            static void args(std::string& o, std::size_t i) { arg1(o, (long)i - 1); }                                                  \
            static constexpr auto eval(std::size_t i)                                                                                  \
            {                                                                                                                          \
                int r = impl::NAME((int)i - 1); /* -1 is EOF */                                                                         \
                return res_seq(#NAME[0] == 't' ? r : (r != 0 ? 1 : 0));                                                                \
            }                                                                                                                          \
        };
CT_OP(isalnum)
CT_OP(isalpha)
CT_OP(isblank)
CT_OP(iscntrl)
CT_OP(isdigit)
CT_OP(isgraph)
CT_OP(islower)
CT_OP(isprint)
CT_OP(ispunct)
CT_OP(isspace)
CT_OP(isupper)
CT_OP(isxdigit)
CT_OP(tolower)
CT_OP(toupper)

constexpr long long CONV_V[] = {0, 1, -1, 7, 8, 9, 10, 11, -10, 35, 36, 37, 99, 100, 127, 128, -128, -129, 255, 256, 999, 1000,
                                32767, 32768, -32768, 65535, 65536, 2147483647LL, -2147483648LL, 2147483648LL, 4294967295LL,
                                9223372036854775807LL, -9223372036854775807LL - 1};
constexpr int CONV_B[]       = {2, 8, 10, 16, 36};
template <class I, int BufLen>
struct Conv_to_chars {
    static constexpr std::size_t NV = sizeof(CONV_V) / sizeof(CONV_V[0]);
    static constexpr std::size_t N  = NV * 5;
    static constexpr bool has_ct    = true;
    static void head(std::string& o)
    {
        o += std::string("\"fam\":\"conv\",\"fn\":\"to_chars\",\"ty\":[") + (std::is_signed_v<I> ? "1," : "0,") + std::to_string(sizeof(I) * 8)
           + "," + std::to_string(BufLen) + "]";
    }
    static void args(std::string& o, std::size_t i)
    {
        put_seq(limbs((std::uint64_t)(I)CONV_V[i / 5]));
        o += ',';
        arg1(o, CONV_B[i % 5]);
    }
    static constexpr auto eval(std::size_t i)
    {
        char buf[72] = {};
        auto res     = impl::to_chars(buf, buf + BufLen, (I)CONV_V[i / 5], CONV_B[i % 5]);
        Seq<80> r;
        r.push(res.ec == decltype(res.ec) {} ? 0 : (long)res.ec);
        r.push((long)(res.ptr - buf));
        for (int k = 0; k < BufLen; ++k) { r.push((unsigned char)buf[k]); }
        return r;
    }
};
struct ConvText {
    int n;
    char c[24];
};
constexpr ConvText CONV_T[] = {{0, ""}, {1, "0"}, {2, "-0"}, {2, "+5"}, {1, "7"}, {3, "127"}, {3, "128"}, {4, "-128"}, {4, "-129"}, {3, "255"},
                               {3, "256"}, {5, "32767"}, {5, "32768"}, {6, "-32768"}, {5, "65535"}, {5, "65536"}, {10, "2147483647"},
                               {10, "2147483648"}, {11, "-2147483648"}, {11, "-2147483649"}, {10, "4294967295"}, {10, "4294967296"},
                               {19, "9223372036854775807"}, {19, "9223372036854775808"}, {20, "-9223372036854775808"},
                               {20, "18446744073709551615"}, {20, "18446744073709551616"}, {2, "1a"}, {2, "zz"}, {4, "0x1A"}, {2, "ff"},
                               {2, "FF"}, {2, " 1"}, {2, "1 "}, {3, "12x"}, {1, "-"}, {1, "x"}, {8, "00000012"}, {8, "11111111"}};
template <class I>
struct Conv_from_chars {
    static constexpr std::size_t NT = sizeof(CONV_T) / sizeof(CONV_T[0]);
    static constexpr std::size_t N  = NT * 5;
    static constexpr bool has_ct    = true;
    static void head(std::string& o)
    {
        o += std::string("\"fam\":\"conv\",\"fn\":\"from_chars\",\"ty\":[") + (std::is_signed_v<I> ? "1," : "0,") + std::to_string(sizeof(I) * 8) + "]";
    }
    static void args(std::string& o, std::size_t i)
    {
        Seq<24> s;
        for (int k = 0; k < CONV_T[i / 5].n; ++k) { s.push((unsigned char)CONV_T[i / 5].c[k]); }
        put_seq(s);
        o += ',';
        arg1(o, CONV_B[i % 5]);
    }
    static constexpr auto eval(std::size_t i)
    {
        I v {42};
        auto const& t = CONV_T[i / 5];
        auto res      = impl::from_chars(t.c, t.c + t.n, v, CONV_B[i % 5]);
        Seq<8> r;
        r.push(res.ec == decltype(res.ec) {} ? 0 : (long)res.ec);
        r.push((long)(res.ptr - t.c));
        auto l = limbs((std::uint64_t)(long long)v);
        for (int k = 0; k < l.n; ++k) { r.push(l.v[k]); }
        return r;
    }
};
void run_family()
{
    run_table<Ct_isalnum>();
    run_table<Ct_isalpha>();
    run_table<Ct_isblank>();
    run_table<Ct_iscntrl>();
    run_table<Ct_isdigit>();
    run_table<Ct_isgraph>();
    run_table<Ct_islower>();
    run_table<Ct_isprint>();
    run_table<Ct_ispunct>();
    run_table<Ct_isspace>();
    run_table<Ct_isupper>();
    run_table<Ct_isxdigit>();
    run_table<Ct_tolower>();
    run_table<Ct_toupper>();
    run_table<Conv_to_chars<int, 12>>();
    run_table<Conv_to_chars<int, 3>>();
    run_table<Conv_to_chars<unsigned, 33>>();
    run_table<Conv_to_chars<long long, 66>>();
    run_table<Conv_to_chars<signed char, 9>>();
    run_table<Conv_from_chars<int>>();
    run_table<Conv_from_chars<unsigned>>();
    run_table<Conv_from_chars<long long>>();
    run_table<Conv_from_chars<signed char>>();
}
#endif

// =================================================================================================================
// family: kernel (containers / strings / algorithms built inside a constexpr function) + chrono      (agreement only)
// =================================================================================================================
#if VH_FAM == 4
constexpr unsigned lcg(unsigned& s)
{
    s = s * 1664525u + 1013904223u;
    return s >> 16;
}
    #ifndef VH_STD
template <int Which>
struct Kernel {
#ifdef VH_THOROUGH
    static constexpr std::size_t N = 400;
#else
    static constexpr std::size_t N = 48;
#endif
    static constexpr bool has_ct   = true;
    static void head(std::string& o)
    {
        char const* nm[] = {"static_vector", "inplace_string", "sort", "algorithms", "search"};
        o += std::string("\"fam\":\"kernel\",\"fn\":\"") + nm[Which] + "\"";
    }
    static void args(std::string& o, std::size_t i) { arg1(o, (long)i); }
    static constexpr auto eval(std::size_t i)
    {
        unsigned s = (unsigned)i * 2654435761u + 12345u;
        R32 r;
        if constexpr (Which == 0) {
            etl::static_vector<int, 8> v;
            for (int k = 0; k < 12; ++k) {
                unsigned c = lcg(s) % 6;
                int x      = (int)(lcg(s) % 10);
                if (c <= 1 && v.size() < v.capacity()) {
                    v.push_back(x);
                } else if (c == 2 && !v.empty()) {
                    v.pop_back();
                } else if (c == 3 && v.size() < v.capacity()) {
                    v.insert(v.begin() + (long)(lcg(s) % (v.size() + 1)), x);
                } else if (c == 4 && !v.empty()) {
                    v.erase(v.begin() + (long)(lcg(s) % v.size()));
                } else if (c == 5) {
                    v.resize(lcg(s) % 9, x);
                }
            }
            r.push((long)v.size());
            for (auto x : v) { r.push(x); }
            r.push(v.empty() ? -1 : v.front());
            r.push(v.empty() ? -1 : v.back());
        } else if constexpr (Which == 1) {
            etl::inplace_string<16> str;
            for (int k = 0; k < 10; ++k) {
                unsigned c = lcg(s) % 5;
                char ch    = (char)('a' + lcg(s) % 3);
                if (c <= 1 && str.size() < 12) {
                    str.push_back(ch);
                } else if (c == 2 && str.size() < 10) {
                    str.append("ab");
                } else if (c == 3 && !str.empty()) {
                    str.pop_back();
                } else if (c == 4 && str.size() < 12) {
                    str.insert(str.size() / 2, 1, ch);
                }
            }
            r.push((long)str.size());
            for (auto ch : str) { r.push((unsigned char)ch); }
            r.push((long)(str.find('b') == etl::inplace_string<16>::npos ? -1 : (long)str.find('b')));
            r.push((long)(str.find("ab") == etl::inplace_string<16>::npos ? -1 : (long)str.find("ab")));
            r.push(str.compare("abc") < 0 ? -1 : str.compare("abc") > 0 ? 1 : 0);
            // the view over the same characters: single-character and substring searches at and beyond size()
            etl::string_view sv {str.data(), str.size()};
            auto ix = [](etl::string_view::size_type p) { return p == etl::string_view::npos ? -1L : (long)p; };
            for (etl::string_view::size_type d = 0; d < 3; ++d) {
                r.push(ix(sv.find('b', sv.size() + d)));
                r.push(ix(sv.rfind('b', sv.size() + d)));
            }
            r.push(ix(sv.find('a', 1)));
            r.push(ix(sv.find("ab", sv.size() + 1)));
            r.push(ix(sv.find_first_of('c', sv.size() + 2)));
        } else if constexpr (Which == 2) {
            etl::array<int, 12> a {};
            for (auto& x : a) { x = (int)(lcg(s) % 16) - 8; }
            etl::sort(a.begin(), a.end());
            for (auto x : a) { r.push(x); }
            etl::array<int, 6> b {};
            for (auto& x : b) { x = (int)(lcg(s) % 4); }
            etl::sort(b.begin(), b.end(), [](int p, int q) { return q < p; });
            for (auto x : b) { r.push(x); }
        } else if constexpr (Which == 3) {
            etl::array<int, 8> a {};
            for (auto& x : a) { x = (int)(lcg(s) % 5); }
            etl::reverse(a.begin(), a.end());
            etl::rotate(a.begin(), a.begin() + (long)(lcg(s) % 8), a.end());
            for (auto x : a) { r.push(x); }
            r.push(etl::accumulate(a.begin(), a.end(), 0));
            r.push((long)etl::count(a.begin(), a.end(), 2));
            r.push(*etl::max_element(a.begin(), a.end()));
            r.push((long)(etl::min_element(a.begin(), a.end()) - a.begin()));
            auto e = etl::unique(a.begin(), a.end());
            r.push((long)(e - a.begin()));
            etl::fill(e, a.end(), -1);
            for (auto x : a) { r.push(x); }
        } else {
            etl::array<int, 10> a {};
            for (auto& x : a) { x = (int)(lcg(s) % 7); }
            etl::sort(a.begin(), a.end());
            int key = (int)(lcg(s) % 8);
            r.push((long)(etl::lower_bound(a.begin(), a.end(), key) - a.begin()));
            r.push((long)(etl::upper_bound(a.begin(), a.end(), key) - a.begin()));
            r.push(etl::binary_search(a.begin(), a.end(), key) ? 1 : 0);
            r.push((long)(etl::find(a.begin(), a.end(), key) - a.begin()));
            r.push(etl::is_sorted(a.begin(), a.end()) ? 1 : 0);
            r.push(etl::all_of(a.begin(), a.end(), [](int x) { return x >= 0; }) ? 1 : 0);
            r.push(etl::any_of(a.begin(), a.end(), [key](int x) { return x == key; }) ? 1 : 0);
        }
        return r;
    }
};
    #endif

constexpr int DAYS[] = {-719468, -719467, -693596, -141428, -141427, -36525, -25509, -1, 0, 1, 58, 59, 60, 365, 366, 789, 790, 11016, 11017,
                        10957, 10956, 11323, 19358, 19417, 19418, 19723, 19782, 19783, 19784, 47540, 47541, 2932896, 2932897};
struct Chrono_civil {
    static constexpr std::size_t ND = sizeof(DAYS) / sizeof(DAYS[0]);
#ifdef VH_THOROUGH
    static constexpr std::size_t N = ND + 6000;
#else
    static constexpr std::size_t N = ND + 400;
#endif
    static constexpr bool has_ct    = true;
    static constexpr int day(std::size_t i) { return i < ND ? DAYS[i] : (int)(i - ND) * 1461 / 4 - 60000 + (int)((i * 7919) % 97); }
    static void head(std::string& o) { o += "\"fam\":\"chrono\",\"fn\":\"civil\""; }
    static void args(std::string& o, std::size_t i) { arg1(o, day(i)); }
    static constexpr auto eval(std::size_t i)
    {
        namespace ch = impl::chrono;
        ch::sys_days sd {ch::days {day(i)}};
        ch::year_month_day ymd {sd};
        R32 r;
        r.push((int)ymd.year());
        r.push((long)(unsigned)ymd.month());
        r.push((long)(unsigned)ymd.day());
        r.push(ymd.ok() ? 1 : 0);
        r.push((long)ch::sys_days {ymd}.time_since_epoch().count());
        r.push((long)ch::weekday {sd}.c_encoding());
        r.push(ymd.year().is_leap() ? 1 : 0);
        return r;
    }
};
void run_family()
{
    #ifndef VH_STD
    run_table<Kernel<0>>();
    run_table<Kernel<1>>();
    run_table<Kernel<2>>();
    run_table<Kernel<3>>();
    run_table<Kernel<4>>();
    #endif
    run_table<Chrono_civil>();
}
#endif

// =================================================================================================================
// family: bytes  (algorithms and container comparisons on single-byte element types: char, signed char, unsigned char;
//                 all pairs of arrays of length <= 2 (thorough: 3) over {-128,-1,0,1,127} resp. {0,1,127,128,255})
// =================================================================================================================
#if VH_FAM == 8
    #ifdef VH_THOROUGH
constexpr int BY_MAXLEN = 3;
    #else
constexpr int BY_MAXLEN = 2;
    #endif
struct ByArr {
    int n;
    int ix[3];
};
constexpr auto by_arrays()
{
    struct T {
        std::array<ByArr, 160> v {};
        std::size_t n = 0;
    } t;
    t.v[t.n++] = ByArr {0, {0, 0, 0}};
    for (int a = 0; a < 5; ++a) { t.v[t.n++] = ByArr {1, {a, 0, 0}}; }
    for (int a = 0; a < 5; ++a) {
        for (int b = 0; b < 5; ++b) { t.v[t.n++] = ByArr {2, {a, b, 0}}; }
    }
    if (BY_MAXLEN >= 3) {
        for (int a = 0; a < 5; ++a) {
            for (int b = 0; b < 5; ++b) {
                for (int c = 0; c < 5; ++c) { t.v[t.n++] = ByArr {3, {a, b, c}}; }
            }
        }
    }
    return t;
}
inline constexpr auto BYA = by_arrays();
template <class E>
constexpr E by_elem(int ix)
{
    constexpr int sg[] = {-128, -1, 0, 1, 127};
    constexpr int us[] = {0, 1, 127, 128, 255};
    return std::is_signed_v<E> ? (E)sg[ix] : (E)us[ix];
}
template <class E>
struct ByBuf {
    E d[4] {};
    int n = 0;
};
template <class E>
constexpr auto by_buf(std::size_t k) -> ByBuf<E>
{
    ByBuf<E> b;
    b.n = BYA.v[k].n;
    for (int i = 0; i < 4; ++i) { b.d[i] = by_elem<E>(i < b.n ? BYA.v[k].ix[i] : 2); } // padded with the element 0 / 127
    return b;
}
template <class E>
char const* by_tname()
{
    return std::is_same_v<E, char> ? "char" : std::is_same_v<E, signed char> ? "schar" : "uchar";
}
    #ifndef VH_STD
template <class E>
using ByVec = etl::static_vector<E, 4>;
    #else
template <class E>
using ByVec = std::vector<E>;
    #endif

// Which: 0 lexicographical_compare 1 equal 2 mismatch 3 find 4 count 5 copy 6 move 7 fill 8 min_element 9 max_element 10 vector relops
template <class E, int Which>
struct Bytes {
    // arrays of length 3 (thorough tier) only for the comparisons; 31 = number of arrays of length <= 2
    static constexpr std::size_t M = (Which == 0 || Which == 1 || Which == 10) ? BYA.n : 31;
    static constexpr std::size_t N = M * M;
    static constexpr bool has_ct   = true;
    static void head(std::string& o)
    {
        char const* nm[] = {"lexicographical_compare", "equal", "mismatch", "find", "count", "copy", "move", "fill", "min_element", "max_element",
                            "vector_relops"};
        o += std::string("\"fam\":\"bytes\",\"fn\":\"") + nm[Which] + "\",\"t\":\"" + by_tname<E>() + "\"";
    }
    static void put_arr(ByBuf<E> const& b, int n)
    {
        Seq<4> q;
        for (int i = 0; i < n; ++i) { q.push((long)b.d[i]); }
        put_seq(q);
    }
    static void args(std::string& o, std::size_t i)
    {
        auto a = by_buf<E>(i / M);
        auto b = by_buf<E>(i % M);
        put_arr(a, a.n);
        o += ',';
        put_arr(b, Which == 5 || Which == 6 || Which == 7 ? 4 : b.n); // the destination buffer is logged in full
        if (Which == 3 || Which == 4 || Which == 7) {
            o += ',';
            arg1(o, (long)b.d[0]); // the value searched for / filled in: first element of b (or the padding element)
        }
    }
    static constexpr auto eval(std::size_t i)
    {
        auto a = by_buf<E>(i / M);
        auto b = by_buf<E>(i % M);
        E const* a0 = a.d;
        E const* a1 = a.d + a.n;
        E const* b0 = b.d;
        E const* b1 = b.d + b.n;
        Seq<8> r;
        if constexpr (Which == 0) {
            r.push(impl::lexicographical_compare(a0, a1, b0, b1) ? 1 : 0);
        } else if constexpr (Which == 1) {
            r.push(impl::equal(a0, a1, b0, b1) ? 1 : 0);
        } else if constexpr (Which == 2) {
            auto p = impl::mismatch(a0, a1, b0, b1);
            r.push((long)(p.first - a0));
            r.push((long)(p.second - b0));
        } else if constexpr (Which == 3) {
            r.push((long)(impl::find(a0, a1, b.d[0]) - a0));
        } else if constexpr (Which == 4) {
            r.push((long)impl::count(a0, a1, b.d[0]));
        } else if constexpr (Which == 5) {
            auto e = impl::copy(a0, a1, b.d);
            for (auto x : b.d) { r.push((long)x); }
            r.push((long)(e - b.d));
        } else if constexpr (Which == 6) {
            auto e = impl::move(a0, a1, b.d);
            for (auto x : b.d) { r.push((long)x); }
            r.push((long)(e - b.d));
        } else if constexpr (Which == 7) {
            E v = b.d[0];
            impl::fill(b.d, b.d + a.n, v);
            for (auto x : b.d) { r.push((long)x); }
        } else if constexpr (Which == 8) {
            r.push((long)(impl::min_element(a0, a1) - a0));
        } else if constexpr (Which == 9) {
            r.push((long)(impl::max_element(a0, a1) - a0));
        } else {
            ByVec<E> u;
            ByVec<E> v;
            for (int k = 0; k < a.n; ++k) { u.push_back(a.d[k]); }
            for (int k = 0; k < b.n; ++k) { v.push_back(b.d[k]); }
            r.push(u == v ? 1 : 0);
            r.push(u != v ? 1 : 0);
            r.push(u < v ? 1 : 0);
            r.push(u <= v ? 1 : 0);
            r.push(u > v ? 1 : 0);
            r.push(u >= v ? 1 : 0);
        }
        return r;
    }
};
// array<E, 2> relational operators over all pairs of length-2 arrays
template <class E>
struct BytesArr {
    static constexpr std::size_t N = 625;
    static constexpr bool has_ct   = true;
    static void head(std::string& o) { o += std::string("\"fam\":\"bytes\",\"fn\":\"array_relops\",\"t\":\"") + by_tname<E>() + "\""; }
    static constexpr auto arr(std::size_t k) { return impl::array<E, 2> {by_elem<E>((int)(k / 5)), by_elem<E>((int)(k % 5))}; }
    static void args(std::string& o, std::size_t i)
    {
        for (std::size_t k : {i / 25, i % 25}) {
            auto a = arr(k);
            Seq<4> q;
            q.push((long)a[0]);
            q.push((long)a[1]);
            put_seq(q);
            if (k == i / 25 && true) { o += ','; }
        }
        if (o.back() == ',') { o.pop_back(); }
    }
    static constexpr auto eval(std::size_t i)
    {
        auto u = arr(i / 25);
        auto v = arr(i % 25);
        Seq<8> r;
        r.push(u == v ? 1 : 0);
        r.push(u != v ? 1 : 0);
        r.push(u < v ? 1 : 0);
        r.push(u <= v ? 1 : 0);
        r.push(u > v ? 1 : 0);
        r.push(u >= v ? 1 : 0);
        return r;
    }
};
// equal on float arrays over {-0.0, +0.0, 1.0, NaN} (codes 0..3): element-wise ==, not a comparison of representations
struct BytesEqFlt {
    static constexpr std::size_t M = 21; // lengths 0..2 over 4 symbols
    static constexpr std::size_t N = M * M;
    static constexpr bool has_ct   = true;
    static constexpr int len(std::size_t k) { return k == 0 ? 0 : k <= 4 ? 1 : 2; }
    static constexpr int code(std::size_t k, int j) { return k <= 4 ? (int)(k - 1) : (j == 0 ? (int)((k - 5) / 4) : (int)((k - 5) % 4)); }
    static constexpr float val(int c) { return c == 0 ? -0.0F : c == 1 ? 0.0F : c == 2 ? 1.0F : std::numeric_limits<float>::quiet_NaN(); }
    static void head(std::string& o) { o += "\"fam\":\"bytes\",\"fn\":\"equal_flt\",\"t\":\"float\""; }
    static void args(std::string& o, std::size_t i)
    {
        for (int w = 0; w < 2; ++w) {
            std::size_t k = w == 0 ? i / M : i % M;
            Seq<4> q;
            for (int j = 0; j < len(k); ++j) { q.push(code(k, j)); }
            put_seq(q);
            if (w == 0) { o += ','; }
        }
    }
    static constexpr auto eval(std::size_t i)
    {
        float a[2] = {};
        float b[2] = {};
        std::size_t ka = i / M, kb = i % M;
        for (int j = 0; j < len(ka); ++j) { a[j] = val(code(ka, j)); }
        for (int j = 0; j < len(kb); ++j) { b[j] = val(code(kb, j)); }
        Seq<8> r;
        r.push(impl::equal(a, a + len(ka), b, b + len(kb)) ? 1 : 0);
        return r;
    }
};
template <class E>
void run_bytes_of()
{
    run_table<Bytes<E, 0>>();
    run_table<Bytes<E, 1>>();
    run_table<Bytes<E, 2>>();
    run_table<Bytes<E, 3>>();
    run_table<Bytes<E, 4>>();
    run_table<Bytes<E, 5>>();
    run_table<Bytes<E, 6>>();
    run_table<Bytes<E, 7>>();
    run_table<Bytes<E, 8>>();
    run_table<Bytes<E, 9>>();
    run_table<Bytes<E, 10>>();
    run_table<BytesArr<E>>();
}
void run_family()
{
    run_bytes_of<char>();
    run_bytes_of<signed char>();
    run_bytes_of<unsigned char>();
    run_table<BytesEqFlt>();
}
#endif

// =================================================================================================================
// family: flt  (rounding / classification part of cmath; per-call constant evaluation)
// =================================================================================================================
#if VH_FAM >= 5 && VH_FAM <= 7
    #define FLT1(NAME)                                                                                                                 \
        template <class T>                                                                                                             \
        struct Flt_##NAME {                                                                                                            \
            static constexpr std::size_t N = ct_in<T>.n;                                                                               \
            static void head(std::string& o)                                                                                           \
            {                                                                                                                          \
                o += std::string("\"fam\":\"flt\",\"fn\":\"" #NAME "\",\"p\":\"") + (std::is_same_v<T, float> ? "f" : "d") + "\"";     \
            }                                                                                                                          \
            static void args(std::string& o, std::size_t i) { put_seq(fp_seq(ct_in<T>.v[i])); }                                       \
            static constexpr auto eval(std::size_t i) { return res_seq(impl::NAME(ct_in<T>.v[i])); }                                   \
        };
    #define FLT2(NAME)                                                                                                                 \
        template <class T>                                                                                                             \
        struct Flt_##NAME {                                                                                                            \
            static constexpr std::size_t M = ct_gr<T>.n;                                                                               \
            static constexpr std::size_t N = M * M;                                                                                    \
            static void head(std::string& o)                                                                                           \
            {                                                                                                                          \
                o += std::string("\"fam\":\"flt\",\"fn\":\"" #NAME "\",\"p\":\"") + (std::is_same_v<T, float> ? "f" : "d") + "\"";     \
            }                                                                                                                          \
            static void args(std::string& o, std::size_t i)                                                                            \
            {                                                                                                                          \
                put_seq(fp_seq(ct_gr<T>.v[i / M]));                                                                                    \
                o += ',';                                                                                                              \
                put_seq(fp_seq(ct_gr<T>.v[i % M]));                                                                                    \
            }                                                                                                                          \
            static constexpr auto eval(std::size_t i) { return res_seq(impl::NAME(ct_gr<T>.v[i / M], ct_gr<T>.v[i % M])); }            \
        };
    #if VH_FAM == 5
FLT1(floor)
FLT1(ceil)
FLT1(trunc)
FLT1(round)
FLT1(rint)
FLT1(lrint)
    #elif VH_FAM == 6
FLT1(llrint)
FLT1(fabs)
FLT1(signbit)
FLT1(isnan)
FLT1(isinf)
FLT1(isfinite)
    #else
FLT2(copysign)
FLT2(fmin)
FLT2(fmax)
FLT2(nextafter)
// fma on exactly representable cases: quarter-integers of moderate size (products and sums are exact)
template <class T>
struct Flt_fma {
    static constexpr std::size_t N = 343;
    static constexpr T val(std::size_t k)
    {
        constexpr T c[] = {(T)0, (T)1, (T)-1, (T)0.25, (T)-2.5, (T)3, (T)1024.75};
        return c[k];
    }
    static void head(std::string& o) { o += std::string("\"fam\":\"flt3\",\"fn\":\"fma\",\"p\":\"") + (std::is_same_v<T, float> ? "f" : "d") + "\""; }
    static void args(std::string& o, std::size_t i)
    {
        put_seq(fp_seq(val(i / 49)));
        o += ',';
        put_seq(fp_seq(val((i / 7) % 7)));
        o += ',';
        put_seq(fp_seq(val(i % 7)));
    }
    static constexpr auto eval(std::size_t i) { return res_seq(impl::fma(val(i / 49), val((i / 7) % 7), val(i % 7))); }
};
    #endif
void run_family()
{
    #if VH_FAM == 5
    run_per_call<Flt_floor<float>>();
    run_per_call<Flt_floor<double>>();
    run_per_call<Flt_ceil<float>>();
    run_per_call<Flt_ceil<double>>();
    run_per_call<Flt_trunc<float>>();
    run_per_call<Flt_trunc<double>>();
    run_per_call<Flt_round<float>>();
    run_per_call<Flt_round<double>>();
    run_per_call<Flt_rint<float>>();
    run_per_call<Flt_rint<double>>();
    run_per_call<Flt_lrint<float>>();
    run_per_call<Flt_lrint<double>>();
    #elif VH_FAM == 6
    run_per_call<Flt_llrint<float>>();
    run_per_call<Flt_llrint<double>>();
    run_per_call<Flt_fabs<float>>();
    run_per_call<Flt_fabs<double>>();
    run_per_call<Flt_signbit<float>>();
    run_per_call<Flt_signbit<double>>();
    run_per_call<Flt_isnan<float>>();
    run_per_call<Flt_isnan<double>>();
    run_per_call<Flt_isinf<float>>();
    run_per_call<Flt_isinf<double>>();
    run_per_call<Flt_isfinite<float>>();
    run_per_call<Flt_isfinite<double>>();
    #else
    run_per_call<Flt_copysign<float>>();
    run_per_call<Flt_copysign<double>>();
    run_per_call<Flt_fmin<float>>();
    run_per_call<Flt_fmin<double>>();
    run_per_call<Flt_fmax<float>>();
    run_per_call<Flt_fmax<double>>();
    run_per_call<Flt_nextafter<float>>();
    run_per_call<Flt_nextafter<double>>();
    run_per_call<Flt_fma<float>>();
    run_per_call<Flt_fma<double>>();
    #endif
}
#endif

} // namespace

int main()
{
    run_family();
    std::fwrite(g_out.data(), 1, g_out.size(), stdout);
    std::fflush(stdout);
    std::fprintf(stderr, "CALLS %zu impl=%s fam=%d\n", g_n, VH_IMPL, VH_FAM);
    return 0;
}
