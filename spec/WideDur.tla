----------------------------- MODULE WideDur -----------------------------
(* Exact integers wider than TLC's 32-bit Int, for the Duration specification (C12).                *)
(* A wide integer is a record [s |-> -1 | 0 | 1, m |-> <<limbs>>]: sign and magnitude, base 2^15,     *)
(* least significant limb first, no leading zero limb, zero = [s |-> 0, m |-> <<>>].  This is also    *)
(* the JSON shape in which harness/duration_driver.cpp logs every count.                              *)
(* All intermediate native values stay below 2^31: limb * k + carry < 2^15 * 2^15 + 2^15.             *)
(* Division is only ever by a native divisor k < 2^15 (short division); divisors that are products    *)
(* are given as sequences of such chunks (floor(floor(a / k1) / k2) = floor(a / (k1 k2)) for a >= 0). *)
EXTENDS Integers, Sequences

Base == 32768

WZero == [s |-> 0, m |-> <<>>]

RECURSIVE StripZ(_)
StripZ(m) == IF Len(m) > 0 /\ m[Len(m)] = 0 THEN StripZ(SubSeq(m, 1, Len(m) - 1)) ELSE m

RECURSIVE MagOfNat(_)
MagOfNat(n) == IF n = 0 THEN <<>> ELSE <<n % Base>> \o MagOfNat(n \div Base)

\* native -> wide (|n| < 2^31, n # -2^31)
W(n) == IF n = 0 THEN WZero ELSE IF n > 0 THEN [s |-> 1, m |-> MagOfNat(n)] ELSE [s |-> -1, m |-> MagOfNat(-n)]

Mk(s, m) == LET mm == StripZ(m) IN IF mm = <<>> THEN WZero ELSE [s |-> s, m |-> mm]

WellFormed(x) ==
    /\ x.s \in {-1, 0, 1}
    /\ \A i \in 1..Len(x.m) : x.m[i] \in 0..(Base - 1)
    /\ (Len(x.m) > 0 => x.m[Len(x.m)] # 0)
    /\ (x.s = 0) = (Len(x.m) = 0)

Limb(a, i) == IF i <= Len(a) THEN a[i] ELSE 0

\* ---- magnitudes --------------------------------------------------------------------------------
RECURSIVE CmpFrom(_, _, _)
CmpFrom(a, b, i) == IF i = 0 THEN 0 ELSE IF a[i] > b[i] THEN 1 ELSE IF a[i] < b[i] THEN -1 ELSE CmpFrom(a, b, i - 1)
CmpMag(a, b) == IF Len(a) > Len(b) THEN 1 ELSE IF Len(a) < Len(b) THEN -1 ELSE CmpFrom(a, b, Len(a))

RECURSIVE AddFrom(_, _, _, _)
AddFrom(a, b, i, carry) ==
    IF i > Len(a) /\ i > Len(b) THEN (IF carry = 0 THEN <<>> ELSE <<carry>>)
    ELSE LET t == Limb(a, i) + Limb(b, i) + carry IN <<t % Base>> \o AddFrom(a, b, i + 1, t \div Base)
AddMag(a, b) == AddFrom(a, b, 1, 0)

\* a >= b
RECURSIVE SubFrom(_, _, _, _)
SubFrom(a, b, i, borrow) ==
    IF i > Len(a) THEN <<>>
    ELSE LET t == a[i] - Limb(b, i) - borrow IN
         IF t < 0 THEN <<t + Base>> \o SubFrom(a, b, i + 1, 1) ELSE <<t>> \o SubFrom(a, b, i + 1, 0)
SubMag(a, b) == StripZ(SubFrom(a, b, 1, 0))

\* 0 <= k < Base
RECURSIVE MulFrom(_, _, _, _)
MulFrom(a, k, i, carry) ==
    IF i > Len(a) THEN MagOfNat(carry)
    ELSE LET t == a[i] * k + carry IN <<t % Base>> \o MulFrom(a, k, i + 1, t \div Base)
MulSmallMag(a, k) == IF k = 0 THEN <<>> ELSE MulFrom(a, k, 1, 0)

RECURSIVE MulAcc(_, _, _)
MulAcc(a, b, j) ==      \* sum over limbs j.. of b:  a * b[j] * Base^(j-1)
    IF j > Len(b) THEN <<>>
    ELSE AddMag([i \in 1..(j - 1) |-> 0] \o MulSmallMag(a, b[j]), MulAcc(a, b, j + 1))
MulMag(a, b) == StripZ(MulAcc(a, b, 1))

\* short division by 1 <= k < Base: [q |-> magnitude, r |-> native remainder]
RECURSIVE DivFrom(_, _, _, _)
DivFrom(a, k, i, rem) ==
    IF i = 0 THEN [q |-> <<>>, r |-> rem]
    ELSE LET cur  == rem * Base + a[i]
             rest == DivFrom(a, k, i - 1, cur % k)
         IN [q |-> Append(rest.q, cur \div k), r |-> rest.r]
DivSmallMag(a, k) == LET d == DivFrom(a, k, Len(a), 0) IN [q |-> StripZ(d.q), r |-> d.r]

\* ---- signed ------------------------------------------------------------------------------------
WNeg(x) == [s |-> -x.s, m |-> x.m]
WAbs(x) == [s |-> IF x.s = 0 THEN 0 ELSE 1, m |-> x.m]
WAdd(x, y) ==
    IF x.s = 0 THEN y ELSE IF y.s = 0 THEN x
    ELSE IF x.s = y.s THEN [s |-> x.s, m |-> AddMag(x.m, y.m)]
    ELSE LET c == CmpMag(x.m, y.m) IN
         IF c = 0 THEN WZero
         ELSE IF c > 0 THEN [s |-> x.s, m |-> SubMag(x.m, y.m)]
         ELSE [s |-> y.s, m |-> SubMag(y.m, x.m)]
WSub(x, y) == WAdd(x, WNeg(y))
WCmp(x, y) ==
    IF x.s # y.s THEN (IF x.s > y.s THEN 1 ELSE -1)
    ELSE IF x.s = 0 THEN 0 ELSE x.s * CmpMag(x.m, y.m)
WLt(x, y) == WCmp(x, y) < 0
WLe(x, y) == WCmp(x, y) <= 0
WMul(x, y) == IF x.s = 0 \/ y.s = 0 THEN WZero ELSE [s |-> x.s * y.s, m |-> MulMag(x.m, y.m)]
WMulSmall(x, k) == IF x.s = 0 \/ k = 0 THEN WZero ELSE [s |-> x.s, m |-> MulSmallMag(x.m, k)]
WOne == W(1)
WSucc(x) == WAdd(x, WOne)
WPred(x) == WSub(x, WOne)
WIsOdd(x) == x.s # 0 /\ x.m[1] % 2 = 1

RECURSIVE WPow2(_)
WPow2(k) == IF k < 15 THEN W(2 ^ k) ELSE [s |-> 1, m |-> <<0>> \o WPow2(k - 15).m]

\* multiply / divide by a product given as chunks (each 1 <= chunk < Base)
RECURSIVE WMulChunks(_, _)
WMulChunks(x, ch) == IF ch = <<>> THEN x ELSE WMulChunks(WMulSmall(x, Head(ch)), Tail(ch))

\* floor(|x| / prod(ch)) and whether the division is exact
RECURSIVE DivChunksMag(_, _, _)
DivChunksMag(a, ch, exact) ==
    IF ch = <<>> THEN [q |-> a, exact |-> exact]
    ELSE LET d == DivSmallMag(a, Head(ch)) IN DivChunksMag(d.q, Tail(ch), exact /\ d.r = 0)

\* truncation toward zero, floor, ceiling of x / prod(ch)
WDivInfo(x, ch) == DivChunksMag(x.m, ch, TRUE)
WTrunc(x, ch) == Mk(x.s, WDivInfo(x, ch).q)
WFloor(x, ch) == LET d == WDivInfo(x, ch) t == Mk(x.s, d.q) IN IF x.s < 0 /\ ~d.exact THEN WPred(t) ELSE t
WCeil(x, ch)  == LET d == WDivInfo(x, ch) t == Mk(x.s, d.q) IN IF x.s > 0 /\ ~d.exact THEN WSucc(t) ELSE t
WExact(x, ch) == WDivInfo(x, ch).exact

\* range predicates
WFitsBits(x, bits) == WLe(WNeg(WPow2(bits - 1)), x) /\ WLt(x, WPow2(bits - 1))
WAbsLe(x, y) == CmpMag(x.m, y.m) <= 0

\* wide -> native when |x| < 2^30
RECURSIVE NatOfMag(_, _)
NatOfMag(m, i) == IF i > Len(m) THEN 0 ELSE m[i] + Base * NatOfMag(m, i + 1)
WToInt(x) == x.s * NatOfMag(x.m, 1)
WIsSmall(x) == Len(x.m) <= 2
==========================================================================
