"""C15 - type traits, concepts, numeric_limits and ratio agree with the language and std."""
from pipes import types


def run(tier, rep):
    types.pipeline(tier, rep)
    rep.assumptions += []


def replay(path):
    return types.replay(path, "C15")
