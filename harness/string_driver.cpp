// Conformance driver for basic_inplace_string (property C04).
// Executes the groups planned from the transitions exported by spec/String.tla
//   {"cap":N, "path":[call...], "edges":[call...], "q":{bundle}|null}
// (reach the pre-state by a real call history, then run every outgoing call from a restored copy of
// that state, then every search/compare overload of the query bundle) or its own seeded random
// histories that hover near full, on the real template through the public API only, and records one
// self-contained event per call.  The events are judged by spec/StringTrace.tla; there is no oracle
// and no comparison here.  -DVH_STD: the identical calls on std::basic_string (calibration).
// Calls run in a forked child; a child that dies is reported as an event carrying "trap":1 for the
// call it was executing, and a new child resumes behind it.
#include "common.hpp"

#include <fcntl.h>
#include <sys/mman.h>
#include <sys/wait.h>
#include <unistd.h>

#include <set>
#include <string>
#include <vector>

#ifdef VH_STD
    #include <string>
    #include <string_view>
#else
    #include <etl/string.hpp>
    #include <etl/string_view.hpp>
#endif

#ifndef VH_CAPS
    #define VH_CAPS 0, 1, 2, 3
#endif
#ifndef VH_CHAR
    #define VH_CHAR char
#endif
#define VH_STR2(x) #x
#define VH_STR(x)  VH_STR2(x)
// operations whose body does not instantiate are switched off by the compile probes of tools/pipes/string.py
#ifndef VH_HAVE_RFIND_PN
    #define VH_HAVE_RFIND_PN 0
#endif
#ifndef VH_HAVE_REPLACE_CSTR
    #define VH_HAVE_REPLACE_CSTR 0
#endif

using vh::json;

namespace {

constexpr long NPOS_TOKEN = -1;
constexpr long FILL       = 126;

struct Shm {
    long rec;
    long call;
    long busy;   // 1 while a library call is open
    long inpath; // the open call belongs to the path that builds the pre-state
    long unsupported;
    long events;
    size_t desc_len;
    char desc[1 << 16];
    size_t out_len;
    char out[1 << 23];
};
Shm* shm = nullptr;

void flush_out()
{
    size_t off = 0;
    while (off < shm->out_len) {
        ssize_t w = ::write(1, shm->out + off, shm->out_len - off);
        if (w <= 0) { vh_exit(3); }
        off += (size_t)w;
    }
    shm->out_len = 0;
}

struct Line {
    char* b;
    size_t n = 0;
    explicit Line(char* buf) : b(buf) { }
    void s(char const* t)
    {
        while (*t) { b[n++] = *t++; }
    }
    void ch(char c) { b[n++] = c; }
    void i(long v) { n += (size_t)std::snprintf(b + n, 24, "%ld", v); }
    void key(char const* k)
    {
        ch('"');
        s(k);
        ch('"');
        ch(':');
    }
    void kv(char const* k, long v)
    {
        key(k);
        i(v);
        ch(',');
    }
    void kbool(char const* k, bool v)
    {
        key(k);
        s(v ? "true" : "false");
        ch(',');
    }
    void ks(char const* k, char const* v)
    {
        key(k);
        ch('"');
        s(v);
        ch('"');
        ch(',');
    }
    void arr(std::vector<long> const& a)
    {
        ch('[');
        for (size_t j = 0; j < a.size(); ++j) {
            if (j) { ch(','); }
            i(a[j]);
        }
        ch(']');
    }
    void ka(char const* k, std::vector<long> const& a)
    {
        key(k);
        arr(a);
        ch(',');
    }
    void open(char const* k)
    {
        key(k);
        ch('{');
    }
    void close()
    {
        if (b[n - 1] == ',') { --n; }
        ch('}');
        ch(',');
    }
};

// The model's small character codes {0, 97, 98, 200} (+ the filler 126) are mapped per instantiation onto real
// characters.  1-byte types: identity (200 has the high bit set).  Wide types: order-preserving images that contain pairs with
// EQUAL LOW BYTE but different value ('a' = 0x61 vs 0x161 / 0x10061; 0x100 whose low byte collides with the embedded null),
// so an implementation that looks only at the low byte of a wide character is exposed.  The TLA+ side sees model codes only.
template <typename C>
constexpr unsigned long real_of_model(long v)
{
    if constexpr (sizeof(C) == 1) { return (unsigned long)(unsigned char)v; }
    else if constexpr (std::is_same_v<C, wchar_t>) { return v == 98 ? 0x100ul : (v == 200 ? 0x161ul : (unsigned long)v); }
    else if constexpr (std::is_same_v<C, char16_t>) { return v == 98 ? 0xA1ul : (v == 200 ? 0x100ul : (unsigned long)v); }
    else { return v == 98 ? 0x100ul : (v == 200 ? 0x10061ul : (unsigned long)v); }
}
template <typename C>
long code_of(C c)
{
    if constexpr (sizeof(C) == 1) { return (long)(unsigned char)c; }
    else {
        unsigned long raw = (unsigned long)(std::make_unsigned_t<C>)c;
        for (long m : {0L, 97L, 98L, 200L, 126L}) {
            if (real_of_model<C>(m) == raw) { return m; }
        }
        // a character nobody passed in (garbage read through a broken view / size): distinct from every model code and
        // still inside the 32-bit integers of the judge
        return 1000000 + (long)(raw > (1ul << 29) ? (1ul << 29) : raw);
    }
}
template <typename C>
C char_of(long v)
{
    return (C)real_of_model<C>(v);
}
inline size_t to_sz(long v) { return v == NPOS_TOKEN ? static_cast<size_t>(-1) : static_cast<size_t>(v); }
inline long from_sz(size_t v)
{
    if (v == static_cast<size_t>(-1)) { return NPOS_TOKEN; }
    return v > (size_t(1) << 30) ? (long(1) << 30) : (long)v;
}
inline long sgn(int v) { return v < 0 ? -1 : (v > 0 ? 1 : 0); }

struct X {
    long c = 0, n = 0, p = 0, p2 = 0, n2 = 0, d = 0;
    int src = 1;
    std::vector<long> xs;
};

X x_of(json const& j)
{
    X x;
    x.c   = j.value("c", 0L);
    x.n   = j.value("n", 0L);
    x.p   = j.value("p", 0L);
    x.p2  = j.value("p2", 0L);
    x.n2  = j.value("n2", 0L);
    x.d   = j.value("d", 0L);
    x.src = j.value("src", std::string("b")) == "a" ? 0 : 1;
    if (j.contains("xs")) {
        for (auto const& e : j["xs"]) { x.xs.push_back(e.get<long>()); }
    }
    return x;
}

std::vector<long> vec_of(json const& j)
{
    std::vector<long> v;
    for (auto const& e : j) { v.push_back(e.get<long>()); }
    return v;
}

struct Job {
    std::string mode, type, script;
    long cap = 0, nhist = 0, steps = 0;
    long shard = 0, nshards = 1; // groups / histories handled by this process
    long selk = 0, selm = 1;     // of the non-path calls of a group only those with index % selm == selk
    uint64_t seed = 1;
    std::vector<json> groups;
};

template <typename C, size_t N>
struct Runner {
#ifdef VH_STD
    using S  = std::basic_string<C>;
    using S2 = std::basic_string<C>;
    using V  = std::basic_string_view<C>;
#else
    using S  = etl::basic_inplace_string<C, N>;
    using S2 = etl::basic_inplace_string<C, N + 1>;
    using V  = etl::basic_string_view<C>;
#endif
    Job const& job;
    std::string inst;
    // padding around the objects absorbs small overruns of a broken operation, so that the event is still
    // recorded and judged instead of the harness state being destroyed
    struct Slot {
        unsigned char before[512];
        alignas(S) unsigned char obj[sizeof(S)];
        unsigned char after[512];
    };
    Slot store[2];
    S* ob[2];
    long rec0 = 0, call0 = 0, rec_idx = 0, call_idx = 0;
    std::set<std::string> unsupported_seen;

    explicit Runner(Job const& j) : job(j), inst(j.type + "_" + std::to_string(N))
    {
        for (int i = 0; i < 2; ++i) { ob[i] = new (store[i].obj) S(); }
    }
    ~Runner()
    {
        for (int i = 0; i < 2; ++i) { ob[i]->~S(); }
    }
    void reset()
    {
        for (int i = 0; i < 2; ++i) {
            ob[i]->~S();
            ob[i] = new (store[i].obj) S();
        }
    }

    // ---- projection (public observers only) -----------------------------------------------------
    template <typename Str>
    static size_t lim_of(Str const& s)
    {
#ifdef VH_STD
        return s.size();
#else
        return std::min<size_t>(s.size(), s.capacity()); // never read outside the storage
#endif
    }
    template <typename Str>
    static std::vector<long> chars_of(Str const& s)
    {
        std::vector<long> v;
        size_t lim = lim_of(s);
        for (size_t i = 0; i < lim; ++i) { v.push_back(code_of<C>(s.data()[i])); }
        return v;
    }
    template <typename Str>
    static void proj(Line& o, char const* key, Str const& s)
    {
        size_t n   = s.size();
        size_t lim = lim_of(s);
        o.open(key);
        o.ka("s", chars_of(s));
        o.kv("size", from_sz(n));
        o.kv("z", n == lim ? code_of<C>(s.data()[n]) : -1); // the terminator slot
        long len = -1;                                      // strlen(c_str()), scan bounded by the storage
        for (size_t i = 0; i <= lim && n == lim; ++i) {
            if (s.c_str()[i] == C(0)) {
                len = (long)i;
                break;
            }
        }
        o.kv("len", len);
        o.close();
    }
    void state(Line& o, char const* key)
    {
        o.open(key);
        proj(o, "a", *ob[0]);
        proj(o, "b", *ob[1]);
        o.close();
    }
    static void observe(Line& o, char const* key, S& s)
    {
        S const& cs = s;
        size_t lim  = lim_of(cs);
        o.open(key);
        o.kbool("empty", cs.empty());
        o.kv("length", from_sz(cs.length()));
#ifndef VH_STD
        o.kbool("full", cs.full());
        o.kv("cap", from_sz(cs.capacity()));
        o.kv("maxsize", from_sz(cs.max_size()));
#endif
        std::vector<long> idx, cidx, it, rev, cstr, view;
        for (size_t i = 0; i < lim; ++i) {
            idx.push_back(code_of<C>(s[i]));
            cidx.push_back(code_of<C>(cs[i]));
            cstr.push_back(code_of<C>(cs.c_str()[i]));
        }
        if (cs.size() == lim) {
            for (auto p = cs.begin(); p != cs.end(); ++p) { it.push_back(code_of<C>(*p)); }
            for (auto p = cs.rbegin(); p != cs.rend(); ++p) { rev.push_back(code_of<C>(*p)); }
            V v = cs;
            for (size_t i = 0; i < v.size() && i < lim; ++i) { view.push_back(code_of<C>(v.data()[i])); }
            if (v.size() != lim) { view.push_back(-2); }
        }
        o.ka("idx", idx);
        o.ka("cidx", cidx);
        o.ka("it", it);
        o.ka("rev", rev);
        o.ka("cstr", cstr);
        o.ka("view", view);
        o.kv("front", lim == 0 ? -1 : code_of<C>(cs.front()));
        o.kv("back", lim == 0 ? -1 : code_of<C>(cs.back()));
        o.close();
    }

    // ---- event framing ---------------------------------------------------------------------------
    // returns false when the call has to be skipped (already done by an earlier child / not selected)
    bool begin_call(bool path, bool& emit)
    {
        long my = call_idx++;
        emit    = true;
        if (rec_idx == rec0 && my < call0) {
            if (!path) { return false; }
            emit = false; // rebuild the pre-state silently
        }
        shm->rec    = rec_idx;
        shm->call   = my;
        shm->inpath = path ? 1 : 0;
        return true;
    }
    void unsupported(std::string const& what)
    {
        ++shm->unsupported;
        if (unsupported_seen.insert(what).second) { std::fprintf(stderr, "UNSUPPORTED %s %s\n", inst.c_str(), what.c_str()); }
    }
    void room()
    {
        if (shm->out_len + 4 * sizeof(shm->desc) > sizeof(shm->out)) { flush_out(); }
    }

    void xjson(Line& o, X const& x)
    {
        o.open("x");
        o.kv("c", x.c);
        o.kv("n", x.n);
        o.kv("p", x.p);
        o.ka("xs", x.xs);
        o.ks("src", x.src == 0 ? "a" : "b");
        o.kv("p2", x.p2);
        o.kv("n2", x.n2);
        o.kv("d", x.d);
        o.close();
    }

    // ---- one mutator / value-returning call -------------------------------------------------------
    // returns: 0 executed, 1 unsupported
    int step(std::string const& op, int o, X const& x, bool path, bool emit)
    {
        Line d(shm->desc);
        d.ch('{');
        d.ks("op", op.c_str());
        d.ks("o", o == 0 ? "a" : "b");
        xjson(d, x);
        d.kv("cap", (long)N);
        d.ks("inst", inst.c_str());
        state(d, "pre");
        shm->desc_len = d.n;
        room();
        Line ev(shm->out + shm->out_len);
        std::memcpy(ev.b, shm->desc, shm->desc_len);
        ev.n      = shm->desc_len;
        shm->busy = 1;
        bool ok   = apply(op, o, x, ev);
        shm->busy = 0;
        if (!ok) {
            unsupported(op);
            return 1;
        }
        state(ev, "post");
        ev.open("obs");
        observe(ev, "a", *ob[0]);
        observe(ev, "b", *ob[1]);
        ev.close();
        --ev.n;
        ev.s("}\n");
        if (emit) {
            shm->out_len += ev.n;
            ++shm->events;
        }
        (void)path;
        return 0;
    }

    bool apply(std::string const& op, int o, X const& x, Line& ev)
    {
        S& t = *ob[o];
        S& s = *ob[x.src];
        std::vector<C> xb, zb;
        for (auto v : x.xs) { xb.push_back(char_of<C>(v)); }
        zb = xb;
        zb.push_back(C(0));
        xb.reserve(1);
        C const* xp  = xb.data();
        C const* xe  = xb.data() + xb.size();
        C const* zp  = zb.data();
        C const c    = char_of<C>(x.c);
        size_t const p = to_sz(x.p), n = to_sz(x.n), p2 = to_sz(x.p2), n2 = to_sz(x.n2);
        V const view(xp, xb.size());
        long ret     = 0;
        bool has_out = false;
        S out;
        auto self = [&](S& r) { ret = (&r == &t) ? 0 : -2; };
        auto ctor = [&](auto&&... a) {
            t.~S();
            new (&t) S(static_cast<decltype(a)&&>(a)...);
        };

        if (op == "ctor_default") { ctor(); }
        else if (op == "ctor_pn") { ctor(xp, n2); }
        else if (op == "ctor_cstr") { ctor(zp); }
        else if (op == "ctor_fill") { ctor(n2, c); }
        else if (op == "ctor_range") { ctor(xp, xe); }
        else if (op == "ctor_sub") {
            if (x.d == 1) { ctor(s, p2); } else { ctor(s, p2, n2); }
        }
        else if (op == "ctor_sv") { ctor(view); }
        else if (op == "ctor_sv_sub") { ctor(view, p2, n2); }
        else if (op == "ctor_str") { ctor(s); }
        else if (op == "ctor_move") { ctor(std::move(s)); }
        else if (op == "opas_str") { self(t = s); }
        else if (op == "opas_move") { self(t = std::move(s)); }
        else if (op == "opas_cstr") { self(t = zp); }
        else if (op == "opas_ch") { self(t = c); }
        else if (op == "opas_sv") { self(t = view); }
        else if (op == "assign_fill") { self(t.assign(n2, c)); }
        else if (op == "assign_str") { self(t.assign(s)); }
        else if (op == "assign_sub") { self(x.d == 1 ? t.assign(s, p2) : t.assign(s, p2, n2)); }
        else if (op == "assign_pn") { self(t.assign(xp, n2)); }
        else if (op == "assign_cstr") { self(t.assign(zp)); }
        else if (op == "assign_range") { self(t.assign(xp, xe)); }
        else if (op == "assign_sv") { self(t.assign(view)); }
        else if (op == "assign_sv_sub") { self(x.d == 1 ? t.assign(view, p2) : t.assign(view, p2, n2)); }
        else if (op == "append_fill") { self(t.append(n2, c)); }
        else if (op == "append_cstr") { self(t.append(zp)); }
        else if (op == "append_pn") { self(t.append(xp, n2)); }
        else if (op == "append_range") { self(t.append(xp, xe)); }
        else if (op == "append_str") { self(t.append(s)); }
        else if (op == "append_sub") { self(x.d == 1 ? t.append(s, p2) : t.append(s, p2, n2)); }
        else if (op == "append_sv") { self(t.append(view)); }
        else if (op == "append_sv_sub") { self(x.d == 1 ? t.append(view, p2) : t.append(view, p2, n2)); }
        else if (op == "pluseq_str") { self(t += s); }
        else if (op == "pluseq_ch") { self(t += c); }
        else if (op == "pluseq_cstr") { self(t += zp); }
        else if (op == "pluseq_sv") { self(t += view); }
        else if (op == "push_back") { t.push_back(c); }
        else if (op == "pop_back") { t.pop_back(); }
        else if (op == "insert_fill") { self(t.insert(p, n2, c)); }
        else if (op == "insert_cstr") { self(t.insert(p, zp)); }
        else if (op == "insert_pn") { self(t.insert(p, xp, n2)); }
        else if (op == "insert_str") { self(t.insert(p, s)); }
        else if (op == "insert_sub") { self(x.d == 1 ? t.insert(p, s, p2) : t.insert(p, s, p2, n2)); }
        else if (op == "insert_sv") { self(t.insert(p, view)); }
        else if (op == "insert_sv_sub") { self(x.d == 1 ? t.insert(p, view, p2) : t.insert(p, view, p2, n2)); }
        else if (op == "replace_str") { self(t.replace(p, n, s)); }
        else if (op == "replace_sub") { self(x.d == 1 ? t.replace(p, n, s, p2) : t.replace(p, n, s, p2, n2)); }
        else if (op == "replace_pn") { self(t.replace(p, n, xp, n2)); }
        else if (op == "replace_cstr") {
#if VH_HAVE_REPLACE_CSTR || defined(VH_STD)
            self(t.replace(p, n, zp));
#else
            return false;
#endif
        }
        else if (op == "replace_it_str") { self(t.replace(t.cbegin() + x.p, t.cbegin() + x.p + x.n, s)); }
        else if (op == "replace_it_pn") { self(t.replace(t.cbegin() + x.p, t.cbegin() + x.p + x.n, xp, n2)); }
        else if (op == "replace_it_cstr") {
#if VH_HAVE_REPLACE_CSTR || defined(VH_STD)
            self(t.replace(t.cbegin() + x.p, t.cbegin() + x.p + x.n, zp));
#else
            return false;
#endif
        }
        else if (op == "replace_it_fill") { self(t.replace(t.cbegin() + x.p, t.cbegin() + x.p + x.n, n2, c)); }
        else if (op == "plus_str") {
            out     = t + s;
            has_out = true;
        }
        else if (op == "plus_cstr") {
            out     = t + zp;
            has_out = true;
        }
        else if (op == "plus_ch") {
            out     = t + c;
            has_out = true;
        }
        else if (op == "rplus_cstr") {
            out     = zp + t;
            has_out = true;
        }
        else if (op == "rplus_ch") {
            out     = c + t;
            has_out = true;
        }
        else if (op == "erase_idx") {
            if (x.d == 2) { self(t.erase()); } else if (x.d == 1) { self(t.erase(p)); } else { self(t.erase(p, n)); }
        }
        else if (op == "erase_it") {
            auto it = t.erase(t.cbegin() + x.p);
            ret     = (long)(it - t.begin());
        }
        else if (op == "erase_range") {
            auto it = t.erase(t.cbegin() + x.p, t.cbegin() + x.p + x.n);
            ret     = (long)(it - t.begin());
        }
        else if (op == "resize_ch") { t.resize(n, c); }
        else if (op == "resize") { t.resize(n); }
        else if (op == "clear") { t.clear(); }
        else if (op == "swap") { t.swap(s); }
        else if (op == "fswap") {
            using std::swap;
            swap(t, s);
        }
        else if (op == "substr") {
            out     = x.d == 2 ? t.substr() : (x.d == 1 ? t.substr(p) : t.substr(p, n));
            has_out = true;
        }
        else if (op == "copy") {
            std::vector<C> dst(t.size() + 2, char_of<C>(FILL));
            size_t r = x.d == 1 ? t.copy(dst.data(), n) : t.copy(dst.data(), n, p);
            ret      = from_sz(r);
            std::vector<long> dv;
            for (auto e : dst) { dv.push_back(code_of<C>(e)); }
            ev.ka("dst", dv);
            ev.kv("fill", FILL);
        }
        else if (op == "erase_val") { ret = from_sz(erase(t, c)); }
        else if (op == "erase_if") {
            long lim = x.c;
            ret      = from_sz(erase_if(t, [lim](C e) { return code_of<C>(e) >= lim; }));
        }
        else { return false; }
        ev.kv("ret", ret);
        if (has_out) { proj(ev, "out", out); }
        return true;
    }

    // ---- queries -------------------------------------------------------------------------------------
    template <typename F>
    void query(char const* op, char const* ov, long d, std::vector<long> const& nchars, long pos, long cnt, long pos2,
        long cnt2, bool supported, F f)
    {
        bool emit;
        long my = call_idx; // selection is by index among the non-path calls
        if ((my - sel_base) % job.selm != job.selk) {
            ++call_idx;
            return;
        }
        if (!begin_call(false, emit)) { return; }
        if (!supported) {
            unsupported(std::string(op) + "(" + ov + ")");
            return;
        }
        Line dsc(shm->desc);
        dsc.ch('{');
        dsc.kv("q", 1);
        dsc.ks("op", op);
        dsc.ks("ov", ov);
        dsc.kv("d", d);
        dsc.ks("o", "a");
        dsc.ka("h", chars_of(*ob[0]));
        dsc.ka("n", nchars);
        dsc.kv("pos", pos);
        dsc.kv("cnt", cnt);
        dsc.kv("pos2", pos2);
        dsc.kv("cnt2", cnt2);
        dsc.kv("cap", (long)N);
        dsc.ks("inst", inst.c_str());
        state(dsc, "pre");
        shm->desc_len = dsc.n;
        room();
        Line ev(shm->out + shm->out_len);
        std::memcpy(ev.b, shm->desc, shm->desc_len);
        ev.n      = shm->desc_len;
        shm->busy = 1;
        f(ev);
        shm->busy = 0;
        state(ev, "post");
        --ev.n;
        ev.s("}\n");
        shm->out_len += ev.n;
        ++shm->events;
    }
    long sel_base = 0;

    struct QLists {
        std::vector<long> P, P1, C1, P2, C2, C2X, CH, LX;
        std::vector<std::vector<long>> XS;
        bool full = false;
    };

    void run_queries(QLists const& q)
    {
        S& h       = *ob[0];
        S const& b = *ob[1];
        std::vector<long> bchars = chars_of(b);
        S2 b2(b.data(), b.size());
        auto ri = [](Line& ev, long v) { ev.kv("ret", v); };
        auto rel = [](Line& ev, auto const& l, auto const& r) {
            ev.key("rel");
            ev.ch('[');
            bool v[6] = {l == r, l != r, l < r, l <= r, l > r, l >= r};
            for (int j = 0; j < 6; ++j) {
                if (j) { ev.ch(','); }
                ev.s(v[j] ? "true" : "false");
            }
            ev.ch(']');
            ev.ch(',');
        };

#define VH_SEARCH_STR(NAME)                                                                                        \
    for (long pos : q.P) {                                                                                         \
        query(#NAME, "str", 0, bchars, pos, 0, 0, 0, true, [&](Line& ev) { ri(ev, from_sz(h.NAME(b, to_sz(pos)))); }); \
    }                                                                                                              \
    query(#NAME, "str", 1, bchars, 0, 0, 0, 0, true, [&](Line& ev) { ri(ev, from_sz(h.NAME(b))); });
        VH_SEARCH_STR(find)
        VH_SEARCH_STR(rfind)
        VH_SEARCH_STR(find_first_of)
        VH_SEARCH_STR(find_last_of)
        VH_SEARCH_STR(find_first_not_of)
        VH_SEARCH_STR(find_last_not_of)
#undef VH_SEARCH_STR
        query("compare", "str", 0, bchars, 0, 0, 0, 0, true, [&](Line& ev) { ri(ev, sgn(h.compare(b))); });
        query("compare", "str2", 0, bchars, 0, 0, 0, 0, true, [&](Line& ev) { ri(ev, sgn(h.compare(b2))); });
        for (long p1 : q.P1) {
            for (long c1 : q.C1) {
                query("compare", "3str", 0, bchars, p1, c1, 0, 0, true,
                    [&](Line& ev) { ri(ev, sgn(h.compare(to_sz(p1), to_sz(c1), b))); });
            }
        }
        for (long p1 : q.P1) {
            for (long c1 : q.C1) {
                for (long p2 : q.P2) {
                    for (long c2 : q.C2) {
                        query("compare", "5str", 0, bchars, p1, c1, p2, c2, true,
                            [&](Line& ev) { ri(ev, sgn(h.compare(to_sz(p1), to_sz(c1), b, to_sz(p2), to_sz(c2)))); });
                    }
                    query("compare", "5str", 1, bchars, p1, c1, p2, 0, true,
                        [&](Line& ev) { ri(ev, sgn(h.compare(to_sz(p1), to_sz(c1), b, to_sz(p2)))); });
                }
            }
        }
        query("relops", "str", 0, bchars, 0, 0, 0, 0, true, [&](Line& ev) { rel(ev, h, b); });
        query("relops", "str2", 0, bchars, 0, 0, 0, 0, true, [&](Line& ev) { rel(ev, h, b2); });
        if (!q.full) { return; }

        // buffers of the pointer / view / character overloads
        std::vector<std::vector<C>> xbs, zbs;
        for (auto const& xs : q.XS) {
            std::vector<C> xb;
            for (auto v : xs) { xb.push_back(char_of<C>(v)); }
            auto zb = xb;
            zb.push_back(C(0));
            xb.reserve(1);
            xbs.push_back(xb);
            zbs.push_back(zb);
        }
        size_t const nx = q.XS.size();

#define VH_SEARCH_REST(NAME, HAVE_PN, HAVE_PDEF)                                                                   \
    for (size_t k = 0; k < nx; ++k) {                                                                              \
        C const* zp = zbs[k].data();                                                                               \
        for (long pos : q.P) {                                                                                     \
            query(#NAME, "p", 0, q.XS[k], pos, 0, 0, 0, true, [&](Line& ev) { ri(ev, from_sz(h.NAME(zp, to_sz(pos)))); }); \
        }                                                                                                          \
        if constexpr (HAVE_PDEF) {                                                                                 \
            query(#NAME, "p", 1, q.XS[k], 0, 0, 0, 0, true, [&](Line& ev) { ri(ev, from_sz(h.NAME(zp))); });       \
        }                                                                                                          \
    }                                                                                                              \
    for (size_t k = 0; k < nx; ++k) {                                                                              \
        C const* xp = xbs[k].data();                                                                               \
        for (long pos : q.P) {                                                                                     \
            for (long cnt = 0; cnt <= (long)q.XS[k].size(); ++cnt) {                                               \
                query(#NAME, "pn", 0, q.XS[k], pos, cnt, 0, 0, HAVE_PN, [&](Line& ev) {                            \
                    if constexpr (HAVE_PN) { ri(ev, from_sz(h.NAME(xp, to_sz(pos), to_sz(cnt)))); }                \
                });                                                                                                \
            }                                                                                                      \
        }                                                                                                          \
    }                                                                                                              \
    for (long cc : q.CH) {                                                                                         \
        C const c = char_of<C>(cc);                                                                                \
        std::vector<long> one{cc};                                                                                 \
        for (long pos : q.P) {                                                                                     \
            query(#NAME, "ch", 0, one, pos, 0, 0, 0, true, [&](Line& ev) { ri(ev, from_sz(h.NAME(c, to_sz(pos)))); }); \
        }                                                                                                          \
        query(#NAME, "ch", 1, one, 0, 0, 0, 0, true, [&](Line& ev) { ri(ev, from_sz(h.NAME(c))); });               \
    }
#ifdef VH_STD
        constexpr bool have_rfind_pn = true;
#else
        constexpr bool have_rfind_pn = VH_HAVE_RFIND_PN != 0;
#endif
        VH_SEARCH_REST(find, true, true)
        VH_SEARCH_REST(rfind, have_rfind_pn, true)
        VH_SEARCH_REST(find_first_of, true, true)
        VH_SEARCH_REST(find_last_of, true, true)
        // find_first_not_of(Char const*) is declared without a default position: never called without one
        VH_SEARCH_REST(find_first_not_of, true, false)
        VH_SEARCH_REST(find_last_not_of, true, true)
#undef VH_SEARCH_REST
        for (size_t k = 0; k < nx; ++k) {
            V const v(xbs[k].data(), xbs[k].size());
            for (long pos : q.P) {
                query("find_first_of", "sv", 0, q.XS[k], pos, 0, 0, 0, true,
                    [&](Line& ev) { ri(ev, from_sz(h.find_first_of(v, to_sz(pos)))); });
            }
            query("find_first_of", "sv", 1, q.XS[k], 0, 0, 0, 0, true, [&](Line& ev) { ri(ev, from_sz(h.find_first_of(v))); });
        }
        for (size_t k = 0; k < nx; ++k) {
            C const* zp = zbs[k].data();
            V const v(xbs[k].data(), xbs[k].size());
            query("compare", "p", 0, q.XS[k], 0, 0, 0, 0, true, [&](Line& ev) { ri(ev, sgn(h.compare(zp))); });
            query("compare", "sv", 0, q.XS[k], 0, 0, 0, 0, true, [&](Line& ev) { ri(ev, sgn(h.compare(v))); });
            for (long p1 : q.P1) {
                for (long c1 : q.C1) {
                    query("compare", "3p", 0, q.XS[k], p1, c1, 0, 0, true,
                        [&](Line& ev) { ri(ev, sgn(h.compare(to_sz(p1), to_sz(c1), zp))); });
                    query("compare", "3sv", 0, q.XS[k], p1, c1, 0, 0, true,
                        [&](Line& ev) { ri(ev, sgn(h.compare(to_sz(p1), to_sz(c1), v))); });
                }
            }
        }
        {
            std::vector<C> lb;
            for (auto v : q.LX) { lb.push_back(char_of<C>(v)); }
            lb.reserve(1);
            V const v(lb.data(), lb.size());
            C const* xp = lb.data();
            long const M = (long)q.LX.size();
            for (long p1 : q.P1) {
                for (long c1 : q.C1) {
                    for (long p2 = 0; p2 <= M; ++p2) {
                        for (long c2 : q.C2X) {
                            query("compare", "5sv", 0, q.LX, p1, c1, p2, c2, true,
                                [&](Line& ev) { ri(ev, sgn(h.compare(to_sz(p1), to_sz(c1), v, to_sz(p2), to_sz(c2)))); });
                        }
                        query("compare", "5sv", 1, q.LX, p1, c1, p2, 0, true,
                            [&](Line& ev) { ri(ev, sgn(h.compare(to_sz(p1), to_sz(c1), v, to_sz(p2)))); });
                    }
                    for (long c2 = 0; c2 <= M; ++c2) {
                        query("compare", "4pn", 0, q.LX, p1, c1, 0, c2, true,
                            [&](Line& ev) { ri(ev, sgn(h.compare(to_sz(p1), to_sz(c1), xp, to_sz(c2)))); });
                    }
                }
            }
        }
#define VH_BOOL(NAME)                                                                                              \
    for (size_t k = 0; k < nx; ++k) {                                                                              \
        C const* zp = zbs[k].data();                                                                               \
        V const v(xbs[k].data(), xbs[k].size());                                                                   \
        query(#NAME, "sv", 0, q.XS[k], 0, 0, 0, 0, true, [&](Line& ev) { ri(ev, (long)h.NAME(v)); });              \
        query(#NAME, "p", 0, q.XS[k], 0, 0, 0, 0, true, [&](Line& ev) { ri(ev, (long)h.NAME(zp)); });              \
    }                                                                                                              \
    for (long cc : q.CH) {                                                                                         \
        C const c = char_of<C>(cc);                                                                                \
        std::vector<long> one{cc};                                                                                 \
        query(#NAME, "ch", 0, one, 0, 0, 0, 0, true, [&](Line& ev) { ri(ev, (long)h.NAME(c)); });                  \
    }
        VH_BOOL(starts_with)
        VH_BOOL(ends_with)
        VH_BOOL(contains)
#undef VH_BOOL
        for (size_t k = 0; k < nx; ++k) {
            C const* zp = zbs[k].data();
            query("relops", "p", 0, q.XS[k], 0, 0, 0, 0, true, [&](Line& ev) { rel(ev, h, zp); });
            query("relops", "rp", 0, q.XS[k], 0, 0, 0, 0, true, [&](Line& ev) { rel(ev, zp, h); });
        }
    }

    // ---- planned groups ------------------------------------------------------------------------------
    void run_group(json const& g)
    {
        call_idx = 0;
        reset();
        for (auto const& c : g["path"]) {
            bool emit;
            if (!begin_call(true, emit)) { continue; }
            if (step(c["op"].get<std::string>(), c["o"].get<std::string>() == "a" ? 0 : 1, x_of(c["x"]), true, emit) != 0) {
                std::fprintf(stderr, "path call not drivable: %s\n", c["op"].get<std::string>().c_str());
                vh_exit(2);
            }
        }
        if (g.contains("pre")) { // the path must have produced the planned state (its own events are judged like all others)
            if (chars_of(*ob[0]) != vec_of(g["pre"]["a"]) || chars_of(*ob[1]) != vec_of(g["pre"]["b"])) {
                std::fprintf(stderr, "STATE-MISMATCH %s group %ld: the path did not reach the planned state, group skipped\n",
                    inst.c_str(), rec_idx);
                return;
            }
        }
        S const sa(*ob[0]);
        S const sb(*ob[1]);
        auto restore = [&] {
            ob[0]->~S();
            new (ob[0]) S(sa);
            ob[1]->~S();
            new (ob[1]) S(sb);
        };
        sel_base = call_idx;
        for (auto const& c : g["edges"]) {
            long my = call_idx;
            if ((my - sel_base) % job.selm != job.selk) {
                ++call_idx;
                continue;
            }
#ifdef VH_STD
            if (c.value("rel", false)) { // a result that does not fit: not a std::string behaviour
                ++call_idx;
                continue;
            }
#endif
            bool emit;
            if (!begin_call(false, emit)) { continue; }
            restore();
            step(c["op"].get<std::string>(), c["o"].get<std::string>() == "a" ? 0 : 1, x_of(c["x"]), false, true);
        }
        if (g.contains("q") && !g["q"].is_null()) {
            restore();
            QLists q;
            auto const& j = g["q"];
            q.P   = vec_of(j["P"]);
            q.P1  = vec_of(j["P1"]);
            q.C1  = vec_of(j["C1"]);
            q.P2  = vec_of(j["P2"]);
            q.C2  = vec_of(j["C2"]);
            q.C2X = vec_of(j["C2X"]);
            q.CH  = vec_of(j["CH"]);
            q.LX  = vec_of(j["LX"]);
            for (auto const& e : j["XS"]) { q.XS.push_back(vec_of(e)); }
            q.full = j["full"].get<long>() == 1;
            run_queries(q);
        }
    }

    // ---- seeded random histories hovering near full -----------------------------------------------------
    void run_history(long hidx)
    {
        vh::Rng rng(job.seed * 1000003ull + (uint64_t)hidx * 7919ull + N * 31ull + sizeof(C));
        static long const alpha[] = {0, 97, 98, 200};
        call_idx = 0;
        sel_base = 0;
        reset();
        long const cap = (long)N;
        bool grow      = true;
        auto rch       = [&] { return alpha[rng.range(0, 3)]; };
        for (long stepi = 0; stepi < job.steps; ++stepi) {
            int o    = rng.coin(85) ? 0 : 1;
            S& t     = *ob[o];
            long L   = (long)t.size();
            long room = cap - L;
            if (L <= std::max<long>(0, cap - 6)) { grow = true; }
            if (room <= 0) { grow = false; }
            X x;
            x.src = rng.coin(70) ? 1 - o : o;
            x.c   = rch();
            long srcL = (long)ob[x.src]->size();
            // argument buffer: short, sometimes a piece of the current contents
            long xl = rng.range(0, 5);
            for (long j = 0; j < xl; ++j) { x.xs.push_back(L > 0 && rng.coin(40) ? code_of<C>(t[(size_t)rng.range(0, L - 1)]) : rch()); }
            long xsl  = (long)x.xs.size();
            long cstl = 0;
            while (cstl < xsl && x.xs[(size_t)cstl] != 0) { ++cstl; }
            auto bnd = [&](long len) -> long { // a position / count at or around a boundary
                long v[] = {0, 1, len - 1, len, len + 1, NPOS_TOKEN, rng.range(0, std::max<long>(len, 1))};
                long r   = v[rng.range(0, 6)];
                return r < 0 ? (r == NPOS_TOKEN ? r : 0) : r;
            };
            auto idx = [&](long len) -> long { return rng.coin(30) ? len : (rng.coin(30) ? 0 : rng.range(0, len)); };
            static char const* const grow_ops[] = {"append_fill", "append_cstr", "append_pn", "append_range", "append_str",
                "append_sub", "append_sv", "append_sv_sub", "pluseq_str", "pluseq_ch", "pluseq_cstr", "pluseq_sv", "push_back",
                "insert_fill", "insert_cstr", "insert_pn", "insert_str", "insert_sub", "insert_sv", "insert_sv_sub", "resize_ch",
                "resize", "replace_str", "replace_pn", "replace_it_fill", "plus_str", "plus_cstr", "plus_ch", "rplus_cstr",
                "rplus_ch", "replace_sub", "replace_cstr", "replace_it_str", "replace_it_pn", "replace_it_cstr"};
            static char const* const shrink_ops[] = {"pop_back", "erase_idx", "erase_it", "erase_range", "erase_val", "erase_if",
                "resize", "resize_ch", "replace_str", "replace_pn", "replace_it_fill", "substr", "copy", "swap", "fswap"};
            static char const* const set_ops[] = {"ctor_default", "ctor_pn", "ctor_cstr", "ctor_fill", "ctor_range", "ctor_sub",
                "ctor_sv", "ctor_sv_sub", "ctor_str", "ctor_move", "opas_str", "opas_move", "opas_cstr", "opas_ch", "opas_sv",
                "assign_fill", "assign_str", "assign_sub", "assign_pn", "assign_cstr", "assign_range", "assign_sv",
                "assign_sv_sub", "clear"};
            std::string op;
            int which = (int)rng.range(0, 99);
            if (which < 6) { op = set_ops[rng.range(0, (long)(sizeof(set_ops) / sizeof(*set_ops)) - 1)]; }
            else if (which < 20) { // a query instead of a mutator
                random_query(rng, x);
                continue;
            }
            else if (grow) { op = grow_ops[rng.range(0, (long)(sizeof(grow_ops) / sizeof(*grow_ops)) - 1)]; }
            else { op = shrink_ops[rng.range(0, (long)(sizeof(shrink_ops) / sizeof(*shrink_ops)) - 1)]; }

            // arguments valid for the current state; `added` = length of the source argument
            long added = 0, removed = 0;
            bool setfam = op.rfind("ctor_", 0) == 0 || op.rfind("opas_", 0) == 0 || op.rfind("assign_", 0) == 0;
            auto kind   = [&](char const* k) { return op.size() >= std::strlen(k) && op.compare(op.size() - std::strlen(k), std::string::npos, k) == 0; };
            if (op.rfind("ctor_", 0) == 0 && (kind("_str") || kind("_sub") || kind("_move"))) { x.src = 1 - o; srcL = (long)ob[x.src]->size(); }
            if (op.rfind("opas_move", 0) == 0) { x.src = 1 - o; srcL = (long)ob[x.src]->size(); }
            if (kind("_sv_sub")) {
                x.p2 = idx(xsl);
                x.n2 = bnd(xsl);
                x.d  = (op.rfind("ctor_", 0) == 0) ? 0 : (rng.coin(25) ? 1 : 0);
                long k = x.d == 1 || x.n2 == NPOS_TOKEN ? xsl - x.p2 : std::min(x.n2, xsl - x.p2);
                added  = k;
            } else if (kind("_sub")) {
                x.p2 = idx(srcL);
                x.n2 = bnd(srcL);
                x.d  = rng.coin(25) ? 1 : 0;
                long k = x.d == 1 || x.n2 == NPOS_TOKEN ? srcL - x.p2 : std::min(x.n2, srcL - x.p2);
                added  = k;
            } else if (kind("_fill")) {
                long want = grow ? rng.range(0, std::min<long>(room + 1, 6)) : rng.range(0, 2);
                if (setfam) { want = rng.coin(50) ? rng.range(std::max<long>(0, cap - 3), cap) : rng.range(0, cap); }
                x.n2  = want;
                added = want;
            } else if (kind("_pn")) {
                x.n2  = rng.coin(50) ? xsl : rng.range(0, xsl);
                added = x.n2;
            } else if (kind("_cstr")) { added = cstl; }
            else if (kind("_range") || kind("_sv")) { added = xsl; }
            else if (kind("_str") || kind("_move")) { added = srcL; }
            else if (kind("_ch") || op == "push_back") { added = 1; }
            if (op.rfind("insert_", 0) == 0) { x.p = idx(L); }
            if (op.rfind("replace_it_", 0) == 0 || op == "erase_range") {
                x.p     = idx(L);
                x.n     = rng.coin(40) ? L - x.p : rng.range(0, L - x.p);
                removed = x.n;
            } else if (op.rfind("replace_", 0) == 0 || op == "erase_idx" || op == "substr" || op == "copy") {
                x.p     = idx(L);
                x.n     = bnd(L);
                removed = x.n == NPOS_TOKEN ? L - x.p : std::min(x.n, L - x.p);
                if (op == "erase_idx" || op == "substr") { x.d = rng.coin(15) ? 2 : (rng.coin(20) ? 1 : 0); }
                if (op == "copy") { x.d = rng.coin(20) ? 1 : 0; }
            }
            if (op == "erase_it") {
                if (L == 0) { continue; }
                x.p = rng.range(0, L - 1);
            }
            if (op == "pop_back" && L == 0) { continue; }
            if (op == "resize" || op == "resize_ch") {
                x.n = grow ? rng.range(L, std::min(cap + 1, L + 5)) : rng.range(std::max<long>(0, L - 4), L);
                added = std::max<long>(0, x.n - L);
            }
            bool grows = op.rfind("append_", 0) == 0 || op.rfind("pluseq_", 0) == 0 || op.rfind("insert_", 0) == 0
                      || op.rfind("replace_", 0) == 0 || op.rfind("plus_", 0) == 0 || op.rfind("rplus_", 0) == 0
                      || op == "resize" || op == "resize_ch" || op == "push_back";
            long newlen = setfam ? added : (grows ? L - removed + added : L);
            bool fits   = newlen <= cap;
            if ((setfam || op == "push_back") && !fits) { continue; }       // documented precondition
            if (op.rfind("rplus_", 0) == 0 && added > cap) { continue; }    // the left operand is constructed first
#ifdef VH_STD
            if (!fits) { continue; }
#else
            if (!fits && !rng.coin(35)) { continue; }                        // over-capacity calls: invariant only
#endif
            bool emit;
            if (!begin_call(false, emit)) { continue; }
            step(op, o, x, false, true);
#ifndef VH_STD
            // an object that lost its size bound or its terminator is corrupt (already recorded): start over with fresh objects
            bool broken = false;
            for (int k = 0; k < 2; ++k) { broken = broken || ob[k]->size() > N || ob[k]->data()[ob[k]->size()] != C(0); }
            // ... and so is one holding a character that no call ever passed in (a broken operation copied foreign memory)
            for (int k = 0; k < 2 && !broken; ++k) {
                for (auto cc : chars_of(*ob[k])) { broken = broken || !(cc == 0 || cc == 97 || cc == 98 || cc == 200); }
            }
            if (broken) { reset(); }
#endif
        }
    }

    void random_query(vh::Rng& rng, X const& x)
    {
        S& h = *ob[0];
        S const& b = *ob[1];
        long L = (long)h.size();
        std::vector<long> bchars = chars_of(b);
        std::vector<C> xb, zb;
        for (auto v : x.xs) { xb.push_back(char_of<C>(v)); }
        zb = xb;
        zb.push_back(C(0));
        xb.reserve(1);
        C const* xp = xb.data();
        C const* zp = zb.data();
        V const v(xp, xb.size());
        long cand[] = {0, 1, L - 1, L, L + 1, NPOS_TOKEN, rng.range(0, std::max<long>(L, 1))};
        long pos    = cand[rng.range(0, 6)];
        if (pos < 0 && pos != NPOS_TOKEN) { pos = 0; }
        long cnt = rng.range(0, (long)x.xs.size());
        auto ri  = [](Line& ev, long r) { ev.kv("ret", r); };
        int w    = (int)rng.range(0, 12);
        long p1  = rng.coin(30) ? L : rng.range(0, L);
        long c1  = cand[rng.range(0, 6)];
        if (c1 < 0 && c1 != NPOS_TOKEN) { c1 = 0; }
#define VH_RQ(NAME)                                                                                                \
    {                                                                                                              \
        int f = (int)rng.range(0, 3);                                                                              \
        if (f == 0) { query(#NAME, "str", 0, bchars, pos, 0, 0, 0, true, [&](Line& ev) { ri(ev, from_sz(h.NAME(b, to_sz(pos)))); }); } \
        else if (f == 1) { query(#NAME, "p", 0, x.xs, pos, 0, 0, 0, true, [&](Line& ev) { ri(ev, from_sz(h.NAME(zp, to_sz(pos)))); }); } \
        else if (f == 2) { query(#NAME, "str", 1, bchars, 0, 0, 0, 0, true, [&](Line& ev) { ri(ev, from_sz(h.NAME(b))); }); } \
        else { std::vector<long> one{x.c}; C const c = char_of<C>(x.c);                                            \
               query(#NAME, "ch", 0, one, pos, 0, 0, 0, true, [&](Line& ev) { ri(ev, from_sz(h.NAME(c, to_sz(pos)))); }); } \
    }
        switch (w) {
        case 0: VH_RQ(find) break;
        case 1: VH_RQ(rfind) break;
        case 2: VH_RQ(find_first_of) break;
        case 3: VH_RQ(find_last_of) break;
        case 4: VH_RQ(find_first_not_of) break;
        case 5: VH_RQ(find_last_not_of) break;
        case 6: query("find", "pn", 0, x.xs, pos, cnt, 0, 0, true, [&](Line& ev) { ri(ev, from_sz(h.find(xp, to_sz(pos), to_sz(cnt)))); }); break;
        case 7: query("compare", "3str", 0, bchars, p1, c1, 0, 0, true, [&](Line& ev) { ri(ev, sgn(h.compare(to_sz(p1), to_sz(c1), b))); }); break;
        case 12: {
            long M  = (long)b.size();
            long p2 = rng.coin(30) ? M : rng.range(0, M);
            long c2c[] = {0, 1, M - p2 - 1, M - p2, M - p2 + 1, NPOS_TOKEN, rng.range(0, std::max<long>(M, 1))};
            long c2 = c2c[rng.range(0, 6)];
            if (c2 < 0 && c2 != NPOS_TOKEN) { c2 = 0; }
            query("compare", "5str", 0, bchars, p1, c1, p2, c2, true,
                [&](Line& ev) { ri(ev, sgn(h.compare(to_sz(p1), to_sz(c1), b, to_sz(p2), to_sz(c2)))); });
            break;
        }
        case 8: query("compare", "sv", 0, x.xs, 0, 0, 0, 0, true, [&](Line& ev) { ri(ev, sgn(h.compare(v))); }); break;
        case 9: query("compare", "4pn", 0, x.xs, p1, c1, 0, cnt, true, [&](Line& ev) { ri(ev, sgn(h.compare(to_sz(p1), to_sz(c1), xp, to_sz(cnt)))); }); break;
        case 10: query("contains", "sv", 0, x.xs, 0, 0, 0, 0, true, [&](Line& ev) { ri(ev, (long)h.contains(v)); }); break;
        default: query("ends_with", "sv", 0, x.xs, 0, 0, 0, 0, true, [&](Line& ev) { ri(ev, (long)h.ends_with(v)); }); break;
        }
#undef VH_RQ
    }

    void run(long r0, long c0)
    {
        rec0  = r0;
        call0 = c0;
        long total = job.mode == "replay" ? (long)job.groups.size() : job.nhist;
        for (long i = rec0; i < total; ++i) {
            if (i % job.nshards != job.shard) { continue; }
            rec_idx = i;
            if (job.mode == "replay") {
                if (job.groups[(size_t)i]["cap"].get<long>() != (long)N) { continue; }
                run_group(job.groups[(size_t)i]);
            } else {
                run_history(i);
            }
        }
        flush_out();
    }
};

template <typename C, size_t... Ns>
void dispatch_cap(Job const& job, long r0, long c0, std::index_sequence<Ns...>)
{
    bool found = false;
    auto one   = [&](auto nc) {
        constexpr size_t N = decltype(nc)::value;
        if ((long)N != job.cap) { return; }
        found = true;
        Runner<C, N> rn(job);
        rn.run(r0, c0);
    };
    (one(std::integral_constant<size_t, Ns>{}), ...);
    if (!found) {
        std::fprintf(stderr, "capacity %ld not compiled in\n", job.cap);
        vh_exit(2);
    }
}

void child(Job const& job, long r0, long c0)
{
    auto caps = std::index_sequence<VH_CAPS>{};
    // one binary per character type (VH_CHAR) keeps the compile small enough to run many in parallel
    if (job.type == VH_STR(VH_CHAR)) { dispatch_cap<VH_CHAR>(job, r0, c0, caps); }
    else {
        std::fprintf(stderr, "char type %s not compiled in\n", job.type.c_str());
        vh_exit(2);
    }
}

} // namespace

// usage: string_driver replay <chartype> <cap> <groups.ndjson> <shard> <nshards> <selk> <selm>
//        string_driver random <chartype> <cap> <nhistories> <steps> <seed> <shard> <nshards>
int main(int argc, char** argv)
{
    if (argc < 8) {
        std::fprintf(stderr, "usage\n");
        return 2;
    }
    Job job;
    job.mode = argv[1];
    job.type = argv[2];
    job.cap  = std::atol(argv[3]);
    if (job.mode == "replay") {
        job.script  = argv[4];
        job.groups  = vh::read_ndjson(job.script);
        job.shard   = std::atol(argv[5]);
        job.nshards = std::atol(argv[6]);
        job.selk    = std::atol(argv[7]);
        job.selm    = argc > 8 ? std::atol(argv[8]) : 1;
    } else {
        job.nhist   = std::atol(argv[4]);
        job.steps   = std::atol(argv[5]);
        job.seed    = std::strtoull(argv[6], nullptr, 10);
        job.shard   = std::atol(argv[7]);
        job.nshards = argc > 8 ? std::atol(argv[8]) : 1;
    }
    if (job.nshards < 1 || job.selm < 1) { return 2; }
    shm = static_cast<Shm*>(mmap(nullptr, sizeof(Shm), PROT_READ | PROT_WRITE, MAP_SHARED | MAP_ANONYMOUS, -1, 0));
    if (shm == MAP_FAILED) {
        std::perror("mmap");
        return 2;
    }
    shm->out_len = 0;
    shm->unsupported = 0;
    shm->events = 0;
    long rec0 = 0, call0 = 0, traps = 0;
    for (;;) {
        shm->out_len  = 0;
        shm->busy     = 0;
        shm->desc_len = 0;
        pid_t pid     = fork();
        if (pid < 0) {
            std::perror("fork");
            return 2;
        }
        if (pid == 0) {
            if (traps >= 3) {
                int fd = open("/dev/null", O_WRONLY);
                if (fd >= 0) { dup2(fd, 2); }
            }
            child(job, rec0, call0);
            vh_exit(0);
        }
        int st = 0;
        if (waitpid(pid, &st, 0) < 0) {
            std::perror("waitpid");
            return 2;
        }
        if (WIFEXITED(st) && WEXITSTATUS(st) == 0) { break; }
        if (WIFEXITED(st) && (WEXITSTATUS(st) == 2 || WEXITSTATUS(st) == 3)) { return 2; }
        flush_out();
        if (shm->busy != 1 && shm->desc_len == 0) {
            std::fprintf(stderr, "child died before any library call (rec %ld call %ld status %d)\n", shm->rec, shm->call, st);
            return 2;
        }
        // busy: died inside the call ("trap":1).  Otherwise the process died after the last library call returned and
        // before the next one began: memory was destroyed by a library call; reported for the last call ("trap":2).
        std::string ev(shm->desc, shm->desc_len);
        ev += shm->busy == 1 ? "\"trap\":1}\n" : "\"trap\":2}\n";
        if (::write(1, ev.data(), ev.size()) != (ssize_t)ev.size()) { return 2; }
        ++traps;
        ++shm->events;
        if (shm->inpath == 1 || job.mode != "replay") { // the pre-state / the rest of the history is lost
            rec0  = shm->rec + 1;
            call0 = 0;
        } else {
            rec0  = shm->rec;
            call0 = shm->call + 1;
        }
    }
    std::fprintf(stderr, "SUMMARY inst=%s_%ld events=%ld traps=%ld unsupported=%ld\n", job.type.c_str(), job.cap, shm->events, traps,
        shm->unsupported);
    return 0;
}
