---------------------------- MODULE LockOps ----------------------------
(* Meaning of the lock-ownership wrappers over a user mutex, constant-free, transcribed from           *)
(* [thread.lock.guard] and [thread.lock.unique] (cons / locking / mod / obs), not from the etl code.    *)
(*                                                                                                      *)
(* Observable state (what the harness can see through the public API and its instrumented mutex):      *)
(*   st.mx   : sequence, mx[m] = lock depth of mutex m  (#lock + #successful try_lock - #unlock)        *)
(*   st.w    : record  name |-> [live, m, owns]   one slot per unique_lock object                        *)
(*             (live: the slot holds an object; m = id of mutex(), 0 = none; owns = owns_lock())        *)
(*   st.g    : [live, m]  the one lock_guard slot (m = the mutex it was given; it has no observers)     *)
(* A call is observed as  ret (an integer), the post-state, and the *call log* of the instrumented       *)
(* mutex:  sequence of [k, m, r, d]  (k in lock / try_lock / try_lock_for / try_lock_until / unlock,     *)
(* r = result handed back to the wrapper, d = the duration / time-point count handed to the mutex).     *)
EXTENDS Naturals, Integers, Sequences, FiniteSets

Dead == [live |-> FALSE, m |-> 0, owns |-> FALSE]
W(m, o) == [live |-> TRUE, m |-> m, owns |-> o]
NoGuard == [live |-> FALSE, m |-> 0]

Mx(st) == 1..Len(st.mx)
Ws(st) == DOMAIN st.w

\* who is responsible for unlocking m
Owners(st, m) ==
    {n \in Ws(st) : st.w[n].live /\ st.w[n].m = m /\ st.w[n].owns}
        \cup (IF st.g.live /\ st.g.m = m THEN {"g"} ELSE {})

\* the harness locked it itself (for adopt_lock) or took it over through release()
HeldByHarness(st, m) == m \in Mx(st) /\ st.mx[m] = 1 /\ Owners(st, m) = {}

\* a state of the protocol: non-recursive mutexes, at most one owner, an owned mutex is locked
StateOK(st) ==
    /\ \A m \in Mx(st) : /\ st.mx[m] \in {0, 1}
                         /\ Cardinality(Owners(st, m)) <= 1
                         /\ (Owners(st, m) # {} => st.mx[m] = 1)
    /\ \A n \in Ws(st) : LET v == st.w[n] IN
                         /\ v.m \in {0} \cup Mx(st)
                         /\ (~v.live => (v.m = 0 /\ ~v.owns))
                         /\ (v.owns => v.m # 0)
    /\ st.g.m \in {0} \cup Mx(st)
    /\ (~st.g.live => st.g.m = 0)
    /\ (st.g.live => st.g.m # 0)

\* ---- operation names ---------------------------------------------------------------------------
TryCtorOps == {"ul_ctor_try", "ul_ctor_for", "ul_ctor_until"}
TryOps == {"try_lock", "try_lock_for", "try_lock_until"}
UlCtorOps == {"ul_ctor_default", "ul_ctor_lock", "ul_ctor_defer", "ul_ctor_adopt", "move_ctor"} \cup TryCtorOps
ObsOps == {"owns_lock", "op_bool", "mutex"}
UlMemberOps == {"lock", "unlock", "release", "swap", "fswap", "move_assign", "dtor"} \cup TryOps \cup ObsOps
GuardOps == {"lg_ctor", "lg_ctor_adopt", "lg_dtor"}
HarnessOps == {"h_lock", "h_unlock"}
AllOps == UlCtorOps \cup UlMemberOps \cup GuardOps \cup HarnessOps

\* the mutex member a try-flavoured operation must use
TryCall(op) ==
    CASE op \in {"try_lock", "ul_ctor_try"} -> "try_lock"
      [] op \in {"try_lock_for", "ul_ctor_for"} -> "try_lock_for"
      [] op \in {"try_lock_until", "ul_ctor_until"} -> "try_lock_until"

C(k, m, r, d) == [k |-> k, m |-> m, r |-> r, d |-> d]
TryD(op, x) == IF TryCall(op) = "try_lock" THEN 0 ELSE x.d

\* ---- domain of the harness: calls whose behaviour the standard defines and that cannot block forever ----
\* x = [m, r, d, src]:  m mutex argument, r the result the instrumented mutex will give to a try call,
\*                      d duration / time-point count, src the other unique_lock slot
Pre(op, w, x, st) ==
    /\ op \in AllOps
    /\ (op \in UlCtorOps \cup UlMemberOps => w \in Ws(st))
    /\ (op \in UlCtorOps => ~st.w[w].live)
    /\ (op \in UlMemberOps => st.w[w].live)
    /\ (op = "ul_ctor_lock" => x.m \in Mx(st) /\ st.mx[x.m] = 0)          \* a second lock() would block forever
    /\ (op = "ul_ctor_defer" => x.m \in Mx(st))
    /\ (op \in TryCtorOps => x.m \in Mx(st) /\ (st.mx[x.m] = 1 => ~x.r))    \* a locked mutex refuses
    /\ (op = "ul_ctor_adopt" => HeldByHarness(st, x.m))                   \* "the calling thread holds the lock"
    /\ (op \in {"move_ctor", "move_assign"} => x.src \in Ws(st) /\ x.src # w /\ st.w[x.src].live)
    /\ (op \in {"swap", "fswap"} => x.src \in Ws(st) /\ st.w[x.src].live)
    /\ (op = "lock" => LET v == st.w[w] IN ((v.m # 0 /\ ~v.owns) => st.mx[v.m] = 0))
    /\ (op \in TryOps => LET v == st.w[w] IN ((v.m # 0 /\ ~v.owns /\ st.mx[v.m] = 1) => ~x.r))
    /\ (op = "lg_ctor" => ~st.g.live /\ x.m \in Mx(st) /\ st.mx[x.m] = 0)
    /\ (op = "lg_ctor_adopt" => ~st.g.live /\ HeldByHarness(st, x.m))
    /\ (op = "lg_dtor" => st.g.live)
    /\ (op = "h_lock" => x.m \in Mx(st) /\ st.mx[x.m] = 0)
    /\ (op = "h_unlock" => HeldByHarness(st, x.m))

\* [thread.lock.unique.locking]: lock / try_lock* throw system_error(operation_not_permitted) when there is no
\* mutex and (resource_deadlock_would_occur) when the lock is already owned; unlock throws
\* (operation_not_permitted) when the lock is not owned.  etl has no exceptions; its documentation says
\* "silently does nothing".  Both are accepted (see ErrorOutcomeOK): what is *required* of an erroneous call is
\* that the mutex is not touched and nothing changes.
IsError(op, w, x, st) ==
    /\ op \in {"lock", "unlock"} \cup TryOps
    /\ LET v == st.w[w] IN
       IF op = "unlock" THEN ~v.owns ELSE (v.m = 0 \/ v.owns)

EPERM == 1
EDEADLK == 35
ErrCode(op, w, x, st) == IF op = "unlock" \/ st.w[w].m = 0 THEN EPERM ELSE EDEADLK

SetW(st, n, v) == [st EXCEPT !.w[n] = v]
SetD(st, m, d) == [st EXCEPT !.mx[m] = d]
R(st, ret, calls) == [st |-> st, ret |-> ret, calls |-> calls]
B2I(b) == IF b THEN 1 ELSE 0

\* unlock performed by a wrapper that gives up / loses its lock (destructor, move assignment)
DropCalls(v) == IF v.owns THEN <<C("unlock", v.m, TRUE, 0)>> ELSE <<>>
DropMx(st, v) == IF v.owns THEN SetD(st, v.m, 0) ELSE st

Eff(op, w, x, st) ==
    IF IsError(op, w, x, st) THEN R(st, 0, <<>>)
    ELSE
    CASE op = "ul_ctor_default" -> R(SetW(st, w, W(0, FALSE)), 0, <<>>)
      [] op = "ul_ctor_lock" -> R(SetW(SetD(st, x.m, 1), w, W(x.m, TRUE)), 0, <<C("lock", x.m, TRUE, 0)>>)
      [] op = "ul_ctor_defer" -> R(SetW(st, w, W(x.m, FALSE)), 0, <<>>)
      [] op \in TryCtorOps ->
            R(SetW(IF x.r THEN SetD(st, x.m, 1) ELSE st, w, W(x.m, x.r)), 0, <<C(TryCall(op), x.m, x.r, TryD(op, x))>>)
      [] op = "ul_ctor_adopt" -> R(SetW(st, w, W(x.m, TRUE)), 0, <<>>)
      [] op = "move_ctor" -> R(SetW(SetW(st, w, st.w[x.src]), x.src, W(0, FALSE)), 0, <<>>)
      [] op = "lock" -> LET m == st.w[w].m IN R(SetW(SetD(st, m, 1), w, W(m, TRUE)), 0, <<C("lock", m, TRUE, 0)>>)
      [] op \in TryOps ->
            LET m == st.w[w].m IN
            R(SetW(IF x.r THEN SetD(st, m, 1) ELSE st, w, W(m, x.r)), B2I(x.r), <<C(TryCall(op), m, x.r, TryD(op, x))>>)
      [] op = "unlock" -> LET m == st.w[w].m IN R(SetW(SetD(st, m, 0), w, W(m, FALSE)), 0, <<C("unlock", m, TRUE, 0)>>)
      [] op = "release" -> R(SetW(st, w, W(0, FALSE)), st.w[w].m, <<>>)
      [] op \in {"swap", "fswap"} -> R(SetW(SetW(st, w, st.w[x.src]), x.src, st.w[w]), 0, <<>>)
      [] op = "move_assign" ->
            LET v == st.w[w] IN R(SetW(SetW(DropMx(st, v), w, st.w[x.src]), x.src, W(0, FALSE)), 0, DropCalls(v))
      [] op = "dtor" -> LET v == st.w[w] IN R(SetW(DropMx(st, v), w, Dead), 0, DropCalls(v))
      [] op \in {"owns_lock", "op_bool"} -> R(st, B2I(st.w[w].owns), <<>>)
      [] op = "mutex" -> R(st, st.w[w].m, <<>>)
      [] op = "lg_ctor" -> R([SetD(st, x.m, 1) EXCEPT !.g = [live |-> TRUE, m |-> x.m]], 0, <<C("lock", x.m, TRUE, 0)>>)
      [] op = "lg_ctor_adopt" -> R([st EXCEPT !.g = [live |-> TRUE, m |-> x.m]], 0, <<>>)
      [] op = "lg_dtor" -> R([SetD(st, st.g.m, 0) EXCEPT !.g = NoGuard], 0, <<C("unlock", st.g.m, TRUE, 0)>>)
      [] op = "h_lock" -> R(SetD(st, x.m, 1), 0, <<C("lock", x.m, TRUE, 0)>>)
      [] op = "h_unlock" -> R(SetD(st, x.m, 0), 0, <<C("unlock", x.m, TRUE, 0)>>)

\* outcome of an erroneous call: the standard's exception with the standard's code, or (no exceptions) a plain return
ErrorOutcomeOK(op, w, x, st, outcome, code) ==
    \/ outcome = "ok"
    \/ outcome = "throw" /\ code = ErrCode(op, w, x, st)

\* ---- the mutex' own protocol: a call log is *legal* from depth vector mx iff no lock()/successful try hits a
\* locked mutex and no unlock() hits an unlocked one; returns the depth vector it leaves behind ----
RECURSIVE RunCalls(_, _, _)
RunCalls(mx, calls, i) ==
    IF i > Len(calls) THEN [ok |-> TRUE, mx |-> mx]
    ELSE LET c == calls[i] IN
         IF c.k = "unlock" THEN
              (IF mx[c.m] = 1 THEN RunCalls([mx EXCEPT ![c.m] = 0], calls, i + 1) ELSE [ok |-> FALSE, mx |-> mx])
         ELSE IF c.k = "lock" \/ c.r THEN
              (IF mx[c.m] = 0 THEN RunCalls([mx EXCEPT ![c.m] = 1], calls, i + 1) ELSE [ok |-> FALSE, mx |-> mx])
         ELSE RunCalls(mx, calls, i + 1)
=========================================================================
