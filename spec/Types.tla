------------------------------ MODULE Types ------------------------------
(* Zoo enumerator + algebra laws for the type-trait algebra (property C15).                            *)
(* TLC enumerates                                                                                       *)
(*   class / enum : the descriptor tables of TypesOps (the C++ definitions are generated from them)     *)
(*   type         : the type zoo = base kinds + constructors applied up to depth 2 (quick) / 3          *)
(*   pair         : ordered pairs over PairTypes for the binary traits                                  *)
(*   limits       : arithmetic types (and a few non-arithmetic ones) for numeric_limits                 *)
(*   ratio1/2/cmp : a grid of small ratios                                                              *)
(* checks the laws below on each item (MC role) and exports every item with the *predicted* results     *)
(* of the transformation traits and the list of traits whose precondition holds (GEN role).             *)
EXTENDS LimitsOps, RatioOps, RatioWide, TLC, Json

CONSTANTS Thorough

VARIABLES ph, item
vars == <<ph, item>>

\* ---------------------------------------------------------------------------------------------
\* The zoo
\* ---------------------------------------------------------------------------------------------
Fund == {TVoid, TNull, TBool} \cup {TChar(n) : n \in CharNames} \cup {TInt(r, s) : r \in IntRanks, s \in BOOLEAN}
        \cup {TFloat(n) : n \in FloatNames}
Enums == {TEnum(n) : n \in EnumNames}
Classes == {TClass(n) : n \in ClassNames}
Base == Fund \cup Enums \cup Classes

TCharC == TChar("char")
F_v == Fn0(TVoid, <<>>)
F_ii == Fn0(TIntS, <<TIntS, Ptr(TCharC)>>)
FnShapes == {F_v, F_ii,
             Fn(TVoid, <<>>, FALSE, FALSE, "none", TRUE),
             Fn(TVoid, <<>>, TRUE, FALSE, "none", FALSE),
             Fn(TVoid, <<>>, FALSE, TRUE, "none", FALSE),
             Fn(TVoid, <<>>, FALSE, FALSE, "l", FALSE),
             Fn(TIntS, <<TIntS>>, TRUE, FALSE, "r", TRUE),
             Fn(TIntS, <<TIntS>>, TRUE, TRUE, "l", TRUE),
             Fn0(LRef(TIntS), <<TClass("Triv"), LRef(Const(TClass("Base0")))>>)}

Cvs(S) == {SetCv(c, v, t) : c \in BOOLEAN, v \in BOOLEAN, t \in S}
Grow(S) == {x \in Cvs(S) \cup {Ptr(t) : t \in S} \cup {LRef(t) : t \in S} \cup {RRef(t) : t \in S}
                 \cup {Arr(3, t) : t \in S} \cup {Arr(0, t) : t \in S}
                 \cup {Fn0(t, <<>>) : t \in S} \cup {Fn0(TVoid, <<t>>) : t \in S}
                 \cup {MemPtr("Triv", t) : t \in S} : Valid(x)}

Core1 == {TVoid, TIntS, TCharC, TFloat("double"), TEnum("ES"), TNull, TClass("Triv"), TClass("Abstract"), TClass("Un")}
         \cup FnShapes
         \cup (IF Thorough THEN {TBool, TInt("long", FALSE), TChar("wchar"), TChar("char8"), TFloat("ldouble"), TEnum("EU"),
                                 TClass("Empty"), TClass("PolyVd"), TClass("DtTh"), TClass("MoveOnly"), TClass("DtProt")}
               ELSE {})
Core2 == {Const(TIntS), Volatile(TIntS), Ptr(TIntS), Ptr(Const(TIntS)), Ptr(TVoid), Const(Ptr(TIntS)), Ptr(F_v), Arr(3, TIntS), Arr(0, TIntS),
          LRef(TIntS), Const(TClass("Triv")), MemPtr("Triv", TIntS), MemPtr("Triv", F_v), Arr(2, TClass("DtNe"))}
         \cup (IF Thorough THEN {CV(TIntS), Ptr(Ptr(TIntS)), RRef(TIntS), Arr(3, Const(TIntS)), Arr(0, TClass("Triv")), Ptr(F_ii),
                                 Ptr(TClass("Abstract")), Const(TEnum("EU")), Volatile(TClass("Triv")), Ptr(CV(TVoid)),
                                 MemPtr("Triv", Fn(TIntS, <<TIntS>>, TRUE, FALSE, "r", TRUE)), Const(TNull),
                                 Arr(2, TClass("MoveOnly")), LRef(F_v), Const(TFloat("double"))}
               ELSE {})
Core3 == IF Thorough THEN {Ptr(Const(Ptr(TIntS))), LRef(Arr(3, TIntS)), Arr(2, Arr(3, TIntS)), Ptr(Arr(3, TIntS)), Const(Ptr(F_v)),
                           LRef(Const(Ptr(TIntS))), Arr(3, Ptr(F_v)), Const(MemPtr("Triv", F_v)), RRef(Arr(0, TIntS)),
                           Arr(0, Arr(2, Const(TIntS)))}
         ELSE {Arr(2, Arr(3, TIntS)), Ptr(Const(Ptr(TIntS)))}

\* cv-qualified and array-of class types for the special-member traits
ClassCv == {Const(c) : c \in Classes} \cup (IF Thorough THEN {Volatile(c) : c \in Classes} \cup {Arr(2, c) : c \in Classes} ELSE {})
ClassRefs == IF Thorough THEN {LRef(c) : c \in Classes} \cup {RRef(c) : c \in Classes} ELSE {}

Zoo == {t \in Base \cup Grow(Core1) \cup Grow(Core2) \cup Grow(Core3) \cup ClassCv \cup ClassRefs : Valid(t)}

PairTypes ==
    {TVoid, TIntS, Const(TIntS), TInt("long", TRUE), TChar("uchar"), TBool, TFloat("double"), TEnum("ES"), TEnum("EU"), TNull,
     Ptr(TIntS), Ptr(Const(TIntS)), Ptr(TVoid), LRef(TIntS), LRef(Const(TIntS)), RRef(TIntS), Arr(3, TIntS), F_v, Ptr(F_v),
     TClass("Base0"), TClass("Derived"), Ptr(TClass("Base0")), Ptr(TClass("Derived")), LRef(TClass("Base0")),
     LRef(Const(TClass("Derived"))), TClass("PrivD"), LRef(TClass("CcNc"))}
    \cup (IF Thorough THEN
            {Const(TVoid), TInt("short", FALSE), TChar("char"), TChar("char32"), TFloat("float"), TEnum("EUc"), Volatile(TIntS),
             Ptr(CV(TVoid)), Const(Ptr(TIntS)), Ptr(Ptr(TIntS)), RRef(Const(TIntS)), LRef(Volatile(TIntS)), Arr(0, TIntS),
             Arr(3, Const(TIntS)), LRef(Arr(3, TIntS)), LRef(F_v), Ptr(Fn(TVoid, <<>>, FALSE, FALSE, "none", TRUE)),
             Fn(TVoid, <<>>, TRUE, FALSE, "none", FALSE), MemPtr("Base0", TIntS), MemPtr("Derived", TIntS),
             TClass("CcNc"), TClass("CaNc"), LRef(Const(TClass("CcNc"))), LRef(TClass("CaNc")), TClass("Triv"), TClass("Abstract"), TClass("Impl"), TClass("Un"), TClass("MoveOnly"),
             TClass("CcTh"), TClass("DtTh"), TClass("DtProt"), Const(TClass("Base0")), RRef(TClass("Derived")), RRef(TClass("Base0")),
             LRef(TClass("MoveOnly")), RRef(TClass("MoveOnly")), LRef(Const(TClass("CcTh"))), Ptr(TClass("PrivD")),
             Ptr(Const(TClass("Derived"))), LRef(TClass("Impl")), LRef(TClass("Abstract")), TClass("CopyOnly"), RRef(TClass("CopyOnly")),
             TClass("AllTh"), LRef(Const(TClass("AllTh"))), TClass("McDel"), RRef(TClass("McDel"))}
          ELSE {})

LimitTypes == {t \in Fund : t.k # "void" /\ t.k # "nullptr"}
              \cup {Const(TIntS), Volatile(TChar("uchar")), CV(TFloat("double")), Const(TBool)}
              \cup {Ptr(TIntS), TEnum("ES"), TClass("Triv"), TNull}

RatioNums == IF Thorough THEN (-4)..4 \cup {6, -6, 12} ELSE {-3, -2, 0, 1, 2, 4}
RatioDens == IF Thorough THEN ((-4)..4 \cup {6, -6, 12}) \ {0} ELSE {-4, -2, 1, 2, 3}
\* operands of the binary operations: a smaller grid in the quick tier
Ratio2Nums == IF Thorough THEN (-3)..3 \cup {6} ELSE {-2, 0, 1, 3}
Ratio2Dens == IF Thorough THEN {-3, -2, -1, 1, 2, 3, 4} ELSE {-2, 1, 3, 4}

\* ---------------------------------------------------------------------------------------------
\* Items
\* ---------------------------------------------------------------------------------------------
UnaryValSeq == <<
    "is_void", "is_null_pointer", "is_integral", "is_floating_point", "is_array", "is_enum", "is_union",
    "is_class", "is_function", "is_pointer", "is_lvalue_reference", "is_rvalue_reference",
    "is_member_object_pointer", "is_member_function_pointer",
    "is_fundamental", "is_arithmetic", "is_scalar", "is_object", "is_compound", "is_reference", "is_member_pointer",
    "is_const", "is_volatile", "is_trivial", "is_trivially_copyable", "is_standard_layout", "is_empty",
    "is_polymorphic", "is_abstract", "is_final", "is_aggregate", "is_signed", "is_unsigned",
    "is_bounded_array", "is_unbounded_array", "is_scoped_enum", "has_virtual_destructor",
    "is_default_constructible", "is_copy_constructible", "is_move_constructible", "is_copy_assignable",
    "is_move_assignable", "is_destructible", "is_swappable",
    "is_trivially_default_constructible", "is_trivially_copy_constructible", "is_trivially_move_constructible",
    "is_trivially_copy_assignable", "is_trivially_move_assignable", "is_trivially_destructible",
    "is_nothrow_default_constructible", "is_nothrow_copy_constructible", "is_nothrow_move_constructible",
    "is_nothrow_copy_assignable", "is_nothrow_move_assignable", "is_nothrow_destructible", "is_nothrow_swappable",
    "rank", "extent0", "extent1", "alignment_of",
    "c:integral", "c:signed_integral", "c:unsigned_integral", "c:floating_point", "c:destructible",
    "c:default_initializable", "c:move_constructible", "c:copy_constructible", "c:movable", "c:copyable",
    "c:semiregular", "c:swappable", "c:equality_comparable", "c:regular">>
UnaryTransSeq == <<
    "remove_const", "remove_volatile", "remove_cv", "add_const", "add_volatile", "add_cv",
    "remove_reference", "add_lvalue_reference", "add_rvalue_reference", "remove_pointer", "add_pointer",
    "remove_extent", "remove_all_extents", "remove_cvref", "decay", "make_signed", "make_unsigned",
    "underlying_type", "type_identity">>
HasTypeSeq == <<"underlying_type">>
BinaryValSeq == <<
    "is_same", "is_base_of", "is_convertible", "is_nothrow_convertible",
    "is_constructible", "is_trivially_constructible", "is_nothrow_constructible",
    "is_assignable", "is_trivially_assignable", "is_nothrow_assignable",
    "c:same_as", "c:derived_from", "c:convertible_to", "c:constructible_from", "c:assignable_from">>
BinaryTransSeq == <<"common_type", "conditional_true", "conditional_false">>
NLIntSeq == <<
    "nl:is_specialized", "nl:is_signed", "nl:is_integer", "nl:is_exact", "nl:radix", "nl:digits",
    "nl:digits10", "nl:max_digits10", "nl:is_bounded", "nl:is_modulo", "nl:has_infinity",
    "nl:has_quiet_NaN", "nl:has_signaling_NaN", "nl:is_iec559", "nl:min_exponent", "nl:max_exponent",
    "nl:min_exponent10", "nl:max_exponent10", "nl:round_style", "nl:has_denorm", "nl:has_denorm_loss">>
NLIntLimbSeq == <<"nl:min", "nl:max", "nl:lowest">>
NLFloatLimbSeq == <<"nl:min", "nl:max", "nl:lowest", "nl:epsilon", "nl:denorm_min", "nl:infinity", "nl:round_error">>
SeqRange(s) == {s[i] : i \in 1..Len(s)}

TypeItem(t) ==
    [g |-> "type", t |-> t,
     val |-> SelectSeq(UnaryValSeq, LAMBDA tr : UPre(tr, t)),
     tr |-> [i \in 1..Len(SelectSeq(UnaryTransSeq, LAMBDA x : TPre(x, t))) |->
                LET x == SelectSeq(UnaryTransSeq, LAMBDA y : TPre(y, t))[i] IN [tr |-> x, res |-> TRes(x, t)]],
     has |-> HasTypeSeq]
PairItem(t, u) ==
    [g |-> "pair", t |-> t, u |-> u,
     val |-> SelectSeq(BinaryValSeq, LAMBDA tr : BPre(tr, t, u)),
     tr |-> [i \in 1..Len(SelectSeq(BinaryTransSeq, LAMBDA x : BTPre(x, t, u))) |->
                LET x == SelectSeq(BinaryTransSeq, LAMBDA y : BTPre(y, t, u))[i] IN [tr |-> x, res |-> BTRes(x, t, u)]]]
LimitItem(t) ==
    [g |-> "limits", t |-> t, rt |-> Unq(t), val |-> NLIntSeq,
     limbs |-> IF IsIntegralT(t) THEN NLIntLimbSeq ELSE IF IsFloatT(t) THEN NLFloatLimbSeq ELSE <<>>,
     nan |-> IsFloatT(t)]
Ratio1Item(n, d) == [g |-> "ratio1", n |-> n, d |-> d, num |-> RNorm(n, d).num, den |-> RNorm(n, d).den]
Ratio2Item(op, n1, d1, n2, d2) ==
    [g |-> "ratio2", op |-> op, n1 |-> n1, d1 |-> d1, n2 |-> n2, d2 |-> d2,
     num |-> ROp(op, n1, d1, n2, d2).num, den |-> ROp(op, n1, d1, n2, d2).den]
RatioCmpItem(n1, d1, n2, d2) == [g |-> "ratiocmp", n1 |-> n1, d1 |-> d1, n2 |-> n2, d2 |-> d2]

LogicSeqs == UNION {[1..n -> {"T", "F", "P"}] : n \in 0..3}
LogicItems == {[g |-> "logic", op |-> op, bs |-> bs] : op \in LogicNames, bs \in LogicSeqs}

BigRatios == {[neg |-> s, off |-> o, d |-> d] : s \in BOOLEAN, o \in (IF Thorough THEN {0, 1, 2, 6} ELSE {0, 1}),
                                                   d \in (IF Thorough THEN {1, 2, 3, 7} ELSE {1, 2, 7})}

Heads == {"class", "enum", "type", "pair", "limits", "ratio1", "ratio2", "ratiocmp", "logic", "big1", "bigcmp"}
Leaves(h) ==
    CASE h = "class" -> {[g |-> "class", n |-> n, d |-> ClassFacts[n]] : n \in ClassNames}
      [] h = "enum" -> {[g |-> "enum", n |-> n, f |-> EnumFacts(n)] : n \in EnumNames}
      [] h = "type" -> {TypeItem(t) : t \in Zoo}
      [] h = "pair" -> {PairItem(t, u) : t \in PairTypes, u \in PairTypes}
      [] h = "limits" -> {LimitItem(t) : t \in LimitTypes}
      [] h = "ratio1" -> {Ratio1Item(n, d) : n \in RatioNums, d \in RatioDens}
      [] h = "ratio2" -> UNION {{Ratio2Item(op, n1, d1, n2, d2) : n1 \in Ratio2Nums, d1 \in Ratio2Dens,
                                     n2 \in (IF op = "ratio_divide" THEN Ratio2Nums \ {0} ELSE Ratio2Nums), d2 \in Ratio2Dens}
                                   : op \in RatioOpsNames}
      [] h = "ratiocmp" -> {RatioCmpItem(n1, d1, n2, d2) : n1 \in Ratio2Nums, d1 \in Ratio2Dens, n2 \in Ratio2Nums, d2 \in Ratio2Dens}
      [] h = "logic" -> {x \in LogicItems : LogicPre(x.op, x.bs)}
      [] h = "big1" -> {[g |-> "big1", a |-> a] : a \in BigRatios}
      [] h = "bigcmp" -> {[g |-> "bigcmp", a |-> a, b |-> b] : a \in BigRatios, b \in BigRatios}

Init == ph = 0 /\ item = [g |-> "init"]
Next ==
    \/ ph = 0 /\ ph' = 1 /\ item' \in {[g |-> "head", h |-> h] : h \in Heads}
    \/ ph = 1 /\ ph' = 2 /\ item' \in Leaves(item.h)
Spec == Init /\ [][Next]_vars

Emit == (ph' = 2) => PrintT(<<"GEN", ToJson(item')>>)

\* ---------------------------------------------------------------------------------------------
\* Laws (MC role)
\* ---------------------------------------------------------------------------------------------
B2N(b) == IF b THEN 1 ELSE 0
Count(S, t) == Cardinality({tr \in S : UVal(tr, t)})
Chain(a, b, c) == (a => b) /\ (b => c)

TypeLaws(t) ==
    LET rr == RemoveRef(t) IN
    /\ Valid(t)
    \* every transformation yields a valid type in normal form again
    /\ \A x \in SeqRange(UnaryTransSeq) : TPre(x, t) => Valid(TRes(x, t))
    \* [meta.unary.cat]: exactly one primary category
    /\ Count(PrimaryTraits, t) = 1
    \* [meta.unary.comp] / [basic.types]
    /\ UVal("is_fundamental", t) # UVal("is_compound", t)
    /\ UVal("is_arithmetic", t) = (UVal("is_integral", t) \/ UVal("is_floating_point", t))
    /\ UVal("is_scalar", t) = (UVal("is_arithmetic", t) \/ UVal("is_enum", t) \/ UVal("is_pointer", t)
                               \/ UVal("is_member_pointer", t) \/ UVal("is_null_pointer", t))
    /\ UVal("is_object", t) = (UVal("is_scalar", t) \/ UVal("is_array", t) \/ UVal("is_union", t) \/ UVal("is_class", t))
    /\ UVal("is_reference", t) = (UVal("is_lvalue_reference", t) \/ UVal("is_rvalue_reference", t))
    /\ UVal("is_member_pointer", t) = (UVal("is_member_object_pointer", t) \/ UVal("is_member_function_pointer", t))
    /\ B2N(UVal("is_object", t)) + B2N(UVal("is_reference", t)) + B2N(UVal("is_function", t)) + B2N(UVal("is_void", t)) = 1
    /\ ~(UVal("is_signed", t) /\ UVal("is_unsigned", t))
    /\ (UVal("is_arithmetic", t) => (UVal("is_signed", t) \/ UVal("is_unsigned", t)))
    \* cv algebra
    /\ Unq(CV(t)) = Unq(t) /\ Unq(Unq(t)) = Unq(t)
    /\ Const(Const(t)) = Const(t) /\ Volatile(Const(t)) = CV(t) /\ Const(Volatile(t)) = CV(t)
    /\ RemoveConst(Const(t)) = RemoveConst(t) /\ RemoveVolatile(RemoveConst(t)) = Unq(t)
    /\ ((~IsRef(t) /\ ~IsFnT(t)) => (TopC(Const(t)) /\ TopV(Volatile(t)) /\ ~TopC(RemoveConst(t)) /\ ~TopV(Unq(t))))
    /\ ((IsRef(t) \/ IsFnT(t)) => (Const(t) = t /\ ~TopC(t) /\ ~TopV(t)))
    \* pointers and references
    /\ ((Referenceable(t) \/ IsVoidT(t)) => RemovePointer(AddPointer(t)) = rr)
    /\ (IsPtrT(t) => AddPointer(RemovePointer(t)) = Unq(t))
    /\ (Referenceable(t) => (RemoveRef(AddLRef(t)) = rr /\ RemoveRef(AddRRef(t)) = rr))
    /\ AddLRef(AddRRef(t)) = AddLRef(t) /\ AddRRef(AddLRef(t)) = AddLRef(t) /\ AddLRef(AddLRef(t)) = AddLRef(t)
    /\ (~Referenceable(t) => (AddLRef(t) = t /\ AddRRef(t) = t))
    /\ RemoveCvRef(t) = Unq(rr) /\ RemoveCvRef(RemoveCvRef(t)) = RemoveCvRef(t)
    \* decay
    /\ Decay(Decay(t)) = Decay(t)
    /\ LET d == Decay(t) IN ~IsRef(d) /\ d.k # "arr" /\ (d.k = "fn" => Abominable(d)) /\ ~TopC(d) /\ ~TopV(d)
    \* arrays
    /\ (Rank(t) = 0) = ~IsArrT(t) /\ Rank(ElemT(t)) = 0
    /\ Rank(RemoveExtent(t)) = (IF Rank(t) = 0 THEN 0 ELSE Rank(t) - 1)
    /\ (IsArrT(t) => Extent(t, 0) = t.n /\ Extent(t, Rank(t)) = 0)
    /\ B2N(UVal("is_bounded_array", t)) + B2N(UVal("is_unbounded_array", t)) = B2N(IsArrT(t))
    \* sign
    /\ (SignPre(t) =>
          LET s == MakeSign(t, TRUE) u == MakeSign(t, FALSE) IN
          /\ IsIntegralT(s) /\ IsSignedT(s) /\ IsIntegralT(u) /\ ~IsSignedT(u)
          /\ ScalarSize(s) = ScalarSize(t) /\ ScalarSize(u) = ScalarSize(t)
          /\ TopC(s) = TopC(t) /\ TopV(u) = TopV(t)
          /\ MakeSign(s, TRUE) = s /\ MakeSign(s, FALSE) = u /\ MakeSign(u, TRUE) = s)
    \* operation families: trivially => nothrow => plain
    /\ Chain(UVal("is_trivially_default_constructible", t), UVal("is_nothrow_default_constructible", t), UVal("is_default_constructible", t))
    /\ Chain(UVal("is_trivially_copy_constructible", t), UVal("is_nothrow_copy_constructible", t), UVal("is_copy_constructible", t))
    /\ Chain(UVal("is_trivially_move_constructible", t), UVal("is_nothrow_move_constructible", t), UVal("is_move_constructible", t))
    /\ Chain(UVal("is_trivially_copy_assignable", t), UVal("is_nothrow_copy_assignable", t), UVal("is_copy_assignable", t))
    /\ Chain(UVal("is_trivially_move_assignable", t), UVal("is_nothrow_move_assignable", t), UVal("is_move_assignable", t))
    /\ Chain(UVal("is_trivially_destructible", t), UVal("is_nothrow_destructible", t), UVal("is_destructible", t))
    /\ (UVal("is_nothrow_swappable", t) => UVal("is_swappable", t))
    /\ (UVal("is_copy_constructible", t) /\ IsObjectT(t) => UVal("is_move_constructible", t) \/ K(t) = "class")
    /\ (UPre("is_trivial", t) /\ UVal("is_trivial", t) =>
            UVal("is_trivially_copyable", t) /\ (Destructible(t) /\ ~IsUnboundedT(t) => UVal("is_trivially_default_constructible", t)))
    /\ (IsScalarT(t) => UVal("is_trivial", t) /\ UVal("is_standard_layout", t))
    \* class properties
    /\ (UVal("is_empty", t) => UVal("is_class", t) /\ ~UVal("is_polymorphic", t))
    /\ (UVal("is_abstract", t) => UVal("is_polymorphic", t) /\ ~UVal("is_default_constructible", t) /\ ~UVal("is_copy_constructible", t))
    /\ (UVal("has_virtual_destructor", t) => UVal("is_polymorphic", t))
    /\ (UVal("is_polymorphic", t) => ~UVal("is_trivially_copy_constructible", t) /\ ~UVal("is_aggregate", t))
    \* concept hierarchy [concepts.object]
    /\ (UVal("c:semiregular", t) => UVal("c:copyable", t) /\ UVal("c:default_initializable", t))
    /\ (UPre("c:regular", t) /\ UVal("c:regular", t) => UVal("c:semiregular", t) /\ UVal("c:equality_comparable", t))
    \* the dispatch tables list the same names
    /\ SeqRange(UnaryValSeq) = UnaryValTraits /\ SeqRange(UnaryTransSeq) = UnaryTransTraits
    /\ SeqRange(BinaryValSeq) = BinaryValTraits /\ SeqRange(BinaryTransSeq) = BinaryTransTraits
    /\ (UVal("c:copyable", t) => UVal("c:movable", t) /\ UVal("c:copy_constructible", t))
    /\ (UVal("c:movable", t) => UVal("c:move_constructible", t) /\ UVal("c:swappable", t) /\ UVal("is_object", t))
    /\ (UVal("c:copy_constructible", t) => UVal("c:move_constructible", t))
    /\ (UVal("c:move_constructible", t) => UVal("c:destructible", t) /\ UVal("is_move_constructible", t))
    /\ (UVal("c:default_initializable", t) => UVal("is_default_constructible", t))
    /\ B2N(UVal("c:signed_integral", t)) + B2N(UVal("c:unsigned_integral", t)) = B2N(UVal("c:integral", t))

PairLaws(t, u) ==
    /\ (BVal("is_same", t, u) = BVal("is_same", u, t))
    /\ (BVal("c:derived_from", t, u) => BVal("is_base_of", u, t))
    /\ (IsClassT(t) => BVal("is_base_of", t, t) /\ BVal("c:derived_from", t, t))
    /\ (BPre("is_convertible", t, u) /\ BVal("is_nothrow_convertible", t, u) => BVal("is_convertible", t, u))
    /\ (BPre("is_constructible", t, u) =>
           Chain(BVal("is_trivially_constructible", t, u), BVal("is_nothrow_constructible", t, u), BVal("is_constructible", t, u)))
    /\ (BPre("is_assignable", t, u) =>
           Chain(BVal("is_trivially_assignable", t, u), BVal("is_nothrow_assignable", t, u), BVal("is_assignable", t, u)))
    \* an implicit conversion implies direct-initialisation where both are stated
    /\ (BPre("is_convertible", u, t) /\ BPre("is_constructible", t, u) /\ BVal("is_convertible", u, t) /\ Destructible(t)
            => BVal("is_constructible", t, u))
    /\ (t = u /\ BPre("is_convertible", t, u) /\ IsScalarT(t) => BVal("is_convertible", t, u))
    /\ (BTPre("common_type", t, u) =>
           /\ BTRes("common_type", t, u) = BTRes("common_type", u, t)
           /\ IsArithT(BTRes("common_type", t, u)) /\ ~TopC(BTRes("common_type", t, u)))

\* floor(d*log10 2) against its definition, where 2^d fits TLC's integers
Digits10Exact(d) == CHOOSE k \in 0..8 : 10^k <= 2^d /\ 10^(k + 1) > 2^d
LimitLaws(t) ==
    /\ \A d \in 1..29 : Log10Of2Floor(d) = Digits10Exact(d)
    /\ (IsIntegralT(t) =>
          /\ NLVal("nl:digits", t) + B2N(NLVal("nl:is_signed", t)) = (IF K(t) = "bool" THEN 1 ELSE 8 * ScalarSize(t))
          /\ (NLVal("nl:is_signed", t) => NLIntLimbs("nl:max", t)[4] < 32768 /\ NLIntLimbs("nl:min", t)[4] >= 32768)
          /\ (~NLVal("nl:is_signed", t) => NLIntLimbs("nl:min", t) = <<0, 0, 0, 0>>)
          \* min + max = -1 (signed) in two's complement: limb-wise sum is all ones
          /\ (NLVal("nl:is_signed", t) => \A j \in 1..4 : NLIntLimbs("nl:min", t)[j] + NLIntLimbs("nl:max", t)[j] = 65535))
    /\ (IsFloatT(t) => NLVal("nl:max_digits10", t) > NLVal("nl:digits10", t) /\ NLVal("nl:min_exponent", t) = 3 - NLVal("nl:max_exponent", t))

RatioLaws(n1, d1, n2, d2) ==
    LET a == RNorm(n1, d1) b == RNorm(n2, d2)
        s == ROp("ratio_add", n1, d1, n2, d2) m == ROp("ratio_multiply", n1, d1, n2, d2) IN
    /\ IsNormal(a) /\ RNorm(a.num, a.den) = a
    /\ a.num * d1 = n1 * a.den                         \* same rational number
    /\ IsNormal(s) /\ IsNormal(m)
    /\ ROp("ratio_subtract", s.num, s.den, n2, d2) = a      \* (a + b) - b = a
    /\ (n2 # 0 => ROp("ratio_divide", m.num, m.den, n2, d2) = a)
    /\ ROp("ratio_add", n2, d2, n1, d1) = s /\ ROp("ratio_multiply", n2, d2, n1, d1) = m
    /\ B2N(RCmp("ratio_less", n1, d1, n2, d2)) + B2N(RCmp("ratio_equal", n1, d1, n2, d2)) + B2N(RCmp("ratio_greater", n1, d1, n2, d2)) = 1
    /\ RCmp("ratio_equal", n1, d1, n2, d2) = (n1 * d2 = n2 * d1)
    /\ RCmp("ratio_less_equal", n1, d1, n2, d2) = ~RCmp("ratio_greater", n1, d1, n2, d2)
    /\ RCmp("ratio_greater_equal", n1, d1, n2, d2) = ~RCmp("ratio_less", n1, d1, n2, d2)
    /\ RCmp("ratio_not_equal", n1, d1, n2, d2) = ~RCmp("ratio_equal", n1, d1, n2, d2)
    /\ RCmp("ratio_less", n1, d1, n2, d2) = (ROp("ratio_subtract", n1, d1, n2, d2).num < 0)

Laws ==
    ph = 2 =>
      CASE item.g = "class" -> DescOK(item.d)
        [] item.g = "enum" -> IsIntegralT(item.f.ut) /\ Valid(item.f.ut)
        [] item.g = "type" -> TypeLaws(item.t)
        [] item.g = "pair" -> PairLaws(item.t, item.u)
        [] item.g = "limits" -> LimitLaws(item.t)
        [] item.g = "ratio1" -> IsNormal([num |-> item.num, den |-> item.den])
        [] item.g = "ratio2" -> IsNormal([num |-> item.num, den |-> item.den])
        [] item.g = "ratiocmp" -> RatioLaws(item.n1, item.d1, item.n2, item.d2)
        [] item.g = "big1" ->
              LET x == BigNorm(item.a) IN
              IsNat(x.num) /\ MulAdd(x.num, item.a.d \div x.den, 0) = BigN(item.a)       \* num * g = N
              /\ RGcd(x.den, DivMod(x.num, x.den).r) = 1
        [] item.g = "bigcmp" ->
              B2N(BigCmp("ratio_less", item.a, item.b)) + B2N(BigCmp("ratio_equal", item.a, item.b))
                  + B2N(BigCmp("ratio_greater", item.a, item.b)) = 1
              /\ (BigCmp("ratio_less", item.a, item.b) = BigCmp("ratio_greater", item.b, item.a))
              /\ (item.a = item.b => BigCmp("ratio_equal", item.a, item.b))
        \* De Morgan on sequences without "P"
        [] item.g = "logic" ->
              (item.op # "negation" /\ FirstIdx(item.bs, "P", 1) = 0 =>
                  LET flip == [i \in 1..Len(item.bs) |-> IF item.bs[i] = "T" THEN "F" ELSE "T"] IN
                  LogicVal("conjunction", item.bs) = ~LogicVal("disjunction", flip))
=============================================================================
