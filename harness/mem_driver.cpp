// Memory-helper driver (extension module X04; NOT part of tetl).
// Executes the cases exported by TLC from spec/Mem.tla on the real templates of <etl/memory.hpp>
//   align, assume_aligned, to_address, addressof, pointer_int_pair, small_ptr,
//   uninitialized_copy / _move / _fill, destroy / destroy_n / destroy_at, construct_at, ranges:: forms,
//   monotonic_allocator
// and prints one self-contained ndjson event per call.  No oracle, no comparison: spec/MemTrace.tla judges.
// -DVH_STD = calibration build: std::align, std::assume_aligned, std::to_address, std::addressof,
// std::uninitialized_* / std::destroy* / std::construct_at / std::ranges::*, std::pmr::monotonic_buffer_resource behind
// std::pmr::polymorphic_allocator; pointer_int_pair and small_ptr have no standard counterpart: the calibration
// build runs a two-field struct / a plain pointer behind the same interface (calibrates spec + projection only).
//
// usage: mem_driver run <cases.ndjson>
#include "common.hpp"

#include <cstddef>
#include <cstdint>
#include <memory>
#include <new>
#include <set>
#include <string>
#include <type_traits>
#include <utility>
#include <vector>

#ifndef VH_STD
    #include <etl/cstddef.hpp>
    #include <etl/iterator.hpp>
    #include <etl/memory.hpp>
    #include <etl/span.hpp>
    #include <etl/utility.hpp>
namespace lib = etl;
static char const* const IMPL = "etl";
#else
    #include <iterator>
    #include <memory_resource>
namespace lib = std;
static char const* const IMPL = "std";
#endif
#include "iter_wrappers.hpp"

#ifndef MEM_SP_ARROW
    #define MEM_SP_ARROW 1 // small_ptr<T>::operator-> instantiates
#endif
#ifndef MEM_TOADDR_ARROW
    #define MEM_TOADDR_ARROW 1 // to_address(fancy pointer whose operator-> yields a pointer to a fundamental type) instantiates
#endif
#ifndef MEM_UFILL_FWD
    #define MEM_UFILL_FWD 1 // uninitialized_fill accepts a forward iterator that is not a pointer
#endif

namespace {
using vh::json;
using vh::Tracked;

std::set<std::string> g_unsupported;
long g_nev = 0, g_nskip = 0;
void unsupported(std::string const& what)
{
    ++g_nskip;
    if (g_unsupported.insert(what).second) { std::fprintf(stderr, "UNSUPPORTED %s %s\n", IMPL, what.c_str()); }
}
void emit(json& ev)
{
    ev["impl"] = IMPL;
    vh::emit(ev);
    ++g_nev;
}

long clamp32(long long v)
{
    if (v > 2000000000LL) { return 2000000000L; }
    if (v < -2000000000LL) { return -2000000000L; }
    return (long)v;
}
// size_t values beyond TLC's integers travel as {big: true, v: SIZE_MAX - value}
std::size_t dec(json const& s)
{
    std::size_t v = (std::size_t)s["v"].get<long>();
    return s["big"].get<bool>() ? SIZE_MAX - v : v;
}
json enc(std::size_t v)
{
    if (v <= 1000000000u) { return json{{"big", false}, {"v", (long)v}}; }
    return json{{"big", true}, {"v", clamp32((long long)(SIZE_MAX - v > 2000000000u ? 2000000000u : SIZE_MAX - v))}};
}

alignas(128) unsigned char g_buf[1024]; // all offsets of the align / identity families are relative to this

// =====================================================================================================
// align
// =====================================================================================================
void run_align(json const& c)
{
    json ev           = c;
    std::size_t al    = (std::size_t)c["al"].get<long>();
    std::size_t size  = dec(c["size"]);
    std::size_t space = dec(c["space"]);
    void* p           = g_buf + c["off"].get<long>();
    void* r           = lib::align(al, size, p, space);
    ev["op"]          = "align";
    ev["basemod"]     = (long)(reinterpret_cast<std::uintptr_t>(g_buf) % 128);
    ev["ret"]         = r == nullptr ? -1L : clamp32(static_cast<unsigned char*>(r) - g_buf);
    ev["ptr"]         = clamp32(static_cast<unsigned char*>(p) - g_buf);
    ev["space_after"] = enc(space);
    emit(ev);
}

// =====================================================================================================
// identity laws: assume_aligned, to_address, addressof
// =====================================================================================================
struct FancyArrow { // only operator->
    using element_type    = unsigned char;
    using difference_type = std::ptrdiff_t;
    unsigned char* p;
    unsigned char* operator->() const { return p; }
};
struct FancyTraits { // pointer_traits<FancyTraits>::to_address is provided; operator-> lies
    using element_type    = unsigned char;
    using difference_type = std::ptrdiff_t;
    unsigned char* p;
    unsigned char* operator->() const { return nullptr; }
};
struct FancyNested { // operator-> returns another fancy pointer
    using element_type    = unsigned char;
    using difference_type = std::ptrdiff_t;
    unsigned char* p;
    FancyArrow operator->() const { return FancyArrow{p}; }
};
struct Evil {
    unsigned char c;
    Evil* operator&() { return nullptr; }
    Evil const* operator&() const { return nullptr; }
};
} // namespace
#ifndef VH_STD
template <>
struct etl::pointer_traits<FancyTraits> {
    using pointer         = FancyTraits;
    using element_type    = unsigned char;
    using difference_type = etl::ptrdiff_t;
    static auto to_address(FancyTraits const& f) noexcept -> unsigned char* { return f.p; }
};
#else
template <>
struct std::pointer_traits<FancyTraits> {
    using pointer         = FancyTraits;
    using element_type    = unsigned char;
    using difference_type = std::ptrdiff_t;
    static auto to_address(FancyTraits const& f) noexcept -> unsigned char* { return f.p; }
};
#endif
namespace {
template <std::size_t N>
unsigned char* assume(unsigned char* p)
{
    return lib::assume_aligned<N>(p);
}
void run_ident(json const& c)
{
    json ev          = c;
    std::string op   = c["op"].get<std::string>();
    long al          = c["al"].get<long>();
    unsigned char* p = g_buf + c["off"].get<long>();
    void const* r    = nullptr;
    if (op == "assume_aligned") {
        switch (al) {
        case 1: r = assume<1>(p); break;
        case 2: r = assume<2>(p); break;
        case 4: r = assume<4>(p); break;
        case 8: r = assume<8>(p); break;
        case 16: r = assume<16>(p); break;
        case 32: r = assume<32>(p); break;
        case 64: r = assume<64>(p); break;
        default: unsupported("assume_aligned<" + std::to_string(al) + ">"); return;
        }
    } else if (op == "to_address_raw") {
        r = lib::to_address(p);
    } else if (op == "to_address_arrow") {
#if MEM_TOADDR_ARROW
        r = lib::to_address(FancyArrow{p});
#else
        unsupported("to_address(fancy pointer with operator-> only) (does not compile)");
        return;
#endif
    } else if (op == "to_address_traits") {
        r = lib::to_address(FancyTraits{p});
    } else if (op == "to_address_nested") {
#if MEM_TOADDR_ARROW
        r = lib::to_address(FancyNested{p});
#else
        unsupported("to_address(fancy pointer whose operator-> yields a fancy pointer) (does not compile)");
        return;
#endif
    } else if (op == "addressof_plain") {
        r = lib::addressof(*p);
    } else if (op == "addressof_evil") {
        Evil* e = new (p) Evil{0};
        r       = lib::addressof(*e);
    } else if (op == "addressof_const") {
        Evil const* e = new (p) Evil{0};
        r             = lib::addressof(*e);
    } else {
        unsupported(op);
        return;
    }
    ev["basemod"] = (long)(reinterpret_cast<std::uintptr_t>(g_buf) % 128);
    ev["ret"]     = r == nullptr ? -1L : clamp32(static_cast<unsigned char const*>(r) - g_buf);
    emit(ev);
}

// =====================================================================================================
// pointer_int_pair
// =====================================================================================================
#ifdef VH_STD
// stand-in with the interface of etl::pointer_int_pair (see header comment)
template <typename PointerT, unsigned IntBits, typename IntType = unsigned>
struct ref_pair {
    PointerT p{};
    IntType i{};
    bool low = false; // stands for a spare low bit of the word
    ref_pair() = default;
    ref_pair(PointerT pv, IntType iv) : p(pv), i(iv) { }
    explicit ref_pair(PointerT pv) : p(pv) { }
    void set_pointer(PointerT pv) { p = pv; }
    void set_int(IntType iv) { i = iv; }
    PointerT get_pointer() const { return p; }
    IntType get_int() const { return i; }
    void set_ptr_and_int(PointerT pv, IntType iv)
    {
        p   = pv;
        i   = iv;
        low = false;
    }
    void* get_opaque_value() const { return new ref_pair(*this); } // the harness frees it
    static ref_pair get_from_opaque_value(void* v)
    {
        ref_pair r = *static_cast<ref_pair*>(v);
        delete static_cast<ref_pair*>(v);
        return r;
    }
    friend bool operator==(ref_pair const& a, ref_pair const& b) { return a.p == b.p && a.i == b.i && a.low == b.low; }
    friend bool operator!=(ref_pair const& a, ref_pair const& b) { return !(a == b); }
};
template <typename P, unsigned B, typename I = unsigned>
using pair_t = ref_pair<P, B, I>;
template <typename Pair>
void stash_low(Pair& pr)
{
    pr.low = true;
}
template <typename Pair>
bool low_kept(Pair const& pr)
{
    return pr.low;
}
#else
template <typename P, unsigned B, typename I = unsigned>
using pair_t = etl::pointer_int_pair<P, B, I>;
// use the lowest bit of the word "for something else" through the documented opaque-value interface
template <typename Pair>
void stash_low(Pair& pr)
{
    pr.set_from_opaque_value(reinterpret_cast<void*>(reinterpret_cast<std::uintptr_t>(pr.get_opaque_value()) | 1u));
}
template <typename Pair>
bool low_kept(Pair const& pr)
{
    return (reinterpret_cast<std::uintptr_t>(pr.get_opaque_value()) & 1u) != 0;
}
#endif

enum class E2 : unsigned { a, b, c, d };
struct alignas(16) Over16 {
    char c[16];
};

template <typename Elem, int NP>
struct PtrCodec {
    using PT = Elem*;
    static std::remove_const_t<Elem>* arr()
    {
        alignas(alignof(Elem)) static std::remove_const_t<Elem> a[NP];
        return a;
    }
    static PT make(int code) { return code == 0 ? nullptr : arr() + (code - 1); }
    static int code(PT p)
    {
        if (p == nullptr) { return 0; }
        for (int k = 0; k < NP; ++k) {
            if (p == arr() + k) { return k + 1; }
        }
        return -1;
    }
};
struct NestCodec {
    using Inner = pair_t<long*, 1, bool>;
    using PT    = Inner;
    static PT make(int code) { return Inner(PtrCodec<long, 3>::make(code / 2), (code % 2) != 0); }
    static int code(PT const& p)
    {
        int k = PtrCodec<long, 3>::code(p.get_pointer());
        return k < 0 ? -1 : k * 2 + (p.get_int() ? 1 : 0);
    }
};

template <typename Codec, unsigned Bits, typename IntT>
void run_pip_inst(json const& c)
{
    using PT   = typename Codec::PT;
    using Pair = pair_t<PT, Bits, IntT>;
    json ev    = c;
    auto const& s = c["s"];
    auto const& x = c["x"];
    std::string op = c["op"].get<std::string>();
    Pair pr(Codec::make(s["p"].get<int>()), static_cast<IntT>(s["i"].get<int>()));
    PT xp   = Codec::make(x["p"].get<int>());
    IntT xi = static_cast<IntT>(x["i"].get<int>());
    if (op == "ctor") { pr = Pair(xp, xi); }
    else if (op == "ctor_ptr") { pr = Pair(xp); }
    else if (op == "set_pointer") { pr.set_pointer(xp); }
    else if (op == "set_int") { pr.set_int(xi); }
    else if (op == "set_ptr_and_int") { pr.set_ptr_and_int(xp, xi); }
    else if (op == "low_set_pointer") { stash_low(pr); pr.set_pointer(xp); }
    else if (op == "low_set_int") { stash_low(pr); pr.set_int(xi); }
    else if (op == "low_set_ptr_and_int") { stash_low(pr); pr.set_ptr_and_int(xp, xi); }
    else if (op == "from_opaque") { pr = Pair::get_from_opaque_value(pr.get_opaque_value()); }
    else if (op == "copy") {
        Pair q = pr;
        pr     = q;
    } else {
        unsupported("pointer_int_pair " + op);
        return;
    }
    Pair const& k = pr;
    ev["post"]    = json{{"p", Codec::code(k.get_pointer())}, {"i", (int)k.get_int()}};
    Pair rt       = Pair::get_from_opaque_value(k.get_opaque_value());
    Pair same(k.get_pointer(), k.get_int());
    Pair other(k.get_pointer(), static_cast<IntT>(((int)k.get_int()) ^ 1));
    json obs;
    obs["rt"]       = json{{"p", Codec::code(rt.get_pointer())}, {"i", (int)rt.get_int()}};
    obs["eq_same"]  = (k == same);
    obs["ne_same"]  = (k != same);
    obs["eq_other"] = (k == other);
    obs["ne_other"] = (k != other);
    obs["low_kept"] = low_kept(k);
    obs["size_ok"]  =
#ifdef VH_STD
        true;
#else
        sizeof(Pair) == sizeof(void*); // "in the space required by one pointer"
#endif
    ev["obs"] = obs;
    emit(ev);
}
void run_pip(json const& c)
{
    std::string inst = c["inst"].get<std::string>();
    if (inst == "s1") { run_pip_inst<PtrCodec<short, 3>, 1, unsigned>(c); }
    else if (inst == "i2") { run_pip_inst<PtrCodec<int, 3>, 2, unsigned>(c); }
    else if (inst == "i1b") { run_pip_inst<PtrCodec<int, 3>, 1, bool>(c); }
    else if (inst == "l3") { run_pip_inst<PtrCodec<long, 3>, 3, unsigned>(c); }
    else if (inst == "l2e") { run_pip_inst<PtrCodec<long, 3>, 2, E2>(c); }
    else if (inst == "cl2") { run_pip_inst<PtrCodec<long const, 3>, 2, unsigned>(c); }
    else if (inst == "o4") { run_pip_inst<PtrCodec<Over16, 2>, 4, unsigned>(c); }
    else if (inst == "nest") { run_pip_inst<NestCodec, 1, bool>(c); }
    else { unsupported("pointer_int_pair instantiation " + inst); }
}

// =====================================================================================================
// small_ptr
// =====================================================================================================
#ifdef VH_STD
template <typename Type, std::intptr_t Base = 0, typename Storage = std::uint16_t>
struct ref_small_ptr { // a plain pointer behind the small_ptr interface (see header comment)
    Type* p = nullptr;
    ref_small_ptr() = default;
    ref_small_ptr(std::nullptr_t) : p(reinterpret_cast<Type*>(Base)) { }
    ref_small_ptr(Type* q) : p(q) { }
    Type* get() noexcept { return p; }
    Type const* get() const noexcept { return p; }
    Storage compressed_value() const noexcept { return (Storage)(reinterpret_cast<std::intptr_t>(p) - Base); }
    Type* operator->() const { return p; }
    Type& operator*() { return *p; }
    Type const& operator*() const { return *p; }
    ref_small_ptr operator++(int) { auto t = *this; ++p; return t; }
    ref_small_ptr& operator++() { ++p; return *this; }
    ref_small_ptr operator--(int) { auto t = *this; --p; return t; }
    ref_small_ptr& operator--() { --p; return *this; }
    std::ptrdiff_t operator-(ref_small_ptr o) const noexcept { return p - o.p; }
    operator Type*() noexcept { return p; }
    operator Type const*() const noexcept { return p; }
};
template <typename T, std::intptr_t B, typename S>
using sp_t = ref_small_ptr<T, B, S>;
#else
template <typename T, etl::intptr_t B, typename S>
using sp_t = etl::small_ptr<T, B, S>;
#endif

long g_real[16400]; // the "real" instantiation points into this array

// K: what the harness subtracts from real addresses / stored values before logging (0 for fabricated addresses)
template <typename T, std::intptr_t Base, typename Storage, bool Real>
void run_sp_inst(json const& c)
{
    using SP             = sp_t<T, Base, Storage>;
    json ev              = c;
    std::string op       = c["op"].get<std::string>();
    std::intptr_t const K = Real ? reinterpret_cast<std::intptr_t>(g_real) : 0;
    auto addr            = [&](long a) { return reinterpret_cast<T*>(static_cast<std::intptr_t>(a) + K); };
    auto off             = [&](T const* p) { return clamp32(reinterpret_cast<std::intptr_t>(p) - K); };
    long s               = c["s"].get<long>();
    long xa              = c["x"]["a"].get<long>();
    SP sp(addr(Base + s));
    SP const& k = sp;
    long ret    = 0;
    if (op == "ctor") {
        sp  = SP(addr(xa));
        ret = off(sp.get());
    } else if (op == "null") {
        sp  = SP(nullptr);
        ret = (long)sp.compressed_value();
    } else if (op == "pre_inc") {
        SP& r = ++sp;
        ret   = off(r.get());
    } else if (op == "post_inc") {
        SP old = sp++;
        ret    = off(old.get());
    } else if (op == "pre_dec") {
        SP& r = --sp;
        ret   = off(r.get());
    } else if (op == "post_dec") {
        SP old = sp--;
        ret    = off(old.get());
    } else if (op == "minus") {
        ret = clamp32(k - SP(addr(xa)));
    } else if (op == "conv") {
        T* p = sp;
        ret  = off(p);
    } else if (op == "kconv") {
        T const* p = k;
        ret        = off(p);
    } else if (op == "kget") {
        ret = off(k.get());
    } else if (op == "star") {
        if constexpr (Real) {
            ret = off(std::addressof(*sp));
            if (std::addressof(*k) != std::addressof(*sp)) { ret = -2; }
        } else {
            unsupported("small_ptr::operator* on fabricated addresses");
            return;
        }
    } else if (op == "arrow") {
#if MEM_SP_ARROW
        ret = off(k.operator->());
#else
        unsupported("small_ptr<T>::operator-> (does not compile for non-const T)");
        return;
#endif
    } else {
        unsupported("small_ptr " + op);
        return;
    }
    ev["inst"] = c["si"]["name"];
    ev["post"] = op == "null" ? (long)sp.compressed_value() : clamp32((long long)sp.compressed_value() - (Real ? (long long)K : 0));
    ev["ret"]  = ret;
    emit(ev);
}
void run_sp(json const& c)
{
    std::string inst = c["si"]["name"].get<std::string>();
    if (inst == "i16") { run_sp_inst<int, 0x10000, std::uint16_t, false>(c); }
    else if (inst == "s8") { run_sp_inst<short, 0x2000, std::uint8_t, false>(c); }
    else if (inst == "real") { run_sp_inst<long, 0, std::uintptr_t, true>(c); }
    else { unsupported("small_ptr instantiation " + inst); }
}

// =====================================================================================================
// uninitialized_* / destroy* / construct_at on the lifetime-tracked element type
// =====================================================================================================
constexpr int CELLS = 8;
alignas(Tracked) unsigned char g_src[CELLS * sizeof(Tracked)];
alignas(Tracked) unsigned char g_dst[CELLS * sizeof(Tracked)];

void run_uninit(json const& c)
{
    json ev           = c;
    std::string op    = c["op"].get<std::string>();
    bool fwd          = c["it"].get<std::string>() == "fwd";
    auto const& x     = c["x"];
    std::vector<int> src = x["src"].get<std::vector<int>>();
    long n = x["n"].get<long>(), v = x["v"].get<long>(), p = x["p"].get<long>();
    auto* S = reinterpret_cast<Tracked*>(g_src);
    auto* D = reinterpret_cast<Tracked*>(g_dst);
    std::memset(g_src, 0, sizeof g_src);
    std::memset(g_dst, 0, sizeof g_dst);
    long live_before = vh::live_count();
    for (std::size_t i = 0; i < src.size(); ++i) { new (S + i) Tracked(src[i]); }
    long ns = (long)src.size();
    Tracked val((int)v);
    auto& L = vh::life();
    L.begin_window({vh::Region{reinterpret_cast<char const*>(S), sizeof(Tracked), CELLS, 1},
        vh::Region{reinterpret_cast<char const*>(D), sizeof(Tracked), CELLS, 2}});
    L.declare_ext(&val);
    json ext = json::array();
    ext.push_back({{"c", L.cell(&val)}, {"v", val.v}});
    long ret  = 0;
    bool done = true;
    using In  = vw::in_it<Tracked>;
    using Fw  = vw::fwd_it<Tracked>;
    if (op == "uninit_copy") {
        if (fwd) { ret = lib::uninitialized_copy(In(S), In(S + ns), Fw(D)).base() - D; }
        else { ret = lib::uninitialized_copy(S, S + ns, D) - D; }
    } else if (op == "uninit_move") {
        if (fwd) { ret = lib::uninitialized_move(In(S), In(S + ns), Fw(D)).base() - D; }
        else { ret = lib::uninitialized_move(S, S + ns, D) - D; }
    } else if (op == "uninit_fill") {
        if (fwd) {
#if MEM_UFILL_FWD
            lib::uninitialized_fill(Fw(D), Fw(D + n), val);
#else
            done = false;
#endif
        } else {
            lib::uninitialized_fill(D, D + n, val);
        }
    } else if (op == "destroy") {
        if (fwd) { lib::destroy(Fw(S + p), Fw(S + ns)); } else { lib::destroy(S + p, S + ns); }
    } else if (op == "destroy_n") {
        if (fwd) { ret = lib::destroy_n(Fw(S + p), ns - p).base() - S; } else { ret = lib::destroy_n(S + p, ns - p) - S; }
    } else if (op == "destroy_at") {
        lib::destroy_at(S + ns - 1);
    } else if (op == "construct_at") {
        ret = lib::construct_at(S + ns, val) - S;
    } else if (op == "r_destroy_range") {
        if (fwd) { ret = lib::ranges::destroy(Fw(S + p), Fw(S + ns)).base() - S; } else { ret = lib::ranges::destroy(S + p, S + ns) - S; }
    } else if (op == "r_destroy") {
        struct View { // a range over [first, last)
            Tracked *b, *e;
            Tracked* begin() const { return b; }
            Tracked* end() const { return e; }
        } view{S + p, S + ns};
        ret = lib::ranges::destroy(view) - S;
    } else if (op == "r_destroy_at") {
        lib::ranges::destroy_at(S + ns - 1);
    } else if (op == "r_construct_at") {
        ret = lib::ranges::construct_at(S + ns, val) - S;
    } else {
        done = false;
    }
    L.end_window();
    json extend = json::array();
    for (auto cid : L.ext_live_at_start) { extend.push_back(cid); }
    // clean up: destroy what the life log says is alive in the two regions (bookkeeping, not a judgement)
    {
        std::set<int> alive;
        for (long i = 0; i < ns; ++i) { alive.insert(1000 + (int)i + 1); }
        for (auto const& e : L.events) {
            std::string k = e["k"].get<std::string>();
            int cell      = e["c"].get<int>();
            if (k == "ctor" || k == "cctor" || k == "mctor") { alive.insert(cell); }
            if (k == "dtor") { alive.erase(cell); }
        }
        json evs = L.events;
        for (int cell : alive) {
            int r = cell / 1000, i = cell % 1000 - 1;
            if (r == 1 && i >= 0 && i < CELLS) { (S + i)->~Tracked(); }
            if (r == 2 && i >= 0 && i < CELLS) { (D + i)->~Tracked(); }
        }
        if (!done) {
            unsupported(op + (fwd ? " with a non-pointer forward iterator (does not compile)" : ""));
            return;
        }
        json l;
        l["evs"]    = evs;
        l["ext"]    = ext;
        l["extend"] = extend;
        ev["life"]  = l;
    }
    ev["ret"]        = clamp32(ret);
    ev["live_delta"] = vh::live_count() - 1 - live_before; // after the clean-up, not counting `val`
    emit(ev);
}

// =====================================================================================================
// monotonic_allocator
// =====================================================================================================
alignas(128) unsigned char g_mbuf[512];

template <typename T>
void run_mono_t(json const& c)
{
    long boff = c["boff"].get<long>(), bsize = c["bsize"].get<long>();
    std::memset(g_mbuf, 0, sizeof g_mbuf);
#ifndef VH_STD
    etl::monotonic_allocator<T> alloc{etl::span<etl::byte>{reinterpret_cast<etl::byte*>(g_mbuf + boff), (std::size_t)bsize}};
#else
    std::pmr::monotonic_buffer_resource res(g_mbuf + boff, (std::size_t)bsize, std::pmr::null_memory_resource());
    std::pmr::polymorphic_allocator<T> alloc(&res);
#endif
    json hist = json::array();
    int k     = 0;
    for (auto const& rq : c["reqs"]) {
        ++k;
        // a "big" count: the smallest counts whose byte size is not representable, and SIZE_MAX itself
        long bv       = rq["v"].get<long>();
        // (for sizeof(T) == 1 every byte size is representable: SIZE_MAX - 1 + k, still larger than any buffer)
        std::size_t n = !rq["big"].get<bool>() ? (std::size_t)bv
                      : bv >= 2               ? SIZE_MAX
                      : sizeof(T) == 1        ? SIZE_MAX - 1 + (std::size_t)bv
                                              : SIZE_MAX / sizeof(T) + 1 + (std::size_t)bv;
        T* r          = nullptr;
#ifndef VH_STD
        r = alloc.allocate(n);
#else
        try {
            r = alloc.allocate(n);
        } catch (std::bad_alloc const&) { // also bad_array_new_length
            r = nullptr;
        }
#endif
        json ev;
        ev["f"]     = "mono";
        ev["op"]    = "allocate";
        ev["inst"]  = c["t"]["name"];
        ev["t"]     = c["t"];
        ev["boff"]  = boff;
        ev["bsize"] = bsize;
        ev["hist"]  = hist;
        ev["n"]     = rq;
        ev["k"]     = k;
        ev["reqs"]  = c["reqs"];
        ev["basemod"] = (long)(reinterpret_cast<std::uintptr_t>(g_mbuf) % 128);
        ev["sizeof"]  = (long)sizeof(T);
        ev["alignof"] = (long)alignof(T);
        ev["ret"]     = r == nullptr ? -1L : clamp32(reinterpret_cast<unsigned char*>(r) - g_mbuf);
        emit(ev);
        if (r != nullptr && !rq["big"].get<bool>()) {
            hist.push_back(json{{"off", clamp32(reinterpret_cast<unsigned char*>(r) - g_mbuf)}, {"len", (long)(n * sizeof(T))}});
        }
    }
}
void run_mono(json const& c)
{
    std::string t = c["t"]["name"].get<std::string>();
    if (t == "c1") { run_mono_t<char>(c); }
    else if (t == "s2") { run_mono_t<short>(c); }
    else if (t == "i4") { run_mono_t<int>(c); }
    else if (t == "l8") { run_mono_t<long>(c); }
    else if (t == "o16") { run_mono_t<Over16>(c); }
    else { unsupported("monotonic_allocator instantiation " + t); }
}
} // namespace

int main(int argc, char** argv)
{
    if (argc < 3 || std::string(argv[1]) != "run") {
        std::fprintf(stderr, "usage: mem_driver run <cases.ndjson>\n");
        return 2;
    }
    long before = vh::live_count();
    bool mark = std::getenv("VH_MARK") != nullptr;
    for (auto const& c : vh::read_ndjson(argv[2])) {
        if (c.contains("reset")) { // case boundary (resilient replay: a death is attributed to the case in flight)
            if (mark) { vh::emit(json{{"op", "reset"}}); }
            continue;
        }
        std::string f = c["f"].get<std::string>();
        if (f == "align") { run_align(c); }
        else if (f == "ident") { run_ident(c); }
        else if (f == "pip") { run_pip(c); }
        else if (f == "sptr") { run_sp(c); }
        else if (f == "uninit") { run_uninit(c); }
        else if (f == "mono") { run_mono(c); }
        else { unsupported("family " + f); }
    }
    std::fprintf(stderr, "SUMMARY impl=%s events=%ld unsupported=%ld live_delta=%ld\n", IMPL, g_nev, g_nskip, vh::live_count() - before);
    return 0;
}
