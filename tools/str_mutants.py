#!/usr/bin/env python3
"""Binding self-test for the string modules (C08, C04): apply one small plausible bug at a time to a scratch copy of
the headers and require `check.py <ID> --tier quick` to exit 1.
usage: str_mutants.py <ID> <base-dir-containing-include/> [mutant-name ...]
The base directory is the tree the check passes on (the pinned tree with build/fixes/<ID>-*.patch applied)."""
import os, shutil, subprocess, sys, time
from concurrent.futures import ThreadPoolExecutor

SV = "include/etl/_string_view/basic_string_view.hpp"
CT = "include/etl/_string/char_traits.hpp"
IS = "include/etl/_string/basic_inplace_string.hpp"
MUTANTS = {
 "C08": [
  ("rfind-lt-le", SV, "if (sv.size() < size() - pos) {", "if (sv.size() <= size() - pos) {"),
  ("ffo-bound", SV, "for (size_type idx = pos; idx < size(); ++idx) {\n            for (auto const c : v) {",
                    "for (size_type idx = pos; idx <= size(); ++idx) {\n            for (auto const c : v) {"),
  ("compare-swapped-tiebreak", SV, "if (size() < v.size()) {\n            return -1;", "if (size() < v.size()) {\n            return 1;"),
  ("find_end-no-advance", "include/etl/_algorithm/find_end.hpp", "if (sFirst == sLast) {\n        return last;", "if (sFirst == sLast) {\n        return first;"),
  ("search-off-by-one", "include/etl/_algorithm/search.hpp", "if (it == last) {\n                return last;", "if (it + 1 == last) {\n                return last;"),
  ("clamp-hi", "include/etl/_algorithm/clamp.hpp", "return comp(v, lo) ? lo : comp(hi, v) ? hi : v;", "return comp(v, lo) ? lo : comp(hi, v) ? v : v;"),
  ("substr-no-clamp", SV, "auto const rcount = etl::min(count, size() - pos);\n        return basic_string_view{_begin + pos, rcount};",
                          "auto const rcount = etl::min(count, size());\n        return basic_string_view{_begin + pos, rcount};"),
  ("ffno-start", SV, "for (auto const* s = str + pos; s != last; ++s) {\n                if (Traits::find(sv.data(), sv.size(), *s) == nullptr) {", "for (auto const* s = str + pos + 1; s != last; ++s) {\n                if (Traits::find(sv.data(), sv.size(), *s) == nullptr) {"),
  ("rfind-char-pos", SV, "if (pos < size()) {\n            ++pos;", "if (pos < size()) {\n            pos += 2;"),
  ("ffno-char-eq", SV, "if (!Traits::eq(*s, c)) {\n                    return static_cast<size_type>(s - data());", "if (Traits::eq(*s, c)) {\n                    return static_cast<size_type>(s - data());"),
  ("ends_with-gt", SV, "return size() >= sv.size() && compare(size() - sv.size(), npos, sv) == 0;", "return size() > sv.size() && compare(size() - sv.size(), npos, sv) == 0;"),
  ("copy-default-pos", SV, "copy(Char* dest, size_type count, size_type pos = 0) const", "copy(Char* dest, size_type count, size_type pos = 1) const"),
  ("traits-find-first-only", CT, "for (size_t i = 0; i < count; ++i) {\n            if (str[i] == token) {", "for (size_t i = 1; i < count; ++i) {\n            if (str[i] == token) {"),
  ("remove_prefix-size", SV, "_begin += n;\n        _size -= n;", "_begin += n;\n        _size -= n > 0 ? n - 1 : 0;"),
  ("flo-default-pos", SV, "find_last_of(basic_string_view v, size_type pos = npos) const noexcept", "find_last_of(basic_string_view v, size_type pos = 0) const noexcept"),
  ("compare-count2-ignored", SV, "return substr(pos1, count1).compare(basic_string_view(s, count2));", "return substr(pos1, count1).compare(basic_string_view(s));"),
 ],
 "C04": [
  ("set_size-no-terminator", IS, "_storage.set_size(newSize);\n        unsafe_at(newSize) = Char(0);", "_storage.set_size(newSize);"),
  ("append-fill-clamp-off-by-one", IS, "auto const safeCount = etl::min(count, capacity() - size());\n        auto const newSize   = size() + safeCount;",
                                       "auto const safeCount = etl::min(count, capacity() - size() + 1);\n        auto const newSize   = size() + safeCount;"),
  ("erase-count-not-clamped", IS, "auto safeCount = etl::min(count, size() - index);", "auto safeCount = etl::min(count, size());"),
  ("rotate-first-branch", "include/etl/_algorithm/rotate.hpp", "if (write == nextRead) {\n            nextRead = read;", "if (write != nextRead) {\n            nextRead = read;"),
  ("substr-clamp", IS, "return basic_inplace_string(data() + pos, etl::min(count, size() - pos));", "return basic_inplace_string(data() + pos, etl::min(count, size()));"),
  ("cstr-less-than", IS, "operator<(Char const* lhs, etl::basic_inplace_string<Char, Capacity1, Traits> const& rhs) noexcept -> bool\n{\n    return rhs.compare(lhs) > 0;",
                        "operator<(Char const* lhs, etl::basic_inplace_string<Char, Capacity1, Traits> const& rhs) noexcept -> bool\n{\n    return rhs.compare(lhs) >= 0;"),
  ("strings-find-last-position", "include/etl/_strings/find.hpp", "if (pos <= haystack.size() - needle.size()) {", "if (pos < haystack.size() - needle.size()) {"),
  ("copy-clamp", IS, "auto const* last  = first + etl::min(count, size() - pos);", "auto const* last  = first + etl::min(count, size());"),
  ("swap_ranges-skips-first", "include/etl/_algorithm/swap_ranges.hpp", "while (first1 != last1) {\n        etl::iter_swap(first1, first2);", "++first1;\n    ++first2;\n    while (first1 != last1) {\n        etl::iter_swap(first1, first2);"),
  ("pop_back-no-terminator", IS, "TETL_PRECONDITION(not empty());\n        unsafe_set_size(size() - 1);", "TETL_PRECONDITION(not empty());\n        _storage.set_size(size() - 1);"),
  ("assign-sub-default-count", IS, "constexpr auto assign(basic_inplace_string const& str, size_type pos, size_type count = npos) noexcept", "constexpr auto assign(basic_inplace_string const& str, size_type pos, size_type count = 0) noexcept"),
  ("resize-default-char", IS, "constexpr auto resize(size_type count) noexcept -> void { resize(count, Char()); }", "constexpr auto resize(size_type count) noexcept -> void { resize(count, Char(' ')); }"),
  ("insert-fill-one-more", IS, "for (size_type i = 0; i < count; ++i) {\n            insert_impl(begin() + index, &ch, 1);", "for (size_type i = 0; i <= count; ++i) {\n            insert_impl(begin() + index, &ch, 1);"),
  ("find_first_of-default-pos", IS, "find_first_of(Char ch, size_type pos = 0) const noexcept", "find_first_of(Char ch, size_type pos = 1) const noexcept"),
  ("tiny-layout-size-off", IS, "return Capacity - size_type(_buffer[Capacity]);", "return Capacity - size_type(static_cast<unsigned char>(_buffer[Capacity]) & 0x7);"),
  ("compare-3arg-clamp", IS, "auto const sz  = count > size() - pos ? size() : count;\n        auto const sub = basic_string_view<Char, Traits>(*this).substr(pos, sz);\n        return sub.compare(str);",
                            "auto const sz  = count > size() - pos ? size() : count;\n        auto const sub = basic_string_view<Char, Traits>(*this).substr(0, sz);\n        return sub.compare(str);"),
  ("plus-char-lhs", IS, "auto str = basic_inplace_string<Char, Capacity, Traits>{1, lhs};\n    str.append(rhs);", "auto str = basic_inplace_string<Char, Capacity, Traits>{rhs};\n    str.append(1, lhs);"),
  ("erase-free-count", IS, "auto it = etl::remove(begin(c), end(c), value);\n    auto r  = etl::distance(it, end(c));", "auto it = etl::remove(begin(c), end(c), value);\n    auto r  = etl::distance(begin(c), it);"),
 ],
}


def run_one(pid, base, m):
    name, rel, old, new = m
    root = "/tmp/strmut_%s_%s" % (pid, name)
    shutil.rmtree(root, ignore_errors=True)
    os.makedirs(root)
    shutil.copytree(os.path.join(base, "include"), os.path.join(root, "include"))
    p = os.path.join(root, rel)
    s = open(p).read()
    if s.count(old) < 1:
        shutil.rmtree(root, ignore_errors=True)
        return name, "NOT-APPLICABLE (pattern not found)", 0
    open(p, "w").write(s.replace(old, new, 1))
    env = dict(os.environ, VERIF_REPO=root, VERIF_BUILD="/verif/build/mut_%s_%s" % (pid, name))
    if os.environ.get("MUT_FAST", "1") == "1":     # skip the (tree-independent) std calibration, char (+ one wide type) only
        env.update(VERIF_NOCALIB="1", VERIF_TYPES="char,char16_t")
    t0 = time.time()
    r = subprocess.run([sys.executable, os.path.join(os.path.dirname(os.path.abspath(__file__)), "check.py"), pid, "--tier", "quick"],
                       capture_output=True, text=True, env=env)
    shutil.rmtree(root, ignore_errors=True)
    shutil.rmtree(env["VERIF_BUILD"], ignore_errors=True)
    verdict = {1: "caught", 0: "MISSED", 2: "model-failure"}.get(r.returncode, "rc=%d" % r.returncode)
    detail = ""
    if r.returncode == 2:
        detail = r.stderr[-600:]
    if r.returncode == 1:
        detail = " ".join(sorted({l.split("replay=")[1].split("/")[-1].rsplit("_", 1)[0] for l in r.stdout.splitlines() if l.startswith("VIOLATION")}))
    return name, verdict + " " + detail, time.time() - t0


if __name__ == "__main__":
    pid, base = sys.argv[1], sys.argv[2]
    ms = [m for m in MUTANTS[pid] if len(sys.argv) < 4 or m[0] in sys.argv[3:]]
    with ThreadPoolExecutor(max_workers=int(os.environ.get("MUT_PAR", "3"))) as ex:
        for name, verdict, dt in ex.map(lambda m: run_one(pid, base, m), ms):
            print("%-28s %s (%.0fs)" % (name, verdict, dt), flush=True)
