// Period table shared by harness/duration_driver.cpp and the compile probes of tools/pipes/duration.py.
// Same order as DurationOps!Periods.  `lib` must name the namespace of ratio (std or etl) before inclusion.
#pragma once
template <int I>
struct PeriodAt;
template <>
struct PeriodAt<1> {
    using type = lib::nano;
};
template <>
struct PeriodAt<2> {
    using type = lib::micro;
};
template <>
struct PeriodAt<3> {
    using type = lib::milli;
};
template <>
struct PeriodAt<4> {
    using type = lib::ratio<1>;
};
template <>
struct PeriodAt<5> {
    using type = lib::ratio<60>;
};
template <>
struct PeriodAt<6> {
    using type = lib::ratio<3600>;
};
template <>
struct PeriodAt<7> {
    using type = lib::ratio<86400>;
};
template <>
struct PeriodAt<8> {
    using type = lib::ratio<1, 3>;
};
template <>
struct PeriodAt<9> {
    using type = lib::ratio<5, 7>;
};
template <>
struct PeriodAt<10> {
    using type = lib::ratio<1001, 30000>;
};
constexpr int NP = 10;
template <int I>
using P = typename PeriodAt<I>::type;

