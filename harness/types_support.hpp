// Measurement apparatus of the C15 harness (NOT part of tetl, contains no oracle and no comparison with
// expected values): alias templates from which tools/gen_types.py spells the C++ type of a term, and the
// printers that turn one compile-time observation into one ndjson event.
#pragma once
#include <cstdio>
#include <cstring>

namespace vt {
template <class T> using c  = T const;
template <class T> using v  = T volatile;
template <class T> using cv = T const volatile;
template <class T> using p  = T*;
template <class T> using l  = T&;
template <class T> using r  = T&&;
template <class T, unsigned long N> using a = T[N];
template <class T> using au = T[];
template <class C, class T> using mp = T C::*;
// function types: f_<cv>_<ref>_<noexcept>;  cv in {n,c,v,cv}, ref in {n,l,r}, noexcept in {n,x}
#define VT_FN(NAME, QUAL) template <class R, class... A> using NAME = R(A...) QUAL;
VT_FN(f_n_n_n, )
VT_FN(f_n_n_x, noexcept)
VT_FN(f_n_l_n, &)
VT_FN(f_n_l_x, & noexcept)
VT_FN(f_n_r_n, &&)
VT_FN(f_n_r_x, && noexcept)
VT_FN(f_c_n_n, const)
VT_FN(f_c_n_x, const noexcept)
VT_FN(f_c_l_n, const&)
VT_FN(f_c_l_x, const& noexcept)
VT_FN(f_c_r_n, const&&)
VT_FN(f_c_r_x, const&& noexcept)
VT_FN(f_v_n_n, volatile)
VT_FN(f_v_n_x, volatile noexcept)
VT_FN(f_v_l_n, volatile&)
VT_FN(f_v_l_x, volatile& noexcept)
VT_FN(f_v_r_n, volatile&&)
VT_FN(f_v_r_x, volatile&& noexcept)
VT_FN(f_cv_n_n, const volatile)
VT_FN(f_cv_n_x, const volatile noexcept)
VT_FN(f_cv_l_n, const volatile&)
VT_FN(f_cv_l_x, const volatile& noexcept)
VT_FN(f_cv_r_n, const volatile&&)
VT_FN(f_cv_r_x, const volatile&& noexcept)
#undef VT_FN
} // namespace vt

namespace vh {
// identity of types, independent of the library under test
template <class A, class B> inline constexpr bool same = false;
template <class A> inline constexpr bool same<A, A> = true;

// does trait<T> have a member `type` (asked inside a template so that the answer is a value, not an error)
template <template <class...> class Tr, class... T> inline constexpr bool has_type = requires { typename Tr<T...>::type; };

template <class T> char const* pretty() { return __PRETTY_FUNCTION__; }
// prints the `T = ...` part of __PRETTY_FUNCTION__ as a JSON string body
template <class T> void print_name()
{
    char const* s = pretty<T>();
    char const* b = std::strstr(s, "T = ");
    b             = b ? b + 4 : s;
    char const* e = b + std::strlen(b);
    if (e > b && e[-1] == ']') { --e; }
    for (; b < e; ++b) {
        if (*b == '"' || *b == '\\') { std::fputc('\\', stdout); }
        std::fputc(*b, stdout);
    }
}

inline void pv(bool b) { std::fputs(b ? "true" : "false", stdout); }
inline void pv(int b) { std::printf("%d", b); }
inline void pv(long b) { std::printf("%ld", b); }
inline void pv(long long b) { std::printf("%lld", b); }
inline void pv(unsigned b) { std::printf("%u", b); }
inline void pv(unsigned long b) { std::printf("%lu", b); }
inline void pv(unsigned long long b) { std::printf("%llu", b); }

// `op` repeats `trait` (the shared report machinery groups deviations by ev["op"])
inline void head(char const* trait, char const* tj) { std::printf("{\"op\":\"%s\",\"trait\":\"%s\",\"t\":%s", trait, trait, tj); }
inline void head2(char const* trait, char const* tj, char const* uj)
{
    std::printf("{\"op\":\"%s\",\"trait\":\"%s\",\"t\":%s,\"u\":%s", trait, trait, tj, uj);
}

// value traits: the struct's ::value and the _v variable template
template <class A, class B> void val(char const* trait, char const* tj, A a, B b)
{
    head(trait, tj);
    std::fputs(",\"val\":", stdout); pv(a);
    std::fputs(",\"val_v\":", stdout); pv(b);
    std::fputs("}\n", stdout);
}
template <class A> void con(char const* trait, char const* tj, A a)
{
    head(trait, tj);
    std::fputs(",\"val\":", stdout); pv(a);
    std::fputs("}\n", stdout);
}
template <class A, class B> void val2(char const* trait, char const* tj, char const* uj, A a, B b)
{
    head2(trait, tj, uj);
    std::fputs(",\"val\":", stdout); pv(a);
    std::fputs(",\"val_v\":", stdout); pv(b);
    std::fputs("}\n", stdout);
}
template <class A> void con2(char const* trait, char const* tj, char const* uj, A a)
{
    head2(trait, tj, uj);
    std::fputs(",\"val\":", stdout); pv(a);
    std::fputs("}\n", stdout);
}
// transformation traits: Got = typename trait<T>::type, GotT = trait_t<T>, Res = the type the spec predicts
template <class Got, class GotT, class Res> void trn(char const* trait, char const* tj, char const* rj)
{
    head(trait, tj);
    std::printf(",\"res\":%s,\"same\":%s,\"same_t\":%s,\"got\":\"", rj, same<Got, Res> ? "true" : "false",
        same<GotT, Res> ? "true" : "false");
    print_name<Got>();
    std::fputs("\"}\n", stdout);
}
template <class Got, class GotT, class Res> void trn2(char const* trait, char const* tj, char const* uj, char const* rj)
{
    head2(trait, tj, uj);
    std::printf(",\"res\":%s,\"same\":%s,\"same_t\":%s,\"got\":\"", rj, same<Got, Res> ? "true" : "false",
        same<GotT, Res> ? "true" : "false");
    print_name<Got>();
    std::fputs("\"}\n", stdout);
}
inline void has(char const* trait, char const* tj, bool h)
{
    head(trait, tj);
    std::printf(",\"has\":%s}\n", h ? "true" : "false");
}
// a row whose evaluation does not compile (recorded by tools/pipes/types.py from the compiler diagnostics)
inline void ill(char const* trait, char const* tj)
{
    head(trait, tj);
    std::fputs(",\"ill\":true}\n", stdout);
}
inline void ill2(char const* trait, char const* tj, char const* uj)
{
    head2(trait, tj, uj);
    std::fputs(",\"ill\":true}\n", stdout);
}
// the same for transformation traits (the predicted result stays in the event)
inline void ill_tr(char const* trait, char const* tj, char const* rj)
{
    head(trait, tj);
    std::printf(",\"res\":%s,\"ill\":true}\n", rj);
}
inline void ill_tr2(char const* trait, char const* tj, char const* uj, char const* rj)
{
    head2(trait, tj, uj);
    std::printf(",\"res\":%s,\"ill\":true}\n", rj);
}

// [meta.logical]: a type without a member `value` (must never be looked at behind the deciding element)
struct poison { };
inline void logic(char const* op, char const* bs, bool a, bool b)
{
    std::printf("{\"op\":\"%s\",\"trait\":\"%s\",\"bs\":%s,\"val\":%s,\"val_v\":%s}\n", op, op, bs, a ? "true" : "false", b ? "true" : "false");
}
inline void illl(char const* op, char const* bs)
{
    std::printf("{\"op\":\"%s\",\"trait\":\"%s\",\"bs\":%s,\"ill\":true}\n", op, op, bs);
}

// numeric_limits values: 16-bit limbs, least significant first
template <class V> void limbs_int(char const* trait, char const* tj, V v, bool rt)
{
    auto u = static_cast<unsigned long long>(static_cast<long long>(v));
    if constexpr (same<V, bool>) { u = v ? 1 : 0; }
    else if constexpr (V(-1) > V(0)) { u = static_cast<unsigned long long>(v); }
    head(trait, tj);
    std::printf(",\"limbs\":[%llu,%llu,%llu,%llu],\"rt\":%s}\n", u & 0xffff, (u >> 16) & 0xffff, (u >> 32) & 0xffff,
        (u >> 48) & 0xffff, rt ? "true" : "false");
}
template <class V> void limbs_float(char const* trait, char const* tj, V v, bool rt)
{
    constexpr int bytes = same<V, float> ? 4 : same<V, double> ? 8 : 10;
    unsigned char b[16] = {};
    std::memcpy(b, &v, bytes);
    head(trait, tj);
    std::fputs(",\"limbs\":[", stdout);
    for (int i = 0; i < bytes / 2; ++i) { std::printf("%s%u", i ? "," : "", unsigned(b[2 * i]) | (unsigned(b[2 * i + 1]) << 8)); }
    std::printf("],\"rt\":%s}\n", rt ? "true" : "false");
}
template <class V> void isnan(char const* trait, char const* tj, V v, bool rt)
{
    head(trait, tj);
    std::printf(",\"nan\":%s,\"rt\":%s}\n", (v != v) ? "true" : "false", rt ? "true" : "false");
}

// ratio
inline void ratio1(long n, long d, long xn, long xd, long long num, long long den, bool same_type)
{
    std::printf("{\"op\":\"ratio\",\"trait\":\"ratio\",\"n\":%ld,\"d\":%ld,\"xnum\":%ld,\"xden\":%ld,\"num\":%lld,\"den\":%lld,\"same\":%s}\n", n, d, xn,
        xd, num, den, same_type ? "true" : "false");
}
inline void ratio2(char const* op, long n1, long d1, long n2, long d2, long xn, long xd, long long num, long long den, bool same_alias,
    bool same_type)
{
    std::printf("{\"op\":\"%s\",\"trait\":\"%s\",\"n1\":%ld,\"d1\":%ld,\"n2\":%ld,\"d2\":%ld,\"xnum\":%ld,\"xden\":%ld,\"num\":%lld,\"den\":%lld,"
                "\"same\":%s,\"same_t\":%s}\n",
        op, op, n1, d1, n2, d2, xn, xd, num, den, same_alias ? "true" : "false", same_type ? "true" : "false");
}
inline void ratiocmp(char const* op, long n1, long d1, long n2, long d2, bool a, bool b)
{
    std::printf("{\"op\":\"%s\",\"trait\":\"%s\",\"n1\":%ld,\"d1\":%ld,\"n2\":%ld,\"d2\":%ld,\"val\":%s,\"val_v\":%s}\n", op, op, n1, d1, n2, d2,
        a ? "true" : "false", b ? "true" : "false");
}
inline void illr1(long n, long d)
{
    std::printf("{\"op\":\"ratio\",\"trait\":\"ratio\",\"n\":%ld,\"d\":%ld,\"ill\":true}\n", n, d);
}
// near-overflow ratios: |v| as limbs base 2^15 (the format of spec/Wide.tla), least significant first, no leading zero limb
inline void limbs15(long long v)
{
    auto u = v < 0 ? 0ULL - static_cast<unsigned long long>(v) : static_cast<unsigned long long>(v);
    std::fputc('[', stdout);
    for (bool first = true; u != 0; u >>= 15, first = false) { std::printf("%s%llu", first ? "" : ",", u & 0x7fff); }
    std::fputc(']', stdout);
}
inline void big1(char const* aj, long long num, long long den)
{
    std::printf("{\"op\":\"ratio\",\"trait\":\"ratio\",\"a\":%s,\"neg\":%s,\"num\":", aj, num < 0 ? "true" : "false");
    limbs15(num);
    std::printf(",\"den\":%lld}\n", den);
}
inline void bigcmp(char const* op, char const* aj, char const* bj, bool a, bool b)
{
    std::printf("{\"op\":\"%s\",\"trait\":\"%s\",\"a\":%s,\"b\":%s,\"val\":%s,\"val_v\":%s}\n", op, op, aj, bj, a ? "true" : "false",
        b ? "true" : "false");
}
inline void illbig(char const* op, char const* aj, char const* bj)
{
    if (bj) { std::printf("{\"op\":\"%s\",\"trait\":\"%s\",\"a\":%s,\"b\":%s,\"ill\":true}\n", op, op, aj, bj); }
    else { std::printf("{\"op\":\"%s\",\"trait\":\"%s\",\"a\":%s,\"ill\":true}\n", op, op, aj); }
}
inline void illr(char const* op, long n1, long d1, long n2, long d2)
{
    std::printf("{\"op\":\"%s\",\"trait\":\"%s\",\"n1\":%ld,\"d1\":%ld,\"n2\":%ld,\"d2\":%ld,\"ill\":true}\n", op, op, n1, d1, n2, d2);
}
} // namespace vh
