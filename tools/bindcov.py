#!/usr/bin/env python3
"""Measured binding coverage (DESIGN 5.1): build every driver with --coverage, run the quick checks, and report per
anchored header of each property how many instrumented lines the drivers executed.
  python3 tools/bindcov.py [C01 C04 ...]      (default: all 20; slow: -O0 + gcov; run in the background)
Writes reports/bindcov.json (not part of any check; informational)."""
import glob, gzip, json, os, subprocess, sys, shutil
V = os.path.dirname(os.path.dirname(os.path.abspath(__file__)))
props = sys.argv[1:] or ["C%02d" % i for i in range(1, 21)]
bdir = os.path.join(V, "build", "bindcov")
shutil.rmtree(bdir, ignore_errors=True)
os.makedirs(bdir)
env = dict(os.environ, VERIF_COVERAGE="1", VERIF_BUILD=bdir, VERIF_EVID=os.path.join(bdir, "evidence"))
for p in props:
    r = subprocess.run(["python3", os.path.join(V, "tools", "check.py"), p, "--tier", "quick"], env=env, capture_output=True, text=True, cwd=V)
    print(p, "exit", r.returncode, flush=True)
# gcov over every .gcda
lines = {}   # file -> {line: count}
gcdas = glob.glob(os.path.join(bdir, "**", "*.gcda"), recursive=True)
for g in gcdas:
    d = os.path.dirname(g)
    r = subprocess.run(["gcov", "-j", "-t", os.path.basename(g)], cwd=d, capture_output=True)
    try:
        j = json.loads(r.stdout)
    except Exception:
        continue
    for f in j.get("files", []):
        fn = os.path.realpath(os.path.join(d, f["file"])) if not os.path.isabs(f["file"]) else os.path.realpath(f["file"])
        if "/include/etl/" not in fn:
            continue
        key = fn[fn.index("/include/etl/") + len("/include/etl/"):]
        m = lines.setdefault(key, {})
        for ln in f.get("lines", []):
            m[ln["line_number"]] = m.get(ln["line_number"], 0) + ln["count"]
summary = {k: {"instrumented": len(v), "executed": sum(1 for c in v.values() if c > 0)} for k, v in lines.items()}
out = {"props_run": props, "gcda_files": len(gcdas), "headers": summary, "by_property": {}}
for l in open(os.path.join(V, "properties.jsonl")):
    pr = json.loads(l)
    rows = {}
    for a in pr["anchors"]["files"]:
        rel = a.split("include/etl/")[-1]
        hits = {k: v for k, v in summary.items() if k == rel or k.startswith(rel.rstrip("/") + "/")}
        rows[a] = {"headers": len(hits), "instrumented": sum(h["instrumented"] for h in hits.values()),
                   "executed": sum(h["executed"] for h in hits.values())}
    out["by_property"][pr["id"]] = rows
os.makedirs(os.path.join(V, "reports"), exist_ok=True)
json.dump(out, open(os.path.join(V, "reports", "bindcov.json"), "w"), indent=1)
zero = [(p, a) for p, rows in out["by_property"].items() for a, r in rows.items() if r["executed"] == 0]
print("anchors with zero executed lines:", zero)
