SPECIFICATION Spec
CONSTANTS
  MaxLen = 6
  MaxLen2 = 3
  MaxPair = 5
  MaxA2 = 5
POSTCONDITION Consumed
CHECK_DEADLOCK FALSE
