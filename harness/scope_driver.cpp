// Scope-guard driver (extension module X02; NOT part of tetl).
// Replays the call scripts exported by TLC from spec/Scope.tla on etl::scope_exit (default build) or, with
// -DVH_STD, on std::experimental::scope_exit when the toolchain ships <experimental/scope>, otherwise on a
// direct transcription of the Library Fundamentals TS v3 wording (ref::scope_exit below; it only calibrates the
// spec/projection, it is not an oracle: nothing is compared in C++).
// One ndjson event per call: {op, g, x, inv, fl, cp, mv, kind, hist, inst};  spec/ScopeTrace.tla judges.
//
// usage: scope_driver replay <functor|fptr|fref> <nguards> <nf> <script.ndjson>
#include "common.hpp"

#include <new>
#include <string>
#include <type_traits>
#include <utility>
#include <vector>

#ifndef VH_STD
    #include <etl/scope.hpp>
    #include <etl/utility.hpp>
namespace lib = etl;
static char const* const IMPL = "etl";
#elif __has_include(<experimental/scope>)
    #include <experimental/scope>
namespace lib = std::experimental;
static char const* const IMPL = "std";
#else
// [scopeguard.exit] of the Library Fundamentals TS v3, transcribed
namespace ref {
template <typename EF>
class scope_exit {
public:
    template <typename EFP>
        requires(!std::is_same_v<std::remove_cvref_t<EFP>, scope_exit> && std::is_constructible_v<EF, EFP>)
    explicit scope_exit(EFP&& f) noexcept(std::is_nothrow_constructible_v<EF, EFP> || std::is_nothrow_constructible_v<EF, EFP&>)
        : exit_function(pick(static_cast<EFP&&>(f),
              std::bool_constant < !std::is_lvalue_reference_v<EFP> && std::is_nothrow_constructible_v<EF, EFP> > {}))
    {
    }
    scope_exit(scope_exit&& rhs) noexcept(std::is_nothrow_move_constructible_v<EF> || std::is_nothrow_copy_constructible_v<EF>)
        : exit_function(pickm(rhs))
        , execute_on_destruction(rhs.execute_on_destruction)
    {
        rhs.release();
    }
    scope_exit(scope_exit const&)            = delete;
    scope_exit& operator=(scope_exit const&) = delete;
    scope_exit& operator=(scope_exit&&)      = delete;
    ~scope_exit()
    {
        if (execute_on_destruction) { exit_function(); }
    }
    void release() noexcept { execute_on_destruction = false; }

private:
    template <typename EFP>
    static EFP&& pick(EFP&& f, std::true_type)
    {
        return static_cast<EFP&&>(f);
    }
    template <typename EFP>
    static std::remove_reference_t<EFP>& pick(EFP&& f, std::false_type)
    {
        return f;
    }
    // "If is_nothrow_move_constructible_v<EF>, initializes exit_function with std::forward<EF>(rhs.exit_function),
    //  otherwise with rhs.exit_function"
    static decltype(auto) pickm(scope_exit& rhs)
    {
        if constexpr (std::is_nothrow_move_constructible_v<EF>) {
            return std::forward<EF>(rhs.exit_function);
        } else {
            return static_cast<std::remove_reference_t<EF> const&>(rhs.exit_function);
        }
    }
    EF exit_function;
    bool execute_on_destruction{true};
};
template <typename EF>
scope_exit(EF) -> scope_exit<EF>;
} // namespace ref
namespace lib = ref;
static char const* const IMPL = "ref";
#endif

namespace {
using vh::json;

constexpr int MAXF = 8;
std::vector<int> g_invoked;
int g_flive[MAXF + 1];
int g_copies = 0, g_moves = 0;

// exit function object with observable special members
struct F {
    int id;
    explicit F(int i) : id(i) { ++g_flive[id]; }
    F(F const& o) : id(o.id)
    {
        ++g_flive[id];
        ++g_copies;
    }
    F(F&& o) noexcept : id(o.id)
    {
        ++g_flive[id];
        ++g_moves;
    }
    F& operator=(F const&) = delete;
    ~F() { --g_flive[id]; }
    void operator()() const { g_invoked.push_back(id); }
};

template <int I>
void fp()
{
    g_invoked.push_back(I);
}
using FP = void (*)();
FP fptr_of(int id)
{
    static FP const tab[MAXF + 1] = {nullptr, &fp<1>, &fp<2>, &fp<3>, &fp<4>, &fp<5>, &fp<6>, &fp<7>, &fp<8>};
    return tab[id];
}

template <typename Fn>
struct Make;
template <>
struct Make<F> {
    static F make(int id) { return F(id); }
};
F* g_objs[MAXF + 1]; // exit function objects owned by the harness (guards of kind "fref" only refer to them)
template <>
struct Make<F&> {
    static F& make(int id)
    {
        if (g_objs[id] == nullptr) { g_objs[id] = new F(id); }
        return *g_objs[id];
    }
};
template <>
struct Make<FP> {
    static FP make(int id) { return fptr_of(id); }
};

constexpr int MAXG = 3;

template <typename Fn>
struct Runner {
    using SE                    = lib::scope_exit<Fn>;
    static constexpr bool byref = std::is_reference_v<Fn>;
    std::string kind;
    int ng, nf;
    alignas(SE) unsigned char store[MAXG][sizeof(SE)];
    bool live[MAXG] = {};
    json hist       = json::array();
    long nev = 0, nskip = 0;
    bool broken = false;

    Runner(std::string k, int g, int f) : kind(std::move(k)), ng(g), nf(f) { }
    ~Runner() { reset(); }

    SE& se(int i) { return *std::launder(reinterpret_cast<SE*>(store[i])); }
    int gidx(std::string const& s) const
    {
        int i = (s.size() == 2 && s[0] == 'g') ? s[1] - '1' : -1;
        return (i >= 0 && i < ng) ? i : -1;
    }

    void reset()
    {
        for (int i = 0; i < MAXG; ++i) {
            if (live[i]) {
                se(i).release();
                se(i).~SE();
                live[i] = false;
            }
        }
        for (int i = 0; i <= MAXF; ++i) {
            delete g_objs[i];
            g_objs[i] = nullptr;
            g_flive[i] = 0;
        }
        hist = json::array();
    }

    bool apply(std::string const& op, int gi, json const& x)
    {
        int f        = x.value("f", 0);
        int f2       = x.value("f2", 0);
        int si       = gidx(x.value("src", std::string("g1")));
        void* slot   = gi >= 0 ? (void*)store[gi] : nullptr;
        if (op == "make_lv") {
            {
                Fn fn = Make<Fn>::make(f); // an lvalue exit function: the guard must copy it
                g_copies = g_moves = 0;
                new (slot) SE(fn);
            } // the harness' own object is gone before the state is looked at
            live[gi] = true;
            return true;
        }
        if (op == "make_rv") {
            {
                Fn fn = Make<Fn>::make(f);
                g_copies = g_moves = 0;
                if constexpr (byref) { new (slot) SE(fn); } // a reference cannot bind to an rvalue
                else { new (slot) SE(std::move(fn)); }
            }
            live[gi] = true;
            return true;
        }
        if (op == "make_guide") {
            {
                Fn fn = Make<Fn>::make(f);
                g_copies = g_moves = 0;
                if constexpr (byref) {
                    new (slot) SE(fn); // deduction always decays: not applicable
                } else {
                    auto* p = new (slot) lib::scope_exit{std::move(fn)}; // class template argument deduction
                    static_assert(std::is_same_v<decltype(p), SE*>, "deduction guide must yield scope_exit<decay_t<F>>");
                }
            }
            live[gi] = true;
            return true;
        }
        if (op == "release") { se(gi).release(); return true; }
        if (op == "move_ctor") { new (slot) SE(std::move(se(si))); live[gi] = true; return true; }
        if (op == "dtor") { se(gi).~SE(); live[gi] = false; return true; }
        if (op == "block") {
            {
                using E = std::conditional_t<byref, SE, decltype(lib::scope_exit{Make<Fn>::make(f)})>;
                E e1{Make<Fn>::make(f)};
                E e2{Make<Fn>::make(f2)};
                if (x.value("r1", false)) { e1.release(); }
                if (x.value("r2", false)) { e2.release(); }
            }
            return true;
        }
        return false;
    }

    void step(json const& ln)
    {
        std::string op = ln["op"].get<std::string>();
        std::string g  = ln["g"].get<std::string>();
        g_invoked.clear();
        g_copies = g_moves = 0;
        bool known         = apply(op, gidx(g), ln["x"]);
        if (!known) {
            std::fprintf(stderr, "UNSUPPORTED %s %s\n", IMPL, op.c_str());
            ++nskip;
            broken = true;
            return;
        }
        hist.push_back(op + ":" + g);
        if (hist.size() > 8) { hist.erase(hist.begin()); } // the last calls of the script, for the human reader of a replay file
        json ev;
        ev["op"]  = op;
        ev["g"]   = g;
        ev["x"]   = ln["x"];
        ev["inv"] = g_invoked;
        json fl   = json::array();
        for (int i = 1; i <= nf; ++i) { fl.push_back(g_flive[i]); }
        ev["fl"]   = fl;
        ev["cp"]   = g_copies;
        ev["mv"]   = g_moves;
        ev["kind"] = kind;
        ev["hist"] = hist;
        ev["inst"] = std::string(IMPL) + "_" + kind;
        vh::emit(ev);
        ++nev;
    }

    void replay(std::vector<json> const& script)
    {
        for (auto const& ln : script) {
            if (ln.contains("reset")) {
                reset();
                broken  = false;
                json nm = json::array();
                for (int i = 0; i < ng; ++i) { nm.push_back("g" + std::to_string(i + 1)); }
                vh::emit(json{{"op", "reset"}});
                vh::emit(json{{"op", "begin"}, {"names", nm}, {"nf", nf}});
                continue;
            }
            if (broken) { continue; }
            step(ln);
        }
    }
};

template <typename Fn>
int run(std::string const& kind, int ng, int nf, char const* script)
{
    Runner<Fn> r(kind, ng, nf);
    r.replay(vh::read_ndjson(script));
    std::fprintf(stderr, "SUMMARY impl=%s kind=%s events=%ld unsupported=%ld\n", IMPL, kind.c_str(), r.nev, r.nskip);
    return 0;
}
} // namespace

int main(int argc, char** argv)
{
    if (argc < 6 || std::string(argv[1]) != "replay") {
        std::fprintf(stderr, "usage: scope_driver replay <functor|fptr|fref> <nguards> <nf> <script>\n");
        return 2;
    }
    std::string kind = argv[2];
    int ng = std::atoi(argv[3]), nf = std::atoi(argv[4]);
    if (ng < 1 || ng > MAXG || nf < 1 || nf > MAXF) { return 2; }
    if (kind == "functor") { return run<F>(kind, ng, nf, argv[5]); }
    if (kind == "fptr") { return run<FP>(kind, ng, nf, argv[5]); }
#if SCOPE_FREF
    if (kind == "fref") { return run<F&>(kind, ng, nf, argv[5]); }
#endif
    return 2;
}
