"""C19 - multidimensional and contiguous views address exactly the elements they span."""
from pipes import md


def run(tier, rep):
    md.pipeline(tier, rep)
    rep.assumptions += [
        "extents of rank 0-3 with each extent 0..3 (quick) / rank 0-4 with each extent 0..4 (thorough); static extents "
        "from {0,1,2,3}; every static/dynamic pattern for rank <= 3 with index type int, a sample of patterns for rank 4 "
        "and for the index types int8..uint64",
        "stride vectors: every permutation of the dimensions, tight and padded by one element per level (unique mappings only)",
        "span lengths 0..6, every (offset, count) pair, run-time and template forms, static and dynamic source extent",
        "element type int; addresses are observed relative to data() / data_handle() / container_data()",
        "submdspan_extents only with full_extent and single-index slices (the only slice kinds that instantiate)",
        "libstdc++ 12 has no <mdspan>: the specification is calibrated against std::span and the plain nested-loop reference "
        "of harness/md_ref.hpp",
    ]
