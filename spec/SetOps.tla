--------------------------- MODULE SetOps ---------------------------
(* Constant-free meaning of every operation of the ordered-set family (static_set, flat_set,       *)
(* flat_multiset), written as the std::set / std::flat_set / std::flat_multiset clause over the      *)
(* mathematical set of keys.  Used by Set.tla (state machine: model checked + behaviours exported)   *)
(* and by SetTrace.tla (judging executions recorded from the real templates).                        *)
(*                                                                                                   *)
(* A state s is a record [a |-> Seq(Int), b |-> Seq(Int)]: the two objects of a history, each as the *)
(* sequence its iteration yields.  For a set that sequence is *the* strictly ascending arrangement   *)
(* of its key set under the comparator kind cmp \in {"less", "greater", "transparent"}               *)
(* ("transparent" = less<void>: same order as "less", additionally heterogeneous lookup).            *)
(* A call is (op, o, x): operation, target object, uniform argument record                           *)
(*     x = [v, p, q, xs, src]  (key, position/hint, second position, key sequence, other object).    *)
(* kind \in {"sset", "fset", "fmset"} names the API surface (static_set, flat_set, flat_multiset);    *)
(* the only semantic difference: inserting a NEW key into a FULL static_set is defined (reports       *)
(* failure, set unchanged) while for flat_set it is outside the property ("as long as capacity is     *)
(* not exceeded").                                                                                    *)
(* Positions are 0-based iterator offsets from begin(); end() is Len.  ret = [i |-> offset, n |->     *)
(* inserted flag / erased count]; unused components are 0.  out = container handed out by extract.    *)
EXTENDS Naturals, Integers, Sequences, FiniteSets

\* ---- order ---------------------------------------------------------------------------------------
Lt(cmp, x, y) == IF cmp = "greater" THEN x > y ELSE x < y
Equiv(cmp, x, y) == ~Lt(cmp, x, y) /\ ~Lt(cmp, y, x)

Elems(q) == {q[i] : i \in 1..Len(q)}
StrictAsc(cmp, q) == \A i \in 1..Len(q) : \A j \in (i + 1)..Len(q) : Lt(cmp, q[i], q[j])
WeakAsc(cmp, q) == \A i \in 1..Len(q) : \A j \in (i + 1)..Len(q) : ~Lt(cmp, q[j], q[i])
Occ(q, v) == Cardinality({i \in 1..Len(q) : q[i] = v})
SameBag(q, t) == Len(q) = Len(t) /\ \A v \in Elems(q) \cup Elems(t) : Occ(q, v) = Occ(t, v)
Rev(s) == [i \in 1..Len(s) |-> s[Len(s) + 1 - i]]
Cut(s, p, q) == SubSeq(s, 1, p) \o SubSeq(s, q + 1, Len(s))

\* iteration order of the key set S -- declarative: the i-th element has exactly i-1 predecessors
SeqOf(cmp, S) ==
    [i \in 1..Cardinality(S) |-> CHOOSE x \in S : Cardinality({y \in S : Lt(cmp, y, x)}) = i - 1]

\* the same operationally (repeated extraction of the minimum); Set.tla checks both agree
RECURSIVE SortRec(_, _)
SortRec(cmp, S) ==
    IF S = {} THEN <<>>
    ELSE LET m == CHOOSE x \in S : \A y \in S : ~Lt(cmp, y, x) IN <<m>> \o SortRec(cmp, S \ {m})

\* multiset: insertion sort of a sequence (deterministic for integers); the *relation* a
\* flat_multiset has to satisfy is SortedPerm below
InsAsc(cmp, q, v) ==
    LET k == Cardinality({i \in 1..Len(q) : ~Lt(cmp, v, q[i])}) IN SubSeq(q, 1, k) \o <<v>> \o SubSeq(q, k + 1, Len(q))
RECURSIVE SortBag(_, _)
SortBag(cmp, xs) == IF xs = <<>> THEN <<>> ELSE InsAsc(cmp, SortBag(cmp, Tail(xs)), Head(xs))
SortedPerm(cmp, xs, t) == WeakAsc(cmp, t) /\ SameBag(xs, t)

\* ---- lookups on an ascending sequence q ------------------------------------------------------------
\* declarative (counting) ...
LB(cmp, q, k) == Cardinality({i \in 1..Len(q) : Lt(cmp, q[i], k)})        \* first element not less than k
UB(cmp, q, k) == Cardinality({i \in 1..Len(q) : ~Lt(cmp, k, q[i])})       \* first element greater than k
Has(cmp, q, k) == \E i \in 1..Len(q) : Equiv(cmp, q[i], k)
FindIdx(cmp, q, k) == IF Has(cmp, q, k) THEN (CHOOSE i \in 1..Len(q) : Equiv(cmp, q[i], k)) - 1 ELSE Len(q)
\* ... and operational (first position whose element fails the test); Set.tla checks both agree
LBop(cmp, q, k) ==
    CHOOSE i \in 0..Len(q) : (i = Len(q) \/ ~Lt(cmp, q[i + 1], k)) /\ \A j \in 1..i : Lt(cmp, q[j], k)
UBop(cmp, q, k) ==
    CHOOSE i \in 0..Len(q) : (i = Len(q) \/ Lt(cmp, k, q[i + 1])) /\ \A j \in 1..i : ~Lt(cmp, k, q[j])

\* ---- operation classes -----------------------------------------------------------------------------
InsOps == {"insert_copy", "insert_move", "emplace"}                      \* -> (iterator, bool)
HintOps == {"insert_hint_copy", "insert_hint_move", "emplace_hint"}      \* -> iterator
ErasePosOps == {"erase_pos", "erase_cpos"}                               \* erase(iterator) / erase(const_iterator)
SwapOps == {"swap", "fswap"}
CtorSetOps == {"ctor_default", "ctor_range", "ctor_cont", "ctor_su_cont", "ctor_su_range"}
MsOps == {"ms_ctor_default", "ms_ctor_cont", "ms_ctor_sorted"}
CopyOps == {"copy_assign", "ctor_copy"}                                  \* o = src ; new (o) V(src)
MoveOps == {"move_assign", "ctor_move"}                                  \* o = move(src) ; new (o) V(move(src))
EraseIfOps == {"erase_if_odd", "erase_if_eq"}                            \* free erase_if(o, pred) -> erased count
AllOps == InsOps \cup HintOps \cup ErasePosOps \cup SwapOps \cup CtorSetOps \cup MsOps \cup CopyOps \cup MoveOps \cup EraseIfOps \cup
          {"insert_range", "insert_su_range", "erase_key", "erase_range", "clear", "extract", "replace"}

\* Moved-from objects (mv = set of object names): "valid but unspecified".  Such an object only has to stay
\* within capacity; it must accept clear, assignment and re-construction with their normal meaning (the
\* reviving operations, whose effect does not depend on the old contents) and insert (whose result is then
\* unspecified as well, so only the capacity bound is demanded of it).
RevivingOps == {"clear", "replace"} \cup CopyOps \cup MoveOps \cup CtorSetOps \cup MsOps
MvAfter(op, o, x, mv) ==
    IF op \in MoveOps THEN (mv \ {o}) \cup {x.src} ELSE IF op \in RevivingOps THEN mv \ {o} ELSE mv
Odd(v) == v % 2 = 1
EraseIfPred(op, x, v) == IF op = "erase_if_odd" THEN Odd(v) ELSE v = x.v
\* relational operators between two sets: lexicographic comparison of the iteration sequences with the
\* element's own operator< / operator== ([container.requirements]; the set's comparator is not used)
LexLess(q, t) ==
    \E k \in 0..(IF Len(q) < Len(t) THEN Len(q) ELSE Len(t)) :
        /\ \A i \in 1..k : q[i] = t[i]
        /\ \/ k = Len(q) /\ k < Len(t)
           \/ k < Len(q) /\ k < Len(t) /\ q[k + 1] < t[k + 1]

\* a state the family can be in: what the property calls "sorted and unique" (weakly sorted for the multiset)
ObjOK(kind, cmp, cap, e) == Len(e) <= cap /\ IF kind = "fmset" THEN WeakAsc(cmp, e) ELSE StrictAsc(cmp, e)
StateOK(kind, cmp, cap, s) == ObjOK(kind, cmp, cap, s.a) /\ ObjOK(kind, cmp, cap, s.b)
StateOKmv(kind, cmp, cap, s, mv) ==
    \A p \in {"a", "b"} : IF p \in mv THEN Len(s[p]) <= cap ELSE ObjOK(kind, cmp, cap, s[p])

\* inserting a new key into a full set
FullNew(e, cap, v) == Len(e) >= cap /\ v \notin Elems(e)

\* ---- precondition: the call is inside the domain the property quantifies over ----------------------
Pre(op, o, x, s, cap, cmp, kind, mv) ==
    LET e == s[o] n == Len(s[o]) IN
    /\ o \in mv => (op \in RevivingOps \/ (op = "insert_copy" /\ (kind = "sset" \/ n < cap)))
    /\ op \in CopyOps \cup MoveOps => (x.src # o /\ x.src \notin mv)
    /\ op \in SwapOps => x.src \notin mv
    /\ (o \in mv /\ op = "insert_copy") \/
       (CASE op \in InsOps -> kind = "sset" \/ ~FullNew(e, cap, x.v)
         [] op \in HintOps -> x.p \in 0..n /\ ~FullNew(e, cap, x.v)
         [] op = "insert_range" -> Cardinality(Elems(e) \cup Elems(x.xs)) <= cap
         [] op = "insert_su_range" -> Cardinality(Elems(e) \cup Elems(x.xs)) <= cap /\ StrictAsc(cmp, x.xs)
         [] op \in ErasePosOps -> x.p \in 0..(n - 1)
         [] op = "erase_range" -> x.p \in 0..n /\ x.q \in x.p..n
         [] op \in {"replace", "ctor_su_cont", "ctor_su_range"} -> Len(x.xs) <= cap /\ StrictAsc(cmp, x.xs)
         [] op \in {"ctor_range", "ctor_cont", "ms_ctor_cont"} -> Len(x.xs) <= cap
         [] op = "ms_ctor_sorted" -> Len(x.xs) <= cap /\ WeakAsc(cmp, x.xs)
         [] OTHER -> op \in AllOps)

\* ---- effect on the target object, return value, container handed out -------------------------------
Tgt(op, o, x, s, cap, cmp) ==
    LET e == s[o] n == Len(s[o]) K == Elems(s[o])
        R(i, k) == [i |-> i, n |-> k]
        T(els, ret) == [els |-> els, ret |-> ret, out |-> <<>>]
        plus == SeqOf(cmp, K \cup {x.v})
    IN
    CASE op \in InsOps ->
            IF x.v \in K THEN T(e, R(FindIdx(cmp, e, x.v), 0))          \* present: iterator to it, false
            ELSE IF n >= cap THEN T(e, R(-1, 0))                        \* full static_set: failure, unchanged
            ELSE T(plus, R(FindIdx(cmp, plus, x.v), 1))
      [] op \in HintOps ->
            IF x.v \in K THEN T(e, R(FindIdx(cmp, e, x.v), 0)) ELSE T(plus, R(FindIdx(cmp, plus, x.v), 0))
      [] op \in {"insert_range", "insert_su_range"} -> T(SeqOf(cmp, K \cup Elems(x.xs)), R(0, 0))
      [] op = "erase_key" -> T(SeqOf(cmp, K \ {x.v}), R(0, IF x.v \in K THEN 1 ELSE 0))
      [] op \in ErasePosOps -> T(Cut(e, x.p, x.p + 1), R(x.p, 0))
      [] op = "erase_range" -> T(Cut(e, x.p, x.q), R(x.p, 0))
      [] op \in {"clear", "ctor_default", "ms_ctor_default"} -> T(<<>>, R(0, 0))
      [] op \in SwapOps \cup CopyOps \cup MoveOps -> T(s[x.src], R(0, 0))
      [] op \in EraseIfOps -> T(SelectSeq(e, LAMBDA v : ~EraseIfPred(op, x, v)),
                                R(0, Cardinality({i \in 1..n : EraseIfPred(op, x, e[i])})))
      [] op = "extract" -> [els |-> <<>>, ret |-> R(0, 0), out |-> e]
      [] op \in {"replace", "ctor_su_cont", "ctor_su_range", "ms_ctor_sorted"} -> T(x.xs, R(0, 0))
      [] op \in {"ctor_range", "ctor_cont"} -> T(SeqOf(cmp, Elems(x.xs)), R(0, 0))
      [] op = "ms_ctor_cont" -> T(SortBag(cmp, x.xs), R(0, 0))

Eff(op, o, x, s, cap, cmp) ==
    LET t == Tgt(op, o, x, s, cap, cmp) IN
    [st |-> IF op \in SwapOps /\ x.src # o THEN [s EXCEPT ![o] = s[x.src], ![x.src] = s[o]]
            ELSE [s EXCEPT ![o] = t.els],
     ret |-> t.ret, out |-> t.out]

\* the relation a recorded (post, ret, out) has to satisfy: the state part ...
PostState(op, o, x, s, cap, cmp, t, mv) ==
    IF op = "ms_ctor_cont"
    THEN SortedPerm(cmp, x.xs, t[o]) /\ \A p \in {"a", "b"} \ {o} : t[p] = s[p]
    ELSE IF o \in mv /\ op = "insert_copy"                    \* insert into a moved-from set: unspecified, but valid
    THEN Len(t[o]) <= cap /\ \A p \in {"a", "b"} \ {o} : t[p] = s[p]
    ELSE IF op \in MoveOps                                    \* the source is left valid but unspecified
    THEN t[o] = s[x.src] /\ Len(t[x.src]) <= cap
    ELSE t = Eff(op, o, x, s, cap, cmp).st
\* ... and the returned iterator / flag / count / container
PostRet(op, o, x, s, cap, cmp, r, out, mv) ==
    LET ef == Eff(op, o, x, s, cap, cmp) IN
    (o \in mv /\ op = "insert_copy") \/
    /\ IF op \in InsOps /\ FullNew(s[o], cap, x.v)
       THEN r.n = 0                      \* "reports failure": which iterator accompanies it is left open
       ELSE r = ef.ret
    /\ out = ef.out
Post(op, o, x, s, cap, cmp, t, r, out, mv) ==
    PostState(op, o, x, s, cap, cmp, t, mv) /\ PostRet(op, o, x, s, cap, cmp, r, out, mv)

\* ---- observers: functions of the abstract contents only --------------------------------------------
\* Observer groups (a deviation names the group, so that a known defect in one group cannot hide another):
\*   size  : size empty full max_size            iter  : begin..end, cbegin..cend, rbegin..rend, crbegin..crend
\*   find  : find contains count (key_type)      bound : lower_bound upper_bound equal_range (key_type)
\*   hfind / hbound : the same through the heterogeneous overloads of a transparent comparator
ObsGroups == <<"size", "iter", "find", "bound", "hfind", "hbound">>

\* one lookup record r for probe key r.k (fields of overloads the instantiation lacks are absent)
FindOK(r, e, cmp) ==
    LET f == FindIdx(cmp, e, r.k) IN
    /\ "f" \in DOMAIN r => r.f = f
    /\ "cf" \in DOMAIN r => r.cf = f
    /\ "has" \in DOMAIN r => r.has = Has(cmp, e, r.k)
    /\ "cnt" \in DOMAIN r => r.cnt = (IF Has(cmp, e, r.k) THEN 1 ELSE 0)
BoundOK(r, e, cmp) ==
    LET lb == LB(cmp, e, r.k) ub == UB(cmp, e, r.k) IN
    /\ "lb" \in DOMAIN r => r.lb = lb
    /\ "clb" \in DOMAIN r => r.clb = lb
    /\ "ub" \in DOMAIN r => r.ub = ub
    /\ "cub" \in DOMAIN r => r.cub = ub
    /\ "er" \in DOMAIN r => r.er = <<lb, ub>>
    /\ "cer" \in DOMAIN r => r.cer = <<lb, ub>>
\* every key of the universe was probed, and every answer passes T
Probed(lk, univ, T(_)) ==
    /\ {lk[j].k : j \in 1..Len(lk)} = {univ[j] : j \in 1..Len(univ)}
    /\ \A j \in 1..Len(lk) : T(lk[j])

ObsGroupOne(g, ob, e, cmp, cap, univ) ==
    CASE g = "size" -> /\ ob.size = Len(e)
                       /\ ob.empty = (Len(e) = 0)
                       /\ "full" \in DOMAIN ob => ob.full = (Len(e) = cap)
                       /\ "maxsize" \in DOMAIN ob => ob.maxsize = cap
      [] g = "iter" -> ob.fwd = e /\ ob.cfwd = e /\ ob.rev = Rev(e) /\ ob.crev = Rev(e)
      [] g = "find" -> "lk" \in DOMAIN ob => Probed(ob.lk, univ, LAMBDA r : FindOK(r, e, cmp))
      [] g = "bound" -> "lk" \in DOMAIN ob => Probed(ob.lk, univ, LAMBDA r : BoundOK(r, e, cmp))
      [] g = "hfind" -> "hlk" \in DOMAIN ob => Probed(ob.hlk, univ, LAMBDA r : FindOK(r, e, cmp))
      [] g = "hbound" -> "hlk" \in DOMAIN ob => Probed(ob.hlk, univ, LAMBDA r : BoundOK(r, e, cmp))

\* lookups are defined on sorted contents: they are not judged on a moved-from object
LookupGroups == {"find", "bound", "hfind", "hbound"}
ObsGroupOK(g, obs, t, cmp, cap, univ, mv) ==
    \A p \in {"a", "b"} : (g \in LookupGroups /\ p \in mv) \/ ObsGroupOne(g, obs[p], t[p], cmp, cap, univ)

\* obs.cmp = <<a == b, a != b, a < b, a <= b, a > b, a >= b>> (only the operators the type declares: rel names them)
RelOK(obs, t) ==
    "rel" \in DOMAIN obs =>
        \A j \in 1..Len(obs.rel) :
            LET r == obs.rel[j] IN
            r.v = CASE r.op = "eq" -> t.a = t.b
                    [] r.op = "ne" -> t.a # t.b
                    [] r.op = "lt" -> LexLess(t.a, t.b)
                    [] r.op = "le" -> ~LexLess(t.b, t.a)
                    [] r.op = "gt" -> LexLess(t.b, t.a)
                    [] r.op = "ge" -> ~LexLess(t.a, t.b)

\* the groups that deviate (sequence of "obs-<group>")
ObsBad(obs, t, cmp, cap, univ, mv) ==
    LET bad == SelectSeq(ObsGroups, LAMBDA g : ~ObsGroupOK(g, obs, t, cmp, cap, univ, mv)) IN
    [j \in 1..Len(bad) |-> "obs-" \o bad[j]] \o (IF RelOK(obs, t) THEN <<>> ELSE <<"obs-rel">>)

\* what the observers should have answered (for deviation reports)
LkExp(e, cmp, k) ==
    [k |-> k, f |-> FindIdx(cmp, e, k), has |-> Has(cmp, e, k), lb |-> LB(cmp, e, k), ub |-> UB(cmp, e, k)]
=========================================================================
