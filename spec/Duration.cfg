SPECIFICATION Spec
CONSTANTS
  K = 32
  KB = 8
  C2Pos = {3}
  C2Neg = {7}
  KM = 8
  KF = 7
  ScalPos = {0, 1, 2, 1000}
  ScalNeg = {1, 7}
INVARIANTS EmitInv Laws
CHECK_DEADLOCK FALSE
