--------------------------- MODULE BitsetOps ---------------------------
(* Constant-free meaning of every operation of a fixed-width bit set, written as the std::bitset     *)
(* clause ([template.bitset]) over sequences of 0/1.  Used by Bitset.tla (state machine: model        *)
(* checked + behaviours exported) and BitsetTrace.tla (judging executions recorded from etl::bitset    *)
(* and etl::basic_bitset).                                                                              *)
(*                                                                                                      *)
(* A state s is [a |-> bits, b |-> bits]: two objects of width n; bits[i + 1] is bit i (bit 0 first).    *)
(* Nothing but these n bits is state: "unused high bits of the last storage word never influence any     *)
(* result" is the statement that every observer below is a function of s alone.                          *)
(* A call is (op, o, x) with the uniform argument record                                                 *)
(*   x = [p, q, v, src, src2, val, str, pos, cnt, zero, one]                                             *)
(*   p, q positions; v a bit; src/src2 objects; val an unsigned long long as four 16-bit limbs (least    *)
(*   significant first: TLC integers are 32-bit); str a string as character codes; pos/cnt the            *)
(*   substring (cnt = -1 is npos); zero/one the characters standing for 0 and 1.                           *)
EXTENDS Naturals, Integers, Sequences, FiniteSets

Zero(n) == [i \in 1..n |-> 0]
Ones(n) == [i \in 1..n |-> 1]
Flip(s) == [i \in 1..Len(s) |-> 1 - s[i]]
And(s, t) == [i \in 1..Len(s) |-> IF s[i] = 1 /\ t[i] = 1 THEN 1 ELSE 0]
Or(s, t) == [i \in 1..Len(s) |-> IF s[i] = 1 \/ t[i] = 1 THEN 1 ELSE 0]
Xor(s, t) == [i \in 1..Len(s) |-> IF s[i] # t[i] THEN 1 ELSE 0]
Count(s) == Cardinality({i \in 1..Len(s) : s[i] = 1})

\* ---- unsigned long long <-> bits (limbs of 16 bits) -------------------------------------------------
LimbBit(l, j) == (l \div (2 ^ j)) % 2
FromLimbs(n, val) == [i \in 1..n |-> IF i <= 64 THEN LimbBit(val[((i - 1) \div 16) + 1], (i - 1) % 16) ELSE 0]
LimbOf(s, k) ==          \* value of bits 16(k-1) .. 16(k-1)+15 (bits beyond the width are 0)
    LET B(j) == IF 16 * (k - 1) + j + 1 <= Len(s) THEN s[16 * (k - 1) + j + 1] ELSE 0 IN
    B(0) + 2 * B(1) + 4 * B(2) + 8 * B(3) + 16 * B(4) + 32 * B(5) + 64 * B(6) + 128 * B(7) + 256 * B(8)
    + 512 * B(9) + 1024 * B(10) + 2048 * B(11) + 4096 * B(12) + 8192 * B(13) + 16384 * B(14) + 32768 * B(15)
ToLimbs(s) == [k \in 1..4 |-> LimbOf(s, k)]

\* ---- strings ([bitset.cons]): of the M = rlen characters used, the LAST one is bit 0 ----------------
RLen(str, pos, cnt) == IF cnt < 0 \/ cnt > Len(str) - pos THEN Len(str) - pos ELSE cnt
FromStr(n, str, pos, cnt, zero, one) ==
    LET m == RLen(str, pos, cnt) IN
    [i \in 1..n |-> IF i <= m /\ str[pos + m - i + 1] = one THEN 1 ELSE 0]
ToStr(s, zero, one) == [i \in 1..Len(s) |-> IF s[Len(s) + 1 - i] = 1 THEN one ELSE zero]

\* ---- operation classes ---------------------------------------------------------------------------
WholeOps == {"set_all", "reset_all", "flip_all"}
BitOps == {"set_one", "set_one1", "reset_one", "flip_one", "ref_assign", "ref_flip"}       \* one position p
AssignOps == {"and_assign", "or_assign", "xor_assign", "copy_assign", "assign_not"}         \* o OP= src ; o = ~src
BinOps == {"bin_and", "bin_or", "bin_xor"}                                                  \* o = src OP src2
SvOps == {"ctor_sv1", "ctor_sv2", "ctor_sv3", "ctor_sv5"}          \* string_view: (str) (str,pos) (str,pos,n) (+zero,one)
CstrOps == {"ctor_cstr1", "ctor_cstr2", "ctor_cstr4"}              \* char const*: (str) (str,n) (str,n,zero,one)
StrOps == SvOps \cup CstrOps
AllOps == WholeOps \cup BitOps \cup AssignOps \cup BinOps \cup StrOps \cup {"ref_copy", "ctor_default", "ctor_ull"}

\* arguments after filling in the defaults of the shorter overloads
Norm(op, x) ==
    CASE op \in {"ctor_sv1", "ctor_cstr1"} -> [x EXCEPT !.pos = 0, !.cnt = -1, !.zero = 48, !.one = 49]
      [] op = "ctor_sv2" -> [x EXCEPT !.cnt = -1, !.zero = 48, !.one = 49]
      [] op = "ctor_sv3" -> [x EXCEPT !.zero = 48, !.one = 49]
      [] op = "ctor_cstr2" -> [x EXCEPT !.pos = 0, !.zero = 48, !.one = 49]
      [] op = "ctor_cstr4" -> [x EXCEPT !.pos = 0]
      [] OTHER -> x

\* ---- precondition: the call is inside the domain on which std::bitset returns normally and etl       *)
\* declares no contract violation                                                                        *)
Pre(op, o, x0, s, n) ==
    LET x == Norm(op, x0) IN
    CASE op \in BitOps -> x.p \in 0..(n - 1) /\ x.v \in {0, 1}
      [] op = "ref_copy" -> x.p \in 0..(n - 1) /\ x.q \in 0..(n - 1)
      [] op = "ctor_ull" -> Len(x.val) = 4 /\ \A k \in 1..4 : x.val[k] \in 0..65535
      [] op \in StrOps ->
            /\ x.pos \in 0..Len(x.str)                                  \* std: pos > size throws out_of_range
            /\ x.zero # x.one
            /\ RLen(x.str, x.pos, x.cnt) <= n                           \* etl: documented precondition len <= size()
            /\ \A i \in (x.pos + 1)..(x.pos + RLen(x.str, x.pos, x.cnt)) : x.str[i] \in {x.zero, x.one}   \* else invalid_argument
            /\ op \in CstrOps => (x.cnt <= Len(x.str) /\ \A i \in 1..Len(x.str) : x.str[i] # 0)            \* a C string
      [] OTHER -> op \in AllOps

\* ---- effect on the target object ---------------------------------------------------------------------
SetBit(e, p, v) == [e EXCEPT ![p + 1] = v]
Tgt(op, o, x0, s, n) ==
    LET e == s[o] x == Norm(op, x0) IN
    CASE op = "set_all" -> Ones(n)
      [] op = "reset_all" -> Zero(n)
      [] op = "flip_all" -> Flip(e)
      [] op \in {"set_one", "ref_assign"} -> SetBit(e, x.p, x.v)
      [] op = "set_one1" -> SetBit(e, x.p, 1)
      [] op = "reset_one" -> SetBit(e, x.p, 0)
      [] op \in {"flip_one", "ref_flip"} -> SetBit(e, x.p, 1 - e[x.p + 1])
      [] op = "ref_copy" -> SetBit(e, x.p, s[x.src][x.q + 1])
      [] op = "and_assign" -> And(e, s[x.src])
      [] op = "or_assign" -> Or(e, s[x.src])
      [] op = "xor_assign" -> Xor(e, s[x.src])
      [] op = "copy_assign" -> s[x.src]
      [] op = "assign_not" -> Flip(s[x.src])
      [] op = "bin_and" -> And(s[x.src], s[x.src2])
      [] op = "bin_or" -> Or(s[x.src], s[x.src2])
      [] op = "bin_xor" -> Xor(s[x.src], s[x.src2])
      [] op = "ctor_default" -> Zero(n)
      [] op = "ctor_ull" -> FromLimbs(n, x.val)
      [] op \in StrOps -> FromStr(n, x.str, x.pos, x.cnt, x.zero, x.one)

Eff(op, o, x, s, n) == [s EXCEPT ![o] = Tgt(op, o, x, s, n)]

\* the relation a recorded post-state has to satisfy (every operation is deterministic)
Post(op, o, x, s, n, t) == t = Eff(op, o, x, s, n)

\* ---- observers: functions of the n bits only -----------------------------------------------------------
ObsGroups == <<"bits", "count", "conv", "str">>
B2(b) == IF b THEN 1 ELSE 0
ObsOne(g, ob, e) ==
    LET n == Len(e) IN
    CASE g = "bits" -> /\ ob.size = n
                       /\ "test" \in DOMAIN ob => ob.test = e                 \* test(i) for every i
                       /\ ob.idx = e                                          \* const operator[]
                       /\ ob.ref = e                                          \* bool(b[i]) through the proxy
                       /\ ob.rnot = Flip(e)                                   \* ~b[i] through the proxy
      [] g = "count" -> /\ ob.count = Count(e)
                        /\ ob.all = (Count(e) = n)
                        /\ ob.any = (Count(e) > 0)
                        /\ ob.none = (Count(e) = 0)
      [] g = "conv" -> /\ "ul" \in DOMAIN ob => ob.ul = ToLimbs(e)            \* to_ulong (offered for n <= 64)
                       /\ "ull" \in DOMAIN ob => ob.ull = ToLimbs(e)          \* to_ullong
      [] g = "str" -> /\ "str" \in DOMAIN ob => ob.str = ToStr(e, 48, 49)     \* to_string()
                      /\ "strz" \in DOMAIN ob => ob.strz = ToStr(e, 42, 49)   \* to_string('*')
                      /\ "strc" \in DOMAIN ob => ob.strc = ToStr(e, 79, 88)   \* to_string('O', 'X')

ObsBad(obs, t) ==
    LET bad == SelectSeq(ObsGroups, LAMBDA g : ~(ObsOne(g, obs.a, t.a) /\ ObsOne(g, obs.b, t.b)))
        rel == IF obs.eq = (t.a = t.b) /\ obs.ne = (t.a # t.b) THEN <<>> ELSE <<"obs-eq">>
    IN [j \in 1..Len(bad) |-> "obs-" \o bad[j]] \o rel

ObsExp(e) == [count |-> Count(e), ull |-> ToLimbs(e), str |-> ToStr(e, 48, 49)]
=========================================================================
