// Constant-evaluation path of the Float driver (included by float_driver.cpp when -DVH_CT=<group>).
// Every (function, input) pair is evaluated by the COMPILER: the call sits in a stateless functor whose result
// initialises a constexpr variable.  Whether the call is a constant expression at all is detected per input with
// SFINAE (is_ce), so one rejected input costs one "nc" (not-constant) event instead of the build.  The libm column
// is computed at run time on the same input.  GENERATED ONCE by hand-run script; edit the lists below together.
#pragma once
#include "float_ct_inputs.hpp"

namespace {

template <class K, int = (K {}(), 0)>
constexpr bool is_ce(int)
{
    return true;
}
template <class K>
constexpr bool is_ce(long)
{
    return false;
}

template <class Fn, class T, std::size_t I>
struct CtCall1 {
    constexpr auto operator()() const { return Fn {}(ct_in<T>.v[I]); }
};
template <class Fn, class T, std::size_t I, std::size_t J>
struct CtCall2 {
    constexpr auto operator()() const { return Fn {}(ct_gr<T>.v[I], ct_gr<T>.v[J]); }
};

void nc_mark() { out.buf.insert(out.buf.size() - 2, ",\"nc\":1"); } // before the closing brace of the last event

template <class Fn, class T, std::size_t I>
void ct_one1()
{
    using K    = CtCall1<Fn, T, I>;
    T const x  = ct_in<T>.v[I];
    auto const c = Fn {}.lib(launder(x));
    if constexpr (is_ce<K>(0)) {
        constexpr auto r = K {}();
        ev1<T>(Fn::name, x, r, c);
    } else {
#ifndef VH_STD
        ev1<T>(Fn::name, x, decltype(K {}()) {}, c);
        nc_mark();
#endif
    }
}
template <class Fn, class T, std::size_t... I>
void ct_all1(std::index_sequence<I...>)
{
    (ct_one1<Fn, T, I>(), ...);
}
template <class Fn>
void ct_unary()
{
    ct_all1<Fn, float>(std::make_index_sequence<ct_in<float>.n> {});
    ct_all1<Fn, double>(std::make_index_sequence<ct_in<double>.n> {});
}

template <class Fn, class T, std::size_t I, std::size_t J>
void ct_one2()
{
    using K    = CtCall2<Fn, T, I, J>;
    T const x  = ct_gr<T>.v[I];
    T const y  = ct_gr<T>.v[J];
    auto const c = Fn {}.lib(launder(x), launder(y));
    if constexpr (is_ce<K>(0)) {
        constexpr auto r = K {}();
        ev2<T>(Fn::name, x, y, r, c);
    } else {
#ifndef VH_STD
        ev2<T>(Fn::name, x, y, decltype(K {}()) {}, c);
        nc_mark();
#endif
    }
}
template <class Fn, class T, std::size_t I, std::size_t... J>
void ct_row2(std::index_sequence<J...>)
{
    (ct_one2<Fn, T, I, J>(), ...);
}
template <class Fn, class T, std::size_t... I>
void ct_all2(std::index_sequence<I...>)
{
    (ct_row2<Fn, T, I>(std::make_index_sequence<ct_gr<T>.n> {}), ...);
}
template <class Fn>
void ct_binary()
{
    ct_all2<Fn, float>(std::make_index_sequence<ct_gr<float>.n> {});
    ct_all2<Fn, double>(std::make_index_sequence<ct_gr<double>.n> {});
}

#define CT1(NAME)                                                                                                                      \
    struct CtF_##NAME {                                                                                                                \
        static constexpr char const* name = #NAME;                                                                                     \
        template <class T>                                                                                                             \
        constexpr auto operator()(T x) const                                                                                           \
        {                                                                                                                              \
            return impl::NAME(x);                                                                                                      \
        }                                                                                                                              \
        template <class T>                                                                                                             \
        auto lib(T x) const                                                                                                            \
        {                                                                                                                              \
            return std::NAME(x);                                                                                                       \
        }                                                                                                                              \
    };
#define CT2(NAME)                                                                                                                      \
    struct CtF_##NAME {                                                                                                                \
        static constexpr char const* name = #NAME;                                                                                     \
        template <class T>                                                                                                             \
        constexpr auto operator()(T x, T y) const                                                                                      \
        {                                                                                                                              \
            return impl::NAME(x, y);                                                                                                   \
        }                                                                                                                              \
        template <class T>                                                                                                             \
        auto lib(T x, T y) const                                                                                                       \
        {                                                                                                                              \
            return std::NAME(x, y);                                                                                                    \
        }                                                                                                                              \
    };

#if VH_CT == 0
    #if VH_HAVE_floor
CT1(floor)
    #endif
    #if VH_HAVE_ceil
CT1(ceil)
    #endif
    #if VH_HAVE_trunc
CT1(trunc)
    #endif
    #if VH_HAVE_round
CT1(round)
    #endif
    #if VH_HAVE_rint
CT1(rint)
    #endif
    #if VH_HAVE_nearbyint
CT1(nearbyint)
    #endif
    #if VH_HAVE_fabs
CT1(fabs)
    #endif
    #if VH_HAVE_abs
CT1(abs)
    #endif
    #if VH_HAVE_lrint
CT1(lrint)
    #endif
    #if VH_HAVE_llrint
CT1(llrint)
    #endif
    #if VH_HAVE_lround
CT1(lround)
    #endif
    #if VH_HAVE_llround
CT1(llround)
    #endif
    #if VH_HAVE_signbit
CT1(signbit)
    #endif
    #if VH_HAVE_isnan
CT1(isnan)
    #endif
    #if VH_HAVE_isinf
CT1(isinf)
    #endif
    #if VH_HAVE_isfinite
CT1(isfinite)
    #endif
    #if VH_HAVE_isnormal
CT1(isnormal)
    #endif
#endif
#if VH_CT == 1
    #if VH_HAVE_sqrt
CT1(sqrt)
    #endif
    #if VH_HAVE_cbrt
CT1(cbrt)
    #endif
    #if VH_HAVE_exp
CT1(exp)
    #endif
    #if VH_HAVE_exp2
CT1(exp2)
    #endif
    #if VH_HAVE_expm1
CT1(expm1)
    #endif
    #if VH_HAVE_log
CT1(log)
    #endif
    #if VH_HAVE_log2
CT1(log2)
    #endif
    #if VH_HAVE_log10
CT1(log10)
    #endif
#endif
#if VH_CT == 2
    #if VH_HAVE_log1p
CT1(log1p)
    #endif
    #if VH_HAVE_sin
CT1(sin)
    #endif
    #if VH_HAVE_cos
CT1(cos)
    #endif
    #if VH_HAVE_tan
CT1(tan)
    #endif
    #if VH_HAVE_asin
CT1(asin)
    #endif
    #if VH_HAVE_acos
CT1(acos)
    #endif
    #if VH_HAVE_atan
CT1(atan)
    #endif
    #if VH_HAVE_sinh
CT1(sinh)
    #endif
#endif
#if VH_CT == 3
    #if VH_HAVE_cosh
CT1(cosh)
    #endif
    #if VH_HAVE_tanh
CT1(tanh)
    #endif
    #if VH_HAVE_asinh
CT1(asinh)
    #endif
    #if VH_HAVE_acosh
CT1(acosh)
    #endif
    #if VH_HAVE_atanh
CT1(atanh)
    #endif
    #if VH_HAVE_erf
CT1(erf)
    #endif
    #if VH_HAVE_tgamma
CT1(tgamma)
    #endif
    #if VH_HAVE_lgamma
CT1(lgamma)
    #endif
#endif
#if VH_CT == 4
    #if VH_HAVE_copysign
CT2(copysign)
    #endif
    #if VH_HAVE_fmin
CT2(fmin)
    #endif
    #if VH_HAVE_fmax
CT2(fmax)
    #endif
    #if VH_HAVE_fdim
CT2(fdim)
    #endif
    #if VH_HAVE_nextafter
CT2(nextafter)
    #endif
    #if VH_HAVE_fmod
CT2(fmod)
    #endif
    #if VH_HAVE_remainder
CT2(remainder)
    #endif
#endif
#if VH_CT == 5
    #if VH_HAVE_pow
CT2(pow)
    #endif
    #if VH_HAVE_atan2
CT2(atan2)
    #endif
    #if VH_HAVE_hypot
CT2(hypot)
    #endif
    #if VH_HAVE_midpoint
CT2(midpoint)
    #endif
#endif

void run_ct()
{
#if VH_CT == 0
    #if VH_HAVE_floor
    ct_unary<CtF_floor>();
    #endif
    #if VH_HAVE_ceil
    ct_unary<CtF_ceil>();
    #endif
    #if VH_HAVE_trunc
    ct_unary<CtF_trunc>();
    #endif
    #if VH_HAVE_round
    ct_unary<CtF_round>();
    #endif
    #if VH_HAVE_rint
    ct_unary<CtF_rint>();
    #endif
    #if VH_HAVE_nearbyint
    ct_unary<CtF_nearbyint>();
    #endif
    #if VH_HAVE_fabs
    ct_unary<CtF_fabs>();
    #endif
    #if VH_HAVE_abs
    ct_unary<CtF_abs>();
    #endif
    #if VH_HAVE_lrint
    ct_unary<CtF_lrint>();
    #endif
    #if VH_HAVE_llrint
    ct_unary<CtF_llrint>();
    #endif
    #if VH_HAVE_lround
    ct_unary<CtF_lround>();
    #endif
    #if VH_HAVE_llround
    ct_unary<CtF_llround>();
    #endif
    #if VH_HAVE_signbit
    ct_unary<CtF_signbit>();
    #endif
    #if VH_HAVE_isnan
    ct_unary<CtF_isnan>();
    #endif
    #if VH_HAVE_isinf
    ct_unary<CtF_isinf>();
    #endif
    #if VH_HAVE_isfinite
    ct_unary<CtF_isfinite>();
    #endif
    #if VH_HAVE_isnormal
    ct_unary<CtF_isnormal>();
    #endif
#endif
#if VH_CT == 1
    #if VH_HAVE_sqrt
    ct_unary<CtF_sqrt>();
    #endif
    #if VH_HAVE_cbrt
    ct_unary<CtF_cbrt>();
    #endif
    #if VH_HAVE_exp
    ct_unary<CtF_exp>();
    #endif
    #if VH_HAVE_exp2
    ct_unary<CtF_exp2>();
    #endif
    #if VH_HAVE_expm1
    ct_unary<CtF_expm1>();
    #endif
    #if VH_HAVE_log
    ct_unary<CtF_log>();
    #endif
    #if VH_HAVE_log2
    ct_unary<CtF_log2>();
    #endif
    #if VH_HAVE_log10
    ct_unary<CtF_log10>();
    #endif
#endif
#if VH_CT == 2
    #if VH_HAVE_log1p
    ct_unary<CtF_log1p>();
    #endif
    #if VH_HAVE_sin
    ct_unary<CtF_sin>();
    #endif
    #if VH_HAVE_cos
    ct_unary<CtF_cos>();
    #endif
    #if VH_HAVE_tan
    ct_unary<CtF_tan>();
    #endif
    #if VH_HAVE_asin
    ct_unary<CtF_asin>();
    #endif
    #if VH_HAVE_acos
    ct_unary<CtF_acos>();
    #endif
    #if VH_HAVE_atan
    ct_unary<CtF_atan>();
    #endif
    #if VH_HAVE_sinh
    ct_unary<CtF_sinh>();
    #endif
#endif
#if VH_CT == 3
    #if VH_HAVE_cosh
    ct_unary<CtF_cosh>();
    #endif
    #if VH_HAVE_tanh
    ct_unary<CtF_tanh>();
    #endif
    #if VH_HAVE_asinh
    ct_unary<CtF_asinh>();
    #endif
    #if VH_HAVE_acosh
    ct_unary<CtF_acosh>();
    #endif
    #if VH_HAVE_atanh
    ct_unary<CtF_atanh>();
    #endif
    #if VH_HAVE_erf
    ct_unary<CtF_erf>();
    #endif
    #if VH_HAVE_tgamma
    ct_unary<CtF_tgamma>();
    #endif
    #if VH_HAVE_lgamma
    ct_unary<CtF_lgamma>();
    #endif
#endif
#if VH_CT == 4
    #if VH_HAVE_copysign
    ct_binary<CtF_copysign>();
    #endif
    #if VH_HAVE_fmin
    ct_binary<CtF_fmin>();
    #endif
    #if VH_HAVE_fmax
    ct_binary<CtF_fmax>();
    #endif
    #if VH_HAVE_fdim
    ct_binary<CtF_fdim>();
    #endif
    #if VH_HAVE_nextafter
    ct_binary<CtF_nextafter>();
    #endif
    #if VH_HAVE_fmod
    ct_binary<CtF_fmod>();
    #endif
    #if VH_HAVE_remainder
    ct_binary<CtF_remainder>();
    #endif
#endif
#if VH_CT == 5
    #if VH_HAVE_pow
    ct_binary<CtF_pow>();
    #endif
    #if VH_HAVE_atan2
    ct_binary<CtF_atan2>();
    #endif
    #if VH_HAVE_hypot
    ct_binary<CtF_hypot>();
    #endif
    #if VH_HAVE_midpoint
    ct_binary<CtF_midpoint>();
    #endif
#endif
}

} // namespace
