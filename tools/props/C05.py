"""C05 - contract checks stop every precondition violation before it does damage."""
from pipes import vector, contract


def run(tier, rep):
    vector.contract_pipeline(tier, rep)
    contract.pipeline(tier, rep)
    rep.devs = [d for d in rep.devs if d["kind"].startswith("contract") or d["kind"] == "harness-pre"]
    rep.assumptions += ["documented preconditions are the ones spec/*Ops.tla Pre() states (transcribed from the std clause / doc comments)",
                        "violating calls run in a forked child; the handler snapshot is taken through the public observers"]
