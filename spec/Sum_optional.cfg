SPECIFICATION Spec
CONSTANTS
  Kind = "optional"
  A1 = "none"
  A2 = "int"
  A3 = ""
  A4 = ""
  SrcTypes = {"int", "bool", "shrt"}
  MixTypes = {"long", "shrt"}
VIEW View
ACTION_CONSTRAINT Emit
INVARIANTS TypeOK Canonical OrderLaws SelectLaws
PROPERTIES CopyIndependence CopyMakesEqual MoveKeepsIndex SwapExchanges PureIsPure
CHECK_DEADLOCK FALSE
