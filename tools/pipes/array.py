"""Array pipeline (extension X03): spec/Array.tla, ArrayOps.tla, ArrayTrace.tla, harness/array_driver.cpp.
etl::array<T, N> as a value sequence of fixed length N in 0..4 (T = int and the lifetime-tracked element type);
the same scripts on std::array calibrate."""
import json
import os
from collections import Counter

import vlib
from pipes import ext1
from pipes.vector import concat

# per tier: {N: Vals}
TIERS = {
    "quick": {0: (0, 1, 2), 1: (0, 1, 2), 2: (0, 1, 2), 3: (0, 1, 2), 4: (0, 1)},
    "thorough": {0: (0, 1, 2), 1: (0, 1, 2, 3), 2: (0, 1, 2, 3), 3: (0, 1, 2), 4: (0, 1, 2)},
}
ELEMS = ("int", "trk")
ALL_OPS = ["assign", "assign_partial", "to_array", "to_array_rv", "fill", "swap", "fswap", "copy_ctor", "copy_assign", "get_rv",
           "set_index", "set_data", "set_get", "set_iter", "set_sb", "set_front", "set_back", "set_riter"]
PROBES = {1: "structured bindings of array<T, N> (no std::tuple_size / std::tuple_element specialisation)"}


def _key(t, which):
    return json.dumps(t[which], sort_keys=True)


def _call(t):
    return {"op": t["op"], "o": t["o"], "x": t["x"]}


def probes():
    out = {}
    for n in PROBES:
        try:
            vlib.build("array_probe.cpp", "array_probe_%d" % n, flags=["-DPROBE=%d" % n, "-fsyntax-only"], timeout=120)
            out[n] = True
        except vlib.ModelFailure:
            out[n] = False
    return out


def model(tier, rep):
    from concurrent.futures import ThreadPoolExecutor
    T = TIERS[tier]

    def one(n):
        consts = {"NLen": str(n), "Vals": "{%s}" % ", ".join(map(str, T[n]))}
        return n, vlib.tlc_mc("Array.tla", "Array.cfg", "array_mc_%s_%d" % (tier, n), workers=2, heap="1g", constants=consts)
    with ThreadPoolExecutor(max_workers=3) as ex:
        res = dict(ex.map(one, sorted(T)))
    scripts = {}
    seen = Counter()
    for n, r in sorted(res.items()):
        name = "Array[N=%d]" % n
        rep.add_mc(name, r)
        if r["states"] != len(T[n]) ** (2 * n):        # every pair of value sequences reached
            raise vlib.ModelFailure("%s: %d states, expected %d" % (name, r["states"], len(T[n]) ** (2 * n)))
        gen = r["gen"]
        per_op = Counter(t["op"] for t in gen)
        seen.update(per_op)
        zero = json.dumps({"a": [0] * n, "b": [0] * n}, sort_keys=True)
        sc, st = vlib.plan_edges(gen, _key, lambda k: k == zero, _call, follow=lambda t: t["op"] == "assign")
        if st["unreachable"]:
            raise vlib.ModelFailure("planner: %d unreachable edges in %s" % (st["unreachable"], name))
        vlib.write_scripts(sc, os.path.join(vlib.workdir("scripts"), "array_%s_%d.ndjson" % (tier, n)))
        scripts[n] = (sc, len(sc), Counter(s[-1]["op"] for s in sc))
        rep.cov["modules"][name].update({"scripts": len(sc), "planner": st, "exported_per_op": dict(per_op)})
        if n == 3:
            rep.sample({"module": name, "script": sc[len(sc) // 2]})
    missing = [op for op in ALL_OPS if not seen.get(op)]
    if missing:
        raise vlib.ModelFailure("Array: no transition exported for %s" % missing)
    rep.cov["exhaustive"] = True
    return scripts


def _side(impl, exe, scripts, tier, have_sb):
    jobs, expect = [], 0
    for n, (sc, cnt, per_op) in sorted(scripts.items()):
        for e in ELEMS:
            jobs.append((n, e, sc))
            expect += cnt - (0 if have_sb else per_op.get("set_sb", 0))

    def one(j):
        n, e, sc = j
        tp = os.path.join(vlib.workdir("traces"), "array_%s_%s_%d_%s.ndjson" % (impl, e, n, tier))
        return tp, ext1.replay(lambda sp: [exe, "replay", e, str(n), sp], sc, tp, "array_%s_%s_%d_%s" % (impl, e, n, tier), chunk=20000, par=2)
    from concurrent.futures import ThreadPoolExecutor
    with ThreadPoolExecutor(max_workers=5) as ex:
        res = list(ex.map(one, jobs))
    outs = [tp for tp, _ in res]
    errs = [l for _, r in res for l in r["stderr"]]
    unsupported = sorted({l for l in errs if l.startswith("UNSUPPORTED")})
    leaks = [l for l in errs if l.startswith("SUMMARY") and not l.endswith("live_delta=0")]
    ntraps = sum(len(r["traps"]) for _, r in res)
    got = sum(r["lines"] - r["markers"] for _, r in res)
    if not ntraps and got != expect:                    # vacuity guard: one event per script
        raise vlib.ModelFailure("array driver (%s): %d events for %d drivable scripts" % (impl, got, expect))
    merged = concat(outs, os.path.join(vlib.workdir("traces"), "array_%s_merged_%s" % (impl, tier)), 4)
    tv = vlib.tv_parallel("ArrayTrace.tla", "ArrayTrace.cfg", merged, "array_tv_%s_%s" % (impl, tier), par=4, heap="2g")
    return tv, unsupported, leaks, ntraps


def pipeline(tier, rep, calibrate=None):
    from concurrent.futures import ThreadPoolExecutor
    if calibrate is None:
        calibrate = os.environ.get("VERIF_CALIBRATE", "1") != "0"
    have = probes()
    scripts = model(tier, rep)
    jobs = [dict(src="array_driver.cpp", out="array_etl", flags=["-DARRAY_HAVE_SB=%d" % have[1]])]
    if calibrate:
        jobs.append(dict(src="array_driver.cpp", out="array_std", flags=["-DVH_STD"], include_repo=False))
    bins = vlib.build_many(jobs)
    with ThreadPoolExecutor(max_workers=2) as ex:
        fe = ex.submit(_side, "etl", bins[0], scripts, tier, have[1])
        fs = ex.submit(_side, "std", bins[1], scripts, tier, True) if calibrate else None
        tv, unsup, leaks, ntraps = fe.result()
        ctv, cunsup, cleaks, _ = fs.result() if fs else (None, [], [], 0)
    if calibrate:
        if ctv["deviations"]:
            d = ctv["deviations"][0]
            raise vlib.ModelFailure("calibration: libstdc++ deviates from Array spec (spec/projection error): %s %s"
                                    % (d["kind"], json.dumps(d.get("ev"))[:700]))
        if cunsup or cleaks:
            raise vlib.ModelFailure("calibration build: %s %s" % (cunsup, cleaks))
        rep.cov["modules"]["Array"] = {"calibration_events_std": ctv["events"]}
    rep.add_tv("Array", tv, sum(c for _, c, _ in scripts.values()) * len(ELEMS))
    rep.cov["modules"]["Array"]["not_drivable"] = unsup + ["%s: does not compile" % PROBES[n] for n in sorted(PROBES) if not have[n]]
    rep.cov["modules"]["Array"]["probes"] = {PROBES[n]: have[n] for n in PROBES}
    rep.cov["modules"]["Array"]["crashes_contained"] = ntraps
    if leaks:
        rep.notes.append({"live_count_imbalance": leaks})
    return tv


# ---------------------------------------------------------------------------------------------------------------
# dynamic_array (spec/DynArray.tla, DynArrayOps.tla, DynArrayTrace.tla, harness/dynarray_driver.cpp)
# ---------------------------------------------------------------------------------------------------------------
DYN_TIERS = {"quick": {"Ns": "{0, 1, 2}", "Vals": "{1, 2}"}, "thorough": {"Ns": "{0, 1, 2, 3}", "Vals": "{1, 2, 3}"}}
DYN_OPS = ["ctor_default", "ctor_n", "ctor_fill", "move_ctor", "move_assign", "dtor"]


def _dyn_side(impl, exe, sc, tier):
    ncalls = sum(len(s) for s in sc)
    res = []
    for e in ELEMS:
        tp = os.path.join(vlib.workdir("traces"), "dynarray_%s_%s_%s.ndjson" % (impl, e, tier))
        res.append((tp, ext1.replay(lambda sp: [exe, "replay", e, sp], sc, tp, "dynarray_%s_%s_%s" % (impl, e, tier))))
    outs = [tp for tp, _ in res]
    unsupported = sorted({l for _, r in res for l in r["stderr"] if l.startswith("UNSUPPORTED")})
    ntraps = sum(len(r["traps"]) for _, r in res)
    for tp, r in res:
        if not unsupported and not r["traps"] and r["lines"] != len(sc) + ncalls:
            raise vlib.ModelFailure("dynarray driver (%s): %d lines for %d scripts with %d calls" % (impl, r["lines"], len(sc), ncalls))
    tv = vlib.tv_parallel("DynArrayTrace.tla", "DynArrayTrace.cfg", outs, "dynarray_tv_%s_%s" % (impl, tier), par=2, heap="1g")
    return tv, unsupported, ntraps


def dyn_pipeline(tier, rep, calibrate=None):
    from concurrent.futures import ThreadPoolExecutor
    if calibrate is None:
        calibrate = os.environ.get("VERIF_CALIBRATE", "1") != "0"
    r = vlib.tlc_mc("DynArray.tla", "DynArray.cfg", "dynarray_mc_%s" % tier, workers=2, heap="1g", constants=DYN_TIERS[tier])
    rep.add_mc("DynArray", r)
    gen = r["gen"]
    per_op = Counter(t["op"] for t in gen)
    missing = [op for op in DYN_OPS if not per_op.get(op)]
    if missing:
        raise vlib.ModelFailure("DynArray: no transition exported for %s" % missing)
    dead = {"live": False, "els": []}
    init = json.dumps([{"a": dead, "b": dead}, []], sort_keys=True)
    # nodes are (observable state, set of moved-from objects); path prefixes avoid move assignment where they can
    # (a defect there must not mask the edges planned behind it)
    dkey = lambda t, w: json.dumps([t[w], sorted(t["premv" if w == "pre" else "postmv"])], sort_keys=True)
    call = lambda t: {"op": t["op"], "o": t["o"], "x": t["x"]}
    sc, st = vlib.plan_edges(gen, dkey, lambda k: k == init, call, follow=lambda t: t["op"] != "move_assign")
    if st["unreachable"]:
        sc, st = vlib.plan_edges(gen, dkey, lambda k: k == init, call)
    if st["unreachable"]:
        raise vlib.ModelFailure("planner: %d unreachable edges in DynArray" % st["unreachable"])
    sp = os.path.join(vlib.workdir("scripts"), "dynarray_%s.ndjson" % tier)
    vlib.write_scripts(sc, sp)
    rep.cov["modules"]["DynArray"].update({"scripts": len(sc), "planner": st, "exported_per_op": dict(per_op)})
    jobs = [dict(src="dynarray_driver.cpp", out="dynarray_etl")]
    if calibrate:
        jobs.append(dict(src="dynarray_driver.cpp", out="dynarray_std", flags=["-DVH_STD"], include_repo=False))
    bins = vlib.build_many(jobs)
    with ThreadPoolExecutor(max_workers=2) as ex:
        fe = ex.submit(_dyn_side, "etl", bins[0], sc, tier)
        fs = ex.submit(_dyn_side, "std", bins[1], sc, tier) if calibrate else None
        tv, unsup, ntraps = fe.result()
        ctv, cunsup, _ = fs.result() if fs else (None, [], 0)
    if calibrate:
        if ctv["deviations"]:
            d = ctv["deviations"][0]
            raise vlib.ModelFailure("calibration: std::vector as a fixed owning array deviates from DynArray spec: %s %s"
                                    % (d["kind"], json.dumps(d.get("ev"))[:700]))
        if cunsup:
            raise vlib.ModelFailure("calibration build lacks operations: %s" % cunsup)
        rep.cov["modules"]["DynArray"]["calibration_events_std"] = ctv["events"]
    rep.add_tv("DynArray", tv, len(sc) * len(ELEMS))
    rep.cov["modules"]["DynArray"].update({"not_drivable": unsup, "crashes_contained": ntraps})
    return tv
