// Integer <-> text conversion driver (property C10).  NOT part of tetl.
//
// Runs to_chars / from_chars / strto* / sto* / ato* / to_string (and etl's own strings::to_integer /
// strings::from_integer) on the vectors exported by spec/IntConv.tla and on its own sweeps (16-bit
// exhaustive, 32/64-bit boundary values, an input grammar) and logs one event per call (or per value
// with one run per buffer length).  No expected values, no comparison: spec/IntConvTrace.tla judges.
// -DVH_STD: the identical calls on std::to_chars/from_chars, glibc strto*/ato*, std::sto*/to_string.
//
// Numbers travel as {"neg":bool,"m":[limbs base 2^15, little endian]} (TLC integers are 32-bit).
// Output buffers: heap block  G region G  (4 guard bytes each side, region exactly `len` bytes); the
// whole block is logged.  Input texts: exact-size heap copies (no terminator for the range functions).
//
// usage: intconv_driver replay <gen.ndjson>
//        intconv_driver sweep <i8|u8|i16|u16> <lo> <hi> <all-lens:0|1>
//        intconv_driver wide <seed> <nrandom> <base>...
//        intconv_driver grammar <seed> <base>...        (base 0 = strto*/sto* only)
#include "common.hpp"

#ifdef VH_STD
    #include <cerrno>
    #include <charconv>
    #include <cstdlib>
    #include <stdexcept>
    #include <string>
static char const* const INST = "std";
#else
    #include <etl/charconv.hpp>
    #include <etl/cstdlib.hpp>
    #include <etl/string.hpp>
    #include <etl/string_view.hpp>
    #include <etl/strings.hpp>
static char const* const INST = "etl";
#endif

#include <csignal>
#include <limits>
#include <sys/wait.h>
#include <type_traits>
#include <unistd.h>

using vh::json;
using u128 = unsigned __int128;
using Text = std::vector<long>;

static long const GUARD[4] = {161, 162, 163, 164};
static int const FILL      = 238;

// A call that terminates the process (SIGSEGV, SIGFPE, ...) is an observation too: the description of the call in
// flight is logged with "crash": <signal> (the trace spec reports it as a deviation) and the process stops; the
// remaining calls of this process are not executed (stderr: CRASH ...).
static json* g_cur = nullptr;
static void on_crash(int sig)
{
    if (g_cur != nullptr) {
        (*g_cur)["crash"] = sig;
        std::cout << g_cur->dump() << std::endl;
        std::fprintf(stderr, "CRASH signal %d in %s; the remaining calls of this process were not executed\n", sig,
                     (*g_cur)["op"].get<std::string>().c_str());
    }
    std::_Exit(0);
}
static void install_crash_handler()
{
    for (int sig : {SIGSEGV, SIGBUS, SIGFPE, SIGILL, SIGABRT}) { std::signal(sig, on_crash); }
}
struct InFlight {
    json* prev;
    explicit InFlight(json& e) : prev(g_cur) { g_cur = &e; }
    ~InFlight() { g_cur = prev; }
};

// ---------------------------------------------------------------------------------------------
// projections
// ---------------------------------------------------------------------------------------------
static json num(bool neg, u128 mag)
{
    json m = json::array();
    while (mag != 0) {
        m.push_back((long)(mag & 0x7fff));
        mag >>= 15;
    }
    json j;
    j["neg"] = neg && !m.empty();
    j["m"]   = std::move(m);
    return j;
}
template <typename T>
static json num_of(T v)
{
    if constexpr (std::is_signed_v<T>) {
        if (v < 0) { return num(true, (u128)(-(__int128)v)); }
    }
    return num(false, (u128)v);
}
template <typename T>
static char const* tname()
{
    if constexpr (std::is_signed_v<T>) {
        return sizeof(T) == 1 ? "i8" : sizeof(T) == 2 ? "i16" : sizeof(T) == 4 ? "i32" : "i64";
    } else {
        return sizeof(T) == 1 ? "u8" : sizeof(T) == 2 ? "u16" : sizeof(T) == 4 ? "u32" : "u64";
    }
}
template <typename T>
static char const* ctname()
{
    if constexpr (std::is_same_v<T, signed char>) { return "signed char"; }
    if constexpr (std::is_same_v<T, unsigned char>) { return "unsigned char"; }
    if constexpr (std::is_same_v<T, short>) { return "short"; }
    if constexpr (std::is_same_v<T, unsigned short>) { return "unsigned short"; }
    if constexpr (std::is_same_v<T, int>) { return "int"; }
    if constexpr (std::is_same_v<T, unsigned>) { return "unsigned"; }
    if constexpr (std::is_same_v<T, long>) { return "long"; }
    if constexpr (std::is_same_v<T, unsigned long>) { return "unsigned long"; }
    if constexpr (std::is_same_v<T, long long>) { return "long long"; }
    if constexpr (std::is_same_v<T, unsigned long long>) { return "unsigned long long"; }
    return "?";
}
static json text_json(Text const& t)
{
    json a = json::array();
    for (long c : t) { a.push_back(c); }
    return a;
}
static Text text_of(std::string const& s)
{
    Text t;
    for (char c : s) { t.push_back((long)(unsigned char)c); }
    return t;
}

// heap block  G region G  (+ unlogged slack)
struct OutBuf {
    unsigned char* base;
    size_t len;
    explicit OutBuf(size_t n) : len(n)
    {
        base = static_cast<unsigned char*>(std::malloc(n + 8 + 64));
        for (int i = 0; i < 4; ++i) { base[i] = (unsigned char)GUARD[i]; }
        for (size_t i = 0; i < n; ++i) { base[4 + i] = (unsigned char)FILL; }
        for (int i = 0; i < 4; ++i) { base[4 + n + (size_t)i] = (unsigned char)GUARD[i]; }
        for (size_t i = n + 8; i < n + 8 + 64; ++i) { base[i] = 165; }
    }
    OutBuf(OutBuf const&) = delete;
    ~OutBuf() { std::free(base); }
    char* first() { return reinterpret_cast<char*>(base + 4); }
    char* last() { return first() + len; }
    json snap() const
    {
        json a = json::array();
        for (size_t i = 0; i < len + 8; ++i) { a.push_back((long)base[i]); }
        return a;
    }
    long off(char const* p)
    {
        if (p == nullptr) { return -1; }
        if (p < first() - 4 || p > last() + 4) { return -2; }
        return (long)(p - first());
    }
};

// exact-size heap copy of an input text; `z` appends a terminator
struct InBuf {
    char* p;
    size_t n;
    InBuf(Text const& t, bool z) : n(t.size())
    {
        p = static_cast<char*>(std::malloc(n + (z ? 1 : 0) + (n + (z ? 1 : 0) == 0 ? 1 : 0)));
        for (size_t i = 0; i < n; ++i) { p[i] = (char)(unsigned char)t[i]; }
        if (z) { p[n] = '\0'; }
    }
    InBuf(InBuf const&) = delete;
    ~InBuf() { std::free(p); }
    long off(char const* q) const
    {
        if (q == nullptr) { return -1; }
        if (q < p || q > p + n) { return -2; }
        return (long)(q - p);
    }
};

static json guard_json()
{
    json g = json::array();
    for (long x : GUARD) { g.push_back(x); }
    return g;
}

// ---------------------------------------------------------------------------------------------
// from_chars
// ---------------------------------------------------------------------------------------------
template <typename T>
static json from_chars_record(Text const& text, int base)
{
    InBuf in(text, false);
    T val = T(77);
    json e;
    e["t"]    = tname<T>();
    e["base"] = base;
    e["text"] = text_json(text);
    e["v0"]   = num_of(val);
    e["op"]   = "from_chars";
    e["ct"]   = ctname<T>();
    e["inst"] = INST;
    InFlight guard(e);
    // base 10 goes through the defaulted parameter
#ifdef VH_STD
    auto r  = base == 10 ? std::from_chars(in.p, in.p + in.n, val) : std::from_chars(in.p, in.p + in.n, val, base);
    long ec = r.ec == std::errc{} ? 0 : r.ec == std::errc::invalid_argument ? 1 : r.ec == std::errc::result_out_of_range ? 2 : 9;
#else
    auto r  = base == 10 ? etl::from_chars(in.p, in.p + in.n, val) : etl::from_chars(in.p, in.p + in.n, val, base);
    long ec = r.ec == etl::errc{} ? 0 : r.ec == etl::errc::invalid_argument ? 1 : r.ec == etl::errc::result_out_of_range ? 2 : 9;
#endif
    e["ec"]  = ec;
    e["ptr"] = in.off(r.ptr);
    e["val"] = num_of(val);
    return e;
}

template <typename T>
static void ev_from_chars(Text const& text, int base)
{
    json e    = from_chars_record<T>(text, base);
    e["op"]   = "from_chars";
    e["ct"]   = ctname<T>();
    e["inst"] = INST;
    vh::emit(e);
}

// ---------------------------------------------------------------------------------------------
// to_chars (+ round trip), from_integer, to_string
// ---------------------------------------------------------------------------------------------
template <typename T>
static void ev_to_chars(T v, int base, std::vector<long> const& lens, bool roundtrip)
{
    json e;
    e["op"]    = "to_chars";
    e["t"]     = tname<T>();
    e["ct"]    = ctname<T>();
    e["v"]     = num_of(v);
    e["base"]  = base;
    e["guard"] = guard_json();
    e["inst"]  = INST;
    InFlight guard(e);
    json runs  = json::array();
    Text produced;
    bool have = false;
    for (long len : lens) {
        OutBuf b((size_t)len);
#ifdef VH_STD
        auto r  = base == 10 ? std::to_chars(b.first(), b.last(), v) : std::to_chars(b.first(), b.last(), v, base);
        long ec = r.ec == std::errc{} ? 0 : r.ec == std::errc::value_too_large ? 1 : 9;
#else
        auto r  = base == 10 ? etl::to_chars(b.first(), b.last(), v) : etl::to_chars(b.first(), b.last(), v, base);
        long ec = r.ec == etl::errc{} ? 0 : r.ec == etl::errc::value_too_large ? 1 : 9;
#endif
        json run;
        run["len"] = len;
        run["ec"]  = ec;
        run["ptr"] = b.off(r.ptr);
        run["buf"] = b.snap();
        if (ec == 0 && r.ptr != nullptr && r.ptr >= b.first() && r.ptr <= b.last()) {
            produced.clear();
            for (char const* p = b.first(); p != r.ptr; ++p) { produced.push_back((long)(unsigned char)*p); }
            have = true;
        }
        runs.push_back(std::move(run));
    }
    e["runs"] = std::move(runs);
    if (roundtrip && have) { e["rt"] = from_chars_record<T>(produced, base); }
    e["inst"] = INST;
    vh::emit(e);
}

#ifndef VH_STD
template <typename T, bool Term>
static void ev_from_integer(T v, int base, std::vector<long> const& lens)
{
    json e;
    e["op"]    = "from_integer";
    e["t"]     = tname<T>();
    e["ct"]    = ctname<T>();
    e["v"]     = num_of(v);
    e["base"]  = base;
    e["term"]  = Term;
    e["guard"] = guard_json();
    e["inst"]  = INST;
    InFlight guard(e);
    json runs  = json::array();
    for (long len : lens) {
        OutBuf b((size_t)len);
        constexpr auto opt = etl::strings::from_integer_options{.terminate_with_null = Term};
        auto r             = etl::strings::from_integer<T, opt>(v, b.first(), (size_t)len, base);
        json run;
        run["len"] = len;
        run["ec"]  = r.error == etl::strings::from_integer_error::none ? 0 : 1;
        run["ptr"] = b.off(r.end);
        run["buf"] = b.snap();
        runs.push_back(std::move(run));
    }
    e["runs"] = std::move(runs);
    e["inst"] = INST;
    vh::emit(e);
}
#endif

template <typename T>
static void ev_to_string(T v)
{
    json e;
    e["op"] = "to_string";
    e["base"] = 10;
    e["t"]  = tname<T>();
    e["ct"] = ctname<T>();
    e["v"]  = num_of(v);
    InFlight guard(e);
#ifdef VH_STD
    std::string s = std::to_string(v);
    e["text"]     = text_of(s);
#else
    auto s = etl::to_string<24>(v);
    Text t;
    for (size_t i = 0; i < s.size(); ++i) { t.push_back((long)(unsigned char)s[i]); }
    e["text"] = text_json(t);
    e["size"] = (long)s.size();
#endif
    e["inst"] = INST;
    vh::emit(e);
}

// digits of |v| in base b: sizing of the output buffers only (the caller's business, like strlen+1)
static long text_len(bool neg, u128 mag, int base)
{
    long n = 0;
    do {
        mag /= (unsigned)base;
        ++n;
    } while (mag != 0);
    return n + (neg ? 1 : 0);
}
template <typename T>
static long text_len_of(T v, int base)
{
    if constexpr (std::is_signed_v<T>) {
        if (v < 0) { return text_len(true, (u128)(-(__int128)v), base); }
    }
    return text_len(false, (u128)v, base);
}
static std::vector<long> lens_for(long d, bool all)
{
    std::vector<long> l;
    if (all || d <= 12) {
        for (long i = 0; i <= d + 2; ++i) { l.push_back(i); }
    } else {
        l = {0, 1, d - 3, d - 2, d - 1, d, d + 1, d + 2};
    }
    return l;
}

// ---------------------------------------------------------------------------------------------
// strto*, sto*, ato*, to_integer
// ---------------------------------------------------------------------------------------------
// does a call survive (no signal)?  Used once per function for base 0, where a division by zero is possible.
template <typename Fn>
static bool survives(Fn fn)
{
    std::cout.flush();
    pid_t pid = fork();
    if (pid == 0) {
        for (int sig : {SIGSEGV, SIGBUS, SIGFPE, SIGILL, SIGABRT}) { std::signal(sig, SIG_DFL); }
        fn();
        _exit(0);
    }
    int st = 0;
    waitpid(pid, &st, 0);
    return WIFEXITED(st) && WEXITSTATUS(st) == 0;
}

enum StrToFn { F_strtol, F_strtoll, F_strtoul, F_strtoull };
static char const* const STRTO_NAME[] = {"strtol", "strtoll", "strtoul", "strtoull"};

template <StrToFn Fn>
static auto call_strto(char const* s, char const** end, int base)
{
#ifdef VH_STD
    char* e = nullptr;
    errno   = 0;
    auto fin = [&](auto v) {
        if (end != nullptr) { *end = e; }
        return v;
    };
    char** ep = end != nullptr ? &e : nullptr;
    if constexpr (Fn == F_strtol) { return fin(std::strtol(s, ep, base)); }
    if constexpr (Fn == F_strtoll) { return fin(std::strtoll(s, ep, base)); }
    if constexpr (Fn == F_strtoul) { return fin(std::strtoul(s, ep, base)); }
    if constexpr (Fn == F_strtoull) { return fin(std::strtoull(s, ep, base)); }
#else
    if constexpr (Fn == F_strtol) { return etl::strtol(s, end, base); }
    if constexpr (Fn == F_strtoll) { return etl::strtoll(s, end, base); }
    if constexpr (Fn == F_strtoul) { return etl::strtoul(s, end, base); }
    if constexpr (Fn == F_strtoull) { return etl::strtoull(s, end, base); }
#endif
}

template <StrToFn Fn>
static void ev_strto(Text const& text, int base)
{
    using R = decltype(call_strto<Fn>("", nullptr, 10));
    InBuf in(text, true);
    json e;
    e["op"]   = STRTO_NAME[Fn];
    e["t"]    = tname<R>();
    e["ut"]   = tname<R>();
    e["base"] = base;
    e["text"] = text_json(text);
    e["inst"] = INST;
    InFlight guard(e);
    static int base0_ok = -1;
    if (base == 0 && base0_ok < 0) {
        base0_ok = survives([&] { (void)call_strto<Fn>("1", nullptr, 0); }) ? 1 : 0;
        if (base0_ok == 0) { std::fprintf(stderr, "CRASH %s(str, end, 0) terminates the process (signal)\n", STRTO_NAME[Fn]); }
    }
    if (base == 0 && base0_ok == 0) {
        e["val"] = num(false, 0);
        e["vn"]  = num(false, 0);
        e["end"] = -3; // the call does not return
    } else {
        char const* end = nullptr;
        R v             = call_strto<Fn>(in.p, &end, base);
        R vn            = call_strto<Fn>(in.p, nullptr, base);
        e["val"]        = num_of(v);
        e["vn"]         = num_of(vn);
        e["end"]        = in.off(end);
    }
    e["inst"] = INST;
    vh::emit(e);
}

enum StoFn { F_stoi, F_stol, F_stoll, F_stoul, F_stoull };
static char const* const STO_NAME[] = {"stoi", "stol", "stoll", "stoul", "stoull"};

// all parameters defaulted (pos = nullptr, base = 10)
template <StoFn Fn, typename Str>
static auto call_sto_default(Str const& s)
{
#ifdef VH_STD
    namespace L = std;
#else
    namespace L = etl;
#endif
    if constexpr (Fn == F_stoi) { return L::stoi(s); }
    if constexpr (Fn == F_stol) { return L::stol(s); }
    if constexpr (Fn == F_stoll) { return L::stoll(s); }
    if constexpr (Fn == F_stoul) { return L::stoul(s); }
    if constexpr (Fn == F_stoull) { return L::stoull(s); }
}

template <StoFn Fn, typename Str>
static auto call_sto(Str const& s, size_t* pos, int base)
{
#ifdef VH_STD
    namespace L = std;
#else
    namespace L = etl;
#endif
    if constexpr (Fn == F_stoi) { return L::stoi(s, pos, base); }
    if constexpr (Fn == F_stol) { return L::stol(s, pos, base); }
    if constexpr (Fn == F_stoll) { return L::stoll(s, pos, base); }
    if constexpr (Fn == F_stoul) { return L::stoul(s, pos, base); }
    if constexpr (Fn == F_stoull) { return L::stoull(s, pos, base); }
}

template <StoFn Fn>
static void ev_sto(Text const& text, int base)
{
    InBuf in(text, false);
#ifdef VH_STD
    std::string s(in.p, in.n);
#else
    etl::string_view s(in.p, in.n);
#endif
    using R = decltype(call_sto<Fn>(s, nullptr, 10));
    json e;
    e["op"]   = STO_NAME[Fn];
    e["t"]    = tname<R>();
    e["ut"]   = std::is_signed_v<R> ? tname<long>() : tname<unsigned long>();
    if constexpr (Fn == F_stoll) { e["ut"] = tname<long long>(); }
    if constexpr (Fn == F_stoull) { e["ut"] = tname<unsigned long long>(); }
    e["base"] = base;
    e["text"] = text_json(text);
    e["inst"] = INST;
    InFlight guard(e);
    static int base0_ok = -1;
    if (base == 0 && base0_ok < 0) {
        base0_ok = survives([&] {
#ifdef VH_STD
            try {
                (void)call_sto<Fn>(std::string("1"), nullptr, 0);
            } catch (...) {
            }
#else
            (void)call_sto<Fn>(etl::string_view("1"), nullptr, 0);
#endif
        }) ? 1 : 0;
        if (base0_ok == 0) { std::fprintf(stderr, "CRASH %s(str, pos, 0) terminates the process (signal)\n", STO_NAME[Fn]); }
    }
    long ec    = 0;
    size_t pos = 999;
    R v{};
    R vn{};
    if (base == 0 && base0_ok == 0) {
        ec  = -3;
        pos = 999;
    } else {
#ifdef VH_STD
        try {
            v  = call_sto<Fn>(s, &pos, base);
            vn = base == 10 ? call_sto_default<Fn>(s) : call_sto<Fn>(s, nullptr, base);
        } catch (std::invalid_argument const&) {
            ec = 1;
        } catch (std::out_of_range const&) {
            ec = 2;
        }
#else
        v  = call_sto<Fn>(s, &pos, base);
        vn = base == 10 ? call_sto_default<Fn>(s) : call_sto<Fn>(s, nullptr, base);
        ec = -1; // the API has no error channel
#endif
    }
    e["ec"]   = ec;
    e["val"]  = num_of(v);
    e["vn"]   = num_of(vn);
    e["pos"]  = (long)pos;
    e["inst"] = INST;
    vh::emit(e);
}

template <int Which>
static void ev_ato(Text const& text)
{
    InBuf in(text, true);
    json e;
#ifdef VH_STD
    namespace L = std;
#else
    namespace L = etl;
#endif
    e["op"]   = Which == 0 ? "atoi" : Which == 1 ? "atol" : "atoll";
    e["text"] = text_json(text);
    e["inst"] = INST;
    InFlight guard(e);
    if constexpr (Which == 0) {
        e["op"]  = "atoi";
        e["t"]   = tname<int>();
        e["val"] = num_of(L::atoi(in.p));
    } else if constexpr (Which == 1) {
        e["op"]  = "atol";
        e["t"]   = tname<long>();
        e["val"] = num_of(L::atol(in.p));
    } else {
        e["op"]  = "atoll";
        e["t"]   = tname<long long>();
        e["val"] = num_of(L::atoll(in.p));
    }
    e["ut"]   = tname<long>();
    e["base"] = 10;
    e["text"] = text_json(text);
    e["inst"] = INST;
    vh::emit(e);
}

#ifndef VH_STD
template <typename T, bool Ws, bool Chk>
static void ev_to_integer(Text const& text, int base)
{
    if constexpr (!Chk) {
        // check_overflow = false documents "the caller guarantees the value fits": whether it does cannot be decided
        // here without an oracle, so the sanitizer run (C02, valid use only) leaves the unchecked form out
        static bool const domain_only = std::getenv("VH_DOMAIN_ONLY") != nullptr;
        if (domain_only) { return; }
    }
    InBuf in(text, false);
    constexpr auto opt = etl::strings::to_integer_options{.skip_whitespace = Ws, .check_overflow = Chk};
    json e;
    e["op"]   = "to_integer";
    e["text"] = text_json(text);
    e["base"] = base;
    e["inst"] = INST;
    InFlight guard(e);
    auto r    = etl::strings::to_integer<T, opt>(etl::string_view(in.p, in.n), static_cast<T>(base));
    e["t"]    = tname<T>();
    e["ct"]   = ctname<T>();
    e["ws"]   = Ws;
    e["chk"]  = Chk;
    e["base"] = base;
    e["text"] = text_json(text);
    e["err"]  = r.error == etl::strings::to_integer_error::none ? 0 : r.error == etl::strings::to_integer_error::invalid_input ? 1 : 2;
    e["end"]  = in.off(r.end);
    e["val"]  = num_of(r.value);
    e["inst"] = INST;
    vh::emit(e);
}
#endif

// every parse function applicable to result type T on one text.  full: all option sets of to_integer
template <typename T>
static void parse_all(Text const& text, int base, bool full)
{
    if (base != 0) {
        ev_from_chars<T>(text, base);
#ifndef VH_STD
        ev_to_integer<T, true, true>(text, base);
        if (full) {
            ev_to_integer<T, false, true>(text, base);
            ev_to_integer<T, true, false>(text, base);
        }
#endif
    }
    if constexpr (std::is_same_v<T, int>) {
        ev_sto<F_stoi>(text, base);
        if (base == 10) { ev_ato<0>(text); }
    }
    if constexpr (std::is_same_v<T, long>) {
        ev_strto<F_strtol>(text, base);
        ev_sto<F_stol>(text, base);
        if (base == 10) { ev_ato<1>(text); }
    }
    if constexpr (std::is_same_v<T, long long>) {
        ev_strto<F_strtoll>(text, base);
        ev_sto<F_stoll>(text, base);
        if (base == 10) { ev_ato<2>(text); }
    }
    if constexpr (std::is_same_v<T, unsigned long>) {
        ev_strto<F_strtoul>(text, base);
        ev_sto<F_stoul>(text, base);
    }
    if constexpr (std::is_same_v<T, unsigned long long>) {
        ev_strto<F_strtoull>(text, base);
        ev_sto<F_stoull>(text, base);
    }
}

template <typename Fn>
static void for_all_types(Fn fn)
{
    fn((signed char)0);
    fn((unsigned char)0);
    fn((short)0);
    fn((unsigned short)0);
    fn((int)0);
    fn((unsigned)0);
    fn((long)0);
    fn((unsigned long)0);
    fn((long long)0);
    fn((unsigned long long)0);
}

// ---------------------------------------------------------------------------------------------
// modes
// ---------------------------------------------------------------------------------------------
template <typename T>
static void val_vector(T v, int base, std::vector<long> const& lens)
{
    ev_to_chars<T>(v, base, lens, true);
#ifndef VH_STD
    if (base == 2 || base == 10 || base == 16 || base == 36 || base == 7) {
        ev_from_integer<T, false>(v, base, lens);
        std::vector<long> l2 = lens;
        l2.push_back(lens.back() + 1);
        ev_from_integer<T, true>(v, base, l2);
    }
#endif
}

static void replay(std::string const& path)
{
    for (auto const& v : vh::read_ndjson(path)) {
        std::string k = v["k"];
        if (k == "val") {
            std::vector<long> lens;
            for (auto const& x : v["lens"]) { lens.push_back(x.get<long>()); }
            std::string t = v["t"];
            long x        = v["v"];
            int base      = v["base"];
            if (t == "i8") {
                val_vector<signed char>((signed char)x, base, lens);
            } else if (t == "u8") {
                val_vector<unsigned char>((unsigned char)x, base, lens);
            } else {
                std::fprintf(stderr, "UNSUPPORTED val type %s\n", t.c_str());
                std::exit(2);
            }
        } else if (k == "parse") {
            Text text;
            for (auto const& x : v["text"]) { text.push_back(x.get<long>()); }
            int base = v["base"];
            parse_all<signed char>(text, base, true);
            parse_all<unsigned char>(text, base, true);
            parse_all<int>(text, base, false);
            parse_all<long>(text, base, false);
            parse_all<unsigned long>(text, base, false);
            parse_all<long long>(text, base, false);
            parse_all<unsigned long long>(text, base, false);
        } else {
            std::fprintf(stderr, "UNSUPPORTED vector kind %s\n", k.c_str());
            std::exit(2);
        }
    }
}

template <typename T>
static void sweep(long lo, long hi, bool all)
{
    for (long x = lo; x <= hi; ++x) {
        T v = (T)x;
        for (int base = 2; base <= 36; ++base) {
            long d = text_len_of(v, base);
            std::vector<long> lens;
            if (all) {
                lens = lens_for(d, true);
            } else {
                lens = {d - 1, d, d + 2};
            }
            ev_to_chars<T>(v, base, lens, true);
        }
    }
}

static std::string fmt(u128 mag, int base, bool upper = false)
{
    std::string s;
    do {
        int d = (int)(mag % (unsigned)base);
        s.insert(s.begin(), (char)(d < 10 ? '0' + d : (upper ? 'A' : 'a') + d - 10));
        mag /= (unsigned)base;
    } while (mag != 0);
    return s;
}

template <typename T>
static void wide_values(vh::Rng& rng, int base, long nrandom)
{
    using U       = std::make_unsigned_t<T>;
    using Lim     = std::numeric_limits<T>;
    std::vector<T> vs{T(0), T(1), Lim::max(), Lim::min(), T(Lim::max() - 1), T(Lim::min() + 1), T(Lim::max() / base),
                      T(Lim::max() / base + 1), T(Lim::max() / base - 1), T(Lim::min() / base), T(Lim::min() / base + 1),
                      T(Lim::min() / base - 1)};
    if constexpr (std::is_signed_v<T>) { vs.push_back(T(-1)); }
    // powers of the base +-1 (and their negatives)
    u128 p = 1;
    while (p <= (u128)Lim::max()) {
        for (int d = -1; d <= 1; ++d) {
            u128 q = d < 0 ? p - 1 : p + (u128)d;
            if (q <= (u128)Lim::max()) {
                vs.push_back((T)(U)q);
                if constexpr (std::is_signed_v<T>) { vs.push_back((T)(-(T)(U)q)); }
            }
        }
        p *= (unsigned)base;
    }
    for (long i = 0; i < nrandom; ++i) {
        U r = (U)rng.next();
        r >>= rng.range(0, (long)sizeof(T) * 8 - 1); // all magnitudes
        vs.push_back((T)r);
        if constexpr (std::is_signed_v<T>) { vs.push_back((T)(-(T)r)); }
    }
    for (T v : vs) {
        long d = text_len_of(v, base);
        ev_to_chars<T>(v, base, lens_for(d, false), true);
#ifndef VH_STD
        if (base == 10 || base == 16 || base == 2) {
            ev_from_integer<T, true>(v, base, {d - 1, d, d + 1, d + 2});
            ev_from_integer<T, false>(v, base, {d - 1, d, d + 1});
        }
#endif
        if (base == 10) {
            if constexpr (sizeof(T) >= sizeof(int)) { ev_to_string<T>(v); }
        }
    }
}

template <typename T>
static void grammar(vh::Rng& rng, int base)
{
    using Lim = std::numeric_limits<T>;
    int b     = base == 0 ? 10 : base; // digits used to build the inputs
    u128 mx   = (u128)Lim::max();
    std::vector<std::string> bodies{"", "0", "1", fmt((u128)(b - 1), b), "10", fmt(mx, b), fmt(mx + 1, b), fmt(mx, b) + "0",
                                    fmt(mx / (unsigned)b, b), fmt(mx / (unsigned)b + 1, b), fmt(mx, b, true),
                                    "000" + fmt(mx, b), fmt(mx - 1, b)};
    if (b < 36) { bodies.push_back(std::string(1, (char)(b < 10 ? '0' + b : 'a' + b - 10))); } // first non-digit
    if (b < 36) { bodies.push_back("1" + std::string(1, (char)(b < 10 ? '0' + b : 'A' + b - 10)) + "1"); }
    if (base == 0 || base == 8 || base == 16) {
        bodies.push_back("0" + fmt(mx, 8));
        bodies.push_back("0x" + fmt(mx, 16));
        bodies.push_back("0X" + fmt(mx + 1, 16));
        bodies.push_back("0x");
        bodies.push_back("0xg");
        bodies.push_back("08");
    }
    if (std::is_signed_v<T>) {
        bodies.push_back(fmt(mx + 2, b));
    } else {
        bodies.push_back(fmt(mx / 2 + 1, b));
    }
    for (int i = 0; i < 3; ++i) {
        std::string r;
        long n = rng.range(1, 6);
        for (long j = 0; j < n; ++j) { r += fmt((u128)rng.range(0, b - 1), b, rng.coin()); }
        bodies.push_back(r);
    }
    static std::vector<std::string> const prefixes{"", " ", "\t\n\v\f\r ", "+", "-", "+-", "-+", " +", " -", "- ", "+ ", "0x", "0X", "-0x", "+0X", "0", "x", "\xA0"};
    static std::vector<std::string> const core_pre{"", "-", " ", "+", " -"};
    static std::vector<std::string> const suffixes{"", "!", "8", " "};
    std::vector<std::string> core_body{"1", fmt(mx, b), fmt(mx + 1, b), ""};
    std::vector<std::string> texts;
    for (auto const& p : prefixes) {
        for (auto const& c : core_body) { texts.push_back(p + c); }
    }
    for (auto const& p : core_pre) {
        for (auto const& c : bodies) {
            for (auto const& s : suffixes) { texts.push_back(p + c + s); }
        }
    }
    for (auto const& t : texts) { parse_all<T>(text_of(t), base, true); }
}

// ---------------------------------------------------------------------------------------------
// re-execute one recorded event (tools/check.py --replay)
// ---------------------------------------------------------------------------------------------
template <typename T>
static T value_of(json const& n)
{
    u128 mag = 0;
    auto const& m = n["m"];
    for (size_t i = m.size(); i-- > 0;) { mag = (mag << 15) | (u128)m[i].get<long>(); }
    if (n["neg"].get<bool>()) { return (T)(-(__int128)mag); }
    return (T)mag;
}
static std::vector<long> run_lens(json const& ev)
{
    std::vector<long> l;
    for (auto const& r : ev["runs"]) { l.push_back(r["len"].get<long>()); }
    return l;
}
template <typename Fn>
static void with_ctype(std::string const& ct, Fn fn)
{
    bool done = false;
    for_all_types([&](auto z) {
        if (!done && ct == ctname<decltype(z)>()) {
            done = true;
            fn(z);
        }
    });
    if (!done) {
        std::fprintf(stderr, "UNSUPPORTED type %s\n", ct.c_str());
        std::exit(2);
    }
}
static void do_event(json const& ev)
{
    std::string op = ev["op"];
    Text text;
    if (ev.contains("text")) {
        for (auto const& x : ev["text"]) { text.push_back(x.get<long>()); }
    }
    int base = ev.contains("base") ? ev["base"].get<int>() : 10;
    if (op == "to_chars") {
        with_ctype(ev["ct"], [&](auto z) {
            using T = decltype(z);
            ev_to_chars<T>(value_of<T>(ev["v"]), base, run_lens(ev), ev.contains("rt"));
        });
    } else if (op == "from_chars") {
        with_ctype(ev["ct"], [&](auto z) { ev_from_chars<decltype(z)>(text, base); });
    } else if (op == "to_string") {
        with_ctype(ev["ct"], [&](auto z) {
            using T = decltype(z);
            if constexpr (sizeof(T) >= sizeof(int)) { ev_to_string<T>(value_of<T>(ev["v"])); }
        });
#ifndef VH_STD
    } else if (op == "from_integer") {
        with_ctype(ev["ct"], [&](auto z) {
            using T = decltype(z);
            if (ev["term"].get<bool>()) {
                ev_from_integer<T, true>(value_of<T>(ev["v"]), base, run_lens(ev));
            } else {
                ev_from_integer<T, false>(value_of<T>(ev["v"]), base, run_lens(ev));
            }
        });
    } else if (op == "to_integer") {
        with_ctype(ev["ct"], [&](auto z) {
            using T = decltype(z);
            ev_to_integer<T, true, true>(text, base);
            ev_to_integer<T, false, true>(text, base);
            ev_to_integer<T, true, false>(text, base);
        });
#endif
    } else if (op == "strtol") {
        ev_strto<F_strtol>(text, base);
    } else if (op == "strtoll") {
        ev_strto<F_strtoll>(text, base);
    } else if (op == "strtoul") {
        ev_strto<F_strtoul>(text, base);
    } else if (op == "strtoull") {
        ev_strto<F_strtoull>(text, base);
    } else if (op == "stoi") {
        ev_sto<F_stoi>(text, base);
    } else if (op == "stol") {
        ev_sto<F_stol>(text, base);
    } else if (op == "stoll") {
        ev_sto<F_stoll>(text, base);
    } else if (op == "stoul") {
        ev_sto<F_stoul>(text, base);
    } else if (op == "stoull") {
        ev_sto<F_stoull>(text, base);
    } else if (op == "atoi") {
        ev_ato<0>(text);
    } else if (op == "atol") {
        ev_ato<1>(text);
    } else if (op == "atoll") {
        ev_ato<2>(text);
    } else {
        std::fprintf(stderr, "UNSUPPORTED event op %s\n", op.c_str());
        std::exit(2);
    }
}

int main(int argc, char** argv)
{
    std::ios::sync_with_stdio(false);
    install_crash_handler();
    std::string mode = argc > 1 ? argv[1] : "";
    if (mode == "event" && argc >= 3) {
        for (auto const& ev : vh::read_ndjson(argv[2])) { do_event(ev); }
        return 0;
    }
    if (mode == "replay" && argc >= 3) {
        replay(argv[2]);
        return 0;
    }
    if (mode == "sweep" && argc >= 6) {
        std::string t = argv[2];
        long lo = std::atol(argv[3]), hi = std::atol(argv[4]);
        bool all = std::atoi(argv[5]) != 0;
        if (t == "i8") {
            sweep<signed char>(lo, hi, all);
        } else if (t == "u8") {
            sweep<unsigned char>(lo, hi, all);
        } else if (t == "i16") {
            sweep<short>(lo, hi, all);
        } else if (t == "u16") {
            sweep<unsigned short>(lo, hi, all);
        } else {
            return 2;
        }
        return 0;
    }
    if (mode == "wide" && argc >= 5) {
        vh::Rng rng(std::strtoull(argv[2], nullptr, 10));
        long nr = std::atol(argv[3]);
        for (int i = 4; i < argc; ++i) {
            int base = std::atoi(argv[i]);
            wide_values<int>(rng, base, nr);
            wide_values<unsigned>(rng, base, nr);
            wide_values<long>(rng, base, nr);
            wide_values<unsigned long>(rng, base, nr);
            wide_values<long long>(rng, base, nr);
            wide_values<unsigned long long>(rng, base, nr);
            wide_values<short>(rng, base, 2);
            wide_values<unsigned short>(rng, base, 2);
        }
        return 0;
    }
    if (mode == "grammar" && argc >= 4) {
        vh::Rng rng(std::strtoull(argv[2], nullptr, 10));
        for (int i = 3; i < argc; ++i) {
            int base = std::atoi(argv[i]);
            for_all_types([&](auto z) { grammar<decltype(z)>(rng, base); });
        }
        return 0;
    }
    std::fprintf(stderr, "usage: intconv_driver replay <gen> | sweep <t> <lo> <hi> <all> | wide <seed> <n> <base>... | grammar <seed> <base>...\n");
    return 2;
}
