"""C-library pipeline (spec/CLibOps.tla, CLib.tla, CLibTrace.tla, harness/clib_driver.cpp). Serves C18.

MC+GEN: TLC enumerates every vector of spec/CLib.tla, checks the model laws on each, exports them.
Replay: the driver runs the call list of every vector (and seeded random longer strings) on the etl
functions and - compiled with -DVH_STD - on glibc.  TV: CLibTrace.tla judges every recorded call.
The glibc trace must validate without a single deviation (calibration) or the run is a model failure."""
import json
import os
import vlib

CONSTS = {
    "quick": {"MaxLen": "4", "MaxLenB": "4", "MaxLenW": "3", "MaxBytes": "3", "MaxMove": "5", "WideHi": "767", "LawLen": "4"},
    "thorough": {"MaxLen": "5", "MaxLenB": "4", "MaxLenW": "4", "MaxBytes": "4", "MaxMove": "7", "WideHi": "8191", "LawLen": "4"},
}
CHUNKS = {"quick": 12, "thorough": 48}
RANDOM = {"quick": 150, "thorough": 3000}


def model(tier, rep):
    r = vlib.tlc_mc("CLib.tla", "CLib.cfg", "clib_mc_" + tier, workers=10 if tier == "quick" else 14,
                    constants=CONSTS[tier], heap="2g", timeout=2400)
    rep.add_mc("CLib", r)
    gen = r["gen"]
    if not gen:
        raise vlib.ModelFailure("CLib.tla exported no vectors")
    d = vlib.workdir("clib")
    k = CHUNKS[tier]
    # heavy vectors (string pairs) are spread round-robin so that the chunks have similar sizes
    gen.sort(key=lambda g: (g["k"], json.dumps(g, sort_keys=True)))
    paths = []
    for i in range(k):
        p = os.path.join(d, "gen_%s_%d.ndjson" % (tier, i))
        with open(p, "w") as f:
            for g in gen[i::k]:
                f.write(json.dumps(g) + "\n")
        paths.append(p)
    kinds = {}
    for g in gen:
        kinds[g["k"]] = kinds.get(g["k"], 0) + 1
    rep.cov["modules"]["CLib"].update({"vectors": kinds, "constants": CONSTS[tier]})
    rep.sample({"module": "CLib", "vector": next(g for g in gen if g["k"] == "pair" and len(g["a"]) > 1 and len(g["b"]) > 0)})
    rep.cov["exhaustive"] = True
    return paths, len(gen)


def build_drivers():
    paths = vlib.build_many([
        dict(src="clib_driver.cpp", out="clib_etl"),
        dict(src="clib_driver.cpp", out="clib_std", flags=["-DVH_STD", "-fno-builtin"], include_repo=False)])
    return {"etl": paths[0], "std": paths[1]}


def execute(tier, gens, bins, impl):
    d = vlib.workdir("clib")
    tasks, outs = [], []
    for i, gp in enumerate(gens):
        tp = os.path.join(d, "trace_%s_%s_%d.ndjson" % (impl, tier, i))
        tasks.append(([bins[impl], "replay", gp], tp))
        outs.append(tp)
    for w in (0, 1):
        tp = os.path.join(d, "trace_%s_%s_rnd%d.ndjson" % (impl, tier, w))
        tasks.append(([bins[impl], "random", str(w), str(RANDOM[tier]), str(vlib.seed())], tp))
        outs.append(tp)
    res = vlib.run_parallel(tasks, par=8)
    unsupported = sorted({l for _, err in res for l in err.splitlines() if l.startswith(("UNSUPPORTED", "CRASH"))})
    return outs, unsupported


def pipeline(tier, rep, calibrate=True):
    from concurrent.futures import ThreadPoolExecutor
    with ThreadPoolExecutor(max_workers=2) as ex:
        fb = ex.submit(build_drivers)
        gens, nvec = model(tier, rep)
        bins = fb.result()
    traces, unsupported = execute(tier, gens, bins, "etl")
    par = 6 if tier == "quick" else 8
    tv = vlib.tv_parallel("CLibTrace.tla", "CLibTrace.cfg", traces, "clib_tv_etl_" + tier, par=par, heap="1500m")
    rep.add_tv("CLib", tv, nvec + 2 * RANDOM[tier])
    for p in traces:    # every deviation carries its event; the traces themselves are not needed any more
        os.remove(p)
    rep.cov["modules"]["CLib"].update({"not_drivable": [l for l in unsupported if l.startswith("UNSUPPORTED")],
                                       "random_pairs_per_family": RANDOM[tier]})
    if any(l.startswith("CRASH") for l in unsupported):
        rep.notes.append({"calls_that_do_not_return": [l for l in unsupported if l.startswith("CRASH")]})
    if calibrate:
        ctr, _ = execute(tier, gens, bins, "std")
        ctv = vlib.tv_parallel("CLibTrace.tla", "CLibTrace.cfg", ctr, "clib_tv_std_" + tier, par=par, heap="1500m")
        if ctv["deviations"]:
            d = ctv["deviations"][0]
            raise vlib.ModelFailure("calibration: glibc deviates from CLibOps (spec/projection error): %s %s"
                                    % (d["kind"], json.dumps(d.get("ev"))[:600]))
        rep.cov["modules"]["CLib"]["calibration_events_std"] = ctv["events"]
        for p in ctr:
            os.remove(p)
    return tv


def replay(path, pid):
    """Re-execute the call of a recorded deviation on the current tree (same memory image, pointers and
    arguments) and judge it again with CLibTrace.tla."""
    rec = json.load(open(path))
    ev = rec["event"]
    d = vlib.workdir("clib")
    ip = os.path.join(d, "replay_in.ndjson")
    with open(ip, "w") as f:
        f.write(json.dumps(ev) + "\n")
    binp = vlib.build("clib_driver.cpp", "clib_etl_rp")
    tp = os.path.join(d, "replay_all.ndjson")
    vlib.run([binp, "event", ip], tp)
    keys = ("op", "w", "cv", "f", "c", "x", "y", "p", "q", "n")
    sel = [l for l in open(tp) if all(json.loads(l).get(k) == ev.get(k) for k in keys)]
    if not sel:
        raise vlib.ModelFailure("replay: the call %s is no longer executable" % ev.get("op"))
    one = os.path.join(d, "replay_one.ndjson")
    with open(one, "w") as f:
        f.write(sel[0])
    r = vlib.tlc_tv("CLibTrace.tla", "CLibTrace.cfg", one, "clib_tv_replay", heap="1g")
    if r["deviations"]:
        print("VIOLATION property=%s replay=%s" % (pid, path))
        return 1
    return 0
