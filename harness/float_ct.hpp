// Constant-evaluation path of the Float driver (included by float_driver.cpp when -DVH_CT=<group>).
// Every (function, input) pair is evaluated by the COMPILER: the call sits in a stateless functor whose result
// initialises a constexpr variable.  Whether the call is a constant expression at all is detected per input with
// SFINAE (is_ce), so one rejected input costs one "nc" (not-constant) event instead of the build.  The libm column
// is computed at run time on the same input.  GENERATED ONCE by hand-run script; edit the lists below together.
#pragma once
#include <array>
#include <utility>

namespace {

template <class T>
constexpr auto ct_inputs()
{
    struct R {
        std::array<T, 512> v {};
        std::size_t n = 0;
        constexpr void add(T x) { v[n++] = x; }
    } r;
    if constexpr (std::is_same_v<T, float>) {
        float const base[] = {0.0f, 1.0f, 0.5f, 0.75f, 0.25f, 1.5f, 2.0f, 2.5f, 3.0f, 3.5f, 5.0f, 7.0f, 10.0f, 100.5f, 0.001f,
                              3.14159274f, 1.57079637f, 0.785398185f, 6.28318548f, 2.71828175f, 8388607.5f, 8388608.0f,
                              8388609.0f, 16777216.0f, 16777215.0f, 4194304.5f, 2147483648.0f, 2147483520.0f, 4294967296.0f,
                              9223372036854775808.0f, 9223371487098961920.0f, 18446744073709551616.0f, 1e10f, 1e20f, 1e30f,
                              1e-10f, 1e-20f, 1e-30f, 88.0f, 89.0f, 1000.0f, 1e5f};
        for (float b : base) {
            r.add(b);
            r.add(-b);
        }
        std::uint32_t const pats[] = {0x00000001u, 0x00000002u, 0x007FFFFFu, 0x00400000u, 0x00800000u, 0x00800001u, 0x00FFFFFFu,
                                      0x3F7FFFFFu, 0x3F800001u, 0x3EFFFFFFu, 0x3F000001u, 0x7F7FFFFFu, 0x7F7FFFFEu, 0x7F800000u,
                                      0x7FC00000u, 0x4B000001u, 0x4AFFFFFFu, 0x3FC00001u, 0x3FBFFFFFu, 0x40200001u, 0x401FFFFFu};
        for (std::uint32_t p : pats) {
            r.add(std::bit_cast<float>(p));
            r.add(std::bit_cast<float>(p | 0x80000000u));
        }
        for (int e = 127 - 12; e <= 127 + 12; ++e) {
            for (std::uint32_t s = 0; s < 2; ++s) {
                std::uint32_t const ms[] = {0u, 0x400000u + 12345u, 0x7FFFFFu / 3u};
                for (std::uint32_t m : ms) { r.add(std::bit_cast<float>((s << 31) | ((std::uint32_t)e << 23) | m)); }
            }
        }
        for (int k = -6; k <= 6; ++k) { r.add((float)k + 0.5f); }
    } else {
        double const base[] = {0.0, 1.0, 0.5, 0.75, 0.25, 1.5, 2.0, 2.5, 3.0, 3.5, 5.0, 7.0, 10.0, 100.5, 0.001, 3.141592653589793,
                               1.5707963267948966, 0.7853981633974483, 6.283185307179586, 2.718281828459045, 8388607.5,
                               16777216.0, 4503599627370495.5, 4503599627370496.0, 4503599627370497.0, 9007199254740992.0,
                               9007199254740991.0, 2251799813685248.5, 2147483647.5, 2147483648.5, 9223372036854775808.0,
                               9223372036854774784.0, 18446744073709551616.0, 1e10, 1e20, 1e30, 1e100, 1e300, 1e-10, 1e-30,
                               1e-100, 1e-300, 709.0, 710.0, 0.1, 0.3, 1000.0, 1e5};
        for (double b : base) {
            r.add(b);
            r.add(-b);
        }
        std::uint64_t const pats[] = {1ull, 2ull, 0x000FFFFFFFFFFFFFull, 0x0008000000000000ull, 0x0010000000000000ull,
                                      0x0010000000000001ull, 0x3FEFFFFFFFFFFFFFull, 0x3FF0000000000001ull, 0x3FDFFFFFFFFFFFFFull,
                                      0x3FE0000000000001ull, 0x7FEFFFFFFFFFFFFFull, 0x7FEFFFFFFFFFFFFEull, 0x7FF0000000000000ull,
                                      0x7FF8000000000000ull, 0x3FF8000000000001ull, 0x3FF7FFFFFFFFFFFFull, 0x4004000000000001ull,
                                      0x4003FFFFFFFFFFFFull};
        for (std::uint64_t p : pats) {
            r.add(std::bit_cast<double>(p));
            r.add(std::bit_cast<double>(p | 0x8000000000000000ull));
        }
        for (int e = 1023 - 12; e <= 1023 + 12; ++e) {
            for (std::uint64_t s = 0; s < 2; ++s) {
                std::uint64_t const ms[] = {0ull, 0x8000000000000ull + 123456789ull, 0xFFFFFFFFFFFFFull / 3ull};
                for (std::uint64_t m : ms) { r.add(std::bit_cast<double>((s << 63) | ((std::uint64_t)e << 52) | m)); }
            }
        }
        for (int k = -6; k <= 6; ++k) { r.add((double)k + 0.5); }
    }
    return r;
}
template <class T>
inline constexpr auto ct_in = ct_inputs<T>();

// pair grid of the binary functions
template <class T>
constexpr auto ct_grid()
{
    using L = std::numeric_limits<T>;
    struct R {
        std::array<T, 64> v {};
        std::size_t n = 0;
        constexpr void add(T x) { v[n++] = x; }
    } r;
    T const pos[] = {(T)0, L::denorm_min(), L::min(), (T)0.5, (T)1, (T)1.5, (T)2.5, (T)3, (T)100.5,
                     std::is_same_v<T, float> ? (T)8388607.5 : (T)4503599627370495.5, L::max(), L::infinity(), L::quiet_NaN()};
    for (T p : pos) {
        r.add(p);
        r.add(-p);
    }
    return r;
}
template <class T>
inline constexpr auto ct_gr = ct_grid<T>();

template <class K, int = (K {}(), 0)>
constexpr bool is_ce(int)
{
    return true;
}
template <class K>
constexpr bool is_ce(long)
{
    return false;
}

template <class Fn, class T, std::size_t I>
struct CtCall1 {
    constexpr auto operator()() const { return Fn {}(ct_in<T>.v[I]); }
};
template <class Fn, class T, std::size_t I, std::size_t J>
struct CtCall2 {
    constexpr auto operator()() const { return Fn {}(ct_gr<T>.v[I], ct_gr<T>.v[J]); }
};

void nc_mark() { out.buf.insert(out.buf.size() - 2, ",\"nc\":1"); } // before the closing brace of the last event

template <class Fn, class T, std::size_t I>
void ct_one1()
{
    using K    = CtCall1<Fn, T, I>;
    T const x  = ct_in<T>.v[I];
    auto const c = Fn {}.lib(launder(x));
    if constexpr (is_ce<K>(0)) {
        constexpr auto r = K {}();
        ev1<T>(Fn::name, x, r, c);
    } else {
#ifndef VH_STD
        ev1<T>(Fn::name, x, decltype(K {}()) {}, c);
        nc_mark();
#endif
    }
}
template <class Fn, class T, std::size_t... I>
void ct_all1(std::index_sequence<I...>)
{
    (ct_one1<Fn, T, I>(), ...);
}
template <class Fn>
void ct_unary()
{
    ct_all1<Fn, float>(std::make_index_sequence<ct_in<float>.n> {});
    ct_all1<Fn, double>(std::make_index_sequence<ct_in<double>.n> {});
}

template <class Fn, class T, std::size_t I, std::size_t J>
void ct_one2()
{
    using K    = CtCall2<Fn, T, I, J>;
    T const x  = ct_gr<T>.v[I];
    T const y  = ct_gr<T>.v[J];
    auto const c = Fn {}.lib(launder(x), launder(y));
    if constexpr (is_ce<K>(0)) {
        constexpr auto r = K {}();
        ev2<T>(Fn::name, x, y, r, c);
    } else {
#ifndef VH_STD
        ev2<T>(Fn::name, x, y, decltype(K {}()) {}, c);
        nc_mark();
#endif
    }
}
template <class Fn, class T, std::size_t I, std::size_t... J>
void ct_row2(std::index_sequence<J...>)
{
    (ct_one2<Fn, T, I, J>(), ...);
}
template <class Fn, class T, std::size_t... I>
void ct_all2(std::index_sequence<I...>)
{
    (ct_row2<Fn, T, I>(std::make_index_sequence<ct_gr<T>.n> {}), ...);
}
template <class Fn>
void ct_binary()
{
    ct_all2<Fn, float>(std::make_index_sequence<ct_gr<float>.n> {});
    ct_all2<Fn, double>(std::make_index_sequence<ct_gr<double>.n> {});
}

#define CT1(NAME)                                                                                                                      \
    struct CtF_##NAME {                                                                                                                \
        static constexpr char const* name = #NAME;                                                                                     \
        template <class T>                                                                                                             \
        constexpr auto operator()(T x) const                                                                                           \
        {                                                                                                                              \
            return impl::NAME(x);                                                                                                      \
        }                                                                                                                              \
        template <class T>                                                                                                             \
        auto lib(T x) const                                                                                                            \
        {                                                                                                                              \
            return std::NAME(x);                                                                                                       \
        }                                                                                                                              \
    };
#define CT2(NAME)                                                                                                                      \
    struct CtF_##NAME {                                                                                                                \
        static constexpr char const* name = #NAME;                                                                                     \
        template <class T>                                                                                                             \
        constexpr auto operator()(T x, T y) const                                                                                      \
        {                                                                                                                              \
            return impl::NAME(x, y);                                                                                                   \
        }                                                                                                                              \
        template <class T>                                                                                                             \
        auto lib(T x, T y) const                                                                                                       \
        {                                                                                                                              \
            return std::NAME(x, y);                                                                                                    \
        }                                                                                                                              \
    };

#if VH_CT == 0
    #if VH_HAVE_floor
CT1(floor)
    #endif
    #if VH_HAVE_ceil
CT1(ceil)
    #endif
    #if VH_HAVE_trunc
CT1(trunc)
    #endif
    #if VH_HAVE_round
CT1(round)
    #endif
    #if VH_HAVE_rint
CT1(rint)
    #endif
    #if VH_HAVE_nearbyint
CT1(nearbyint)
    #endif
    #if VH_HAVE_fabs
CT1(fabs)
    #endif
    #if VH_HAVE_abs
CT1(abs)
    #endif
    #if VH_HAVE_lrint
CT1(lrint)
    #endif
    #if VH_HAVE_llrint
CT1(llrint)
    #endif
    #if VH_HAVE_lround
CT1(lround)
    #endif
    #if VH_HAVE_llround
CT1(llround)
    #endif
    #if VH_HAVE_signbit
CT1(signbit)
    #endif
    #if VH_HAVE_isnan
CT1(isnan)
    #endif
    #if VH_HAVE_isinf
CT1(isinf)
    #endif
    #if VH_HAVE_isfinite
CT1(isfinite)
    #endif
    #if VH_HAVE_isnormal
CT1(isnormal)
    #endif
#endif
#if VH_CT == 1
    #if VH_HAVE_sqrt
CT1(sqrt)
    #endif
    #if VH_HAVE_cbrt
CT1(cbrt)
    #endif
    #if VH_HAVE_exp
CT1(exp)
    #endif
    #if VH_HAVE_exp2
CT1(exp2)
    #endif
    #if VH_HAVE_expm1
CT1(expm1)
    #endif
    #if VH_HAVE_log
CT1(log)
    #endif
    #if VH_HAVE_log2
CT1(log2)
    #endif
    #if VH_HAVE_log10
CT1(log10)
    #endif
#endif
#if VH_CT == 2
    #if VH_HAVE_log1p
CT1(log1p)
    #endif
    #if VH_HAVE_sin
CT1(sin)
    #endif
    #if VH_HAVE_cos
CT1(cos)
    #endif
    #if VH_HAVE_tan
CT1(tan)
    #endif
    #if VH_HAVE_asin
CT1(asin)
    #endif
    #if VH_HAVE_acos
CT1(acos)
    #endif
    #if VH_HAVE_atan
CT1(atan)
    #endif
    #if VH_HAVE_sinh
CT1(sinh)
    #endif
#endif
#if VH_CT == 3
    #if VH_HAVE_cosh
CT1(cosh)
    #endif
    #if VH_HAVE_tanh
CT1(tanh)
    #endif
    #if VH_HAVE_asinh
CT1(asinh)
    #endif
    #if VH_HAVE_acosh
CT1(acosh)
    #endif
    #if VH_HAVE_atanh
CT1(atanh)
    #endif
    #if VH_HAVE_erf
CT1(erf)
    #endif
    #if VH_HAVE_tgamma
CT1(tgamma)
    #endif
    #if VH_HAVE_lgamma
CT1(lgamma)
    #endif
#endif
#if VH_CT == 4
    #if VH_HAVE_copysign
CT2(copysign)
    #endif
    #if VH_HAVE_fmin
CT2(fmin)
    #endif
    #if VH_HAVE_fmax
CT2(fmax)
    #endif
    #if VH_HAVE_fdim
CT2(fdim)
    #endif
    #if VH_HAVE_nextafter
CT2(nextafter)
    #endif
    #if VH_HAVE_fmod
CT2(fmod)
    #endif
    #if VH_HAVE_remainder
CT2(remainder)
    #endif
#endif
#if VH_CT == 5
    #if VH_HAVE_pow
CT2(pow)
    #endif
    #if VH_HAVE_atan2
CT2(atan2)
    #endif
    #if VH_HAVE_hypot
CT2(hypot)
    #endif
    #if VH_HAVE_midpoint
CT2(midpoint)
    #endif
#endif

void run_ct()
{
#if VH_CT == 0
    #if VH_HAVE_floor
    ct_unary<CtF_floor>();
    #endif
    #if VH_HAVE_ceil
    ct_unary<CtF_ceil>();
    #endif
    #if VH_HAVE_trunc
    ct_unary<CtF_trunc>();
    #endif
    #if VH_HAVE_round
    ct_unary<CtF_round>();
    #endif
    #if VH_HAVE_rint
    ct_unary<CtF_rint>();
    #endif
    #if VH_HAVE_nearbyint
    ct_unary<CtF_nearbyint>();
    #endif
    #if VH_HAVE_fabs
    ct_unary<CtF_fabs>();
    #endif
    #if VH_HAVE_abs
    ct_unary<CtF_abs>();
    #endif
    #if VH_HAVE_lrint
    ct_unary<CtF_lrint>();
    #endif
    #if VH_HAVE_llrint
    ct_unary<CtF_llrint>();
    #endif
    #if VH_HAVE_lround
    ct_unary<CtF_lround>();
    #endif
    #if VH_HAVE_llround
    ct_unary<CtF_llround>();
    #endif
    #if VH_HAVE_signbit
    ct_unary<CtF_signbit>();
    #endif
    #if VH_HAVE_isnan
    ct_unary<CtF_isnan>();
    #endif
    #if VH_HAVE_isinf
    ct_unary<CtF_isinf>();
    #endif
    #if VH_HAVE_isfinite
    ct_unary<CtF_isfinite>();
    #endif
    #if VH_HAVE_isnormal
    ct_unary<CtF_isnormal>();
    #endif
#endif
#if VH_CT == 1
    #if VH_HAVE_sqrt
    ct_unary<CtF_sqrt>();
    #endif
    #if VH_HAVE_cbrt
    ct_unary<CtF_cbrt>();
    #endif
    #if VH_HAVE_exp
    ct_unary<CtF_exp>();
    #endif
    #if VH_HAVE_exp2
    ct_unary<CtF_exp2>();
    #endif
    #if VH_HAVE_expm1
    ct_unary<CtF_expm1>();
    #endif
    #if VH_HAVE_log
    ct_unary<CtF_log>();
    #endif
    #if VH_HAVE_log2
    ct_unary<CtF_log2>();
    #endif
    #if VH_HAVE_log10
    ct_unary<CtF_log10>();
    #endif
#endif
#if VH_CT == 2
    #if VH_HAVE_log1p
    ct_unary<CtF_log1p>();
    #endif
    #if VH_HAVE_sin
    ct_unary<CtF_sin>();
    #endif
    #if VH_HAVE_cos
    ct_unary<CtF_cos>();
    #endif
    #if VH_HAVE_tan
    ct_unary<CtF_tan>();
    #endif
    #if VH_HAVE_asin
    ct_unary<CtF_asin>();
    #endif
    #if VH_HAVE_acos
    ct_unary<CtF_acos>();
    #endif
    #if VH_HAVE_atan
    ct_unary<CtF_atan>();
    #endif
    #if VH_HAVE_sinh
    ct_unary<CtF_sinh>();
    #endif
#endif
#if VH_CT == 3
    #if VH_HAVE_cosh
    ct_unary<CtF_cosh>();
    #endif
    #if VH_HAVE_tanh
    ct_unary<CtF_tanh>();
    #endif
    #if VH_HAVE_asinh
    ct_unary<CtF_asinh>();
    #endif
    #if VH_HAVE_acosh
    ct_unary<CtF_acosh>();
    #endif
    #if VH_HAVE_atanh
    ct_unary<CtF_atanh>();
    #endif
    #if VH_HAVE_erf
    ct_unary<CtF_erf>();
    #endif
    #if VH_HAVE_tgamma
    ct_unary<CtF_tgamma>();
    #endif
    #if VH_HAVE_lgamma
    ct_unary<CtF_lgamma>();
    #endif
#endif
#if VH_CT == 4
    #if VH_HAVE_copysign
    ct_binary<CtF_copysign>();
    #endif
    #if VH_HAVE_fmin
    ct_binary<CtF_fmin>();
    #endif
    #if VH_HAVE_fmax
    ct_binary<CtF_fmax>();
    #endif
    #if VH_HAVE_fdim
    ct_binary<CtF_fdim>();
    #endif
    #if VH_HAVE_nextafter
    ct_binary<CtF_nextafter>();
    #endif
    #if VH_HAVE_fmod
    ct_binary<CtF_fmod>();
    #endif
    #if VH_HAVE_remainder
    ct_binary<CtF_remainder>();
    #endif
#endif
#if VH_CT == 5
    #if VH_HAVE_pow
    ct_binary<CtF_pow>();
    #endif
    #if VH_HAVE_atan2
    ct_binary<CtF_atan2>();
    #endif
    #if VH_HAVE_hypot
    ct_binary<CtF_hypot>();
    #endif
    #if VH_HAVE_midpoint
    ct_binary<CtF_midpoint>();
    #endif
#endif
}

} // namespace
