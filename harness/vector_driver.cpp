// Conformance driver for the vector family (properties C01, C03, parts of C02/C05).
// Executes scripts exported from spec/Vector.tla (or its own seeded random histories) on the real
// templates and records one self-contained event per public call: {op,o,x,pre,post,ret,cap,obs}
// (+ life events for the Tracked element type).  The events are judged by spec/VectorTrace.tla.
// The same source is built against libstdc++ (-DVH_STD) as the calibration run.
#define VH_ALLOC_MONITOR
#include "common.hpp"

#include <optional>
#include <set>
#include <stack>
#include <vector>

#ifndef VH_STD
    #include <etl/inplace_vector.hpp>
    #include <etl/stack.hpp>
    #include <etl/vector.hpp>
#endif

using vh::json;
using vh::Tracked;

#ifdef VH_CONTRACT
    #include <csetjmp>
    #include <functional>
    #include <sys/wait.h>
    #include <unistd.h>
// Contract mode (property C05): the library is built with TETL_ENABLE_CONTRACT_CHECKS[_SAFE] and
// TETL_ENABLE_CUSTOM_ASSERT_HANDLER. The handler records location + a snapshot of both objects taken
// *inside* the handler. Violating calls run in a forked child (the handler never returns).
namespace vhc {
inline int child_fd = -1;                 // >= 0: we are the forked child of a violating call
inline std::function<json()> snapshot;    // projection of the current objects
inline sigjmp_buf jb;
inline bool armed = false;                // parent: a (valid) call is in flight
inline json fired;                        // parent: what the handler saw
[[noreturn]] inline void on_assert(char const* file, int line, char const* expr)
{
    json j;
    j["hfile"] = file ? std::string(file).substr(std::string(file).find("include/etl") == std::string::npos ? 0 : std::string(file).find("include/etl")) : std::string("");
    j["hline"] = line;
    j["hexpr"] = expr ? expr : "";
    j["snap"]  = snapshot ? snapshot() : json();
    if (child_fd >= 0) {
        std::string s = j.dump();
        (void)!::write(child_fd, s.data(), s.size());
        vh_exit(42);
    }
    fired = j;
    if (armed) { siglongjmp(jb, 1); }
    std::fprintf(stderr, "assert handler fired outside a call: %s:%d\n", file, line);
    vh_exit(3);
}
} // namespace vhc
namespace etl {
template <typename Assertion>
[[noreturn]] auto assert_handler(Assertion const& msg) -> void
{
    vhc::on_assert(msg.file, msg.line, msg.expression);
}
} // namespace etl
#endif

#ifndef VH_CAPS
    #define VH_CAPS 0, 1, 2, 3
#endif

namespace {

// ---- std adapters (calibration) --------------------------------------------------------------
template <typename T, size_t N>
struct StdVec : std::vector<T> {
    using std::vector<T>::vector;
    StdVec() { this->reserve(N + 1); } // keeps data() stable below N so that cells can be named
    StdVec(StdVec const& o) : std::vector<T>()
    {
        this->reserve(N + 1);
        for (auto const& e : o) { this->push_back(e); }
    }
    StdVec(StdVec&& o) noexcept : std::vector<T>(std::move(static_cast<std::vector<T>&>(o))) { }
    auto operator=(StdVec const& o) -> StdVec& = default;
    auto operator=(StdVec&& o) noexcept -> StdVec& = default;
};

enum class Kind { sv, ipv, stack };

template <typename V>
struct is_stack : std::false_type { };
template <typename T, typename C>
struct is_stack<std::stack<T, C>> : std::true_type { };
#ifndef VH_STD
template <typename T, typename C>
struct is_stack<etl::stack<T, C>> : std::true_type { };
#endif

template <typename V, typename T, size_t N>
struct Runner {
    static constexpr bool stackish = is_stack<V>::value;
    static constexpr bool tracked  = vh::is_tracked<T>;
    alignas(V) unsigned char store[2][sizeof(V)];
    V* ob[2];
    std::string inst;
    long nev = 0, nskip = 0;

    explicit Runner(std::string name) : inst(std::move(name))
    {
        for (int i = 0; i < 2; ++i) { ob[i] = new (store[i]) V(); }
#ifdef VH_CONTRACT
        vhc::snapshot = [this] { return state(); };
#endif
    }
    ~Runner()
    {
        if (!dirty) {
            for (int i = 0; i < 2; ++i) { ob[i]->~V(); }
        }
#ifdef VH_CONTRACT
        vhc::snapshot = nullptr;
#endif
    }

    static int oi(std::string const& o) { return o == "a" ? 0 : 1; }

    // ---- projection (public observers only) ----
    static json elems(V const& v)
    {
        json a = json::array();
        if constexpr (stackish) {
            V c(v);
            std::vector<int> r;
            while (!c.empty()) {
                r.push_back(vh::val_of(c.top()));
                c.pop();
            }
            for (auto it = r.rbegin(); it != r.rend(); ++it) { a.push_back(*it); }
        } else {
            if (v.size() > std::max<size_t>(N, 1) * 1 && v.size() > N) {
                // impossible size (e.g. indeterminate size member): do not walk outside the storage
                a.push_back(-9999);
                a.push_back((long)(v.size() % 100000));
                return a;
            }
            for (auto it = v.begin(); it != v.end(); ++it) { a.push_back(vh::val_of(*it)); }
        }
        return a;
    }
    json state() const
    {
        json s;
        s["a"] = elems(*ob[0]);
        s["b"] = elems(*ob[1]);
        return s;
    }
    static json observe(V& v)
    {
        V const& cv = v;
        json o;
        o["size"]  = (long)cv.size();
        o["empty"] = (bool)cv.empty();
        if constexpr (stackish) {
            o["back"] = cv.empty() ? -1 : vh::val_of(cv.top());
            return o;
        } else {
            if constexpr (requires { cv.full(); }) { o["full"] = (bool)cv.full(); }
#ifndef VH_STD
            o["cap"]     = (long)cv.capacity();
            o["maxsize"] = (long)cv.max_size();
#endif
            json idx = json::array(), cidx = json::array(), dat = json::array(), rev = json::array(),
                 crev = json::array();
            for (size_t i = 0; i < cv.size(); ++i) {
                idx.push_back(vh::val_of(v[i]));
                cidx.push_back(vh::val_of(cv[i]));
                dat.push_back(vh::val_of(cv.data()[i]));
            }
            o["idx"]  = idx;
            o["cidx"] = cidx;
            o["dat"]  = dat;
            if constexpr (requires { v.rbegin(); }) {
                for (auto it = v.rbegin(); it != v.rend(); ++it) { rev.push_back(vh::val_of(*it)); }
                o["rev"] = rev;
            }
            if constexpr (requires { cv.crbegin(); }) {
                for (auto it = cv.crbegin(); it != cv.crend(); ++it) { crev.push_back(vh::val_of(*it)); }
                o["crev"] = crev;
            }
            o["front"] = cv.empty() ? -1 : vh::val_of(cv.front());
            o["back"]  = cv.empty() ? -1 : vh::val_of(cv.back());
            return o;
        }
    }
    json observe_all()
    {
        json o;
        o["a"] = observe(*ob[0]);
        o["b"] = observe(*ob[1]);
        V const& a = *ob[0];
        V const& b = *ob[1];
        if constexpr (requires { a < b; a == b; }) {
            o["cmp"] = json::array({a == b, a != b, a < b, a <= b, a > b, a >= b});
        }
        return o;
    }

    std::vector<vh::Region> regions()
    {
        std::vector<vh::Region> r;
        if constexpr (!stackish) {
            for (int i = 0; i < 2; ++i) {
                r.push_back({reinterpret_cast<char const*>(ob[i]->data()), sizeof(T),
                    std::min<size_t>(N, ob[i]->capacity()), i + 1});
            }
        }
        return r;
    }

    // A constructor must not depend on what the storage held before: between destroying the old object and
    // constructing the new one the bytes are overwritten with 0xA5 (C02: uninitialised reads become visible)
    static void scrub(V& v) { std::memset(static_cast<void*>(&v), 0xA5, sizeof(V)); }

    // Runs one op. Returns false when the operation is not provided by this instantiation.
    bool apply(std::string const& op, int o, json const& x, long& ret)
    {
        V& v   = *ob[o];
        int vi = x.value("v", 0);
        long p = x.value("p", 0L), q = x.value("q", 0L), n = x.value("n", 0L);
        int si = oi(x.value("src", std::string("a")));
        V& src = *ob[si];
        std::vector<T> xs;
        if (x.contains("xs")) {
            for (auto const& e : x["xs"]) { xs.emplace_back(e.get<int>()); }
        }
        T val(vi);

        auto& L = vh::life();
        if constexpr (tracked && !stackish) {
            L.begin_window(regions());
            L.declare_ext(&val);
            for (auto& e : xs) { L.declare_ext(&e); }
            ext_vals = json::array();
            ext_vals.push_back({{"c", L.cell(&val)}, {"v", vi}});
            for (auto& e : xs) { ext_vals.push_back({{"c", L.cell(&e)}, {"v", e.v}}); }
        }
        ret     = 0;
        bool ok = true;
        std::optional<vh::CallWindow> cw; // allocation monitor: open exactly while the library call runs
        cw.emplace();

        if constexpr (stackish) {
            if (op == "push_back") { v.push(val); }
            else if (op == "push_back_mv") { v.push(std::move(val)); }
            else if (op == "emplace_back") { v.emplace(vi); }
            else if (op == "pop_back") { v.pop(); }
            else if (op == "back") { ret = vh::val_of(v.top()); }
            else if (op == "swap") { v.swap(src); }
            else if (op == "fswap") { swap(v, src); }
            else if (op == "copy_assign") {
                if constexpr (std::is_copy_assignable_v<V>) { v = src; } else { ok = false; }
            } else if (op == "move_assign") {
                if constexpr (std::is_move_assignable_v<V>) { v = std::move(src); } else { ok = false; }
            }
            else if (op == "ctor_default") { v.~V(); scrub(v); new (&v) V(); }
            else if (op == "ctor_copy") { v.~V(); scrub(v); new (&v) V(src); }
            else if (op == "ctor_move") { v.~V(); scrub(v); new (&v) V(std::move(src)); }
            else if (op == "ctor_range") {
                typename V::container_type c;
                for (auto& e : xs) { c.push_back(e); }
                v.~V(); scrub(v);
                new (&v) V(c);
            } else { ok = false; }
        } else {
            constexpr bool CC = std::is_copy_constructible_v<T>; // members taking T const& need it in their bodies
            auto idxof = [&](auto* ptr) -> long { return ptr == nullptr ? -1 : (long)(ptr - v.data()); };
            if (op == "push_back") {
                if constexpr (CC) { if constexpr (requires { v.push_back(val); }) { v.push_back(val); } else { ok = false; } } else { ok = false; }
            } else if (op == "push_back_mv") {
                if constexpr (requires { v.push_back(std::move(val)); }) { v.push_back(std::move(val)); } else { ok = false; }
            } else if (op == "emplace_back") {
                if constexpr (requires { v.emplace_back(vi); }) { v.emplace_back(vi); } else { ok = false; }
            } else if (op == "unchecked_push_back") {
                if constexpr (CC) { if constexpr (requires { v.unchecked_push_back(val); }) { ret = idxof(&v.unchecked_push_back(val)); } else { ok = false; } } else { ok = false; }
            } else if (op == "unchecked_push_back_mv") {
                if constexpr (requires { v.unchecked_push_back(std::move(val)); }) { ret = idxof(&v.unchecked_push_back(std::move(val))); } else { ok = false; }
            } else if (op == "unchecked_emplace_back") {
                if constexpr (requires { v.unchecked_emplace_back(vi); }) { ret = idxof(&v.unchecked_emplace_back(vi)); } else { ok = false; }
            } else if (op == "try_push_back") {
                if constexpr (CC) { if constexpr (requires { v.try_push_back(val); }) { ret = idxof(v.try_push_back(val)); } else { ok = false; } } else { ok = false; }
            } else if (op == "try_push_back_mv") {
                if constexpr (requires { v.try_push_back(std::move(val)); }) { ret = idxof(v.try_push_back(std::move(val))); } else { ok = false; }
            } else if (op == "try_emplace_back") {
                if constexpr (requires { v.try_emplace_back(vi); }) { ret = idxof(v.try_emplace_back(vi)); } else { ok = false; }
            } else if (op == "pop_back") {
                v.pop_back();
            } else if (op == "clear") {
                v.clear();
            } else if (op == "emplace") {
                if constexpr (requires { v.emplace(v.begin(), vi); }) { auto it = v.emplace(v.begin() + p, vi); ret = it - v.begin(); } else { ok = false; }
            } else if (op == "insert_copy") {
                if constexpr (CC) { if constexpr (requires { v.insert(v.begin(), val); }) { auto it = v.insert(v.begin() + p, val); ret = it - v.begin(); } else { ok = false; } } else { ok = false; }
            } else if (op == "insert_move") {
                if constexpr (requires { v.insert(v.begin(), std::move(val)); }) { auto it = v.insert(v.begin() + p, std::move(val)); ret = it - v.begin(); } else { ok = false; }
            } else if (op == "insert_fill") {
                if constexpr (CC) { if constexpr (requires { v.insert(v.begin(), size_t(1), val); }) { auto it = v.insert(v.begin() + p, (size_t)n, val); ret = it - v.begin(); } else { ok = false; } } else { ok = false; }
            } else if (op == "insert_range") {
                if constexpr (CC) { if constexpr (requires { v.insert(v.begin(), xs.data(), xs.data()); }) { auto it = v.insert(v.begin() + p, xs.data(), xs.data() + xs.size()); ret = it - v.begin(); } else { ok = false; } } else { ok = false; }
            } else if (op == "insert_self") {
                if constexpr (CC) { if constexpr (requires { v.insert(v.begin(), val); }) { auto it = v.insert(v.begin() + p, v[(size_t)q]); ret = it - v.begin(); } else { ok = false; } } else { ok = false; }
            } else if (op == "erase_pos") {
                if constexpr (requires { v.erase(v.begin()); }) { auto it = v.erase(v.begin() + p); ret = it - v.begin(); } else { ok = false; }
            } else if (op == "erase_range") {
                if constexpr (requires { v.erase(v.begin(), v.begin()); }) { auto it = v.erase(v.begin() + p, v.begin() + q); ret = it - v.begin(); } else { ok = false; }
            } else if (op == "resize") {
                if constexpr (requires { v.resize(size_t(1)); }) { v.resize((size_t)n); } else { ok = false; }
            } else if (op == "resize_val") {
                if constexpr (CC) { if constexpr (requires { v.resize(size_t(1), val); }) { v.resize((size_t)n, val); } else { ok = false; } } else { ok = false; }
            } else if (op == "assign_fill") {
                if constexpr (CC) { if constexpr (requires { v.assign(size_t(1), val); }) { v.assign((size_t)n, val); } else { ok = false; } } else { ok = false; }
            } else if (op == "assign_range") {
                if constexpr (CC) { if constexpr (requires { v.assign(xs.data(), xs.data()); }) { v.assign(xs.data(), xs.data() + xs.size()); } else { ok = false; } } else { ok = false; }
            } else if (op == "swap") {
                if constexpr (CC) { if constexpr (requires { v.swap(src); }) { v.swap(src); } else { ok = false; } } else { ok = false; }
            } else if (op == "fswap") {
                if constexpr (CC) { if constexpr (requires { swap(v, src); }) { swap(v, src); } else { ok = false; } } else { ok = false; }
            } else if (op == "copy_assign") {
                if constexpr (CC) { if constexpr (std::is_copy_assignable_v<V>) { v = src; } else { ok = false; } } else { ok = false; }
            } else if (op == "move_assign") {
                if constexpr (CC) { if constexpr (std::is_move_assignable_v<V>) { v = std::move(src); } else { ok = false; } } else { ok = false; }
            } else if (op == "ctor_default") {
                v.~V(); scrub(v);
                new (&v) V();
            } else if (op == "ctor_dinit") {
                // default-initialisation ("V v;") into storage holding arbitrary bytes must give an empty vector
                v.~V();
                std::memset(static_cast<void*>(&v), (int)n, sizeof(V));
                new (&v) V;
            } else if (op == "ctor_n") {
                if constexpr (requires { V(size_t(1)); }) { v.~V(); scrub(v); new (&v) V((size_t)n); } else { ok = false; }
            } else if (op == "ctor_fill") {
                if constexpr (CC) { if constexpr (requires { V(size_t(1), val); }) { v.~V(); scrub(v); new (&v) V((size_t)n, val); } else { ok = false; } } else { ok = false; }
            } else if (op == "ctor_range") {
                if constexpr (CC) { if constexpr (requires { V(xs.data(), xs.data()); }) { v.~V(); scrub(v); new (&v) V(xs.data(), xs.data() + xs.size()); } else { ok = false; } } else { ok = false; }
            } else if (op == "ctor_copy") {
                if constexpr (CC) { if constexpr (std::is_copy_constructible_v<V>) { v.~V(); scrub(v); new (&v) V(src); } else { ok = false; } } else { ok = false; }
            } else if (op == "ctor_move") {
                if constexpr (std::is_move_constructible_v<V>) { v.~V(); scrub(v); new (&v) V(std::move(src)); } else { ok = false; }
            } else if (op == "at") {
                ret = vh::val_of(v[(size_t)p]);
            } else if (op == "front") {
                ret = vh::val_of(v.front());
            } else if (op == "back") {
                ret = vh::val_of(v.back());
            } else if (op == "erase_val") {
                if constexpr (requires { erase(v, val); }) { ret = (long)erase(v, val); } else { ok = false; }
            } else if (op == "erase_if_odd") {
                if constexpr (requires { erase_if(v, [](T const&) { return true; }); }) {
                    ret = (long)erase_if(v, [](T const& e) { return vh::val_of(e) % 2 != 0; });
                } else { ok = false; }
            } else {
                ok = false;
            }
        }
        cw.reset();
        if constexpr (tracked && !stackish) {
            L.end_window();
            // cells of the harness-owned arguments that are (still) alive after the call
            ext_end = json::array();
            for (auto c : L.ext_live_at_start) { ext_end.push_back(c); }
        }
        return ok;
    }
    json ext_vals = json::array(), ext_end = json::array();
    bool broken = false;
    void const* data_before[2] = {nullptr, nullptr};
    size_t cap_before[2]       = {0, 0};
    std::set<std::string> unsupported_seen;

    void step(std::string const& op, std::string const& o, json const& x)
    {
        if (quiet) {
            long r = 0;
#ifdef VH_CONTRACT
            vhc::armed = true;
            if (sigsetjmp(vhc::jb, 1) != 0) {
                // handler fired on a path step: the recorded twin of this call reports it; abandon this script
                vhc::armed = false;
                vh::life().end_window();
                broken = true;
                dirty  = true;
                return;
            }
#endif
            bool ok = apply(op, oi(o), x, r);
#ifdef VH_CONTRACT
            vhc::armed = false;
#endif
            if (!ok) {
                ++nskip;
                broken = true;
                if (unsupported_seen.insert(op).second) { std::fprintf(stderr, "UNSUPPORTED %s %s\n", inst.c_str(), op.c_str()); }
            }
            if (ob[0]->size() > N || ob[1]->size() > N) {
                dirty  = true;
                broken = true;
                reset();
            }
            return;
        }
        json ev;
        ev["op"]  = op;
        ev["o"]   = o;
        ev["x"]   = x;
        ev["cap"] = (long)N;
        ev["pre"] = state();
        if constexpr (!stackish) {
            data_before[0] = ob[0]->data();
            data_before[1] = ob[1]->data();
            cap_before[0]  = ob[0]->capacity();
            cap_before[1]  = ob[1]->capacity();
        }
        long ret  = 0;
#ifdef VH_CONTRACT
        ev["outcome"] = "returned";
        vhc::armed    = true;
        if (sigsetjmp(vhc::jb, 1) != 0) {
            // the handler fired during a call the script considers valid
            vhc::armed    = false;
            vh::life().end_window();
            ev["outcome"] = "handler";
            ev["hline"]   = vhc::fired["hline"];
            ev["hfile"]   = vhc::fired["hfile"];
            ev["hexpr"]   = vhc::fired["hexpr"];
            ev["inst"]    = inst;
            vh::emit(ev);
            ++nev;
            broken = true;
            dirty  = true;
            return;
        }
#endif
        bool ok   = apply(op, oi(o), x, ret);
#ifdef VH_CONTRACT
        vhc::armed = false;
#endif
        if (!ok) {
            ++nskip;
            broken = true;
            if (unsupported_seen.insert(op).second) { std::fprintf(stderr, "UNSUPPORTED %s %s\n", inst.c_str(), op.c_str()); }
            return;
        }
        ev["post"] = state();
        ev["ret"]  = ret;
        if (ob[0]->size() > N || ob[1]->size() > N) {
            // corrupt object: report what we saw, then rebuild both objects without running destructors
            ev["obs"]  = json{{"corrupt", true}};
            ev["inst"] = inst;
            vh::emit(ev);
            ++nev;
            dirty  = true;
            broken = true;
            reset();
            return;
        }
#ifndef VH_STD
        ev["allocs"] = vh::allocs_in_call();
#endif
        ev["obs"]  = observe_all();
        bool life_ok = true;
#ifdef VH_STD
        // std::vector may legitimately move to another buffer (swap, move, fresh construction): cells
        // are then not comparable across the call, so the lifetime monitor is calibrated only on
        // calls that kept both buffers
        if constexpr (!stackish) {
            life_ok = data_before[0] == (void const*)ob[0]->data() && data_before[1] == (void const*)ob[1]->data()
                   && cap_before[0] == ob[0]->capacity() && cap_before[1] == ob[1]->capacity();
        }
#endif
        if constexpr (tracked && !stackish) {
          if (life_ok) {
            json l;
            l["evs"]    = vh::life().events;
            l["ext"]    = ext_vals;
            l["extend"] = ext_end;
            ev["life"]  = l;
          }
        }
        ev["inst"] = inst;
        vh::emit(ev);
        ++nev;
    }

    bool quiet      = false;
    bool mark       = std::getenv("VH_MARK") != nullptr;
    bool ever_dirty = false;
    bool dirty = false; // an aborted call left the objects in an unknown state: do not destroy them
    void reset()
    {
        for (int i = 0; i < 2; ++i) {
            if (!dirty) { ob[i]->~V(); }
            ob[i] = new (store[i]) V();
        }
        ever_dirty = ever_dirty || dirty;
        dirty      = false;
    }
#ifdef VH_CONTRACT
    // a call that violates a documented precondition: run it in a child, report what happened
    void bad_step(std::string const& op, std::string const& o, json const& x)
    {
        json ev;
        ev["op"]   = op;
        ev["o"]    = o;
        ev["x"]    = x;
        ev["cap"]  = (long)N;
        ev["pre"]  = state();
        ev["inst"] = inst;
        int fds[2];
        if (::pipe(fds) != 0) { std::exit(2); }
        std::cout.flush();
        pid_t pid = ::fork();
        if (pid == 0) {
            ::close(fds[0]);
            vhc::child_fd = fds[1];
            long ret      = 0;
            bool ok       = apply(op, oi(o), x, ret);
            json j;
            j["outcome"] = ok ? "returned" : "unsupported";
            j["snap"]    = state();
            std::string s = j.dump();
            (void)!::write(fds[1], s.data(), s.size());
            vh_exit(0);
        }
        ::close(fds[1]);
        std::string buf;
        char tmp[4096];
        ssize_t k;
        while ((k = ::read(fds[0], tmp, sizeof tmp)) > 0) { buf.append(tmp, (size_t)k); }
        ::close(fds[0]);
        int status = 0;
        ::waitpid(pid, &status, 0);
        json j = buf.empty() ? json() : json::parse(buf, nullptr, false);
        if (WIFEXITED(status) && WEXITSTATUS(status) == 42 && j.is_object()) {
            ev["outcome"] = "handler";
            ev["hline"]   = j["hline"];
            ev["hfile"]   = j["hfile"];
            ev["hexpr"]   = j["hexpr"];
            ev["snap"]    = j["snap"];
        } else if (WIFEXITED(status) && WEXITSTATUS(status) == 0 && j.is_object()) {
            if (j["outcome"] == "unsupported") {
                ++nskip;
                if (unsupported_seen.insert(op).second) { std::fprintf(stderr, "UNSUPPORTED %s %s\n", inst.c_str(), op.c_str()); }
                return;
            }
            ev["outcome"] = "returned";
            ev["hline"]   = 0;
            ev["hfile"]   = "";
            ev["snap"]    = j["snap"];
        } else {
            ev["outcome"] = "trap";
            ev["hline"]   = 0;
            ev["hfile"]   = "";
            ev["snap"]    = ev["pre"];
            ev["status"]  = status;
        }
        vh::emit(ev);
        ++nev;
    }
#endif

    // ---- script replay ----
    void replay(std::vector<json> const& script)
    {
        for (auto const& ln : script) {
            if (ln.contains("reset")) {
                reset();
                broken = false;
                if (mark) { vh::emit(json{{"op", "reset"}}); } // script boundary marker (resilient replay)
                continue;
            }
            if (broken) { continue; } // an earlier call of this script is not provided: the state is not the planned one
            if (ln.contains("cap") && ln["cap"].get<long>() != (long)N) { continue; }
#ifdef VH_CONTRACT
            if (ln.value("bad", false)) {
                bad_step(ln["op"].get<std::string>(), ln["o"].get<std::string>(), ln["x"]);
                continue;
            }
#endif
            // path prefix of a script (quiet): executed, not recorded - the same call from the same state is the
            // final, recorded call of another script
            quiet = ln.value("quiet", 0) != 0;
            step(ln["op"].get<std::string>(), ln["o"].get<std::string>(), ln["x"]);
            quiet = false;
        }
    }

    // ---- seeded random histories (record direction) ----
    static json X0()
    {
        return json{{"v", 0}, {"p", 0}, {"q", 0}, {"n", 0}, {"xs", json::array()}, {"src", "a"}};
    }
    void random_history(vh::Rng& rng, long steps, Kind kind, int nvals)
    {
        static std::vector<std::string> const svops
            = {"push_back", "push_back_mv", "emplace_back", "pop_back", "emplace", "insert_copy", "insert_move",
               "insert_fill", "insert_range", "insert_self", "erase_pos", "erase_range", "clear", "resize",
               "resize_val", "assign_fill", "assign_range", "swap", "fswap", "copy_assign", "move_assign",
               "ctor_default", "ctor_n", "ctor_fill", "ctor_range", "ctor_copy", "ctor_move", "erase_val",
               "erase_if_odd", "at", "front", "back"};
        static std::vector<std::string> const ipvops
            = {"try_push_back", "try_push_back_mv", "try_emplace_back", "unchecked_push_back",
               "unchecked_push_back_mv", "unchecked_emplace_back", "pop_back", "clear", "ctor_default",
               "ctor_copy", "ctor_move", "at", "front", "back"};
        static std::vector<std::string> const stops
            = {"push_back", "push_back_mv", "emplace_back", "pop_back", "swap", "fswap", "copy_assign",
               "move_assign", "ctor_default", "ctor_copy", "ctor_move", "ctor_range", "back"};
        auto const& ops = kind == Kind::sv ? svops : kind == Kind::ipv ? ipvops : stops;
        reset();
        // bias: alternate between growing and shrinking phases so that both empty and full are visited
        bool grow = true;
        for (long i = 0; i < steps; ++i) {
            int o         = (int)rng.range(0, 1);
            long sz       = (long)ob[o]->size();
            long room     = (long)N - sz;
            std::string op = ops[(size_t)rng.range(0, (long)ops.size() - 1)];
            json x        = X0();
            x["v"]        = (int)rng.range(0, nvals - 1);
            x["src"]      = rng.coin() ? "a" : "b";
            auto isgrow   = [&](std::string const& s) {
                return s.find("push") != std::string::npos || s.find("emplace") != std::string::npos
                    || s.find("insert") != std::string::npos;
            };
            if (sz == 0) { grow = true; }
            if (room == 0) { grow = false; }
            if (!grow && isgrow(op) && rng.coin(70)) { op = rng.coin() ? "pop_back" : (kind == Kind::sv ? "erase_pos" : "pop_back"); }
            if (grow && (op == "clear" || op == "ctor_default") && rng.coin(80)) { continue; }
            // make the arguments valid for the current state
            bool needroom = isgrow(op) && op.rfind("try_", 0) != 0;
            if (needroom && room == 0) { continue; }
            if ((op == "pop_back" || op == "erase_pos" || op == "insert_self" || op == "at" || op == "front" || op == "back") && sz == 0) { continue; }
            if (op == "at") { x["p"] = rng.range(0, sz - 1); }
            if (op == "emplace" || op == "insert_copy" || op == "insert_move") { x["p"] = rng.range(0, sz); }
            if (op == "insert_fill") {
                x["p"] = rng.range(0, sz);
                x["n"] = rng.range(0, std::min<long>(room, 4));
            }
            if (op == "insert_range" || op == "assign_range" || op == "ctor_range") {
                long lim = op == "insert_range" ? room : (long)N;
                long k   = rng.range(0, std::min<long>(lim, 5));
                json a   = json::array();
                for (long j = 0; j < k; ++j) { a.push_back((int)rng.range(0, nvals - 1)); }
                x["xs"] = a;
                x["p"]  = op == "insert_range" ? rng.range(0, sz) : 0;
            }
            if (op == "insert_self") {
                x["p"] = rng.range(0, sz);
                x["q"] = rng.range(0, sz - 1);
            }
            if (op == "erase_pos") { x["p"] = rng.range(0, sz - 1); }
            if (op == "erase_range") {
                long a = rng.range(0, sz);
                x["p"] = a;
                x["q"] = rng.range(a, sz);
            }
            if (op == "resize" || op == "resize_val" || op == "assign_fill" || op == "ctor_n" || op == "ctor_fill") {
                long hi = std::min<long>((long)N, sz + 4);
                x["n"]  = rng.range(std::max<long>(0, sz - 4), hi);
            }
            if (op == "ctor_copy" || op == "ctor_move" || op == "move_assign") { x["src"] = o == 0 ? "b" : "a"; }
            step(op, o == 0 ? "a" : "b", x);
        }
    }
};

template <typename Elem, size_t N>
struct Types {
#ifndef VH_STD
    using sv    = etl::static_vector<Elem, N>;
    using ipv   = etl::inplace_vector<Elem, N>;
    using stack = etl::stack<Elem, etl::static_vector<Elem, N>>;
#else
    using sv    = StdVec<Elem, N>;
    using stack = std::stack<Elem, StdVec<Elem, N>>;
#endif
};

struct Args {
    std::string mode, kind, elem, script;
    long cap = 0, steps = 0, nvals = 3;
    uint64_t seed = 1;
};

template <typename V, typename T, size_t N>
int run_one(Args const& a, Kind k)
{
    long before = vh::live_count();
    std::string inst = a.kind + "_" + a.elem + "_" + std::to_string(N);
    long nev = 0, nskip = 0;
    bool abandoned = false; // objects were abandoned without destruction after a corrupt/aborted call
    {
        Runner<V, T, N> r(inst);
        if (a.mode == "replay") {
            r.replay(vh::read_ndjson(a.script));
        } else {
            vh::Rng rng(a.seed * 1000003ull + N * 7919ull + (uint64_t)k * 31ull + (vh::is_tracked<T> ? 17 : 0));
            r.random_history(rng, a.steps, k, (int)a.nvals);
        }
        nev   = r.nev;
        nskip = r.nskip;
        abandoned = r.ever_dirty || r.dirty;
    }
    // both owners are destroyed now: nothing they ever constructed may still be alive
    vh::emit(json{{"op", "owner_end"}, {"inst", inst}, {"live", abandoned ? 0 : vh::live_count() - before}, {"abandoned", abandoned}});
    std::fprintf(stderr, "SUMMARY inst=%s events=%ld unsupported=%ld live_delta=%ld\n", inst.c_str(), nev, nskip,
        vh::live_count() - before);
    return 0;
}

template <typename T, size_t N>
int run_kind(Args const& a)
{
    using TT = Types<T, N>;
    if (a.kind == "sv") { return run_one<typename TT::sv, T, N>(a, Kind::sv); }
    if (a.kind == "stack") {
        if constexpr (N > 0 && std::is_copy_constructible_v<T> && std::is_move_constructible_v<T>) {
            return run_one<typename TT::stack, T, N>(a, Kind::stack);
        }
        return 0;
    }
#ifndef VH_STD
    if (a.kind == "ipv") { return run_one<typename TT::ipv, T, N>(a, Kind::ipv); }
#endif
    std::fprintf(stderr, "unknown kind %s\n", a.kind.c_str());
    return 2;
}

template <size_t... Ns>
int dispatch(Args const& a, std::index_sequence<Ns...>)
{
    int rc     = 2;
    bool found = false;
    auto one   = [&](auto nc) {
        constexpr size_t N = decltype(nc)::value;
        if ((long)N != a.cap) { return; }
        found = true;
        if (a.elem == "int") { rc = run_kind<int, N>(a); }
        else if (a.elem == "trk") { rc = run_kind<Tracked, N>(a); }
#ifndef VH_NO_MOCO
        else if (a.elem == "mo") { rc = run_kind<vh::TrackedMO, N>(a); }
        else if (a.elem == "co") { rc = run_kind<vh::TrackedCO, N>(a); }
#endif
        else { std::fprintf(stderr, "unknown element kind %s\n", a.elem.c_str()); }
    };
    (one(std::integral_constant<size_t, Ns>{}), ...);
    if (!found) { std::fprintf(stderr, "capacity %ld not compiled in\n", a.cap); }
    return rc;
}

} // namespace

// usage: vector_driver replay <kind> <elem> <cap> <script>
//        vector_driver random <kind> <elem> <cap> <steps> <seed> [nvals]
int main(int argc, char** argv)
{
    if (argc < 6) {
        std::fprintf(stderr, "usage\n");
        return 2;
    }
    Args a;
    a.mode = argv[1];
    a.kind = argv[2];
    a.elem = argv[3];
    a.cap  = std::atol(argv[4]);
    if (a.mode == "replay") {
        a.script = argv[5];
    } else {
        a.steps = std::atol(argv[5]);
        a.seed  = argc > 6 ? std::strtoull(argv[6], nullptr, 10) : vh::env_seed();
        a.nvals = argc > 7 ? std::atol(argv[7]) : 3;
    }
    return dispatch(a, std::index_sequence<VH_CAPS>{});
}
