SPECIFICATION Spec
CONSTANTS
  Caps = {0, 1, 2, 3}
  Vals = {0, 1}
  Kind = "ipv"
  MaxXs = 3
  Mode = "valid"
VIEW View
ACTION_CONSTRAINT Emit
INVARIANTS TypeOK CapInv OrderLaws
PROPERTIES ContractPartition CapConst CopyIndependence CopyMakesEqual TryOnFull
CHECK_DEADLOCK FALSE
