"""C02 - valid use never leaves the caller's memory, never allocates, never hits UB.
TLA+ cannot observe memory: the specification supplies the *histories and inputs* (the same models as the
behavioural properties, so the exploration is exhaustive inside their bounds) and the relations on what may
be written / allocated; ASan + UBSan, guard bytes / canaries and an operator-new monitor supply the
observation. A sanitizer stop inside a call the model considers valid is a `trap` / `crash` event, which no
action of the specification enables. Families: vector (always), inplace_string, string_view, C strings,
integer <-> text, character -> floating point (FloatConv), bit/integer helpers, bitset (quick), plus sets, algorithms,
optional/variant/expected, calendar, duration, mdspan/span (thorough)."""
import os
import vlib
from pipes import vector

LEVEL = "exploration"
MEM_KINDS = ("trap", "crash", "canary", "hang")
QUICK = ("string", "stringview", "clib", "intconv", "intmath", "floatconv", "bitset")
THOROUGH = QUICK + ("set", "algo", "sum", "calendar", "duration", "md")


def _mine(d):
    ev = d.get("ev", {}) or {}
    k = d["kind"]
    # life-protocol = a special member ran on storage without a live object (or a constructor over a live one):
    # that is undefined behaviour too, observed by the lifetime monitor of the same traces
    return (k.startswith("mem") or any(x in k for x in MEM_KINDS) or k == "life-protocol" or ev.get("op") == "ctor_dinit"
            or (k == "obs" and "corrupt" in str(ev.get("obs"))))


def _sanitized(name):
    def run(tier, sub):
        mod = __import__("pipes." + name, fromlist=["pipeline"])
        try:
            mod.pipeline(tier, sub, calibrate=False)
        except vlib.ModelFailure as e:
            msg = str(e)
            if "AddressSanitizer" in msg or "runtime error" in msg or "UndefinedBehaviorSanitizer" in msg:
                # the driver was stopped by a sanitizer and has no containment of its own
                rep_line = next((l for l in msg.splitlines() if "ERROR" in l or "runtime error" in l), msg[-300:])
                sub.devs.append({"line": 0, "kind": "trap", "module": name, "expected": "-",
                                 "ev": {"op": "sanitizer-stop", "inst": name, "report": rep_line[:400]}})
            else:
                raise
    return run


def run(tier, rep):
    vector.memory_pipeline(tier, rep)
    os.environ["VERIF_SANITIZE"] = "1"
    os.environ["VH_DOMAIN_ONLY"] = "1"     # drivers skip calls whose validity they cannot decide (unchecked parse)
    names = [n for n in (QUICK if tier == "quick" else THOROUGH) if os.path.exists(os.path.join(os.path.dirname(__file__), "..", "pipes", n + ".py"))]
    before = rep.cov["events_validated"]
    btr = rep.cov["traces_validated_against_impl"]
    vlib.run_pipelines(rep, [(n, _sanitized(n)) for n in names], tier, par=3)   # bounded: each pipeline compiles several sanitized TUs
    rep.cov["evaluations"] = rep.cov.get("evaluations", 0) + rep.cov["events_validated"] - before
    rep.cov["distinct_nontrivial"] = rep.cov.get("distinct_nontrivial", 0) + rep.cov["traces_validated_against_impl"] - btr
    rep.cov["rule"] = rep.cov.get("rule", "") + (" Other families (%s): the inputs/histories their TLA+ models export, replayed in the sanitizer build; "
                                                 "cases counted as the pipelines count validated traces/inputs." % ", ".join(names))
    rep.cov["sanitized_families"] = ["vector"] + names
    rep.devs = [d for d in rep.devs if _mine(d)]
    rep.assumptions += ["reads of uninitialised memory are only caught when they change a projected result or the size (no MSan runtime for libstdc++ here)",
                        "UB outside what ASan/UBSan model is not observed",
                        "allocation monitor = replaced global operator new (vector family); a direct malloc() call would be missed"]
