SPECIFICATION Spec
CONSTANTS
  MaxLen = 4
INVARIANTS TypeOK EmitInv
CHECK_DEADLOCK FALSE
